/-
  Lemmas and proofs for C04 — Shelf-scale results depend only on configuration and seeds.

  Model: SnowModel/Seeds.lean (the Snowflake object as a state machine over the
  operations `new | setSeed | build | run | setN`, `run` returning the draw
  schedule; Snowfall as ordered chunks on private copies of the template).
  `run` mirrors the repaired code (fixes/F3.diff); `runOld` the code before it.

  The statistics of a run are a function `result cfg schedule` (the harness checks
  on the real code that equal schedules give bit-identical `stats`), so equality of
  schedules is equality of results; this is spelled out in `snowfall_rep_standalone`.
-/
import SnowModel.Seeds

namespace Snow.SeedsLemmas
open Snow.Seeds

/-! ### one run -/

theorem buildShelf_seed (c : Cfg) (o : Obj) : (buildShelf c o).1.seed = o.seed := by
  by_cases hz : o.nv.nz = 1 <;> cases hs : c.sigmaPos <;> simp [buildShelf, hz, hs]

theorem buildShelf_nv (c : Cfg) (o : Obj) : (buildShelf c o).1.nv = o.nv := by
  by_cases hz : o.nv.nz = 1 <;> cases hs : c.sigmaPos <;> simp [buildShelf, hz, hs]

theorem buildShelf_nvUsed (c : Cfg) (o : Obj) : (buildShelf c o).1.nvUsed = o.nvUsed := by
  by_cases hz : o.nv.nz = 1 <;> cases hs : c.sigmaPos <;> simp [buildShelf, hz, hs]

theorem buildShelf_seedUsed (c : Cfg) (o : Obj) : (buildShelf c o).1.seedUsed = o.seed := by
  by_cases hz : o.nv.nz = 1 <;> cases hs : c.sigmaPos <;> simp [buildShelf, hz, hs]

/-- what a shelf build at the head of stream `s` leaves behind: the canonical schedule -/
theorem buildShelf_head (c : Cfg) (o : Obj) (s : Nat) (hr : o.rng = ⟨s, []⟩) :
    (⟨(buildShelf c o).1.nv, (buildShelf c o).1.shelf, (buildShelf c o).1.rng⟩ : Sched) =
      canon c s o.nv := by
  unfold buildShelf canon
  by_cases hz : o.nv.nz = 1 <;> cases hs : c.sigmaPos <;> simp [hz, hr]

theorem getHShelf_seed (c : Cfg) (o : Obj) : (getHShelf c o).1.seed = o.seed := by
  unfold getHShelf; split
  · exact buildShelf_seed c o
  · rfl

theorem getHShelf_nv (c : Cfg) (o : Obj) : (getHShelf c o).1.nv = o.nv := by
  unfold getHShelf; split
  · exact buildShelf_nv c o
  · rfl

theorem getHShelf_noop (c : Cfg) (o : Obj) (h1 : o.nv = o.nvUsed) (h2 : o.seed = o.seedUsed) :
    getHShelf c o = (o, []) := by
  unfold getHShelf; simp [h1, h2]

theorem buildMatrices_seed (c : Cfg) (o : Obj) : (buildMatrices c o).1.seed = o.seed := by
  unfold buildMatrices; rw [buildShelf_seed]

theorem buildMatrices_nv (c : Cfg) (o : Obj) : (buildMatrices c o).1.nv = o.nv := by
  unfold buildMatrices; rw [buildShelf_nv]

theorem getHInt_seed (c : Cfg) (o : Obj) : (getHInt c o).1.seed = o.seed := by
  unfold getHInt; split
  · exact buildMatrices_seed c o
  · rfl

theorem getHInt_nv (c : Cfg) (o : Obj) : (getHInt c o).1.nv = o.nv := by
  unfold getHInt; split
  · exact buildMatrices_nv c o
  · rfl

/-- after the `H_int` access the matrices belong to the current shape -/
theorem getHInt_nvUsed (c : Cfg) (o : Obj) : (getHInt c o).1.nvUsed = (getHInt c o).1.nv := by
  unfold getHInt; split
  · unfold buildMatrices; rw [buildShelf_nvUsed, buildShelf_nv]
  · rename_i h
    have : o.nv = o.nvUsed := by
      by_cases hn : o.nv = o.nvUsed
      · exact hn
      · exact absurd (Or.inr hn) h
    exact this.symm

/-- **core**: whatever state the object is in (any caches, any generator position,
any stale `_seedUsed`), a run uses the canonical schedule of its seed and shape. -/
theorem run_sched (c : Cfg) (o : Obj) : (run c o).2.1 = canon c o.seed o.nv := by
  unfold run
  simp only []
  generalize hq : getHInt c (getHInt c o).1 = r2
  have hs2 : r2.1.seed = o.seed := by rw [← hq, getHInt_seed, getHInt_seed]
  have hn2 : r2.1.nv = o.nv := by rw [← hq, getHInt_nv, getHInt_nv]
  have hu2 : r2.1.nvUsed = r2.1.nv := by rw [← hq]; exact getHInt_nvUsed c _
  generalize ho3 : ({ r2.1 with rng := ⟨r2.1.seed, []⟩ } : Obj) = o3
  have hr3 : o3.rng = ⟨o.seed, []⟩ := by rw [← ho3, hs2]
  have hn3 : o3.nv = o.nv := by rw [← ho3]; exact hn2
  have hu3 : o3.nvUsed = o3.nv := by rw [← ho3]; exact hu2
  have hnoop : getHShelf c (buildShelf c o3).1 = ((buildShelf c o3).1, []) := by
    apply getHShelf_noop
    · rw [buildShelf_nv, buildShelf_nvUsed, hu3]
    · rw [buildShelf_seed, buildShelf_seedUsed]
  rw [hnoop]
  have := buildShelf_head c o3 o.seed hr3
  rw [hn3] at this
  simpa [rollDice] using this

theorem run_seed (c : Cfg) (o : Obj) : (run c o).1.seed = o.seed := by
  unfold run
  simp only [rollDice]
  rw [getHShelf_seed, buildShelf_seed]
  simp only []
  rw [getHInt_seed, getHInt_seed]

theorem run_nv (c : Cfg) (o : Obj) : (run c o).1.nv = o.nv := by
  unfold run
  simp only [rollDice]
  rw [getHShelf_nv, buildShelf_nv]
  simp only []
  rw [getHInt_nv, getHInt_nv]

theorem setSeed_seed (c : Cfg) (s : Nat) (o : Obj) : (setSeed c s o).1.seed = s := by
  unfold setSeed; simp only []; rw [getHShelf_seed]

theorem setSeed_nv (c : Cfg) (s : Nat) (o : Obj) : (setSeed c s o).1.nv = o.nv := by
  unfold setSeed; simp only []; rw [getHShelf_nv]

theorem mkNew_seed (c : Cfg) (s : Nat) (nv : NV) : (mkNew c s nv).1.seed = s := by
  unfold mkNew; cases c.mask <;> simp [buildShelf_seed, newObj0]

theorem mkNew_nv (c : Cfg) (s : Nat) (nv : NV) : (mkNew c s nv).1.nv = nv := by
  unfold mkNew; cases c.mask <;> simp [buildShelf_nv, newObj0]

/-! ### histories -/

theorem step_seed (c : Cfg) (t : Trace) (a : Act) :
    (step run c t a).obj.seed = seedAfter t.obj.seed [a] := by
  cases a <;> simp [step, seedAfter, mkNew_seed, setSeed_seed, buildMatrices_seed, run_seed, getHShelf_seed, getHInt_seed]

theorem step_nv (c : Cfg) (t : Trace) (a : Act) :
    (step run c t a).obj.nv = nvAfter t.obj.nv [a] := by
  cases a <;> simp [step, nvAfter, mkNew_nv, setSeed_nv, buildMatrices_nv, run_nv, getHShelf_nv, getHInt_nv]

theorem seedAfter_cons (s : Nat) (a : Act) (h : List Act) :
    seedAfter s (a :: h) = seedAfter (seedAfter s [a]) h := by
  cases a <;> simp [seedAfter]

theorem nvAfter_cons (nv : NV) (a : Act) (h : List Act) :
    nvAfter nv (a :: h) = nvAfter (nvAfter nv [a]) h := by
  cases a <;> simp [nvAfter]

theorem foldl_seed (c : Cfg) (h : List Act) (t : Trace) :
    (h.foldl (step run c) t).obj.seed = seedAfter t.obj.seed h := by
  induction h generalizing t with
  | nil => rfl
  | cons a h ih => rw [List.foldl_cons, ih, step_seed, ← seedAfter_cons]

theorem foldl_nv (c : Cfg) (h : List Act) (t : Trace) :
    (h.foldl (step run c) t).obj.nv = nvAfter t.obj.nv h := by
  induction h generalizing t with
  | nil => rfl
  | cons a h ih => rw [List.foldl_cons, ih, step_nv, ← nvAfter_cons]

/-- the last run of a history that ends with `run` -/
theorem last_run (c : Cfg) (o : Obj) (h : List Act) :
    (execFrom run c o (h ++ [.run])).scheds.getLast? =
      some (canon c (seedAfter o.seed h) (nvAfter o.nv h)) := by
  unfold execFrom
  rw [List.foldl_append]
  simp only [List.foldl_cons, List.foldl_nil, step]
  simp only [List.getLast?_append, List.getLast?_singleton, Option.some_or]
  rw [run_sched, foldl_seed, foldl_nv]

theorem seedAfter_append_setSeed (s0 s : Nat) (h : List Act) :
    seedAfter s0 (h ++ [.setSeed s]) = s := by
  induction h generalizing s0 with
  | nil => simp [seedAfter]
  | cons a h ih => rw [List.cons_append, seedAfter_cons, ih]

theorem nvAfter_append_setSeed (nv0 : NV) (s : Nat) (h : List Act) :
    nvAfter nv0 (h ++ [.setSeed s]) = nvAfter nv0 h := by
  induction h generalizing nv0 with
  | nil => simp [nvAfter]
  | cons a h ih => rw [List.cons_append, nvAfter_cons, ih, ← nvAfter_cons]

/-- the schedule of a fresh object's first run -/
theorem fresh_run (c : Cfg) (s : Nat) (nv : NV) :
    (exec c [.new s nv, .run]).scheds = [canon c s nv] := by
  simp [exec, execFrom, step, run_sched, mkNew_seed, mkNew_nv]

/-- **run_schedule_canonical**: for EVERY history `h` (any mix of constructions,
seed assignments, matrix builds, runs and shape changes, on a default-constructed
object) and every seed `s`: seeding with `s` and running uses exactly the draw
schedule of a fresh `Snowflake(seed = s)` of the shape then in force. -/
theorem run_schedule_canonical (c : Cfg) (h : List Act) (s : Nat) :
    (exec c (h ++ [.setSeed s, .run])).scheds.getLast? =
      (exec c [.new s (nvAfter ⟨7, 7, 1⟩ h), .run]).scheds.getLast? := by
  have : h ++ [Act.setSeed s, Act.run] = (h ++ [Act.setSeed s]) ++ [Act.run] := by simp
  rw [fresh_run, exec, this, last_run, seedAfter_append_setSeed, nvAfter_append_setSeed]
  have hd : (defaultObj c).nv = ⟨7, 7, 1⟩ := mkNew_nv c 2021 ⟨7, 7, 1⟩
  rw [hd]; rfl

/-- … and a plain re-run (no re-seeding) when the object's seed already is `s`. -/
theorem run_schedule_canonical_same_seed (c : Cfg) (h : List Act) (s : Nat)
    (hs : seedAfter 2021 h = s) :
    (exec c (h ++ [.run])).scheds.getLast? =
      (exec c [.new s (nvAfter ⟨7, 7, 1⟩ h), .run]).scheds.getLast? := by
  have hd : (defaultObj c).nv = ⟨7, 7, 1⟩ := mkNew_nv c 2021 ⟨7, 7, 1⟩
  have hs0 : (defaultObj c).seed = 2021 := mkNew_seed c 2021 ⟨7, 7, 1⟩
  rw [fresh_run, exec, last_run, hd, hs0, hs]; rfl

/-! ### the vial seed -/

theorem buildShelf_seedV (c : Cfg) (o : Obj) : (buildShelf c o).1.seedV = o.seedV := by
  by_cases hz : o.nv.nz = 1 <;> cases hs : c.sigmaPos <;> simp [buildShelf, hz, hs]

theorem getHShelf_seedV (c : Cfg) (o : Obj) : (getHShelf c o).1.seedV = o.seedV := by
  unfold getHShelf; split
  · exact buildShelf_seedV c o
  · rfl

theorem buildMatrices_seedV (c : Cfg) (o : Obj) : (buildMatrices c o).1.seedV = o.seedV := by
  unfold buildMatrices; rw [buildShelf_seedV]

theorem getHInt_seedV (c : Cfg) (o : Obj) : (getHInt c o).1.seedV = o.seedV := by
  unfold getHInt; split
  · exact buildMatrices_seedV c o
  · rfl

theorem run_seedV (c : Cfg) (o : Obj) : (run c o).1.seedV = o.seedV := by
  unfold run
  simp only [rollDice]
  rw [getHShelf_seedV, buildShelf_seedV]
  simp only []
  rw [getHInt_seedV, getHInt_seedV]

theorem setSeed_seedV (c : Cfg) (s : Nat) (o : Obj) : (setSeed c s o).1.seedV = o.seedV := by
  unfold setSeed; simp only []; rw [getHShelf_seedV]

theorem mkNew_seedV (c : Cfg) (s : Nat) (nv : NV) : (mkNew c s nv).1.seedV = 2024 := by
  unfold mkNew; cases c.mask <;> simp [buildShelf_seedV, newObj0]

theorem step_seedV (c : Cfg) (t : Trace) (a : Act) :
    (step run c t a).obj.seedV = seedVAfter t.obj.seedV [a] := by
  cases a <;> simp [step, seedVAfter, mkNew_seedV, setSeed_seedV, buildMatrices_seedV, run_seedV,
    getHShelf_seedV, getHInt_seedV]

theorem seedVAfter_cons (v : Nat) (a : Act) (h : List Act) :
    seedVAfter v (a :: h) = seedVAfter (seedVAfter v [a]) h := by
  cases a <;> simp [seedVAfter]

theorem foldl_seedV (c : Cfg) (h : List Act) (t : Trace) :
    (h.foldl (step run c) t).obj.seedV = seedVAfter t.obj.seedV h := by
  induction h generalizing t with
  | nil => rfl
  | cons a h ih => rw [List.foldl_cons, ih, step_seedV, ← seedVAfter_cons]

theorem seedVAfter_append_setSeed (v0 s : Nat) (h : List Act) :
    seedVAfter v0 (h ++ [.setSeed s]) = seedVAfter v0 h := by
  induction h generalizing v0 with
  | nil => simp [seedVAfter]
  | cons a h ih => rw [List.cons_append, seedVAfter_cons, ih, ← seedVAfter_cons]

/-! ### the attached configuration -/

theorem buildShelf_cfgId (c : Cfg) (o : Obj) : (buildShelf c o).1.cfgId = o.cfgId := by
  by_cases hz : o.nv.nz = 1 <;> cases hs : c.sigmaPos <;> simp [buildShelf, hz, hs]

theorem getHShelf_cfgId (c : Cfg) (o : Obj) : (getHShelf c o).1.cfgId = o.cfgId := by
  unfold getHShelf; split
  · exact buildShelf_cfgId c o
  · rfl

theorem buildMatrices_cfgId (c : Cfg) (o : Obj) : (buildMatrices c o).1.cfgId = o.cfgId := by
  unfold buildMatrices; rw [buildShelf_cfgId]

theorem getHInt_cfgId (c : Cfg) (o : Obj) : (getHInt c o).1.cfgId = o.cfgId := by
  unfold getHInt; split
  · exact buildMatrices_cfgId c o
  · rfl

theorem run_cfgId (c : Cfg) (o : Obj) : (run c o).1.cfgId = o.cfgId := by
  unfold run
  simp only [rollDice]
  rw [getHShelf_cfgId, buildShelf_cfgId]
  simp only []
  rw [getHInt_cfgId, getHInt_cfgId]

theorem setSeed_cfgId (c : Cfg) (s : Nat) (o : Obj) : (setSeed c s o).1.cfgId = o.cfgId := by
  unfold setSeed; simp only []; rw [getHShelf_cfgId]

theorem mkNew_cfgId (c : Cfg) (s : Nat) (nv : NV) : (mkNew c s nv).1.cfgId = 0 := by
  unfold mkNew; cases c.mask <;> simp [buildShelf_cfgId, newObj0]

theorem step_cfgId (c : Cfg) (t : Trace) (a : Act) :
    (step run c t a).obj.cfgId = cfgAfter t.obj.cfgId [a] := by
  cases a <;> simp [step, cfgAfter, mkNew_cfgId, setSeed_cfgId, buildMatrices_cfgId, run_cfgId,
    getHShelf_cfgId, getHInt_cfgId]

theorem cfgAfter_cons (v : Nat) (a : Act) (h : List Act) :
    cfgAfter v (a :: h) = cfgAfter (cfgAfter v [a]) h := by
  cases a <;> simp [cfgAfter]

theorem foldl_cfgId (c : Cfg) (h : List Act) (t : Trace) :
    (h.foldl (step run c) t).obj.cfgId = cfgAfter t.obj.cfgId h := by
  induction h generalizing t with
  | nil => rfl
  | cons a h ih => rw [List.foldl_cons, ih, step_cfgId, ← cfgAfter_cons]

theorem cfgAfter_append_setSeed (v0 s : Nat) (h : List Act) :
    cfgAfter v0 (h ++ [.setSeed s]) = cfgAfter v0 h := by
  induction h generalizing v0 with
  | nil => simp [cfgAfter]
  | cons a h ih => rw [List.cons_append, cfgAfter_cons, ih, ← cfgAfter_cons]

/-- the kinetic deviates of the last run of a history that ends with `run` -/
theorem last_xi (c : Cfg) (o : Obj) (h : List Act) :
    (execFrom run c o (h ++ [.run])).xis.getLast? =
      some (seedVAfter o.seedV h, (nvAfter o.nv h).total) := by
  unfold execFrom
  rw [List.foldl_append]
  simp only [List.foldl_cons, List.foldl_nil, step]
  simp only [List.getLast?_append, List.getLast?_singleton, Option.some_or]
  rw [foldl_seedV, foldl_nv]

/-- the configuration read by the last run of a history that ends with `run` -/
theorem last_cfg (c : Cfg) (o : Obj) (h : List Act) :
    (execFrom run c o (h ++ [.run])).cfgs.getLast? = some (cfgAfter o.cfgId h) := by
  unfold execFrom
  rw [List.foldl_append]
  simp only [List.foldl_cons, List.foldl_nil, step]
  simp only [List.getLast?_append, List.getLast?_singleton, Option.some_or]
  rw [foldl_cfgId]

theorem fresh_run_k (c : Cfg) (s v k : Nat) (nv : NV) :
    (exec c [.new s nv, .setSeedV v, .editCfg k, .run]).scheds = [canon c s nv] ∧
    (exec c [.new s nv, .setSeedV v, .editCfg k, .run]).xis = [(v, nv.total)] ∧
    (exec c [.new s nv, .setSeedV v, .editCfg k, .run]).cfgs = [k] := by
  simp [exec, execFrom, step, run_sched, mkNew_seed, mkNew_nv]

/-- **run_config_current**: a run reads the configuration attached at that moment —
for EVERY history (in-place edits of the operating conditions, other time step,
other opcond object, between any runs), the last run of `h ++ [seed = s, run]` has
the generator schedule, the vial deviates AND the configuration of a fresh object
built with the current configuration, seed `s` and the current vial seed. -/
theorem run_config_current (c : Cfg) (h : List Act) (s : Nat) :
    let fresh := exec c [.new s (nvAfter ⟨7, 7, 1⟩ h), .setSeedV (seedVAfter 2024 h), .editCfg (cfgAfter 0 h), .run]
    (exec c (h ++ [.setSeed s, .run])).scheds.getLast? = fresh.scheds.getLast? ∧
    (exec c (h ++ [.setSeed s, .run])).xis.getLast? = fresh.xis.getLast? ∧
    (exec c (h ++ [.setSeed s, .run])).cfgs.getLast? = fresh.cfgs.getLast? := by
  have e : h ++ [Act.setSeed s, Act.run] = (h ++ [Act.setSeed s]) ++ [Act.run] := by simp
  have hd : (defaultObj c).nv = ⟨7, 7, 1⟩ := mkNew_nv c 2021 ⟨7, 7, 1⟩
  have hv : (defaultObj c).seedV = 2024 := mkNew_seedV c 2021 ⟨7, 7, 1⟩
  have hk : (defaultObj c).cfgId = 0 := mkNew_cfgId c 2021 ⟨7, 7, 1⟩
  obtain ⟨f1, f2, f3⟩ := fresh_run_k c s (seedVAfter 2024 h) (cfgAfter 0 h) (nvAfter ⟨7, 7, 1⟩ h)
  simp only []
  rw [f1, f2, f3, exec, e, last_run, last_xi, last_cfg, seedAfter_append_setSeed, nvAfter_append_setSeed,
    seedVAfter_append_setSeed, cfgAfter_append_setSeed, hd, hv, hk]
  exact ⟨rfl, rfl, rfl⟩

theorem fresh_run_v (c : Cfg) (s v : Nat) (nv : NV) :
    (exec c [.new s nv, .setSeedV v, .run]).scheds = [canon c s nv] ∧
    (exec c [.new s nv, .setSeedV v, .run]).xis = [(v, nv.total)] := by
  simp [exec, execFrom, step, run_sched, mkNew_seed, mkNew_nv]

/-- **run_outcome_canonical**: for EVERY history (constructions, seed and vial-seed
assignments, matrix builds, property reads in any order, shape changes, runs),
seeding with `s` and running uses the generator schedule AND the vial deviates
`(seed_v, N)` of a fresh `Snowflake(seed = s, seed_v = v)` of the shape and vial seed
then in force: the legacy generator is re-seeded with the current `seed_v` in
every run, nothing is remembered from earlier runs. -/
theorem run_outcome_canonical (c : Cfg) (h : List Act) (s : Nat) :
    (exec c (h ++ [.setSeed s, .run])).scheds.getLast? =
      (exec c [.new s (nvAfter ⟨7, 7, 1⟩ h), .setSeedV (seedVAfter 2024 h), .run]).scheds.getLast? ∧
    (exec c (h ++ [.setSeed s, .run])).xis.getLast? =
      (exec c [.new s (nvAfter ⟨7, 7, 1⟩ h), .setSeedV (seedVAfter 2024 h), .run]).xis.getLast? := by
  have e : h ++ [Act.setSeed s, Act.run] = (h ++ [Act.setSeed s]) ++ [Act.run] := by simp
  have hd : (defaultObj c).nv = ⟨7, 7, 1⟩ := mkNew_nv c 2021 ⟨7, 7, 1⟩
  have hv : (defaultObj c).seedV = 2024 := mkNew_seedV c 2021 ⟨7, 7, 1⟩
  obtain ⟨f1, f2⟩ := fresh_run_v c s (seedVAfter 2024 h) (nvAfter ⟨7, 7, 1⟩ h)
  rw [f1, f2, exec, e, last_run, last_xi, seedAfter_append_setSeed, nvAfter_append_setSeed,
    seedVAfter_append_setSeed, hd, hv]
  exact ⟨rfl, rfl⟩

/-! ### recording -/

theorem buildShelf_cfg (c c' : Cfg) (hc : c.sigmaPos = c'.sigmaPos) (o : Obj) :
    buildShelf c o = buildShelf c' o := by
  unfold buildShelf; rw [hc]

/-- the fields of a trace that do not hold the storage mask -/
def core (t : Trace) : Obj × List (List Ev) × List Sched × List (Nat × Nat) × List Nat :=
  (t.obj, t.evs, t.scheds, t.xis, t.cfgs)

theorem step_core (c c' : Cfg) (hc : c.sigmaPos = c'.sigmaPos) (l l' : List Nat)
    (hm : c.mask = .det l) (hm' : c'.mask = .det l') (t t' : Trace) (ht : core t = core t') (a : Act) :
    core (step run c t a) = core (step run c' t' a) := by
  have hb : buildShelf c = buildShelf c' := funext (buildShelf_cfg c c' hc)
  have hg : getHShelf c = getHShelf c' := by funext o; unfold getHShelf; rw [hb]
  have hmx : buildMatrices c = buildMatrices c' := by funext o; unfold buildMatrices; rw [hb]
  have hi : getHInt c = getHInt c' := by funext o; unfold getHInt; rw [hmx]
  have hs : setSeed c = setSeed c' := by funext s o; unfold setSeed; rw [hg]
  have hn : mkNew c = mkNew c' := by funext s nv; unfold mkNew; rw [hb, hm, hm']
  have hr : run c = run c' := by funext o; unfold run; rw [hi, hb, hg]
  simp only [core, Prod.mk.injEq] at ht
  obtain ⟨h1, h2, h3, h4, h5⟩ := ht
  cases a <;> simp [core, step, hs, hn, hmx, hr, hg, hi, h1, h2, h3, h4, h5]

/-- **record_independent**: for deterministic storage selections `l`, `l'` the whole
history — final object, generator events, draw schedules, vial deviates and
configurations read — is the same; only the mask each run reads when it writes the
state matrix differs.  (In the model no transition reads a deterministic mask — that
is its shape; that the CODE behaves so is what the correspondence check establishes:
bit-identical statistics across storeStates variants, also with an event in the final
time step.) -/
theorem record_independent (c : Cfg) (l l' : List Nat) (h : List Act) :
    core (exec { c with mask := .det l } h) = core (exec { c with mask := .det l' } h) := by
  have hd : defaultObj { c with mask := .det l } = defaultObj { c with mask := .det l' } := by
    unfold defaultObj mkNew
    simp only []
    rw [buildShelf_cfg { c with mask := MaskSpec.det l } { c with mask := MaskSpec.det l' } rfl]
  unfold exec execFrom
  rw [hd]
  generalize ({ obj := defaultObj { c with mask := MaskSpec.det l' }, evs := [], scheds := [] } : Trace) = t0
  have key : ∀ (h : List Act) (t t' : Trace), core t = core t' →
      core (h.foldl (step run { c with mask := .det l }) t) =
      core (h.foldl (step run { c with mask := .det l' }) t') := by
    intro h
    induction h with
    | nil => intro t t' ht; exact ht
    | cons a h ih =>
      intro t t' ht
      exact ih _ _ (step_core { c with mask := .det l } { c with mask := .det l' } rfl l l' rfl rfl t t' ht a)
  exact key h t0 t0 rfl

/-- **random_mask_run_canonical**: a `random` storage selection DOES consume draws —
at construction, on the generator of that moment (`mkNew` appends a `choice` call) —
yet every run, after any history, uses the canonical schedule of its seed: `run()`
restarts the generator, so the run's draws are independent of the selection draw. -/
theorem random_mask_run_canonical (sigmaPos : Bool) (n : Nat) (h : List Act) (s : Nat) :
    (exec { sigmaPos := sigmaPos, mask := .random n } (h ++ [.setSeed s, .run])).scheds.getLast? =
      some (canon { sigmaPos := sigmaPos, mask := .det [] } s (nvAfter ⟨7, 7, 1⟩ h)) ∧
    (mkNew { sigmaPos := sigmaPos, mask := .random n } s ⟨3, 3, 1⟩).2 =
      (mkNew { sigmaPos := sigmaPos, mask := .det [] } s ⟨3, 3, 1⟩).2 ++ [.call (.choice n)] := by
  constructor
  · have e : h ++ [Act.setSeed s, Act.run] = (h ++ [Act.setSeed s]) ++ [Act.run] := by simp
    rw [exec, e, last_run, seedAfter_append_setSeed, nvAfter_append_setSeed]
    have hd : (defaultObj { sigmaPos := sigmaPos, mask := MaskSpec.random n }).nv = ⟨7, 7, 1⟩ := mkNew_nv _ 2021 ⟨7, 7, 1⟩
    rw [hd]
    unfold canon
    rfl
  · unfold mkNew
    have hb := buildShelf_cfg { sigmaPos := sigmaPos, mask := MaskSpec.random n } { sigmaPos := sigmaPos, mask := MaskSpec.det [] } rfl (newObj0 s ⟨3, 3, 1⟩)
    simp [hb]

/-- **run_outcome_some**: the `getLast?` statements above are about a run that exists:
a history that ends with `seed = s; run` has a last schedule, and it is the canonical
one of `s` and of the shape, vial seed and configuration then in force. -/
theorem run_outcome_some (c : Cfg) (h : List Act) (s : Nat) :
    (exec c (h ++ [.setSeed s, .run])).scheds ≠ [] ∧
    (exec c (h ++ [.setSeed s, .run])).scheds.getLast? = some (canon c s (nvAfter ⟨7, 7, 1⟩ h)) ∧
    (exec c (h ++ [.setSeed s, .run])).xis.getLast? = some (seedVAfter 2024 h, (nvAfter ⟨7, 7, 1⟩ h).total) ∧
    (exec c (h ++ [.setSeed s, .run])).cfgs.getLast? = some (cfgAfter 0 h) := by
  have e : h ++ [Act.setSeed s, Act.run] = (h ++ [Act.setSeed s]) ++ [Act.run] := by simp
  have hd : (defaultObj c).nv = ⟨7, 7, 1⟩ := mkNew_nv c 2021 ⟨7, 7, 1⟩
  have hv : (defaultObj c).seedV = 2024 := mkNew_seedV c 2021 ⟨7, 7, 1⟩
  have hk : (defaultObj c).cfgId = 0 := mkNew_cfgId c 2021 ⟨7, 7, 1⟩
  have h2 : (exec c (h ++ [.setSeed s, .run])).scheds.getLast? = some (canon c s (nvAfter ⟨7, 7, 1⟩ h)) := by
    rw [exec, e, last_run, seedAfter_append_setSeed, nvAfter_append_setSeed, hd]
  refine ⟨?_, h2, ?_, ?_⟩
  · intro hnil; rw [hnil] at h2; simp at h2
  · rw [exec, e, last_xi, seedVAfter_append_setSeed, nvAfter_append_setSeed, hd, hv]
  · rw [exec, e, last_cfg, cfgAfter_append_setSeed, hk]

/-- before the repair a `random` storage selection shifted the dice of the first run
(the selection draw sits between the shelf draws and the dice) -/
theorem old_random_mask_shifts_dice :
    (execOld { sigmaPos := false, mask := .random 2 } [.new 5 ⟨3, 3, 1⟩, .run]).scheds ≠
    (execOld { sigmaPos := false, mask := .det [] } [.new 5 ⟨3, 3, 1⟩, .run]).scheds := by decide

/-! ### Snowfall -/

theorem chunk_scheds (c : Cfg) (seeds : List Nat) (t : Trace) :
    ((chunkOps seeds).foldl (step run c) t).scheds =
      t.scheds ++ seeds.map fun i => canon c i t.obj.nv := by
  induction seeds generalizing t with
  | nil => simp [chunkOps]
  | cons i seeds ih =>
    have : chunkOps (i :: seeds) = [.setSeed i, .run] ++ chunkOps seeds := by
      simp [chunkOps]
    rw [this, List.foldl_append, ih]
    simp [step, run_sched, setSeed_seed, setSeed_nv, run_nv]

theorem zip_map_self {α β : Type} (l : List α) (f : α → β) :
    l.zip (l.map f) = l.map fun i => (i, f i) := by
  induction l with
  | nil => rfl
  | cons a l ih => simp [ih]

theorem runChunk_eq (c : Cfg) (tmpl : Obj) (seeds : List Nat) :
    runChunk run c tmpl seeds = seeds.map fun i => (i, canon c i tmpl.nv) := by
  unfold runChunk execFrom
  rw [chunk_scheds]
  simp only [List.nil_append]
  exact zip_map_self seeds _

/-- **snowfall_mode_independent**: for every template state (so also for a
Snowfall that is run again), every repetition count and EVERY assignment of the
tasks to ordered chunks on private copies of the template, task `i` uses the
schedule `canon cfg i shape`; the pool modes and `sequential` therefore produce
the same table `seed ↦ schedule`, with one entry per task in task order. -/
theorem snowfall_mode_independent (c : Cfg) (tmpl : Obj) (chunks : List (List Nat)) (nrep : Nat) :
    fallPool run c tmpl chunks = chunks.flatten.map (fun i => (i, canon c i tmpl.nv)) ∧
    fallSeq run c tmpl nrep = (List.range nrep).map (fun i => (i, canon c i tmpl.nv)) := by
  constructor
  · unfold fallPool
    induction chunks with
    | nil => rfl
    | cons ch chunks ih => simp [List.flatMap_cons, ih, runChunk_eq]
  · unfold fallSeq; rw [runChunk_eq]

/-- corollary: if the chunks partition `0 … Nrep-1` in order (what the pool does),
pool and sequential tables are equal as lists. -/
theorem snowfall_pool_eq_seq (c : Cfg) (tmpl : Obj) (chunks : List (List Nat)) (nrep : Nat)
    (hp : chunks.flatten = List.range nrep) :
    fallPool run c tmpl chunks = fallSeq run c tmpl nrep := by
  rw [(snowfall_mode_independent c tmpl chunks nrep).1,
      (snowfall_mode_independent c tmpl chunks nrep).2, hp]

theorem template_nv (c : Cfg) (nv : NV) : (template c nv).nv = nv := by
  unfold template exec execFrom
  simp [step, buildMatrices_nv, mkNew_nv]

/-- **snowfall_rep_standalone**: repetition `i` of a Snowfall over shape `nv`, in
any mode and chunking, has the schedule — hence, for any result function of
configuration and schedule, the statistics — of `Snowflake(seed = i).run()`. -/
theorem snowfall_rep_standalone {R : Type} (result : Cfg → Sched → R)
    (c : Cfg) (nv : NV) (chunks : List (List Nat)) (nrep : Nat) (p : Nat × Sched)
    (hp : p ∈ fallPool run c (template c nv) chunks ∨ p ∈ fallSeq run c (template c nv) nrep) :
    (exec c [.new p.1 nv, .run]).scheds = [p.2] ∧
    (exec c [.new p.1 nv, .run]).scheds.map (result c) = [result c p.2] := by
  have key : p.2 = canon c p.1 nv := by
    rcases hp with hp | hp
    · rw [(snowfall_mode_independent c _ chunks nrep).1, template_nv] at hp
      obtain ⟨i, _, rfl⟩ := List.mem_map.1 hp; rfl
    · rw [(snowfall_mode_independent c _ chunks nrep).2, template_nv] at hp
      obtain ⟨i, _, rfl⟩ := List.mem_map.1 hp; rfl
  rw [fresh_run, key]; simp

/-! ### the code before the repair (defect F3) -/

def cfgVar : Cfg := { sigmaPos := true }
def cfgFix : Cfg := { sigmaPos := false }

/-- a fresh object draws the shelf normals in the seed setter and AGAIN lazily in
`run()`; an object with pre-built matrices draws them once -/
theorem old_counterexample_double_build :
    (execOld cfgVar [.new 5 ⟨3, 3, 1⟩, .run]).scheds ≠
    (execOld cfgVar [.new 7 ⟨3, 3, 1⟩, .build, .setSeed 5, .run]).scheds := by decide

/-- `seed = 5` on an object whose `_seedUsed` is 5 keeps the stale vector and skips
the draws -/
theorem old_counterexample_stale_seed :
    (execOld cfgVar [.new 5 ⟨3, 3, 1⟩, .build, .setSeed 5, .run]).scheds ≠
    (execOld cfgVar [.new 7 ⟨3, 3, 1⟩, .build, .setSeed 5, .run]).scheds := by decide

/-- a second `run()` continues the stream (also without shelf variability) -/
theorem old_counterexample_rerun :
    ∃ s1 s2, (execOld cfgFix [.new 5 ⟨3, 3, 1⟩, .run, .run]).scheds = [s1, s2] ∧ s1 ≠ s2 := by
  refine ⟨_, _, rfl, ?_⟩; decide

/-- consequence for Snowfall before the repair: repetition 0 in `sequential` mode
is not the standalone run with seed 0 -/
theorem old_counterexample_snowfall :
    (fallSeq runOld cfgVar (execOld cfgVar [.new 2021 ⟨3, 3, 1⟩, .build]).obj 1).map (·.2) ≠
    (execOld cfgVar [.new 0 ⟨3, 3, 1⟩, .run]).scheds := by decide

theorem fix_buildShelf_rng (o : Obj) : (buildShelf cfgFix o).1.rng = o.rng := by
  by_cases hz : o.nv.nz = 1 <;> simp [buildShelf, cfgFix, hz]

theorem fix_getHShelf_rng (o : Obj) : (getHShelf cfgFix o).1.rng = o.rng := by
  unfold getHShelf; split
  · exact fix_buildShelf_rng o
  · rfl

theorem fix_getHInt_rng (o : Obj) : (getHInt cfgFix o).1.rng = o.rng := by
  unfold getHInt; split
  · unfold buildMatrices; rw [fix_buildShelf_rng]
  · rfl

/-- what was true before the repair: without shelf variability a re-seeded object
starts its dice at the head of the stream (`run_schedule_canonical_partial`) -/
theorem old_partial_no_variability (h : List Act) (s : Nat) :
    ∀ sch ∈ (execOld cfgFix (h ++ [.setSeed s, .run])).scheds.getLast?, sch.dice = ⟨s, []⟩ := by
  intro sch hs
  have e : h ++ [Act.setSeed s, Act.run] = (h ++ [Act.setSeed s]) ++ [Act.run] := by simp
  unfold execOld execFrom at hs
  rw [e, List.foldl_append, List.foldl_append] at hs
  simp only [List.foldl_cons, List.foldl_nil, step, List.getLast?_append,
    List.getLast?_singleton, Option.some_or, Option.mem_def, Option.some.injEq] at hs
  subst hs
  generalize List.foldl (step runOld cfgFix) _ h = t
  unfold runOld
  simp only [rollDice]
  rw [fix_getHShelf_rng, fix_getHInt_rng, fix_getHInt_rng]
  unfold setSeed
  simp only []
  rw [fix_getHShelf_rng]

/-! ### non-vacuity -/

/-- a concrete history with every kind of operation, and a concrete chunking:
the hypotheses-free statements above, evaluated. -/
theorem nonvacuous :
    (exec cfgVar [.new 7 ⟨3, 3, 1⟩, .build, .run, .setN ⟨2, 2, 1⟩, .setSeed 5, .run]).scheds =
      [canon cfgVar 7 ⟨3, 3, 1⟩, canon cfgVar 5 ⟨2, 2, 1⟩] ∧
    canon cfgVar 5 ⟨2, 2, 1⟩ ≠ canon cfgVar 7 ⟨2, 2, 1⟩ ∧
    fallPool run cfgVar (template cfgVar ⟨3, 3, 1⟩) [[0, 1], [2]] =
      fallSeq run cfgVar (template cfgVar ⟨3, 3, 1⟩) 3 ∧
    poolChunks 9 2 = [[0, 1], [2, 3], [4, 5], [6, 7], [8]] := by decide

end Snow.SeedsLemmas
