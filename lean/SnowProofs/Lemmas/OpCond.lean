/-
  Helper lemmas for the cooling-profile model (`SnowModel/OpCond.lean`) over ℝ.
-/
import SnowProofs.RealInst
import SnowModel.OpCond
import Mathlib.Data.List.Chain
import Mathlib.Tactic.Linarith
import Mathlib.Tactic.Positivity
import Mathlib.Tactic.FieldSimp
import Mathlib.Tactic.Ring

namespace Snow.OpCondLemmas
open Snow Num List

/-- one step down: `b ≤ a` and the drop is at most `c` -/
def R (c : ℝ) (a b : ℝ) : Prop := b ≤ a ∧ a - b ≤ c

/-- A list that starts at `hi`, decreases by at most `c` per entry, stays within
`[lo, hi]`, and ends within `c` of `lo`; an empty list carries `lo = hi`. -/
structure Good (c lo hi : ℝ) (l : List ℝ) : Prop where
  chain : l.IsChain (R c)
  bounds : ∀ x ∈ l, lo ≤ x ∧ x ≤ hi
  head : ∀ x ∈ l.head?, x = hi
  last : ∀ x ∈ l.getLast?, x ≤ lo + c
  empty : l = [] → lo = hi

theorem Good.append {c lo mid hi : ℝ} {l₁ l₂ : List ℝ} (_hc : 0 ≤ c)
    (h₁ : Good c mid hi l₁) (h₂ : Good c lo mid l₂) (hlm : lo ≤ mid) (hmh : mid ≤ hi) :
    Good c lo hi (l₁ ++ l₂) := by
  refine ⟨?_, ?_, ?_, ?_, ?_⟩
  · refine h₁.chain.append h₂.chain ?_
    intro x hx y hy
    have hy' := h₂.head y hy
    have hxm : x ∈ l₁ := List.mem_of_getLast? hx
    have hb := h₁.bounds x hxm
    have hl := h₁.last x hx
    subst hy'
    exact ⟨hb.1, by linarith⟩
  · intro x hx
    rcases List.mem_append.mp hx with h | h
    · have := h₁.bounds x h; exact ⟨by linarith, this.2⟩
    · have := h₂.bounds x h; exact ⟨this.1, by linarith⟩
  · intro x hx
    cases l₁ with
    | nil =>
      simp only [List.nil_append] at hx
      have := h₂.head x hx
      have e := h₁.empty rfl
      linarith
    | cons a t =>
      simp only [List.cons_append, List.head?_cons, Option.mem_def, Option.some.injEq] at hx
      exact hx ▸ h₁.head a (by simp)
  · intro x hx
    by_cases h2 : l₂ = []
    · subst h2
      simp only [List.append_nil] at hx
      have := h₁.last x hx
      have e := h₂.empty rfl
      linarith
    · rw [List.getLast?_append_of_ne_nil _ h2] at hx
      exact h₂.last x hx
  · intro h
    rcases List.append_eq_nil_iff.mp h with ⟨e1, e2⟩
    have := h₁.empty e1
    have := h₂.empty e2
    linarith

theorem good_replicate (c T : ℝ) (hc : 0 ≤ c) (k : ℕ) : Good c T T (List.replicate k T) := by
  refine ⟨?_, ?_, ?_, ?_, fun _ => rfl⟩
  · exact List.isChain_replicate_of_rel k ⟨le_refl _, by simpa using hc⟩
  · intro x hx
    have := List.eq_of_mem_replicate hx
    subst this; exact ⟨le_refl _, le_refl _⟩
  · intro x hx
    have : x ∈ List.replicate k T := List.mem_of_mem_head? hx
    exact List.eq_of_mem_replicate this
  · intro x hx
    have : x ∈ List.replicate k T := List.mem_of_getLast? hx
    have := List.eq_of_mem_replicate this
    subst this; linarith

/-- values of a ramp -/
theorem mem_simpleCool {Ts Th rate dt x : ℝ} (h : x ∈ simpleCool Ts Th rate dt) :
    ∃ i : ℕ, i < arangeLen ((Ts - Th) / rate) dt ∧ x = Ts - (i * dt) * rate := by
  unfold simpleCool at h
  rcases List.mem_map.mp h with ⟨i, hi, rfl⟩
  exact ⟨i, List.mem_range.mp hi, by simp⟩

theorem lt_arangeLen {tEnd dt : ℝ} (hdt : 0 < dt) {i : ℕ} (h : i < arangeLen tEnd dt) :
    (i : ℝ) * dt < tEnd := by
  unfold arangeLen at h
  simp only [ceilInt_real] at h
  have h1 : (i : ℤ) < ⌈tEnd / dt⌉ := by
    by_contra hcon
    have hcon := not_lt.mp hcon
    have : (⌈tEnd / dt⌉).toNat ≤ i := by
      omega
    omega
  have h2 : ((i : ℤ) : ℝ) < tEnd / dt := Int.lt_ceil.mp h1
  have h3 : (i : ℝ) < tEnd / dt := by exact_mod_cast h2
  calc (i : ℝ) * dt < (tEnd / dt) * dt := by gcongr
    _ = tEnd := by field_simp

theorem arangeLen_ge {tEnd dt : ℝ} (hdt : 0 < dt) : tEnd ≤ (arangeLen tEnd dt : ℝ) * dt := by
  unfold arangeLen
  simp only [ceilInt_real]
  have h1 : tEnd / dt ≤ (⌈tEnd / dt⌉ : ℝ) := Int.le_ceil _
  have h2 : ((⌈tEnd / dt⌉ : ℤ) : ℝ) ≤ ((⌈tEnd / dt⌉.toNat : ℕ) : ℝ) := by
    have : (⌈tEnd / dt⌉ : ℤ) ≤ ((⌈tEnd / dt⌉.toNat : ℕ) : ℤ) := Int.self_le_toNat _
    exact_mod_cast this
  calc tEnd = (tEnd / dt) * dt := by field_simp
    _ ≤ ((⌈tEnd / dt⌉.toNat : ℕ) : ℝ) * dt := by
        apply mul_le_mul_of_nonneg_right (le_trans h1 h2) (le_of_lt hdt)

theorem arangeLen_pos_of_pos {tEnd dt : ℝ} (hdt : 0 < dt) (h : 0 < tEnd) : 0 < arangeLen tEnd dt := by
  by_contra hcon
  have h0 : arangeLen tEnd dt = 0 := by omega
  have := arangeLen_ge (tEnd := tEnd) hdt
  rw [h0] at this
  simp at this
  linarith

theorem good_simpleCool {Ts Th rate dt : ℝ} (hdt : 0 < dt) (hr : 0 < rate) (hle : Th ≤ Ts) :
    Good (rate * dt) Th Ts (simpleCool Ts Th rate dt) := by
  have hc : 0 ≤ rate * dt := by positivity
  refine ⟨?_, ?_, ?_, ?_, ?_⟩
  · -- chain
    unfold simpleCool
    rw [List.isChain_map]
    rw [List.isChain_iff_getElem]
    intro i hi
    simp only [List.getElem_range, ofNat'_real]
    constructor
    · push_cast
      nlinarith [mul_pos hdt hr]
    · push_cast
      nlinarith [mul_pos hdt hr]
  · intro x hx
    rcases mem_simpleCool hx with ⟨i, hi, rfl⟩
    have h1 := lt_arangeLen hdt hi
    have h2 : (i : ℝ) * dt * rate < Ts - Th := by
      calc (i : ℝ) * dt * rate < ((Ts - Th) / rate) * rate := by gcongr
        _ = Ts - Th := by field_simp
    have h3 : 0 ≤ (i : ℝ) * dt * rate := by positivity
    constructor <;> linarith
  · intro x hx
    unfold simpleCool at hx
    cases hn : arangeLen ((Ts - Th) / rate) dt with
    | zero => rw [hn] at hx; simp at hx
    | succ m =>
      rw [hn] at hx
      simp [List.range_succ_eq_map] at hx
      linarith
  · intro x hx
    unfold simpleCool at hx
    cases hn : arangeLen ((Ts - Th) / rate) dt with
    | zero => rw [hn] at hx; simp at hx
    | succ m =>
      rw [hn] at hx
      simp only [List.getLast?_map, List.range_succ, List.getLast?_append, List.getLast?_singleton,
        Option.some_or, Option.map_some, Option.mem_def, Option.some.injEq, ofNat'_real] at hx
      subst hx
      have hge := arangeLen_ge (tEnd := (Ts - Th) / rate) hdt
      rw [hn] at hge
      push_cast at hge
      have h4 : Ts - Th ≤ ((m : ℝ) + 1) * dt * rate := by
        calc Ts - Th = ((Ts - Th) / rate) * rate := by field_simp
          _ ≤ (((m : ℝ) + 1) * dt) * rate := by gcongr
      nlinarith
  · intro hnil
    unfold simpleCool at hnil
    have h0 : arangeLen ((Ts - Th) / rate) dt = 0 := by
      by_contra hne
      have : (List.range (arangeLen ((Ts - Th) / rate) dt)).map
          (fun i => Ts - (ofNat' i * dt) * rate) ≠ [] := by
        simp [hne]
      exact this hnil
    by_contra hne
    have hlt : Th < Ts := lt_of_le_of_ne hle hne
    have : 0 < (Ts - Th) / rate := by apply div_pos <;> linarith
    have := arangeLen_pos_of_pos hdt this
    omega

/-- temperature of the last hold (or the start temperature when there is none) -/
def lastTemp : ℝ → List (Hold ℝ) → ℝ
  | Ts, [] => Ts
  | _, h :: hs => lastTemp h.temp hs

/-- hold temperatures are non-increasing and at most `Ts` -/
def Desc : ℝ → List (Hold ℝ) → Prop
  | _, [] => True
  | Ts, h :: hs => h.temp ≤ Ts ∧ Desc h.temp hs

theorem lastTemp_le {Ts : ℝ} {hs : List (Hold ℝ)} (h : Desc Ts hs) : lastTemp Ts hs ≤ Ts := by
  induction hs generalizing Ts with
  | nil => simp [lastTemp]
  | cons a t ih =>
    simp only [lastTemp]
    exact le_trans (ih h.2) h.1

theorem good_segments {rate dt : ℝ} (hdt : 0 < dt) (hr : 0 < rate) :
    ∀ (Ts : ℝ) (hs : List (Hold ℝ)), Desc Ts hs →
      Good (rate * dt) (lastTemp Ts hs) Ts (segments rate dt Ts hs) := by
  have hc : 0 ≤ rate * dt := by positivity
  intro Ts hs
  induction hs generalizing Ts with
  | nil =>
    intro _
    simp only [segments, lastTemp]
    exact ⟨List.isChain_nil, by simp, by simp, by simp, fun _ => rfl⟩
  | cons a t ih =>
    intro hd
    simp only [segments, lastTemp]
    have hrest := ih a.temp hd.2
    have hlast := lastTemp_le hd.2
    have hplat : Good (rate * dt) a.temp a.temp
        (List.replicate (holdCount Ts a.temp rate a.duration dt) a.temp) :=
      good_replicate _ _ hc _
    have h2 : Good (rate * dt) (lastTemp a.temp t) a.temp
        (List.replicate (holdCount Ts a.temp rate a.duration dt) a.temp ++ segments rate dt a.temp t) :=
      Good.append hc hplat hrest hlast (le_refl _)
    exact Good.append hc (good_simpleCool hdt hr hd.1) h2 hlast hd.1

theorem lastTemp_append_singleton (Ts : ℝ) (hs : List (Hold ℝ)) (h : Hold ℝ) :
    lastTemp Ts (hs ++ [h]) = h.temp := by
  induction hs generalizing Ts with
  | nil => simp [lastTemp]
  | cons a t ih => simp [lastTemp, ih]

theorem desc_append_singleton {Ts : ℝ} {hs : List (Hold ℝ)} {h : Hold ℝ}
    (hd : Desc Ts hs) (hle : h.temp ≤ lastTemp Ts hs) : Desc Ts (hs ++ [h]) := by
  induction hs generalizing Ts with
  | nil => simpa [Desc, lastTemp] using hle
  | cons a t ih =>
    simp only [List.cons_append, Desc]
    exact ⟨hd.1, ih hd.2 (by simpa [lastTemp] using hle)⟩

end Snow.OpCondLemmas
