/-
  Lemmas about the control skeletons of `SnowModel/SnowingLoop.lean`:
  the break index of `loopUntil` is the FIRST index whose state satisfies the stop
  test ("not one step earlier or later"); the "set once" bookkeeping `firstHit`
  records the first hit of a fold; save-stride arithmetic.
-/
import SnowModel.SnowingLoop
import Mathlib.Tactic.Ring
import Mathlib.Tactic.Linarith
import Mathlib.Data.List.Basic
import Mathlib.Data.Real.Basic
import Mathlib.Algebra.BigOperators.Group.Finset.Basic
import Mathlib.Algebra.Order.BigOperators.Group.Finset

namespace Snow
universe u v
variable {σ : Type u} {β : Type v}

/-- state after the prefix of length `k+1`, the head having index `i0` -/
def prefState (step : Nat → σ → β → σ) (xs : List β) (i0 : Nat) (s0 : σ) (k : Nat) : σ :=
  iterIdx step (xs.take (k + 1)) i0 s0

theorem stateAt_eq_prefState (step : Nat → σ → β → σ) (xs : List β) (s0 : σ) (k : Nat) :
    stateAt step xs s0 k = prefState step xs 0 s0 k := rfl

@[simp] theorem prefState_cons_zero (step : Nat → σ → β → σ) (x : β) (xs : List β) (i0 : Nat) (s0 : σ) :
    prefState step (x :: xs) i0 s0 0 = step i0 s0 x := by
  simp [prefState, iterIdx]

@[simp] theorem prefState_cons_succ (step : Nat → σ → β → σ) (x : β) (xs : List β) (i0 : Nat) (s0 : σ)
    (k : Nat) :
    prefState step (x :: xs) i0 s0 (k + 1) = prefState step xs (i0 + 1) (step i0 s0 x) k := by
  simp [prefState, iterIdx]

theorem iterIdx_append (step : Nat → σ → β → σ) (xs ys : List β) (i0 : Nat) (s0 : σ) :
    iterIdx step (xs ++ ys) i0 s0 = iterIdx step ys (i0 + xs.length) (iterIdx step xs i0 s0) := by
  induction xs generalizing i0 s0 with
  | nil => simp [iterIdx]
  | cons x xs ih =>
    simp only [List.cons_append, iterIdx, List.length_cons]
    rw [ih]; congr 1; omega

/-- one more element: the state after prefix `k+2` is one step from the state after prefix `k+1` -/
theorem prefState_succ (step : Nat → σ → β → σ) (xs : List β) (i0 : Nat) (s0 : σ) (k : Nat)
    (hk : k + 1 < xs.length) :
    prefState step xs i0 s0 (k + 1) =
      step (i0 + (k + 1)) (prefState step xs i0 s0 k) (xs[k + 1]'hk) := by
  unfold prefState
  have h : xs.take (k + 1 + 1) = xs.take (k + 1) ++ [xs[k + 1]'hk] := by
    rw [List.take_succ_eq_append_getElem hk]
  rw [h, iterIdx_append]
  simp [iterIdx, List.length_take, Nat.min_eq_left (Nat.le_of_lt hk)]

theorem prefState_zero (step : Nat → σ → β → σ) (xs : List β) (i0 : Nat) (s0 : σ) (h : 0 < xs.length) :
    prefState step xs i0 s0 0 = step i0 s0 (xs[0]'h) := by
  cases xs with
  | nil => simp at h
  | cons x xs => simp

theorem prefState_last (step : Nat → σ → β → σ) (xs : List β) (i0 : Nat) (s0 : σ) (k : Nat)
    (hk : xs.length ≤ k + 1) : prefState step xs i0 s0 k = iterIdx step xs i0 s0 := by
  unfold prefState; rw [List.take_of_length_le hk]

/-! ### `loopUntil` -/

theorem loopUntil_idx_ge (step : Nat → σ → β → σ) (stop : σ → Bool) (xs : List β) (i0 : Nat) (s0 : σ)
    (m : Nat) (s' : σ) (h : loopUntil step stop xs i0 s0 = (some m, s')) : i0 ≤ m := by
  induction xs generalizing i0 s0 with
  | nil => simp [loopUntil] at h
  | cons x xs ih =>
    simp only [loopUntil] at h
    split at h
    · simp only [Prod.mk.injEq, Option.some.injEq] at h; omega
    · have := ih _ _ h; omega

/-- **first crossing**: the loop is left at index `i0 + k` with state `s'` iff `s'` is the
state after step `k`, it satisfies the stop test, and no earlier state does. -/
theorem loopUntil_some_iff (step : Nat → σ → β → σ) (stop : σ → Bool) (xs : List β) (i0 : Nat) (s0 : σ)
    (k : Nat) (s' : σ) :
    loopUntil step stop xs i0 s0 = (some (i0 + k), s') ↔
      k < xs.length ∧ s' = prefState step xs i0 s0 k ∧ stop s' = true ∧
        ∀ j, j < k → stop (prefState step xs i0 s0 j) = false := by
  induction xs generalizing i0 s0 k with
  | nil => simp [loopUntil]
  | cons x xs ih =>
    simp only [loopUntil]
    by_cases hs : stop (step i0 s0 x) = true
    · simp only [hs, if_true]
      constructor
      · intro h
        simp only [Prod.mk.injEq, Option.some.injEq] at h
        obtain ⟨h1, h2⟩ := h
        have hk : k = 0 := by omega
        subst hk
        refine ⟨by simp, ?_, ?_, ?_⟩
        · simp [h2]
        · rw [← h2]; exact hs
        · intro j hj; omega
      · rintro ⟨_, h2, _, h4⟩
        cases k with
        | zero => simp at h2; simp [h2]
        | succ k =>
          have := h4 0 (by omega)
          simp [hs] at this
    · have hs' : stop (step i0 s0 x) = false := by simpa using hs
      simp only [hs', Bool.false_eq_true, if_false]
      cases k with
      | zero =>
        constructor
        · intro h
          have := loopUntil_idx_ge _ _ _ _ _ _ _ h
          omega
        · rintro ⟨_, h2, h3, _⟩
          simp at h2; rw [h2] at h3; rw [h3] at hs'; cases hs'
      | succ k =>
        have e : i0 + (k + 1) = (i0 + 1) + k := by omega
        rw [e, ih]
        simp only [List.length_cons, prefState_cons_succ]
        constructor
        · rintro ⟨h1, h2, h3, h4⟩
          refine ⟨by omega, h2, h3, ?_⟩
          intro j hj
          cases j with
          | zero => simpa using hs'
          | succ j => simpa using h4 j (by omega)
        · rintro ⟨h1, h2, h3, h4⟩
          refine ⟨by omega, h2, h3, ?_⟩
          intro j hj
          simpa using h4 (j + 1) (by omega)

/-- the loop runs to the end iff no state satisfies the stop test -/
theorem loopUntil_none_iff (step : Nat → σ → β → σ) (stop : σ → Bool) (xs : List β) (i0 : Nat) (s0 : σ) :
    (loopUntil step stop xs i0 s0).1 = none ↔
      ∀ j, j < xs.length → stop (prefState step xs i0 s0 j) = false := by
  induction xs generalizing i0 s0 with
  | nil => simp [loopUntil]
  | cons x xs ih =>
    simp only [loopUntil]
    by_cases hs : stop (step i0 s0 x) = true
    · simp only [hs, if_true]
      constructor
      · intro h; cases h
      · intro h; have := h 0 (by simp); simp [hs] at this
    · have hs' : stop (step i0 s0 x) = false := by simpa using hs
      simp only [hs', Bool.false_eq_true, if_false, ih, List.length_cons]
      constructor
      · intro h j hj
        cases j with
        | zero => simpa using hs'
        | succ j => simpa using h j (by omega)
      · intro h j hj
        simpa using h (j + 1) (by omega)

/-- when the loop runs to the end the returned state is the final one -/
theorem loopUntil_none_state (step : Nat → σ → β → σ) (stop : σ → Bool) (xs : List β) (i0 : Nat) (s0 : σ)
    (h : (loopUntil step stop xs i0 s0).1 = none) :
    (loopUntil step stop xs i0 s0).2 = iterIdx step xs i0 s0 := by
  induction xs generalizing i0 s0 with
  | nil => simp [loopUntil, iterIdx]
  | cons x xs ih =>
    simp only [loopUntil] at h ⊢
    split at h
    · cases h
    · rename_i hs; simp only [hs, iterIdx]; exact ih _ _ h

/-- version with start index 0 (the form used by the models) -/
theorem loopUntil_first (step : Nat → σ → β → σ) (stop : σ → Bool) (xs : List β) (s0 : σ)
    (k : Nat) (s' : σ) :
    loopUntil step stop xs 0 s0 = (some k, s') ↔
      k < xs.length ∧ s' = stateAt step xs s0 k ∧ stop s' = true ∧
        ∀ j, j < k → stop (stateAt step xs s0 j) = false := by
  have := loopUntil_some_iff step stop xs 0 s0 k s'
  simpa [stateAt_eq_prefState] using this

/-- the break index alone -/
theorem loopUntil_fst_some_iff (step : Nat → σ → β → σ) (stop : σ → Bool) (xs : List β) (s0 : σ)
    (k : Nat) :
    (loopUntil step stop xs 0 s0).1 = some k ↔
      k < xs.length ∧ stop (stateAt step xs s0 k) = true ∧
        ∀ j, j < k → stop (stateAt step xs s0 j) = false := by
  constructor
  · intro h
    have h' : loopUntil step stop xs 0 s0 = (some k, (loopUntil step stop xs 0 s0).2) := by
      rw [← h]
    obtain ⟨h1, h2, h3, h4⟩ := (loopUntil_first step stop xs s0 k _).mp h'
    exact ⟨h1, by rw [← h2]; exact h3, h4⟩
  · rintro ⟨h1, h2, h3⟩
    have := (loopUntil_first step stop xs s0 k (stateAt step xs s0 k)).mpr ⟨h1, rfl, h2, h3⟩
    rw [this]

/-- … and the state the loop is left with is the state after that step -/
theorem loopUntil_snd_of_some (step : Nat → σ → β → σ) (stop : σ → Bool) (xs : List β) (s0 : σ)
    (k : Nat) (s' : σ) (h : loopUntil step stop xs 0 s0 = (some k, s')) :
    s' = stateAt step xs s0 k := ((loopUntil_first step stop xs s0 k s').mp h).2.1

theorem stateAt_succ (step : Nat → σ → β → σ) (xs : List β) (s0 : σ) (k : Nat)
    (hk : k + 1 < xs.length) :
    stateAt step xs s0 (k + 1) = step (k + 1) (stateAt step xs s0 k) (xs[k + 1]'hk) := by
  have := prefState_succ step xs 0 s0 k hk
  simpa [stateAt_eq_prefState] using this

theorem stateAt_zero (step : Nat → σ → β → σ) (xs : List β) (s0 : σ) (h : 0 < xs.length) :
    stateAt step xs s0 0 = step 0 s0 (xs[0]'h) := by
  simpa [stateAt_eq_prefState] using prefState_zero step xs 0 s0 h

/-- an invariant of every step holds at every loop state -/
theorem stateAt_invariant (step : Nat → σ → β → σ) (P : σ → Prop) (xs : List β) (s0 : σ)
    (h0 : P s0) (hstep : ∀ i s x, P s → P (step i s x)) (k : Nat) : P (stateAt step xs s0 k) := by
  unfold stateAt
  generalize xs.take (k + 1) = ys
  generalize 0 = i0
  induction ys generalizing i0 s0 with
  | nil => simpa [iterIdx] using h0
  | cons y ys ih => simp only [iterIdx]; exact ih _ (hstep _ _ _ h0) _

/-- a property established by every step holds at every loop state (after ≥ 1 step) -/
theorem stateAt_post (step : Nat → σ → β → σ) (Q : σ → Prop) (xs : List β) (s0 : σ)
    (hstep : ∀ i s x, Q (step i s x)) (k : Nat) (hk : k < xs.length) : Q (stateAt step xs s0 k) := by
  cases k with
  | zero => rw [stateAt_zero step xs s0 hk]; exact hstep _ _ _
  | succ k => rw [stateAt_succ step xs s0 k hk]; exact hstep _ _ _

/-- **accumulator = Riemann sum**: if every step adds `inc (new state)` to the component `E`,
then after step `k` the component is the initial value plus the sum of the increments. -/
theorem accum_eq_sum (step : Nat → σ → β → σ) (E inc : σ → ℝ)
    (hstep : ∀ i s x, E (step i s x) = E s + inc (step i s x))
    (xs : List β) (s0 : σ) (k : Nat) (hk : k < xs.length) :
    E (stateAt step xs s0 k) = E s0 + ∑ j ∈ Finset.range (k + 1), inc (stateAt step xs s0 j) := by
  induction k with
  | zero =>
    rw [stateAt_zero step xs s0 hk]
    simp [hstep, stateAt_zero step xs s0 hk]
  | succ k ih =>
    rw [Finset.sum_range_succ, ← add_assoc, ← ih (by omega)]
    rw [stateAt_succ step xs s0 k hk, hstep]

/-- **indexed invariant**: `P i s` relates the state to the number `i` of the next element; it is
preserved by a step on the element actually found at that position. -/
theorem iterIdx_inv (step : Nat → σ → β → σ) (P : Nat → σ → Prop) (xs : List β) (i0 : Nat) (s0 : σ)
    (h0 : P i0 s0)
    (hstep : ∀ k (hk : k < xs.length) s, P (i0 + k) s → P (i0 + k + 1) (step (i0 + k) s (xs[k]'hk))) :
    P (i0 + xs.length) (iterIdx step xs i0 s0) := by
  induction xs generalizing i0 s0 with
  | nil => simpa [iterIdx] using h0
  | cons x xs ih =>
    simp only [iterIdx, List.length_cons]
    have e : i0 + (xs.length + 1) = (i0 + 1) + xs.length := by omega
    rw [e]
    apply ih
    · have := hstep 0 (by simp) s0 (by simpa using h0)
      simpa only [Nat.add_zero, List.getElem_cons_zero] using this
    · intro k hk s hs
      have := hstep (k + 1) (by simp; omega) s (by rw [← Nat.add_assoc, Nat.add_right_comm]; exact hs)
      simpa only [Nat.add_assoc, Nat.add_comm 1 k, List.getElem_cons_succ] using this

/-- the same for the state after step `k` of a loop started at index 0 -/
theorem stateAt_inv (step : Nat → σ → β → σ) (P : Nat → σ → Prop) (xs : List β) (s0 : σ)
    (h0 : P 0 s0)
    (hstep : ∀ k (hk : k < xs.length) s, P k s → P (k + 1) (step k s (xs[k]'hk)))
    (k : Nat) (hk : k < xs.length) : P (k + 1) (stateAt step xs s0 k) := by
  unfold stateAt
  have hlen : (xs.take (k + 1)).length = k + 1 := by simp; omega
  have := iterIdx_inv step P (xs.take (k + 1)) 0 s0 (by simpa using h0) (by
    intro j hj s hs
    rw [hlen] at hj
    have hj' : j < xs.length := by omega
    have e : (xs.take (k + 1))[j]'(by rw [hlen]; exact hj) = xs[j]'hj' := by simp
    rw [e]
    simpa using hstep j hj' s (by simpa using hs))
  rw [hlen] at this
  simpa using this

/-- state BEFORE step `k` of a loop started at index 0 -/
def stateBefore (step : Nat → σ → β → σ) (xs : List β) (s0 : σ) : Nat → σ
  | 0 => s0
  | k + 1 => stateAt step xs s0 k

theorem stateAt_eq_step_before (step : Nat → σ → β → σ) (xs : List β) (s0 : σ) (k : Nat)
    (hk : k < xs.length) : stateAt step xs s0 k = step k (stateBefore step xs s0 k) (xs[k]'hk) := by
  cases k with
  | zero => exact stateAt_zero step xs s0 hk
  | succ k => exact stateAt_succ step xs s0 k hk

/-- **every saved row was written from a loop state**: if each step either leaves the buffer alone or
pushes `mk (new state) i x`, then every row of the final buffer is `mk (stateAt j) j xs[j]` for some
step `j` – the published rows are functions of the very states the loop went through. -/
theorem saved_rows_from_states {ρ : Type u} (step : Nat → σ → β → σ) (buf : σ → Array ρ)
    (mk : σ → Nat → β → ρ)
    (hstep : ∀ i s x, buf (step i s x) = buf s ∨ buf (step i s x) = (buf s).push (mk (step i s x) i x))
    (xs : List β) (s0 : σ) (h0 : buf s0 = #[]) :
    ∀ r ∈ (buf (iterIdx step xs 0 s0)).toList,
      ∃ j, ∃ hj : j < xs.length, r = mk (stateAt step xs s0 j) j (xs[j]'hj) := by
  have key := iterIdx_inv step
    (fun i s => s = stateBefore step xs s0 i ∧
      ∀ r ∈ (buf s).toList, ∃ j, ∃ hj : j < xs.length, j < i ∧ r = mk (stateAt step xs s0 j) j (xs[j]'hj))
    xs 0 s0 ⟨rfl, by simp [h0]⟩ ?_
  · intro r hr
    obtain ⟨j, hj, _, e⟩ := key.2 r hr
    exact ⟨j, hj, e⟩
  · intro k hk s ⟨hs, hrows⟩
    simp only [Nat.zero_add] at hs hrows ⊢
    have hnew : step k s (xs[k]'hk) = stateAt step xs s0 k := by
      rw [stateAt_eq_step_before step xs s0 k hk, hs]
    refine ⟨by rw [hnew]; rfl, ?_⟩
    intro r hr
    rcases hstep k s (xs[k]'hk) with hb | hb
    · rw [hb] at hr
      obtain ⟨j, hj, hjk, e⟩ := hrows r hr
      exact ⟨j, hj, by omega, e⟩
    · rw [hb, Array.toList_push, List.mem_append, List.mem_singleton] at hr
      rcases hr with hr | hr
      · obtain ⟨j, hj, hjk, e⟩ := hrows r hr
        exact ⟨j, hj, by omega, e⟩
      · exact ⟨k, hk, by omega, by rw [hr, hnew]⟩

/-! ### `firstHit` -/

/-- A fold whose states carry a "set once" index (`get`), set at the first step whose new
state satisfies `hit`: once set it stays. -/
theorem firstHit_keep (step : Nat → σ → β → σ) (get : σ → Option Nat) (hit : σ → Bool)
    (hstep : ∀ i s x, get (step i s x) = firstHit (get s) (hit (step i s x)) i)
    (xs : List β) (i0 : Nat) (s0 : σ) (m : Nat) (h0 : get s0 = some m) :
    get (iterIdx step xs i0 s0) = some m := by
  induction xs generalizing i0 s0 with
  | nil => simpa [iterIdx] using h0
  | cons x xs ih =>
    simp only [iterIdx]
    apply ih
    rw [hstep, h0]; rfl

/-- … and it is set at the FIRST hit. -/
theorem firstHit_iff (step : Nat → σ → β → σ) (get : σ → Option Nat) (hit : σ → Bool)
    (hstep : ∀ i s x, get (step i s x) = firstHit (get s) (hit (step i s x)) i)
    (xs : List β) (i0 : Nat) (s0 : σ) (h0 : get s0 = none) (k : Nat) :
    get (iterIdx step xs i0 s0) = some (i0 + k) ↔
      k < xs.length ∧ hit (prefState step xs i0 s0 k) = true ∧
        ∀ j, j < k → hit (prefState step xs i0 s0 j) = false := by
  induction xs generalizing i0 s0 k with
  | nil => simp [iterIdx, h0]
  | cons x xs ih =>
    simp only [iterIdx]
    by_cases hh : hit (step i0 s0 x) = true
    · have h1 : get (step i0 s0 x) = some i0 := by rw [hstep, h0]; simp [firstHit, hh]
      rw [firstHit_keep step get hit hstep xs (i0 + 1) _ i0 h1]
      constructor
      · intro h
        have hk : k = 0 := by
          simp only [Option.some.injEq] at h; omega
        subst hk
        exact ⟨by simp, by simpa using hh, by intro j hj; omega⟩
      · rintro ⟨_, _, h3⟩
        cases k with
        | zero => rfl
        | succ k => have := h3 0 (by omega); simp [hh] at this
    · have hh' : hit (step i0 s0 x) = false := by simpa using hh
      have h1 : get (step i0 s0 x) = none := by rw [hstep, h0]; simp [firstHit, hh']
      cases k with
      | zero =>
        constructor
        · intro h
          exfalso
          -- the index recorded later is ≥ i0 + 1
          have key : ∀ (ys : List β) (i : Nat) (s : σ), get s = none →
              ∀ m, get (iterIdx step ys i s) = some m → i ≤ m := by
            intro ys
            induction ys with
            | nil => intro i s hs m hm; simp [iterIdx, hs] at hm
            | cons y ys ihy =>
              intro i s hs m hm
              simp only [iterIdx] at hm
              by_cases hy : hit (step i s y) = true
              · have : get (step i s y) = some i := by rw [hstep, hs]; simp [firstHit, hy]
                rw [firstHit_keep step get hit hstep ys (i + 1) _ i this] at hm
                simp only [Option.some.injEq] at hm; omega
              · have hy' : hit (step i s y) = false := by simpa using hy
                have : get (step i s y) = none := by rw [hstep, hs]; simp [firstHit, hy']
                have := ihy (i + 1) _ this m hm; omega
          have := key xs (i0 + 1) _ h1 _ h
          omega
        · rintro ⟨_, h2, _⟩
          simp [hh'] at h2
      | succ k =>
        have e : i0 + (k + 1) = (i0 + 1) + k := by omega
        rw [e, ih (i0 + 1) _ h1]
        simp only [List.length_cons, prefState_cons_succ]
        constructor
        · rintro ⟨h1, h2, h3⟩
          refine ⟨by omega, h2, ?_⟩
          intro j hj
          cases j with
          | zero => simpa using hh'
          | succ j => simpa using h3 j (by omega)
        · rintro ⟨h1, h2, h3⟩
          refine ⟨by omega, h2, ?_⟩
          intro j hj
          simpa using h3 (j + 1) (by omega)

/-! ### save stride -/

theorem saveStride_pos {N : Nat} (h : 0 < N) : 0 < saveStride N := by
  unfold saveStride NSave; omega

/-- `N ≤ 10000 · ceil(N/10000)` -/
theorem le_saveStride_mul (N : Nat) : N ≤ NSave * saveStride N := by
  unfold saveStride NSave; omega

/-- every in-loop save index is in range: for a step `i < N`, `i / stride < 10000` -/
theorem save_index_lt {N i : Nat} (hi : i < N) : i / saveStride N < NSave := by
  have hpos : 0 < saveStride N := saveStride_pos (by omega)
  rw [Nat.div_lt_iff_lt_mul hpos]
  have := le_saveStride_mul N
  omega

end Snow
