/-
  The 1D cooling stencil with ghost points (`Snow.coolStencil` of SnowModel/Snowing1D.lean)
  written as a function of the node index, and its exact telescoping identity.
-/
import SnowProofs.RealInst
import SnowModel.Snowing1D
import Mathlib.Algebra.BigOperators.Group.Finset.Basic
import Mathlib.Algebra.BigOperators.Ring.Finset
import Mathlib.Tactic.Linarith
import Mathlib.Tactic.Ring
import Mathlib.Tactic.FieldSimp

namespace Snow.Stencil1D
open Snow Num

/-- the 1D cooling update of a column `col` (ghost values `Tb` below, `Tt` above),
written out: this is what `Snow.coolStencil` (the stencil of `_run_1D`) computes,
see `coolStencil_eq_col1D`. -/
noncomputable def col1D (Nz : Nat) (fo Tb Tt : ℝ) (col : Nat → ℝ) (i : Nat) : ℝ :=
  if i = 0 then col 0 + fo * (col 1 - 2 * col 0 + Tb)
  else if i + 1 = Nz then col i + fo * (Tt - 2 * col i + col (Nz - 2))
  else col i + fo * (col (i + 1) - 2 * col i + col (i - 1))

theorem aget_ofFn {n : Nat} (g : Fin n → ℝ) (i : Nat) (h : i < n) :
    aget (Array.ofFn g) i = g ⟨i, h⟩ := by
  simp [aget, Array.getD, h]

/-- `Snow.coolStencil` (wpE's model of the 1D cooling stencil) is `col1D` -/
theorem coolStencil_eq_col1D (Nz : Nat) (fo Tb Tt : ℝ) (col : Nat → ℝ) (i : Nat) (hi : i < Nz)
    (hNz : 2 ≤ Nz) :
    aget (coolStencil fo Tb Tt (Array.ofFn (n := Nz) fun k => col k.val)) i
      = col1D Nz fo Tb Tt col i := by
  have h1 : ∀ k, k < Nz → aget (Array.ofFn (n := Nz) fun k => col k.val) k = col k := by
    intro k hk; exact aget_ofFn _ k hk
  unfold coolStencil col1D
  generalize hA : (Array.ofFn (n := Nz) fun k => col k.val) = A at h1
  have hs : A.size = Nz := by rw [← hA]; simp
  rw [aget_ofFn _ i (by omega)]
  simp only [ofNat'_real, Nat.cast_ofNat, hs]
  by_cases h0 : i = 0
  · subst h0
    have hN : 1 < Nz := by omega
    simp [h1 0 hi, h1 1 hN]
  · by_cases hl : i + 1 = Nz
    · have h2 : Nz - 2 < Nz := by omega
      simp [h0, hl, h1 i hi, h1 (Nz - 2) h2]
    · have h3 : i + 1 < Nz := by omega
      have h4 : i - 1 < Nz := by omega
      simp [h0, hl, h1 i hi, h1 (i + 1) h3, h1 (i - 1) h4]


/-- the column extended by its two ghost values: `e 0 = Tb`, `e (k+1) = col k`, `e (Nz+1) = Tt` -/
noncomputable def ext (Nz : Nat) (Tb Tt : ℝ) (col : Nat → ℝ) : Nat → ℝ
  | 0 => Tb
  | k + 1 => if k = Nz then Tt else col k

theorem col1D_sub (Nz : Nat) (hNz : 2 ≤ Nz) (fo Tb Tt : ℝ) (col : Nat → ℝ) (i : Nat) (hi : i < Nz) :
    col1D Nz fo Tb Tt col i - col i
      = fo * ((ext Nz Tb Tt col (i + 1 + 1) - ext Nz Tb Tt col (i + 1))
              - (ext Nz Tb Tt col (i + 1) - ext Nz Tb Tt col i)) := by
  have hne : ¬ i = Nz := by omega
  cases i with
  | zero =>
    have h1 : ¬ (0 + 1 = Nz) := by omega
    simp only [col1D, ext, if_true, h1, hne, if_false]
    ring
  | succ k =>
    have hk : ¬ k = Nz := by omega
    simp only [col1D, ext, hne, hk, if_false, Nat.succ_ne_zero, Nat.add_sub_cancel]
    by_cases hl : k + 1 + 1 = Nz
    · have e : k = Nz - 2 := by omega
      simp only [hl, if_true]
      rw [← e]; ring
    · simp only [hl, if_false]
      ring

/-- **telescoping identity of the 1D cooling stencil** (any `Nz ≥ 2`, any field):
the sum of the nodal changes is `fo` times the two ghost-point increments. -/
theorem sum_col1D_sub (Nz : Nat) (hNz : 2 ≤ Nz) (fo Tb Tt : ℝ) (col : Nat → ℝ) :
    ∑ i ∈ Finset.range Nz, (col1D Nz fo Tb Tt col i - col i)
      = fo * ((Tb - col 0) + (Tt - col (Nz - 1))) := by
  have h : ∀ i ∈ Finset.range Nz, col1D Nz fo Tb Tt col i - col i
      = fo * ((ext Nz Tb Tt col (i + 1 + 1) - ext Nz Tb Tt col (i + 1))
              - (ext Nz Tb Tt col (i + 1) - ext Nz Tb Tt col i)) := by
    intro i hi
    exact col1D_sub Nz hNz fo Tb Tt col i (Finset.mem_range.mp hi)
  rw [Finset.sum_congr rfl h, ← Finset.mul_sum,
    Finset.sum_range_sub (fun k => ext Nz Tb Tt col (k + 1) - ext Nz Tb Tt col k)]
  have a1 : ext Nz Tb Tt col (Nz + 1) = Tt := by simp [ext]
  have a2 : ext Nz Tb Tt col Nz = col (Nz - 1) := by
    obtain ⟨m, rfl⟩ : ∃ m, Nz = m + 1 := ⟨Nz - 1, by omega⟩
    simp [ext]
  have a3 : ext Nz Tb Tt col (0 + 1) = col 0 := by
    have : ¬ (0 = Nz) := by omega
    simp [ext, this]
  have a4 : ext Nz Tb Tt col 0 = Tb := by simp [ext]
  rw [a1, a2, a3, a4]; ring

end Snow.Stencil1D
