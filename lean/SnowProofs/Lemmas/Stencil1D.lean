/-
  The 1D cooling stencil with ghost points (`Snow.coolStencil` of SnowModel/Snowing1D.lean)
  written as a function of the node index, and its exact telescoping identity.
-/
import SnowProofs.RealInst
import SnowModel.Snowing1D
import Mathlib.Algebra.BigOperators.Group.Finset.Basic
import Mathlib.Algebra.BigOperators.Ring.Finset
import Mathlib.Tactic.Linarith
import Mathlib.Tactic.Ring
import Mathlib.Tactic.FieldSimp

namespace Snow.Stencil1D
open Snow Num

/-- the 1D cooling update of a column `col` (ghost values `Tb` below, `Tt` above),
written out: this is what `Snow.coolStencil` (the stencil of `_run_1D`) computes,
see `coolStencil_eq_col1D`. -/
noncomputable def col1D (Nz : Nat) (fo Tb Tt : ℝ) (col : Nat → ℝ) (i : Nat) : ℝ :=
  if i = 0 then col 0 + fo * (col 1 - 2 * col 0 + Tb)
  else if i + 1 = Nz then col i + fo * (Tt - 2 * col i + col (Nz - 2))
  else col i + fo * (col (i + 1) - 2 * col i + col (i - 1))

theorem aget_ofFn {n : Nat} (g : Fin n → ℝ) (i : Nat) (h : i < n) :
    aget (Array.ofFn g) i = g ⟨i, h⟩ := by
  simp [aget, Array.getD, h]

/-- `Snow.coolStencil` (wpE's model of the 1D cooling stencil) is `col1D` -/
theorem coolStencil_eq_col1D (Nz : Nat) (fo Tb Tt : ℝ) (col : Nat → ℝ) (i : Nat) (hi : i < Nz)
    (hNz : 2 ≤ Nz) :
    aget (coolStencil fo Tb Tt (Array.ofFn (n := Nz) fun k => col k.val)) i
      = col1D Nz fo Tb Tt col i := by
  have h1 : ∀ k, k < Nz → aget (Array.ofFn (n := Nz) fun k => col k.val) k = col k := by
    intro k hk; exact aget_ofFn _ k hk
  unfold coolStencil col1D
  generalize hA : (Array.ofFn (n := Nz) fun k => col k.val) = A at h1
  have hs : A.size = Nz := by rw [← hA]; simp
  rw [aget_ofFn _ i (by omega)]
  simp only [ofNat'_real, Nat.cast_ofNat, hs]
  by_cases h0 : i = 0
  · subst h0
    have hN : 1 < Nz := by omega
    simp [h1 0 hi, h1 1 hN]
  · by_cases hl : i + 1 = Nz
    · have h2 : Nz - 2 < Nz := by omega
      simp [h0, hl, h1 i hi, h1 (Nz - 2) h2]
    · have h3 : i + 1 < Nz := by omega
      have h4 : i - 1 < Nz := by omega
      simp [h0, hl, h1 i hi, h1 (i + 1) h3, h1 (i - 1) h4]


/-- `Snow.coolStencil` on an arbitrary array (size ≥ 2) is `col1D` of its reader -/
theorem coolStencil_get (fo Tb Tt : ℝ) (T : Array ℝ) (hN : 2 ≤ T.size) (i : Nat) (hi : i < T.size) :
    aget (coolStencil fo Tb Tt T) i = col1D T.size fo Tb Tt (aget T) i := by
  unfold coolStencil col1D
  rw [aget_ofFn _ i hi]
  simp only [ofNat'_real, Nat.cast_ofNat]
  by_cases h0 : i = 0
  · subst h0; simp
  · by_cases hl : i + 1 = T.size
    · simp [h0, hl]
    · simp [h0, hl]

theorem coolStencil_size (fo Tb Tt : ℝ) (T : Array ℝ) : (coolStencil fo Tb Tt T).size = T.size := by
  simp [coolStencil]

/-- the column extended by its two ghost values: `e 0 = Tb`, `e (k+1) = col k`, `e (Nz+1) = Tt` -/
noncomputable def ext (Nz : Nat) (Tb Tt : ℝ) (col : Nat → ℝ) : Nat → ℝ
  | 0 => Tb
  | k + 1 => if k = Nz then Tt else col k

theorem col1D_sub (Nz : Nat) (hNz : 2 ≤ Nz) (fo Tb Tt : ℝ) (col : Nat → ℝ) (i : Nat) (hi : i < Nz) :
    col1D Nz fo Tb Tt col i - col i
      = fo * ((ext Nz Tb Tt col (i + 1 + 1) - ext Nz Tb Tt col (i + 1))
              - (ext Nz Tb Tt col (i + 1) - ext Nz Tb Tt col i)) := by
  have hne : ¬ i = Nz := by omega
  cases i with
  | zero =>
    have h1 : ¬ (0 + 1 = Nz) := by omega
    simp only [col1D, ext, if_true, h1, hne, if_false]
    ring
  | succ k =>
    have hk : ¬ k = Nz := by omega
    simp only [col1D, ext, hne, hk, if_false, Nat.succ_ne_zero, Nat.add_sub_cancel]
    by_cases hl : k + 1 + 1 = Nz
    · have e : k = Nz - 2 := by omega
      simp only [hl, if_true]
      rw [← e]; ring
    · simp only [hl, if_false]
      ring

/-- **telescoping identity of the 1D cooling stencil** (any `Nz ≥ 2`, any field):
the sum of the nodal changes is `fo` times the two ghost-point increments. -/
theorem sum_col1D_sub (Nz : Nat) (hNz : 2 ≤ Nz) (fo Tb Tt : ℝ) (col : Nat → ℝ) :
    ∑ i ∈ Finset.range Nz, (col1D Nz fo Tb Tt col i - col i)
      = fo * ((Tb - col 0) + (Tt - col (Nz - 1))) := by
  have h : ∀ i ∈ Finset.range Nz, col1D Nz fo Tb Tt col i - col i
      = fo * ((ext Nz Tb Tt col (i + 1 + 1) - ext Nz Tb Tt col (i + 1))
              - (ext Nz Tb Tt col (i + 1) - ext Nz Tb Tt col i)) := by
    intro i hi
    exact col1D_sub Nz hNz fo Tb Tt col i (Finset.mem_range.mp hi)
  rw [Finset.sum_congr rfl h, ← Finset.mul_sum,
    Finset.sum_range_sub (fun k => ext Nz Tb Tt col (k + 1) - ext Nz Tb Tt col k)]
  have a1 : ext Nz Tb Tt col (Nz + 1) = Tt := by simp [ext]
  have a2 : ext Nz Tb Tt col Nz = col (Nz - 1) := by
    obtain ⟨m, rfl⟩ : ∃ m, Nz = m + 1 := ⟨Nz - 1, by omega⟩
    simp [ext]
  have a3 : ext Nz Tb Tt col (0 + 1) = col 0 := by
    have : ¬ (0 = Nz) := by omega
    simp [ext, this]
  have a4 : ext Nz Tb Tt col 0 = Tb := by simp [ext]
  rw [a1, a2, a3, a4]; ring


/-! ### the 1D solidification stencil (apparent heat capacity, variable conductivity) -/

/-- conductivity of the upper / lower neighbour used in the derivative-product term
(one-sided at the two ends, as in the code) -/
noncomputable def lamU (Nz : Nat) (lam : Nat → ℝ) (j : Nat) : ℝ := if j + 1 = Nz then lam j else lam (j + 1)
noncomputable def lamL (lam : Nat → ℝ) (j : Nat) : ℝ := if j = 0 then lam j else lam (j - 1)

/-- one node of the 1D solidification update (l.876-901), on the ghost-extended column `e = ext …`:
`T_j + dt/(c_p,j ρ) · ((λ_up − λ_low)(T_up − T_low)/(4dz²) + λ_j (T_up − 2T_j + T_low)/dz²) / BETA_j` -/
noncomputable def solid1D (Nz : Nat) (dt rho dz2 : ℝ) (lam cp B : Nat → ℝ) (Tb Tt : ℝ) (col : Nat → ℝ)
    (j : Nat) : ℝ :=
  let e := ext Nz Tb Tt col
  e (j + 1) + dt / (cp j * rho)
    * ((lamU Nz lam j - lamL lam j) * (e (j + 2) - e j) / (4 * dz2)
        + lam j * (e (j + 2) - 2 * e (j + 1) + e j) / dz2) * (1 / B j)

/-- summation by parts -/
theorem sum_by_parts (lam f : Nat → ℝ) (m : Nat) :
    ∑ j ∈ Finset.range (m + 1), lam j * (f (j + 1) - f j)
      = lam m * f (m + 1) - lam 0 * f 0 - ∑ j ∈ Finset.range m, (lam (j + 1) - lam j) * f (j + 1) := by
  induction m with
  | zero => simp; ring
  | succ m ih =>
    rw [Finset.sum_range_succ, ih, Finset.sum_range_succ (fun j => (lam (j + 1) - lam j) * f (j + 1))]
    ring

theorem ext_succ_of_lt {Nz : Nat} (Tb Tt : ℝ) (col : Nat → ℝ) {j : Nat} (hj : j < Nz) :
    ext Nz Tb Tt col (j + 1) = col j := by
  have : ¬ j = Nz := by omega
  simp [ext, this]

/-- **`solid1D_balance`** (identity with explicit remainder; the remainder is NOT bounded).
With the ghost values of the code, `Tb = T₀ + q_shelf·dz/λ₀`, `Tt = T_{N−1} + q_e·dz/λ_{N−1}`:
`ρ·dz·Σ_j c_p,j·BETA_j·(T'_j − T_j) = dt·(q_shelf + q_e) + (dt/dz)·R`,
`R = Σ_j (λ_up,j − λ_low,j)(T_up,j − T_low,j)/4 − Σ_{j<N−1} (λ_{j+1} − λ_j)(T_{j+1} − T_j)`:
the derivative-product terms of the non-conservative form minus what a conservative (flux-form)
discretisation would have in their place. -/
theorem solid1D_balance (Nz : Nat) (hNz : 2 ≤ Nz) (dt rho dz qs qe : ℝ) (lam cp B col : Nat → ℝ)
    (hrho : rho ≠ 0) (hdz : dz ≠ 0) (hcp : ∀ j, j < Nz → cp j ≠ 0) (hB : ∀ j, j < Nz → B j ≠ 0)
    (hl0 : lam 0 ≠ 0) (hlN : lam (Nz - 1) ≠ 0) :
    rho * dz * ∑ j ∈ Finset.range Nz,
        cp j * B j * (solid1D Nz dt rho (dz * dz) lam cp B (col 0 + qs * dz / lam 0)
            (col (Nz - 1) + qe * dz / lam (Nz - 1)) col j - col j)
      = dt * (qs + qe)
        + dt / dz * (∑ j ∈ Finset.range Nz,
              (lamU Nz lam j - lamL lam j)
                * (ext Nz (col 0 + qs * dz / lam 0) (col (Nz - 1) + qe * dz / lam (Nz - 1)) col (j + 2)
                    - ext Nz (col 0 + qs * dz / lam 0) (col (Nz - 1) + qe * dz / lam (Nz - 1)) col j) / 4
            - ∑ j ∈ Finset.range (Nz - 1), (lam (j + 1) - lam j) * (col (j + 1) - col j)) := by
  set Tb := col 0 + qs * dz / lam 0 with hTb
  set Tt := col (Nz - 1) + qe * dz / lam (Nz - 1) with hTt
  set e := ext Nz Tb Tt col with he
  obtain ⟨m, rfl⟩ : ∃ m, Nz = m + 1 := ⟨Nz - 1, by omega⟩
  -- node by node
  have hnode : ∀ j ∈ Finset.range (m + 1),
      cp j * B j * (solid1D (m + 1) dt rho (dz * dz) lam cp B Tb Tt col j - col j)
        = dt / (rho * (dz * dz)) * ((lamU (m + 1) lam j - lamL lam j) * (e (j + 2) - e j) / 4)
          + dt / (rho * (dz * dz)) * (lam j * ((e (j + 1 + 1) - e (j + 1)) - (e (j + 1) - e j))) := by
    intro j hj
    have hj' := Finset.mem_range.mp hj
    have h1 := hcp j hj'
    have h2 := hB j hj'
    have hc : e (j + 1) = col j := ext_succ_of_lt Tb Tt col hj'
    unfold solid1D
    simp only [← he, hc]
    field_simp
    ring
  rw [Finset.sum_congr rfl hnode, Finset.sum_add_distrib, ← Finset.mul_sum, ← Finset.mul_sum,
    sum_by_parts lam (fun k => e (k + 1) - e k) m]
  -- the two boundary terms are the imposed fluxes
  have e0 : e 0 = Tb := by simp [he, ext]
  have e1 : e (0 + 1) = col 0 := ext_succ_of_lt Tb Tt col (by omega)
  have em : e (m + 1) = col m := ext_succ_of_lt Tb Tt col (by omega)
  have em1 : e (m + 1 + 1) = Tt := by simp [he, ext]
  have hE : ∀ j, j < m + 1 → e (j + 1) = col j := fun j hj => ext_succ_of_lt Tb Tt col hj
  have hin : ∑ j ∈ Finset.range m, (lam (j + 1) - lam j) * (e (j + 1 + 1) - e (j + 1))
      = ∑ j ∈ Finset.range m, (lam (j + 1) - lam j) * (col (j + 1) - col j) := by
    apply Finset.sum_congr rfl
    intro j hj
    have hj' := Finset.mem_range.mp hj
    rw [hE (j + 1) (by omega), hE j (by omega)]
  simp only [hin, e0, e1, em, em1]
  have hlm : lam m ≠ 0 := by simpa using hlN
  have hTb' : Tb = col 0 + qs * dz / lam 0 := hTb
  have hTt' : Tt = col m + qe * dz / lam m := by rw [hTt]; simp
  rw [hTb', hTt']
  simp only [Nat.add_sub_cancel]
  generalize (∑ i ∈ Finset.range (m + 1), (lamU (m + 1) lam i - lamL lam i) * (e (i + 2) - e i) / 4) = S1
  generalize (∑ j ∈ Finset.range m, (lam (j + 1) - lam j) * (col (j + 1) - col j)) = S2
  field_simp
  ring

/-! ### `solid1D` is the temperature update of the model's `solidStep1D` -/

theorem aget_map {A : Array ℝ} (f : ℝ → ℝ) (j : Nat) (h : j < A.size) :
    aget (A.map f) j = f (aget A j) := by
  simp [aget, Array.getD, h]

/-- `c_p`, `λ_eff`, `BETA` of the step as functions of the node index (l.830-840) -/
noncomputable def cpF (p : SnowIn ℝ) (w : Array ℝ) (j : Nat) : ℝ :=
  p.const.cp_s * p.const.solid_fraction + p.const.cp_i * aget w j
    + p.const.cp_w * (1 - p.const.solid_fraction - aget w j)
noncomputable def lamF (p : SnowIn ℝ) (w : Array ℝ) (j : Nat) : ℝ :=
  p.const.lambda_i * aget w j + p.const.lambda_w * (1 - aget w j)
noncomputable def betaF (p : SnowIn ℝ) (T w : Array ℝ) (j : Nat) : ℝ :=
  (1 : ℝ) * maskNum (!decide (aget T j < p.T_eq_l))
    + (1 + p.const.Dh * p.const.k_f * p.const.mass_solute
            / (p.const.M_s * p.const.rho_l * p.const.V * cpF p w j)
          / ((aget T j - p.T_m) * (aget T j - p.T_m))) * maskNum (decide (aget T j < p.T_eq_l))

/-- the temperature field after one `solidStep1D` of wpE's executable 1D model, node by node,
is the stencil `solid1D` with the model's `c_p`, `λ_eff`, `BETA` and ghost values -/
theorem solidStep1D_eq_solid1D (p : SnowIn ℝ) (g : Grid1D ℝ) (stride iEnd : Nat) (tNuc : ℝ) (i : Nat)
    (s : Solid1D ℝ) (Tshelf : ℝ) (hNz : 2 ≤ g.Nz) (hT : s.T.size = g.Nz) (hw : s.w.size = g.Nz)
    (j : Nat) (hj : j < g.Nz) :
    aget (solidStep1D p g stride iEnd tNuc i s Tshelf).T j
      = solid1D g.Nz g.dt p.const.rho_l (g.dz * g.dz) (lamF p s.w) (cpF p s.w) (betaF p s.T s.w)
          (aget s.T 0 + (p.Kshelf * (Tshelf - aget s.T 0)) * g.dz / lamF p s.w 0)
          (aget s.T (g.Nz - 1)
            + Snow.qEvap p Evap.vapourPressureSolid (tNuc + g.dt * (i : ℝ)) (aget s.T (g.Nz - 1)) * g.dz
              / lamF p s.w (g.Nz - 1))
          (aget s.T) j := by
  have hcp : ∀ k, k < g.Nz → aget (s.w.map fun w => p.const.cp_s * p.const.solid_fraction + p.const.cp_i * w
      + p.const.cp_w * ((1 : ℝ) - p.const.solid_fraction - w)) k = cpF p s.w k := by
    intro k hk
    rw [aget_map _ k (by omega)]; simp [cpF]
  have hlam : ∀ k, k < g.Nz → aget (s.w.map fun w => p.const.lambda_i * w + p.const.lambda_w * ((1 : ℝ) - w)) k
      = lamF p s.w k := by
    intro k hk
    rw [aget_map _ k (by omega)]; simp [lamF]
  have h0 : 0 < g.Nz := by omega
  have h1 : 1 < g.Nz := by omega
  have hN1 : g.Nz - 1 < g.Nz := by omega
  have hN2 : g.Nz - 2 < g.Nz := by omega
  -- the ghost-extended column at j, j+1, j+2
  have E1 : ∀ Tb Tt : ℝ, ext g.Nz Tb Tt (aget s.T) (j + 1) = aget s.T j :=
    fun Tb Tt => ext_succ_of_lt Tb Tt _ hj
  have E0 : ∀ Tb Tt : ℝ, ext g.Nz Tb Tt (aget s.T) j = if j = 0 then Tb else aget s.T (j - 1) := by
    intro Tb Tt
    cases j with
    | zero => simp [ext]
    | succ k => simpa using ext_succ_of_lt Tb Tt (aget s.T) (by omega : k < g.Nz)
  have E2 : ∀ Tb Tt : ℝ, ext g.Nz Tb Tt (aget s.T) (j + 2) = if j + 1 = g.Nz then Tt else aget s.T (j + 1) := by
    intro Tb Tt
    show ext g.Nz Tb Tt (aget s.T) ((j + 1) + 1) = _
    simp [ext]
  have hB : ∀ f : Fin g.Nz → ℝ, aget (Array.ofFn f) j = f ⟨j, hj⟩ := fun f => by simp [aget, Array.getD, hj]
  unfold solidStep1D solid1D lamU lamL
  simp only [E0, E1, E2]
  simp only [hB, ofNat'_real, one_real, Nat.cast_ofNat]
  simp only [hcp j hj, hlam j hj, hlam 0 h0, hlam 1 h1, hlam (g.Nz - 1) hN1, hlam (g.Nz - 2) hN2, betaF]
  by_cases hz : j = 0
  · subst hz
    have hne : ¬ (0 + 1 = g.Nz) := by omega
    simp only [if_true, hne, if_false]
  · by_cases hl : j + 1 = g.Nz
    · have e1 : g.Nz - 1 = j := by omega
      have e2 : g.Nz - 2 = j - 1 := by omega
      simp only [hz, hl, if_false, if_true, e1, e2]
    · have hjp : j + 1 < g.Nz := by omega
      have hjm : j - 1 < g.Nz := by omega
      simp only [hz, hl, if_false, hlam (j + 1) hjp, hlam (j - 1) hjm]

/-! ### the 1D cooling step of the model (`coolField1D`): its ghost values and fluxes -/

/-- no evaporative flux unless the configuration is VISF -/
theorem qEvap_none (p : SnowIn ℝ) (pv : ℝ → ℝ) (t Ttop : ℝ) (h : p.visf = none) :
    Snow.qEvap p pv t Ttop = 0 := by
  simp [Snow.qEvap, h]

/-- … and none outside the vacuum window -/
theorem qEvap_outside (p : SnowIn ℝ) (v : Visf ℝ) (pv : ℝ → ℝ) (t Ttop : ℝ) (h : p.visf = some v)
    (hout : ¬ (v.t_vac_start * 3600 < t ∧ t < (v.t_vac_start + v.t_vac_duration) * 3600)) :
    Snow.qEvap p pv t Ttop = 0 := by
  simp only [Snow.qEvap, h, ofNat'_real, Nat.cast_ofNat]
  rw [if_neg hout]; simp

/-- the temperature update of the model's 1D cooling step is the stencil `col1D` with
`fo = g.fo`, the shelf ghost value `T₀ + K_shelf (T_sh − T₀) dz/λ` and the top ghost value
`T_top + q_e dz/λ`, `q_e = qEvap` (liquid-surface law, zero outside VISF / the vacuum window) -/
theorem coolField1D_get (p : SnowIn ℝ) (g : Grid1D ℝ) (i : Nat) (T : Array ℝ) (Tsh : ℝ)
    (hN : 2 ≤ T.size) (j : Nat) (hj : j < T.size) :
    aget (coolField1D p g i T Tsh) j
      = col1D T.size g.fo (aget T 0 + (p.Kshelf * (Tsh - aget T 0)) * g.dz / g.lam0)
          (aget T (g.Nz - 1)
            + Snow.qEvap p Evap.vapourPressureLiquid (g.dt * (i : ℝ)) (aget T (g.Nz - 1)) * g.dz / g.lam0)
          (aget T) j := by
  unfold coolField1D
  simp only [ofNat'_real]
  exact coolStencil_get _ _ _ T hN j hj

/-- `fo` of the grid the code builds: `λ/(c_p ρ) · dt/dz²` -/
theorem grid1D_fo (p : SnowIn ℝ) (Nz : Nat) :
    (grid1D p Nz).fo = ((grid1D p Nz).lam0 / (p.const.cp_solution * p.const.rho_l)) * (grid1D p Nz).dt
      / ((grid1D p Nz).dz * (grid1D p Nz).dz) := rfl

end Snow.Stencil1D
