/-
  Helper lemmas for the shelf-scale time loop (`SnowModel/Flake.lean`) over ℝ:
  the published model (docs_src/development.rst) as a specification, the derived
  constants, scalar refinement lemmas, array plumbing of `stepCN`, the run as iterated steps.
-/
import SnowProofs.RealInst
import SnowModel.Flake
import Mathlib.Tactic.Linarith
import Mathlib.Tactic.Positivity
import Mathlib.Tactic.FieldSimp
import Mathlib.Tactic.Ring
import Mathlib.Analysis.SpecialFunctions.Sqrt

namespace Snow.FlakeLemmas
open Snow Num Snow.Flake

@[simp] theorem sqrt_real (x : ℝ) : Transc.sqrt x = Real.sqrt x := rfl
@[simp] theorem pow_real (x y : ℝ) : Transc.pow x y = x ^ y := rfl

/-! ### the published model (development.rst; Deck, Ochsenbein, Mazzotti 2022) -/

/-- primary physical parameters of a vial and its solution -/
structure Phys where
  /-- solute mass fraction `w_s` -/
  w_s : ℝ
  cp_s : ℝ
  /-- heat capacity of liquid water `c_{p,ℓ}` -/
  cp_w : ℝ
  cp_i : ℝ
  /-- latent heat of fusion `λ_w` -/
  lam : ℝ
  /-- melting temperature of pure water `T_m` -/
  T_m : ℝ
  /-- cryoscopic constant `k_f` and molar mass `M_s` -/
  k_f : ℝ
  M_s : ℝ
  /-- density and filling volume: `m_v = rho·V` -/
  rho : ℝ
  V : ℝ
  /-- nucleation exponent -/
  b : ℝ

namespace Phys
variable (ph : Phys)

/-- vial mass `m_v` -/
def m : ℝ := ph.rho * ph.V
/-- `D = k_f/M_s · w_s/(1−w_s)` (eq. 2) -/
noncomputable def D : ℝ := ph.k_f / ph.M_s * (ph.w_s / (1 - ph.w_s))
/-- heat capacity of the solution `c_p = w_s c_{p,s} + (1−w_s) c_{p,ℓ}` -/
def cpl : ℝ := ph.w_s * ph.cp_s + (1 - ph.w_s) * ph.cp_w
/-- heat capacity with ice fraction σ (bracket of eq. 1) -/
def cp (σ : ℝ) : ℝ := ph.w_s * ph.cp_s + (1 - ph.w_s) * (ph.cp_w + σ * (ph.cp_i - ph.cp_w))
/-- equilibrium freezing temperature of the solution, `T^eq_ℓ = T_m − D` -/
noncomputable def TeqL : ℝ := ph.T_m - ph.D
/-- freezing-point-depression curve (eq. 2) -/
noncomputable def curve (σ : ℝ) : ℝ := ph.T_m - ph.D * (1 / (1 - σ))
/-- bracket of eq. 5 -/
noncomputable def bracket (σ : ℝ) : ℝ := ph.cp σ * (ph.D / (1 - σ) ^ 2) + ph.lam * (1 - ph.w_s)
/-- `γ = (1−w_s) λ_w / c_p` -/
noncomputable def gamma : ℝ := (1 - ph.w_s) * (ph.lam / ph.cpl)
/-- left-hand side of the quadratic (eq. 12) -/
noncomputable def eq12 (Tn σ : ℝ) : ℝ :=
  σ ^ 2 * (-ph.gamma) + σ * (ph.T_m - Tn + ph.gamma) + ph.D - ph.T_m + Tn

/-- physically meaningful parameters -/
structure Valid : Prop where
  w_pos : 0 < ph.w_s
  w_lt : ph.w_s < 1
  cp_s_pos : 0 < ph.cp_s
  cp_w_pos : 0 < ph.cp_w
  cp_i_pos : 0 < ph.cp_i
  lam_pos : 0 < ph.lam
  kf_pos : 0 < ph.k_f
  Ms_pos : 0 < ph.M_s
  rho_pos : 0 < ph.rho
  V_pos : 0 < ph.V

theorem Valid.m_pos {ph : Phys} (h : ph.Valid) : 0 < ph.m := mul_pos h.rho_pos h.V_pos
theorem Valid.D_pos {ph : Phys} (h : ph.Valid) : 0 < ph.D := by
  have := h.w_pos; have := h.w_lt; have := h.kf_pos; have := h.Ms_pos
  unfold Phys.D
  have h1 : 0 < 1 - ph.w_s := by linarith
  positivity
theorem Valid.cpl_pos {ph : Phys} (h : ph.Valid) : 0 < ph.cpl := by
  have := h.w_pos; have := h.w_lt; have := h.cp_s_pos; have := h.cp_w_pos
  unfold Phys.cpl
  have h1 : 0 < 1 - ph.w_s := by linarith
  positivity
theorem Valid.gamma_pos {ph : Phys} (h : ph.Valid) : 0 < ph.gamma := by
  have := h.w_lt; have := h.lam_pos; have := h.cpl_pos
  unfold Phys.gamma
  have h1 : 0 < 1 - ph.w_s := by linarith
  positivity
theorem Valid.cp_pos {ph : Phys} (h : ph.Valid) {σ : ℝ} (h0 : 0 ≤ σ) (h1 : σ ≤ 1) : 0 < ph.cp σ := by
  have := h.w_pos; have := h.w_lt; have := h.cp_s_pos; have := h.cp_w_pos; have := h.cp_i_pos
  unfold Phys.cp
  have hw : 0 < 1 - ph.w_s := by linarith
  have : 0 < ph.cp_w + σ * (ph.cp_i - ph.cp_w) := by
    have e : ph.cp_w + σ * (ph.cp_i - ph.cp_w) = (1 - σ) * ph.cp_w + σ * ph.cp_i := by ring
    rw [e]
    by_cases hh : σ ≤ 1 / 2
    · nlinarith [mul_nonneg h0 (le_of_lt h.cp_i_pos)]
    · nlinarith [mul_nonneg (sub_nonneg.mpr h1) (le_of_lt h.cp_w_pos)]
  positivity
theorem Valid.bracket_pos {ph : Phys} (h : ph.Valid) {σ : ℝ} (h0 : 0 ≤ σ) (h1 : σ < 1) :
    0 < ph.bracket σ := by
  have := h.cp_pos h0 (le_of_lt h1); have := h.D_pos; have := h.lam_pos; have := h.w_lt
  unfold Phys.bracket
  have hw : 0 < 1 - ph.w_s := by linarith
  have hs : 0 < 1 - σ := by linarith
  positivity

/-- the derived constants exactly as `constants.calculateDerived` combines them
(constants.py l. 234-278): this is what `run()` reads from `self.const` -/
noncomputable def consts : Consts ℝ where
  solid_fraction := ph.w_s
  cp_s := ph.cp_s
  cp_w := ph.cp_w
  cp_i := ph.cp_i
  cp_solution := ph.w_s * ph.cp_s + (1 - ph.w_s) * ph.cp_w
  depression := ph.k_f / ph.M_s * (ph.w_s / (1 - ph.w_s))
  mass := ph.rho * ph.V
  alpha := -(ph.rho * ph.V) * ph.lam * (1 - ph.w_s)
  beta_solution := (ph.k_f / ph.M_s * (ph.w_s / (1 - ph.w_s))) * (ph.rho * ph.V)
    * (ph.w_s * ph.cp_s + (1 - ph.w_s) * ph.cp_w)
  T_eq := ph.T_m
  T_eq_l := ph.T_m - ph.k_f / ph.M_s * (ph.w_s / (1 - ph.w_s))
  hl := (ph.rho * ph.V) * (ph.w_s * ph.cp_s + (1 - ph.w_s) * ph.cp_w)
  b := ph.b
  V := ph.V

end Phys

/-! ### the three transitions of the published model -/

/-- sensible cooling: `m c_p ΔT = q Δt`, no ice -/
def SpecLiquid (ph : Phys) (dt q T T' σ' : ℝ) : Prop :=
  ph.m * ph.cpl * (T' - T) = q * dt ∧ σ' = 0

/-- equilibrium solidification: eq. 5 with `σ̇ = (σ'−σ)/Δt` (explicit Euler, coefficients
at the old state) and the temperature on the curve of eq. 2 -/
def SpecSolid (ph : Phys) (dt q σ T' σ' : ℝ) : Prop :=
  -(q / ph.m) = (σ' - σ) / dt * ph.bracket σ ∧ T' = ph.curve σ'

/-- eq. 9 -/
def SpecIndirect (ph : Phys) (Tn σ : ℝ) : Prop :=
  σ = (ph.TeqL - Tn) / (ph.D + ph.lam / ph.cpl * (1 - ph.w_s))

/-- eq. 12 with the physically meaningful root -/
def SpecDirect (ph : Phys) (Tn σ : ℝ) : Prop :=
  ph.eq12 Tn σ = 0 ∧ 0 < σ ∧ σ < 1

def SpecJumpSigma (ii : InitIce) (ph : Phys) (Tn σ : ℝ) : Prop :=
  match ii with
  | .indirect => SpecIndirect ph Tn σ
  | .direct => SpecDirect ph Tn σ

/-! ### scalar refinement lemmas -/

theorem liquidTemp_spec (ph : Phys) (h : ph.Valid) (dt q T : ℝ) :
    ph.m * ph.cpl * (liquidTemp ph.consts dt q T - T) = q * dt := by
  have hm := h.m_pos; have hc := h.cpl_pos
  have : ph.consts.hl = ph.m * ph.cpl := rfl
  unfold liquidTemp
  rw [this]
  field_simp
  ring

theorem eqTemp_curve (ph : Phys) (σ : ℝ) : eqTemp ph.consts σ = ph.curve σ := by
  simp only [eqTemp, Phys.curve, Phys.consts, Phys.D, one_real]

theorem cpSigma_cp (ph : Phys) (σ : ℝ) : cpSigma ph.consts σ = ph.cp σ := by
  simp only [cpSigma, Phys.cp, Phys.consts, one_real]; ring

theorem solidSigma_spec (ph : Phys) (h : ph.Valid) (dt q σ : ℝ) (hdt : dt ≠ 0) (hσ : σ ≠ 1)
    (hb : ph.bracket σ ≠ 0) :
    -(q / ph.m) = (solidSigma ph.consts dt q σ - σ) / dt * ph.bracket σ := by
  have hm := h.m_pos
  have h1 : (1 - σ) ≠ 0 := fun hh => hσ (by linarith)
  have hden : ph.consts.alpha - ph.consts.depression * ph.consts.mass * cpSigma ph.consts σ
      / ((1 - σ) * (1 - σ)) = -(ph.m * ph.bracket σ) := by
    rw [cpSigma_cp]
    simp only [Phys.consts, Phys.bracket, Phys.m, Phys.D]
    field_simp
    ring
  unfold solidSigma
  simp only [one_real]
  rw [hden]
  have hmb : ph.m * ph.bracket σ ≠ 0 := mul_ne_zero (ne_of_gt hm) hb
  field_simp
  ring

theorem sigmaIndirect_spec (ph : Phys) (h : ph.Valid) (Tn : ℝ) :
    SpecIndirect ph Tn (sigmaIndirect ph.consts Tn) := by
  have hm := h.m_pos; have hc := h.cpl_pos; have hD := h.D_pos; have hl := h.lam_pos
  have hw : 0 < 1 - ph.w_s := by have := h.w_lt; linarith
  have e1 : ph.consts.alpha - ph.consts.beta_solution
      = -(ph.m * ph.cpl * (ph.D + ph.lam / ph.cpl * (1 - ph.w_s))) := by
    simp only [Phys.consts, Phys.m, Phys.cpl, Phys.D]
    have : ph.w_s * ph.cp_s + (1 - ph.w_s) * ph.cp_w ≠ 0 := ne_of_gt hc
    field_simp
    ring
  have e2 : (ph.consts.T_eq_l - Tn) * ph.consts.cp_solution * ph.consts.mass
      = (ph.TeqL - Tn) * ph.cpl * ph.m := rfl
  unfold SpecIndirect sigmaIndirect
  rw [e1, e2]
  have hpos : 0 < ph.D + ph.lam / ph.cpl * (1 - ph.w_s) := by positivity
  field_simp

/-- the quadratic of eq. 12: the `+√` root of the code lies in (0,1), solves it, and is
the only root in (0,1) — for `γ > 0`, `D > 0` and a supercooled vial `Tn < T_m − D`. -/
theorem quad_root (g D Tm Tn B C σ : ℝ) (hg : 0 < g) (hD : 0 < D) (hT : Tn < Tm - D)
    (hBd : B = Tm - Tn + g) (hCd : C = Tn - Tm + D)
    (hσd : σ = (-B + Real.sqrt (B * B + 4 * g * C)) / (-2 * g)) :
    (σ ^ 2 * (-g) + σ * (Tm - Tn + g) + D - Tm + Tn = 0 ∧ 0 < σ ∧ σ < 1) ∧
    ∀ x : ℝ, 0 < x → x < 1 → x ^ 2 * (-g) + x * (Tm - Tn + g) + D - Tm + Tn = 0 → x = σ := by
  have hB : 0 < B := by rw [hBd]; linarith
  have hC : C < 0 := by rw [hCd]; linarith
  have hdisc : 0 ≤ B * B + 4 * g * C := by
    have : B * B + 4 * g * C = (Tm - Tn - g) ^ 2 + 4 * g * D := by rw [hBd, hCd]; ring
    rw [this]; positivity
  set s := Real.sqrt (B * B + 4 * g * C) with hs
  have hs0 : 0 ≤ s := Real.sqrt_nonneg _
  have hs2 : s ^ 2 = B * B + 4 * g * C := Real.sq_sqrt hdisc
  have hsB : s < B := by
    rw [hs, Real.sqrt_lt' hB]
    nlinarith
  have hs1 : B - 2 * g < s := by
    by_cases hneg : B - 2 * g < 0
    · linarith
    · rw [hs, Real.lt_sqrt (not_lt.mp hneg)]
      have : (B - 2 * g) ^ 2 - (B * B + 4 * g * C) = -4 * g * D := by rw [hBd, hCd]; ring
      nlinarith
  have hg' : g ≠ 0 := ne_of_gt hg
  have hσ : σ = (B - s) / (2 * g) := by
    rw [hσd, div_eq_div_iff (by nlinarith) (by positivity)]
    ring
  have hσ0 : 0 < σ := by rw [hσ]; apply div_pos <;> linarith
  have hσ1 : σ < 1 := by
    rw [hσ, div_lt_one (by linarith)]; linarith
  have hroot : σ ^ 2 * (-g) + σ * (Tm - Tn + g) + D - Tm + Tn = 0 := by
    rw [hσ]
    field_simp
    nlinarith [hs2]
  refine ⟨⟨hroot, hσ0, hσ1⟩, ?_⟩
  intro x hx0 hx1 hx
  -- (2 g x − B)² = s²
  have hsq : (2 * g * x - B) ^ 2 = s ^ 2 := by
    rw [hs2, hBd, hCd]
    linear_combination (-4 * g) * hx
  have hcases : 2 * g * x - B = s ∨ 2 * g * x - B = -s := by
    have : (2 * g * x - B - s) * (2 * g * x - B + s) = 0 := by nlinarith
    rcases mul_eq_zero.mp this with h | h
    · left; linarith
    · right; linarith
  rcases hcases with h | h
  · -- the larger root is > 1: f(1) = D > 0 but f(1) − f(x) < 0
    exfalso
    have e : D = (1 - x) * (g * x - g - s) := by
      rw [hBd] at h
      linear_combination hx - (1 - x) * h
    have h1x : 0 < 1 - x := by linarith
    have h2 : g * x - g - s < 0 := by nlinarith
    have := mul_neg_of_pos_of_neg h1x h2
    linarith
  · rw [hσ]
    field_simp
    linarith

theorem gammaDirect_gamma (ph : Phys) (h : ph.Valid) : gammaDirect ph.consts = ph.gamma := by
  have hm := h.m_pos; have hc := h.cpl_pos
  have hc' : ph.w_s * ph.cp_s + (1 - ph.w_s) * ph.cp_w ≠ 0 := ne_of_gt hc
  have hrho : ph.rho ≠ 0 := ne_of_gt h.rho_pos
  have hV : ph.V ≠ 0 := ne_of_gt h.V_pos
  simp only [gammaDirect, Phys.gamma, Phys.consts, Phys.cpl]
  field_simp

theorem sigmaDirect_eq (ph : Phys) (h : ph.Valid) (Tn : ℝ) :
    sigmaDirect ph.consts Tn =
      (-(ph.T_m - Tn + ph.gamma) + Real.sqrt ((ph.T_m - Tn + ph.gamma) * (ph.T_m - Tn + ph.gamma)
        + 4 * ph.gamma * (Tn - ph.T_m + ph.D))) / (-2 * ph.gamma) := by
  unfold sigmaDirect
  rw [gammaDirect_gamma ph h]
  simp [Phys.consts, Phys.D]

theorem sigmaDirect_spec (ph : Phys) (h : ph.Valid) (Tn : ℝ) (hT : Tn < ph.TeqL) :
    SpecDirect ph Tn (sigmaDirect ph.consts Tn) ∧
    ∀ x, SpecDirect ph Tn x → x = sigmaDirect ph.consts Tn := by
  have hq := quad_root ph.gamma ph.D ph.T_m Tn _ _ _ h.gamma_pos h.D_pos hT rfl rfl
    (sigmaDirect_eq ph h Tn)
  refine ⟨?_, ?_⟩
  · exact hq.1
  · intro x hx
    exact hq.2 x hx.2.1 hx.2.2 hx.1

/-- the primary constants of a configuration as physical parameters -/
def physOf (y : Primary ℝ) : Phys where
  w_s := y.solid_fraction
  cp_s := y.cp_s
  cp_w := y.cp_w
  cp_i := y.cp_i
  lam := y.Dh
  T_m := y.T_eq
  k_f := y.k_f
  M_s := y.M_s
  rho := y.rho_l
  V := y.length * y.width * y.height
  b := y.b


/-- primary constants of `snowConfig_default.yaml` -/
noncomputable def defaultPrimary : Primary ℝ where
  T_eq := 0
  b := 29.3
  rho_l := 1000
  height := 0.01
  length := 0.01
  width := 0.01
  cp_s := 1240
  solid_fraction := 0.05
  cp_w := 4187
  cp_i := 2108
  k_f := 1.853
  M_s := 0.3423
  Dh := 333550

theorem defaultPrimary_valid : (physOf defaultPrimary).Valid := by
  constructor <;> simp only [physOf, defaultPrimary] <;> norm_num

end Snow.FlakeLemmas
