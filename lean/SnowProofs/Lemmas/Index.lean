/-
  Index arithmetic for the row-major vial numbering: `coords` / `idx` are inverse
  bijections between `[0, nx·ny·nz)` and the box, and the index patterns used by
  the diagonals of `_buildInteractionMatrices` read off coordinates.
-/
import SnowModel.Topology

namespace Snow.Topology

theorem idx_lt {nx ny nz : Nat} {c : Coord} (h : InBox nx ny nz c) : idx nx ny c < nTot nx ny nz := by
  obtain ⟨hx, hy, hz⟩ := h
  unfold idx nTot
  have h1 : nx * c.y + nx ≤ nx * ny := by
    have : nx * (c.y + 1) ≤ nx * ny := Nat.mul_le_mul_left nx hy
    rwa [Nat.mul_succ] at this
  have h2 : nx * ny * c.z + nx * ny ≤ nx * ny * nz := by
    have : nx * ny * (c.z + 1) ≤ nx * ny * nz := Nat.mul_le_mul_left (nx * ny) hz
    rwa [Nat.mul_succ] at this
  omega

/-- local index inside a layer -/
theorem xy_lt {nx ny : Nat} {x y : Nat} (hx : x < nx) (hy : y < ny) : x + nx * y < nx * ny := by
  have : nx * (y + 1) ≤ nx * ny := Nat.mul_le_mul_left nx hy
  rw [Nat.mul_succ] at this
  omega

theorem idx_mod_layer {nx ny : Nat} {c : Coord} (hx : c.x < nx) (hy : c.y < ny) :
    idx nx ny c % (nx * ny) = c.x + nx * c.y := by
  unfold idx
  rw [Nat.add_mul_mod_self_left]
  exact Nat.mod_eq_of_lt (xy_lt hx hy)

theorem idx_div_layer {nx ny : Nat} {c : Coord} (hx : c.x < nx) (hy : c.y < ny) :
    idx nx ny c / (nx * ny) = c.z := by
  unfold idx
  have hpos : 0 < nx * ny := Nat.lt_of_le_of_lt (Nat.zero_le _) (xy_lt hx hy)
  rw [Nat.add_mul_div_left _ _ hpos, Nat.div_eq_of_lt (xy_lt hx hy)]
  omega

theorem xy_mod {nx : Nat} {x y : Nat} (hx : x < nx) : (x + nx * y) % nx = x := by
  rw [Nat.add_mul_mod_self_left]
  exact Nat.mod_eq_of_lt hx

theorem xy_div {nx : Nat} {x y : Nat} (hx : x < nx) : (x + nx * y) / nx = y := by
  have hpos : 0 < nx := Nat.lt_of_le_of_lt (Nat.zero_le _) hx
  rw [Nat.add_mul_div_left _ _ hpos, Nat.div_eq_of_lt hx]
  omega

theorem idx_mod_nx {nx ny : Nat} {c : Coord} (hx : c.x < nx) : idx nx ny c % nx = c.x := by
  unfold idx
  rw [Nat.mul_assoc, Nat.add_assoc, ← Nat.mul_add, Nat.add_mul_mod_self_left]
  exact Nat.mod_eq_of_lt hx

theorem idx_div_nx {nx ny : Nat} {c : Coord} (hx : c.x < nx) : idx nx ny c / nx = c.y + ny * c.z := by
  unfold idx
  have hpos : 0 < nx := Nat.lt_of_le_of_lt (Nat.zero_le _) hx
  rw [Nat.mul_assoc, Nat.add_assoc, ← Nat.mul_add, Nat.add_mul_div_left _ _ hpos, Nat.div_eq_of_lt hx]
  omega

theorem coords_idx {nx ny nz : Nat} {c : Coord} (h : InBox nx ny nz c) : coords nx ny (idx nx ny c) = c := by
  obtain ⟨hx, hy, hz⟩ := h
  unfold coords
  rw [idx_mod_nx hx, idx_div_nx hx, idx_div_layer hx hy, Nat.add_mul_mod_self_left, Nat.mod_eq_of_lt hy]

theorem idx_coords {nx ny : Nat} (i : Nat) : idx nx ny (coords nx ny i) = i := by
  unfold idx coords
  simp only
  have h1 := Nat.div_add_mod i nx
  have h2 := Nat.div_add_mod (i / nx) ny
  have h3 : i / (nx * ny) = i / nx / ny := (Nat.div_div_eq_div_mul i nx ny).symm
  rw [h3, Nat.mul_assoc]
  calc i % nx + nx * (i / nx % ny) + nx * (ny * (i / nx / ny))
      = i % nx + nx * (ny * (i / nx / ny) + i / nx % ny) := by rw [Nat.mul_add]; omega
    _ = i := by rw [h2]; omega

theorem coords_inBox {nx ny nz : Nat} {i : Nat} (h : i < nTot nx ny nz) : InBox nx ny nz (coords nx ny i) := by
  unfold nTot at h
  have hnx : 0 < nx := by
    rcases Nat.eq_zero_or_pos nx with h0 | h0
    · subst h0; simp at h
    · exact h0
  have hny : 0 < ny := by
    rcases Nat.eq_zero_or_pos ny with h0 | h0
    · subst h0; simp at h
    · exact h0
  refine ⟨Nat.mod_lt _ hnx, Nat.mod_lt _ hny, ?_⟩
  show i / (nx * ny) < nz
  exact Nat.div_lt_of_lt_mul h

theorem idx_inj {nx ny nz : Nat} {a b : Coord} (ha : InBox nx ny nz a) (hb : InBox nx ny nz b)
    (h : idx nx ny a = idx nx ny b) : a = b := by
  rw [← coords_idx ha, ← coords_idx hb, h]

/-! shifted indices -/

theorem idx_x_succ (nx ny : Nat) (c : Coord) : idx nx ny ⟨c.x + 1, c.y, c.z⟩ = idx nx ny c + 1 := by
  unfold idx; simp only; omega

theorem idx_y_succ (nx ny : Nat) (c : Coord) : idx nx ny ⟨c.x, c.y + 1, c.z⟩ = idx nx ny c + nx := by
  unfold idx; simp only [Nat.mul_succ]; omega

theorem idx_z_succ (nx ny : Nat) (c : Coord) : idx nx ny ⟨c.x, c.y, c.z + 1⟩ = idx nx ny c + nx * ny := by
  unfold idx; simp only [Nat.mul_succ]; omega

theorem idx_xy_succ (nx ny : Nat) (c : Coord) :
    idx nx ny ⟨c.x + 1, c.y + 1, c.z⟩ = idx nx ny c + nx + 1 := by
  unfold idx; simp only [Nat.mul_succ]; omega

theorem idx_xpred_ysucc (nx ny : Nat) (c : Coord) (hx : 1 ≤ c.x) :
    idx nx ny ⟨c.x - 1, c.y + 1, c.z⟩ + 1 = idx nx ny c + nx := by
  unfold idx; simp only [Nat.mul_succ]; omega

end Snow.Topology
