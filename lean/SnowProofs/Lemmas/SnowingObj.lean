/-
  Lemmas and proofs for C14 — Spatial repetitions are reproducible in every execution mode.

  Model: SnowModel/SnowingObj.lean (`run(how)` dispatch, `_stats`,
  `_statsMultiple`, `_keys`, `results`; one simulation abstract as
  `sim (2024, 0) (seed, 0)`: kinetic draw from the stream seeded 2024, `F_rand`
  from the stream seeded `seed`).  `runObj` mirrors the repaired code
  (fixes/F5.diff), `runObjOld` the code before it.

  All statements hold for EVERY simulation function `sim`, every object state `o`
  (whatever was run on it before), every state `w` of the process-global legacy
  generator and every batching of the tasks by the pool.
-/
import SnowModel.SnowingObj

namespace Snow.SnowingObjLemmas
open Snow.SnowingObj

variable {Row : Type} (sim : DrawPos → DrawPos → Row)

/-- a `how` the class implements, with a pool batching that covers the tasks in order -/
def ValidHow (n : Nat) : How → Prop
  | .sequential => True
  | .async chunks => chunks.flatten = List.range n
  | .other => False

theorem runSeeds_rows (l : List Nat) (w : World) :
    (runSeeds sim l w).1 = l.map fun i => (i, sim (2024, 0) (i, 0)) := by
  induction l generalizing w with
  | nil => rfl
  | cons i is ih => simp [runSeeds, runXD, ih]

theorem flatMap_map_eq {α β : Type} (f : α → β) (chunks : List (List α)) :
    (chunks.flatMap fun ch => ch.map f) = chunks.flatten.map f := by
  induction chunks with
  | nil => rfl
  | cons ch chunks ih => simp [List.flatMap_cons, ih]

theorem zip_range_map {β : Type} (f : Nat → β) (n : Nat) :
    (List.range ((List.range n).map f).length).zip ((List.range n).map f) =
      (List.range n).map fun i => (i, f i) := by
  rw [List.length_map, List.length_range]
  generalize List.range n = l
  induction l with
  | nil => rfl
  | cons a l ih => simp [ih]

theorem poolRows_eq (chunks : List (List Nat)) (n : Nat) (w : World)
    (h : chunks.flatten = List.range n) : poolRows sim chunks w = table sim n := by
  unfold poolRows table
  have : (chunks.flatMap fun ch => (runSeeds sim ch w).1.map (·.2)) =
      (List.range n).map fun i => sim (2024, 0) (i, 0) := by
    have h1 : (fun ch => (runSeeds sim ch w).1.map (·.2)) =
        fun ch : List Nat => ch.map fun i => sim (2024, 0) (i, 0) := by
      funext ch; rw [runSeeds_rows]; simp [Function.comp_def]
    rw [h1, flatMap_map_eq, h]
  simp only [this]
  exact zip_range_map _ n

theorem table_isEmpty (n : Nat) (h : 1 < n) : (table sim n).isEmpty = false := by
  unfold table
  cases n with
  | zero => omega
  | succ m => simp [List.range_succ]

theorem runObj_nrep (how : How) (o : Obj Row) (w : World) : (runObj sim how o w).1.nrep = o.nrep := by
  unfold runObj
  split
  · rfl
  · cases how <;> rfl

/-- the table stored by a valid multi-repetition run -/
theorem runObj_multi (how : How) (o : Obj Row) (w : World) (hn : 1 < o.nrep)
    (hv : ValidHow o.nrep how) :
    (runObj sim how o w).1.multi = some (table sim o.nrep) ∧
    (runObj sim how o w).1.keys = true ∧ (runObj sim how o w).1.status = true := by
  unfold runObj
  have h1 : ¬ o.nrep = 1 := by omega
  simp only [h1, if_false]
  cases how with
  | sequential => simp [runSeeds_rows, table]
  | async chunks => simp [poolRows_eq sim chunks o.nrep w hv]
  | other => exact absurd hv id

/-- **rep_is_seeded_run**: after `run(how)` with `Nrep = n > 1` — on an object in
ANY state, in either mode, for any pool batching and any state of the global
generator — `results` has one row per repetition in seed order and row `i` is the
single run with seed `i` (a function of configuration and `i` only: kinetic draw
from the stream seeded 2024, `F_rand` from the stream seeded `i`). -/
theorem rep_is_seeded_run (how : How) (o : Obj Row) (w : World) (hn : 1 < o.nrep)
    (hv : ValidHow o.nrep how) :
    results (runObj sim how o w).1 = .ok (table sim o.nrep) := by
  obtain ⟨hm, hk, hs⟩ := runObj_multi sim how o w hn hv
  unfold results
  rw [hs, runObj_nrep, hm, hk]
  have h1 : ¬ o.nrep = 1 := by omega
  simp [h1, hn, table_isEmpty sim o.nrep hn]

/-- the repetition count is a public attribute: after `S.Nrep = n` on an object in any
state (e.g. after a LARGER study) a run gives exactly the `n` rows of the seeded runs -/
theorem rep_after_resize (how : How) (o : Obj Row) (w : World) (n : Nat) (hn : 1 < n)
    (hv : ValidHow n how) :
    results (runObj sim how { o with nrep := n } w).1 = .ok (table sim n) :=
  rep_is_seeded_run sim how { o with nrep := n } w hn hv

/-- **single_eq_rep0**: with `Nrep = 1`, `results` is the one row of the run with
seed 0 — the first row of every multi-repetition table. -/
theorem single_eq_rep0 (how : How) (o : Obj Row) (w : World) (h1 : o.nrep = 1) (n : Nat) (hn : 0 < n) :
    results (runObj sim how o w).1 = .ok [(0, sim (2024, 0) (0, 0))] ∧
    (table sim n).head? = some (0, sim (2024, 0) (0, 0)) := by
  constructor
  · unfold results runObj
    simp [h1, runXD]
  · unfold table
    cases n with
    | zero => omega
    | succ m => simp [List.range_succ_eq_map]

/-- any number of earlier runs, then one more -/
def runMany (hs : List How) (o : Obj Row) (w : World) : Obj Row × World :=
  hs.foldl (fun p h => ((runObj sim h p.1 p.2).1, (runObj sim h p.1 p.2).2.1)) (o, w)

theorem runMany_nrep (hs : List How) (o : Obj Row) (w : World) :
    (runMany sim hs o w).1.nrep = o.nrep := by
  unfold runMany
  induction hs generalizing o w with
  | nil => rfl
  | cons h hs ih => rw [List.foldl_cons, ih]; exact runObj_nrep sim h o w

/-- **repeat_same**: whatever was run before on the object (any modes, also
unsupported ones, any number of times), running again gives the same table. -/
theorem repeat_same (hs : List How) (how : How) (o : Obj Row) (w : World) (hn : 1 < o.nrep)
    (hv : ValidHow o.nrep how) :
    results (runMany sim (hs ++ [how]) o w).1 = results (runObj sim how o w).1 := by
  unfold runMany
  rw [List.foldl_append]
  simp only [List.foldl_cons, List.foldl_nil]
  have hr := runMany_nrep sim hs o w
  unfold runMany at hr
  rw [rep_is_seeded_run sim how o w hn hv, rep_is_seeded_run sim how _ _ (by rw [hr]; exact hn)
    (by rw [hr]; exact hv), hr]

theorem repeat_same_single (hs : List How) (how : How) (o : Obj Row) (w : World) (h1 : o.nrep = 1) :
    results (runMany sim (hs ++ [how]) o w).1 = results (runObj sim how o w).1 := by
  unfold runMany
  rw [List.foldl_append]
  simp only [List.foldl_cons, List.foldl_nil]
  have hr := runMany_nrep sim hs o w
  unfold runMany at hr
  rw [(single_eq_rep0 sim how o w h1 1 (by omega)).1,
      (single_eq_rep0 sim how _ _ (by rw [hr]; exact h1) 1 (by omega)).1]

/-- **modes_equal**: sequential and parallel execution, any pool batchings, any
two objects of the same configuration in any states: the same table. -/
theorem modes_equal (h1 h2 : How) (o1 o2 : Obj Row) (w1 w2 : World) (hn : 1 < o1.nrep)
    (he : o2.nrep = o1.nrep) (hv1 : ValidHow o1.nrep h1) (hv2 : ValidHow o1.nrep h2) :
    results (runObj sim h1 o1 w1).1 = results (runObj sim h2 o2 w2).1 := by
  rw [rep_is_seeded_run sim h1 o1 w1 hn hv1,
      rep_is_seeded_run sim h2 o2 w2 (by rw [he]; exact hn) (by rw [he]; exact hv2), he]

/-- the batches `multiprocessing.Pool` makes cover the tasks in order (so
`ValidHow` holds for the real pool; the theorems do not depend on it) -/
theorem poolChunksAux_flatten (size : Nat) (hs : 0 < size) (fuel : Nat) (l : List Nat)
    (hf : l.length ≤ fuel) : (poolChunksAux size fuel l).flatten = l := by
  induction fuel generalizing l with
  | zero =>
    have : l = [] := List.eq_nil_of_length_eq_zero (by omega)
    subst this; rfl
  | succ f ih =>
    cases l with
    | nil => rfl
    | cons a t =>
      unfold poolChunksAux
      rw [List.flatten_cons, ih _ (by simp only [List.length_drop, List.length_cons] at *; omega),
        List.take_append_drop]

theorem poolChunks_valid (n p : Nat) (hp : 0 < p) : ValidHow n (.async (poolChunks n p)) := by
  unfold ValidHow poolChunks
  simp only []
  by_cases h : (n + 4 * p - 1) / (4 * p) = 0
  · have h2 : n + 4 * p - 1 < 4 * p := (Nat.div_eq_zero_iff.1 h).resolve_left (by omega)
    have : n = 0 := by omega
    subst this
    rw [if_pos h]; rfl
  · simp only [h, if_false]
    exact poolChunksAux_flatten _ (Nat.pos_of_ne_zero h) n _ (by simp)

/-! ### the code before the repair (defect F5) -/

/-- a fresh multi-repetition object run in `sequential` mode stores nothing and
`results` raises (pandas: `ValueError: Length mismatch`) -/
theorem old_sequential_raises (n : Nat) (hn : 1 < n) (w : World) :
    results (runObjOld sim .sequential (mkObj n) w).1 = .error "ValueError" := by
  unfold results runObjOld mkObj
  have h1 : ¬ n = 1 := by omega
  simp [h1, hn]

/-- … and after an earlier `async` run it shows that run's (stale) table -/
theorem old_sequential_stale (n : Nat) (w : World) (chunks : List (List Nat)) :
    (runObjOld sim .sequential (runObjOld sim (.async chunks) (mkObj n) w).1 w).1.multi =
      (runObjOld sim (.async chunks) (mkObj n) w).1.multi := by
  unfold runObjOld mkObj
  by_cases h1 : n = 1 <;> simp [h1]

/-! ### non-vacuity -/

/-- `ValidHow` is satisfiable by the real pool's batching, and the statements
evaluate on a concrete instance (`sim` = the pair of draw positions). -/
theorem nonvacuous :
    ValidHow 7 (.async (poolChunks 7 1)) ∧ poolChunks 7 1 = [[0, 1], [2, 3], [4, 5], [6]] ∧
    results (runObj Prod.mk (.async [[0, 1], [2]]) (mkObj 3) ⟨none, 0⟩).1 =
      .ok [(0, ((2024, 0), (0, 0))), (1, ((2024, 0), (1, 0))), (2, ((2024, 0), (2, 0)))] ∧
    results (runObj Prod.mk .sequential (mkObj 3) ⟨none, 0⟩).1 =
      results (runObj Prod.mk (.async [[0, 1], [2]]) (mkObj 3) ⟨none, 0⟩).1 := by
  refine ⟨poolChunks_valid 7 1 (by omega), by decide, rfl, rfl⟩

end Snow.SnowingObjLemmas
