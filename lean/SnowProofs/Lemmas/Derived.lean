/-
  Inversion lemmas for the GENERATED `Gen.calculateDerived` (an `Except String` do-block):
  success of a bind / an if / a Python division, lookups as total functions, and the
  `derive_inv` tactic that turns `calculateDerived cfg = .ok c` into the facts it implies
  without restating any formula of the source (the formulas come out of the generated text).
-/
import SnowProofs.RealInst
import SnowProofs.Lemmas.Config
import SnowModel.Gen.Derived
import Mathlib.Tactic.CasesM
import Mathlib.Tactic.Ring
import Mathlib.Tactic.FieldSimp

namespace Snow.Derived
open Snow

theorem bind_ok {ε α β} {x : Except ε α} {f : α → Except ε β} {b : β} :
    (x >>= f) = .ok b ↔ ∃ a, x = .ok a ∧ f a = .ok b := by
  cases x <;> simp [bind, Except.bind]

theorem ite_ok {ε β} {c : Prop} [Decidable c] {A B : Except ε β} {b : β} :
    (if c then A else B) = .ok b ↔ (c ∧ A = .ok b) ∨ (¬c ∧ B = .ok b) := by
  split <;> simp [*]

theorem div_ok {x y r : ℝ} : Py.div x y = .ok r ↔ y ≠ 0 ∧ x / y = r := by
  unfold Py.div
  by_cases h : y = 0 <;> simp [h]

/-- `float(config[p])` as a total function (0 when the lookup raises) -/
noncomputable def getF (cfg : Cfg ℝ) (p : List String) : ℝ :=
  match cfg.floatAt p with | .ok x => x | .error _ => 0

/-- `float(config[p])` does not raise -/
def okF (cfg : Cfg ℝ) (p : List String) : Prop := ∃ x, cfg.floatAt p = .ok x

theorem floatAt_ok {cfg : Cfg ℝ} {p : List String} {a : ℝ} :
    cfg.floatAt p = .ok a ↔ okF cfg p ∧ a = getF cfg p := by
  constructor
  · intro h; exact ⟨⟨a, h⟩, by simp [getF, h]⟩
  · rintro ⟨⟨x, hx⟩, rfl⟩; simp [getF, hx]

/-- `str(config[p])` as a total function -/
def getS (cfg : Cfg ℝ) (p : List String) : String :=
  match cfg.strAt p with | .ok x => x | .error _ => ""

def okS (cfg : Cfg ℝ) (p : List String) : Prop := ∃ x, cfg.strAt p = .ok x

theorem strAt_ok {cfg : Cfg ℝ} {p : List String} {a : String} :
    cfg.strAt p = .ok a ↔ okS cfg p ∧ a = getS cfg p := by
  constructor
  · intro h; exact ⟨⟨a, h⟩, by simp [getS, h]⟩
  · rintro ⟨⟨x, hx⟩, rfl⟩; simp [getS, hx]

/-- `config[p]` used as a string object, as a total function -/
def getR (cfg : Cfg ℝ) (p : List String) : String :=
  match cfg.rawStrAt p with | .ok x => x | .error _ => ""

def okR (cfg : Cfg ℝ) (p : List String) : Prop := ∃ x, cfg.rawStrAt p = .ok x

theorem rawStrAt_ok {cfg : Cfg ℝ} {p : List String} {a : String} :
    cfg.rawStrAt p = .ok a ↔ okR cfg p ∧ a = getR cfg p := by
  constructor
  · intro h; exact ⟨⟨a, h⟩, by simp [getR, h]⟩
  · rintro ⟨⟨x, hx⟩, rfl⟩; simp [getR, hx]

/-- numeric entry of the returned dict (0 when absent or a string) -/
noncomputable def num (c : List (String × Val ℝ)) (k : String) : ℝ :=
  match c.lookup k with | some (.num x) => x | _ => 0

/-- string entry of the returned dict -/
def str (c : List (String × Val ℝ)) (k : String) : String :=
  match c.lookup k with | some (.str s) => s | _ => ""

/-- the key is present -/
def has (c : List (String × Val ℝ)) (k : String) : Prop := (c.lookup k).isSome = true

/-- invert `Gen.calculateDerived cfg = .ok c`: every successful lookup becomes `getF cfg path`,
every branch taken becomes a hypothesis, `c` becomes the explicit list of the generated text. -/
macro "derive_inv" h:ident : tactic => `(tactic| (
  unfold Gen.calculateDerived at $h:ident
  simp only [bind_ok, ite_ok, div_ok, floatAt_ok, strAt_ok, rawStrAt_ok, reduceCtorEq, and_false, or_false,
    false_or, and_true, Except.ok.injEq, Py.elem, Bool.not_eq_true', Bool.not_eq_false, List.contains_iff_mem,
    beq_iff_eq, bne_iff_ne, ne_eq, not_not] at $h:ident
  casesm* ∃ _, _, _ ∧ _, _ ∨ _
  all_goals subst_vars))

/-! ### forward evaluation of the do-block -/

theorem ok_bind {ε α β} (a : α) (f : α → Except ε β) : (Except.ok a >>= f) = f a := rfl
theorem err_bind {ε α β} (e : ε) (f : α → Except ε β) : ((Except.error e : Except ε α) >>= f) = .error e := rfl
theorem div_eval {x y : ℝ} (h : y ≠ 0) : Py.div x y = .ok (x / y) := div_ok.mpr ⟨h, rfl⟩
theorem ite_bind {ε α β} (c : Prop) [Decidable c] (A B : Except ε α) (f : α → Except ε β) :
    ((if c then A else B) >>= f) = if c then (A >>= f) else (B >>= f) := by split <;> rfl

/-- `none` = returns constants, `some e` = raises `e` -/
def outcome {α} : Except String α → Option String
  | .ok _ => none
  | .error e => some e
theorem outcome_ok {α} (a : α) : outcome (Except.ok a : Except String α) = none := rfl
theorem outcome_error {α} (e : String) : outcome (Except.error e : Except String α) = some e := rfl
theorem outcome_ite {α} (c : Prop) [Decidable c] (A B : Except String α) :
    outcome (if c then A else B) = if c then outcome A else outcome B := by split <;> rfl
theorem ok_iff_outcome {α} (X : Except String α) : (∃ c, X = .ok c) ↔ outcome X = none := by
  cases X <;> simp [outcome]
theorem error_iff_outcome {α} (X : Except String α) (e : String) : X = .error e ↔ outcome X = some e := by
  cases X <;> simp [outcome]

end Snow.Derived
