/-
  List lemmas for the table model (`SnowModel/Frames.lean`): indexing into a
  `flatMap` of equally long blocks, the slice index list.
-/
import SnowModel.Frames

namespace Snow.FramesLemmas
open Snow.Frames

theorem flatMap_length_block {α β : Type} (l : List α) (f : α → List β) (N : Nat)
    (h : ∀ x ∈ l, (f x).length = N) : (l.flatMap f).length = l.length * N := by
  induction l with
  | nil => simp
  | cons a l ih =>
    rw [List.flatMap_cons, List.length_append, ih (fun x hx => h x (List.mem_cons_of_mem _ hx)),
      h a (List.mem_cons_self ..), List.length_cons, Nat.succ_mul]
    omega

/-- entry `j * N + v` of a concatenation of blocks of length `N` is entry `v` of block `j` -/
theorem flatMap_getElem?_block {α β : Type} (l : List α) (f : α → List β) (N : Nat)
    (h : ∀ x ∈ l, (f x).length = N) (j v : Nat) (hv : v < N) :
    (l.flatMap f)[j * N + v]? = (l[j]?).bind fun x => (f x)[v]? := by
  induction l generalizing j with
  | nil => simp
  | cons a l ih =>
    have ha : (f a).length = N := h a (List.mem_cons_self ..)
    have hl : ∀ x ∈ l, (f x).length = N := fun x hx => h x (List.mem_cons_of_mem _ hx)
    rw [List.flatMap_cons]
    cases j with
    | zero =>
      rw [Nat.zero_mul, Nat.zero_add, List.getElem?_append_left (by omega)]
      simp
    | succ j =>
      have hge : (f a).length ≤ (j + 1) * N + v := by rw [ha, Nat.succ_mul]; omega
      rw [List.getElem?_append_right hge, ha]
      have : (j + 1) * N + v - N = j * N + v := by rw [Nat.succ_mul]; omega
      rw [this, ih hl]
      simp

theorem flatMap_congr' {α β : Type} {l : List α} {f g : α → List β} (h : ∀ x ∈ l, f x = g x) :
    l.flatMap f = l.flatMap g := by
  induction l with
  | nil => rfl
  | cons a l ih =>
    rw [List.flatMap_cons, List.flatMap_cons, h a (List.mem_cons_self ..),
      ih (fun x hx => h x (List.mem_cons_of_mem _ hx))]

theorem sliceIdx_length (len s : Nat) : (sliceIdx len s).length = (len + s - 1) / s := by
  simp [sliceIdx]

theorem sliceIdx_getElem? (len s k : Nat) (hk : k < (len + s - 1) / s) :
    (sliceIdx len s)[k]? = some (k * s) := by
  simp [sliceIdx, hk]

/-- every selected index is inside the sequence -/
theorem sliceIdx_lt (len s k : Nat) (hs : 0 < s) (hk : k < (len + s - 1) / s) : k * s < len := by
  have h1 : (k + 1) * s ≤ len + s - 1 := (Nat.le_div_iff_mul_le hs).1 hk
  rw [Nat.succ_mul] at h1
  omega

end Snow.FramesLemmas
