/-
  Lemmas about `cntOf` (model of `OperatingConditions.cnt`) and `kCNof` over ℝ.
-/
import SnowProofs.Props.C05
import SnowModel.Flake
import Mathlib.Algebra.Order.Floor.Semiring
import Mathlib.Algebra.Order.Floor.Ring
import Mathlib.Tactic.NormNum
import Mathlib.Tactic.Linarith
import Mathlib.Tactic.Ring
import Mathlib.Tactic.FieldSimp
import Mathlib.Tactic.Positivity

namespace Snow.CNT
open Snow Num List Snow.OpCondLemmas

/-! ### (1) `cntOf` is the greatest index with `T ≥ cn` -/

theorem argmaxBool_eq (p : ℝ → Bool) (xs : List ℝ) :
    argmaxBool p xs = match xs.findIdx? p with | some i => i | none => 0 := rfl

/-- uniqueness: an index `c` with `cn ≤ T1[c]` and all later samples `< cn` is `cntOf`. -/
theorem cntOf_unique (T1 : List ℝ) (cn : ℝ) (c : ℕ) (hc : c < T1.length) (hge : cn ≤ T1[c])
    (hlt : ∀ j (hj : j < T1.length), c < j → T1[j] < cn) : cntOf T1 cn = c := by
  have hfind : T1.reverse.findIdx? (fun x => decide (cn ≤ x)) = some (T1.length - 1 - c) := by
    rw [List.findIdx?_eq_some_iff_getElem]
    refine ⟨by simp; omega, ?_, ?_⟩
    · simp only [List.getElem_reverse, decide_eq_true_eq]
      have : T1.length - 1 - (T1.length - 1 - c) = c := by omega
      simpa [this] using hge
    · intro j hj
      simp only [List.getElem_reverse, decide_eq_true_eq, not_le]
      exact hlt _ (by omega) (by omega)
  unfold cntOf argmaxBool
  rw [hfind]
  simp only
  omega

/-- (a) if some sample is `≥ cn`, `cntOf` is the GREATEST index with `T ≥ cn`. -/
theorem cntOf_spec (T1 : List ℝ) (cn : ℝ) (hex : ∃ x ∈ T1, cn ≤ x) :
    ∃ h : cntOf T1 cn < T1.length, cn ≤ T1[cntOf T1 cn] ∧
      ∀ j (hj : j < T1.length), cntOf T1 cn < j → T1[j] < cn := by
  obtain ⟨x, hx, hcx⟩ := hex
  have hne : T1.reverse.findIdx? (fun x => decide (cn ≤ x)) ≠ none := by
    rw [Ne, List.findIdx?_eq_none_iff]
    intro hall
    have := hall x (by simpa using hx)
    simp at this
    linarith
  obtain ⟨i, hi⟩ := Option.ne_none_iff_exists'.mp hne
  have hi' := hi
  rw [List.findIdx?_eq_some_iff_getElem] at hi'
  obtain ⟨hil, hpi, hmin⟩ := hi'
  simp only [List.length_reverse] at hil
  simp only [List.getElem_reverse, decide_eq_true_eq] at hpi
  have hc : cntOf T1 cn = T1.length - 1 - i := by
    unfold cntOf argmaxBool; rw [hi]
  rw [hc]
  refine ⟨by omega, hpi, ?_⟩
  intro j hj hcj
  have := hmin (T1.length - 1 - j) (by omega)
  simp only [List.getElem_reverse, decide_eq_true_eq, not_le] at this
  have e : T1.length - 1 - (T1.length - 1 - j) = j := by omega
  simpa [e] using this

/-- the antitone form used by `C05.profile_antitone` -/
def Antitone' (T1 : List ℝ) : Prop :=
  ∀ i (hi : i + 1 < T1.length), T1[i + 1] ≤ T1[i]

theorem antitone_le {T1 : List ℝ} (ha : Antitone' T1) {i j : ℕ} (hij : i ≤ j) (hj : j < T1.length) :
    T1[j] ≤ T1[i]'(by omega) := by
  induction j with
  | zero =>
    have : i = 0 := by omega
    subst this; exact le_refl _
  | succ k ih =>
    rcases Nat.lt_or_ge i (k + 1) with h | h
    · exact le_trans (ha k hj) (ih (by omega) (by omega))
    · have : i = k + 1 := by omega
      subst this; exact le_refl _

/-- (c) on an antitone list, `{j | cn ≤ T1[j]} = [0, cntOf]`. -/
theorem cntOf_antitone (T1 : List ℝ) (cn : ℝ) (hex : ∃ x ∈ T1, cn ≤ x) (ha : Antitone' T1) :
    ∃ h : cntOf T1 cn < T1.length,
      (∀ j (hj : j ≤ cntOf T1 cn), cn ≤ T1[j]'(by omega)) ∧
      (∀ j (hj : j < T1.length), cntOf T1 cn < j → T1[j] < cn) := by
  obtain ⟨h, hge, hlt⟩ := cntOf_spec T1 cn hex
  exact ⟨h, fun j hj => le_trans hge (antitone_le ha hj h), hlt⟩

/-- on an antitone list, `cn ≤ T1[j] ↔ j ≤ cntOf T1 cn`. -/
theorem cntOf_antitone_iff (T1 : List ℝ) (cn : ℝ) (hex : ∃ x ∈ T1, cn ≤ x) (ha : Antitone' T1)
    (j : ℕ) (hj : j < T1.length) : cn ≤ T1[j] ↔ j ≤ cntOf T1 cn := by
  obtain ⟨h, hle, hlt⟩ := cntOf_antitone T1 cn hex ha
  constructor
  · intro hge
    by_contra hcon
    have := hlt j hj (by omega)
    linarith
  · intro hjc; exact hle j hjc

/-- (d) no sample reaches `cn` (numpy `argmax` of all-`False` is 0): the LAST time. -/
theorem cnt_no_sample (T1 : List ℝ) (cn : ℝ) (hall : ∀ x ∈ T1, x < cn) :
    cntOf T1 cn = T1.length - 1 := by
  have hnone : T1.reverse.findIdx? (fun x => decide (cn ≤ x)) = none := by
    rw [List.findIdx?_eq_none_iff]
    intro x hx
    have := hall x (by simpa using hx)
    simp only [decide_eq_false_iff_not, not_le]; exact this
  unfold cntOf argmaxBool
  rw [hnone]
  simp only [Nat.sub_zero]

/-- all samples are `≥ cn`: again the last time. -/
theorem cnt_all_samples (T1 : List ℝ) (cn : ℝ) (hne : T1 ≠ []) (hall : ∀ x ∈ T1, cn ≤ x) :
    cntOf T1 cn = T1.length - 1 := by
  have hl : 0 < T1.length := List.length_pos_iff.mpr hne
  refine cntOf_unique T1 cn (T1.length - 1) (by omega) (hall _ (List.getElem_mem _)) ?_
  intro j hj hcj; omega

theorem profile_antitone' (oc : OpCond ℝ) (h : C05.WF oc 1) : Antitone' (profile oc 1) :=
  fun i hi => C05.profile_antitone oc 1 h i hi

/-- **cnt is the last sample time at or above `cnTemp`**: on the 1-second profile of a
well-formed program, if `cn` is reached at all (`cn ≤ start` suffices, see
`cnt_is_last_of_le_start`), then `c = cntOf` is a valid sample index and the samples
`≥ cn` are exactly those with index `≤ c`. -/
theorem cnt_is_last (oc : OpCond ℝ) (cn : ℝ) (h : C05.WF oc 1)
    (hex : ∃ x ∈ profile oc 1, cn ≤ x) :
    ∃ hc : cntOf (profile oc 1) cn < (profile oc 1).length,
      cn ≤ (profile oc 1)[cntOf (profile oc 1) cn] ∧
      (∀ j (hj : j ≤ cntOf (profile oc 1) cn), cn ≤ (profile oc 1)[j]'(by omega)) ∧
      (∀ j (hj : j < (profile oc 1).length), cntOf (profile oc 1) cn < j → (profile oc 1)[j] < cn) := by
  obtain ⟨hc, hle, hlt⟩ := cntOf_antitone (profile oc 1) cn hex (profile_antitone' oc h)
  exact ⟨hc, hle _ (le_refl _), hle, hlt⟩

/-- `cn ≤ start` suffices for `cn` to be reached (the first sample is `start`). -/
theorem exists_sample_of_le_start (oc : OpCond ℝ) (cn : ℝ) (h : C05.WF oc 1) (hcn : cn ≤ oc.start) :
    ∃ x ∈ profile oc 1, cn ≤ x :=
  ⟨oc.start, List.mem_of_mem_head? (by rw [C05.profile_head oc 1 h]; rfl), hcn⟩

theorem cnt_is_last_of_le_start (oc : OpCond ℝ) (cn : ℝ) (h : C05.WF oc 1) (hcn : cn ≤ oc.start) :
    ∃ hc : cntOf (profile oc 1) cn < (profile oc 1).length,
      cn ≤ (profile oc 1)[cntOf (profile oc 1) cn] ∧
      (∀ j (hj : j ≤ cntOf (profile oc 1) cn), cn ≤ (profile oc 1)[j]'(by omega)) ∧
      (∀ j (hj : j < (profile oc 1).length), cntOf (profile oc 1) cn < j → (profile oc 1)[j] < cn) :=
  cnt_is_last oc cn h (exists_sample_of_le_start oc cn h hcn)

/-- `cnTemp` above the start temperature: no sample reaches it, numpy's `argmax` of an
all-`False` array is 0, and the code returns the LAST time of the process. -/
theorem cnt_above_start (oc : OpCond ℝ) (cn : ℝ) (h : C05.WF oc 1) (hcn : oc.start < cn) :
    cntOf (profile oc 1) cn = nSteps oc.t_tot 1 - 1 := by
  rw [← C05.profile_length oc 1]
  exact cnt_no_sample _ cn fun x hx => lt_of_le_of_lt (C05.profile_bounds oc 1 h x hx).2 hcn

/-- `cnTemp` at or below the end temperature: every sample reaches it, again the last time. -/
theorem cnt_below_stop (oc : OpCond ℝ) (cn : ℝ) (h : C05.WF oc 1) (hcn : cn ≤ oc.stop) :
    cntOf (profile oc 1) cn = nSteps oc.t_tot 1 - 1 := by
  have hl : (profile oc 1).length = nSteps oc.t_tot 1 := C05.profile_length oc 1
  have hne : profile oc 1 ≠ [] := by
    intro he
    have := C05.nSteps_pos h.ttot_nonneg h.dt_pos
    rw [← hl, he] at this; simp at this
  rw [← hl]
  exact cnt_all_samples _ cn hne fun x hx => le_trans hcn (C05.profile_bounds oc 1 h x hx).1

/-! ### (3) the controlled-nucleation step index `kCNof` -/

theorem arangeLen_mul (N : ℕ) {dt : ℝ} (hdt : 0 < dt) :
    arangeLen ((ofNat' N : ℝ) * dt) dt = N := by
  unfold arangeLen
  simp only [ceilInt_real, ofNat'_real]
  rw [mul_div_assoc, div_self hdt.ne', mul_one, Int.ceil_natCast, Int.toNat_natCast]

/-- the simulation time vector `np.arange(N) * dt` is `[0, dt, …, (N-1)·dt]` -/
theorem timeVec_real (N : ℕ) {dt : ℝ} (_hdt : 0 < dt) :
    Flake.timeVec N dt = (List.range N).map (fun (k : ℕ) => (k : ℝ) * dt) := by
  unfold Flake.timeVec
  apply List.map_congr_left
  intro k _
  simp [Flake.timeAt]

theorem timeVec_length (N : ℕ) {dt : ℝ} (hdt : 0 < dt) : (Flake.timeVec N dt).length = N := by
  rw [timeVec_real N hdt]; simp

/-- no controlled nucleation requested (`cnt = inf`): the index `N + 1`. -/
theorem kCNof_none (N : ℕ) (t : List ℝ) : Flake.kCNof N t none = N + 1 := rfl

/-- if some step time reaches `c`, `kCNof` is the FIRST step `k` with `c ≤ k·dt`. -/
theorem kCNof_some_spec (N : ℕ) (dt c : ℝ) (hdt : 0 < dt) (hex : ∃ k < N, c ≤ (k : ℝ) * dt) :
    Flake.kCNof N (Flake.timeVec N dt) (some c) < N ∧
    c ≤ (Flake.kCNof N (Flake.timeVec N dt) (some c) : ℝ) * dt ∧
    ∀ j < Flake.kCNof N (Flake.timeVec N dt) (some c), (j : ℝ) * dt < c := by
  obtain ⟨k, hkN, hck⟩ := hex
  have hne : (Flake.timeVec N dt).findIdx? (fun x => decide (c ≤ x)) ≠ none := by
    rw [Ne, List.findIdx?_eq_none_iff]
    intro hall
    have := hall ((k : ℝ) * dt) (by
      rw [timeVec_real N hdt]
      exact List.mem_map.mpr ⟨k, List.mem_range.mpr hkN, rfl⟩)
    simp only [decide_eq_false_iff_not, not_le] at this
    linarith
  obtain ⟨i, hi⟩ := Option.ne_none_iff_exists'.mp hne
  have hk : Flake.kCNof N (Flake.timeVec N dt) (some c) = i := by
    unfold Flake.kCNof; simp only [hi]
  rw [hk]
  rw [List.findIdx?_eq_some_iff_getElem] at hi
  obtain ⟨hil, hpi, hmin⟩ := hi
  have hil' : i < N := by rwa [timeVec_length N hdt] at hil
  refine ⟨hil', ?_, ?_⟩
  · simpa [timeVec_real N hdt] using hpi
  · intro j hj
    have := hmin j hj
    simpa [timeVec_real N hdt] using this

/-- if no step time reaches `c`, the index is `N + 1`, a value the loop index never takes. -/
theorem kCNof_some_none (N : ℕ) (dt c : ℝ) (hdt : 0 < dt) (hno : ∀ k < N, (k : ℝ) * dt < c) :
    Flake.kCNof N (Flake.timeVec N dt) (some c) = N + 1 := by
  have hnone : (Flake.timeVec N dt).findIdx? (fun x => decide (c ≤ x)) = none := by
    rw [List.findIdx?_eq_none_iff]
    intro x hx
    rw [timeVec_real N hdt] at hx
    obtain ⟨k, hk, rfl⟩ := List.mem_map.mp hx
    have := hno k (List.mem_range.mp hk)
    simp only [decide_eq_false_iff_not, not_le]; exact this
  unfold Flake.kCNof; simp only [hnone]

/-- closed form: `kCN = ⌈c/dt⌉` when that step exists (`c ≥ 0` is automatic for `c = cnt`). -/
theorem kCNof_eq_ceil (N : ℕ) (dt c : ℝ) (hdt : 0 < dt) (hN : ⌈c / dt⌉₊ < N) :
    Flake.kCNof N (Flake.timeVec N dt) (some c) = ⌈c / dt⌉₊ := by
  have hle : c ≤ (⌈c / dt⌉₊ : ℝ) * dt := by
    have := Nat.le_ceil (c / dt)
    calc c = (c / dt) * dt := by field_simp
      _ ≤ (⌈c / dt⌉₊ : ℝ) * dt := by gcongr
  obtain ⟨h1, h2, h3⟩ := kCNof_some_spec N dt c hdt ⟨_, hN, hle⟩
  set kc := Flake.kCNof N (Flake.timeVec N dt) (some c) with hkc
  apply le_antisymm
  · by_contra hcon
    have := h3 ⌈c / dt⌉₊ (by omega)
    linarith
  · rw [Nat.ceil_le, div_le_iff₀ hdt]; exact h2

theorem cntTime_some (oc : OpCond ℝ) (cn : ℝ) :
    Flake.cntTime oc (some cn) = some ((cntOf (profile oc 1) cn : ℕ) : ℝ) := by
  simp [Flake.cntTime]

theorem cntTime_none (oc : OpCond ℝ) : Flake.cntTime oc none = none := rfl

/-- **controlled nucleation fires at the first step at or after `cnt`**: with
`c = cntOf (profile oc 1) cn` seconds and `kc = kCNof N (timeVec N dt) (cntTime oc (some cn))`:
if some step time `k·dt` (`k < N`) reaches `c`, then `kc < N`, `c ≤ kc·dt`, every earlier step is
strictly before `c` (so `(kc-1)·dt < c ≤ kc·dt`), and `kc = ⌈c/dt⌉`; otherwise `kc = N + 1`,
which no loop index `k < N` equals. -/
theorem kCN_first_step (oc : OpCond ℝ) (cn : ℝ) (N : ℕ) (dt : ℝ) (hdt : 0 < dt) :
    let c := cntOf (profile oc 1) cn
    let kc := Flake.kCNof N (Flake.timeVec N dt) (Flake.cntTime oc (some cn))
    ((∃ k < N, (c : ℝ) ≤ (k : ℝ) * dt) →
        kc < N ∧ (c : ℝ) ≤ (kc : ℝ) * dt ∧ (∀ j < kc, (j : ℝ) * dt < c) ∧
        (0 < kc → ((kc : ℝ) - 1) * dt < c) ∧ kc = ⌈(c : ℝ) / dt⌉₊) ∧
    ((∀ k < N, (k : ℝ) * dt < c) → kc = N + 1) := by
  intro c kc
  have hkc : kc = Flake.kCNof N (Flake.timeVec N dt) (some (c : ℝ)) := by
    simp only [kc, cntTime_some]; rfl
  constructor
  · intro hex
    obtain ⟨h1, h2, h3⟩ := kCNof_some_spec N dt c hdt hex
    rw [← hkc] at h1 h2 h3
    refine ⟨h1, h2, h3, ?_, ?_⟩
    · intro hpos
      have := h3 (kc - 1) (by omega)
      have e : ((kc - 1 : ℕ) : ℝ) = (kc : ℝ) - 1 := by
        rw [Nat.cast_sub (by omega)]; simp
      rwa [e] at this
    · have hceil : ⌈(c : ℝ) / dt⌉₊ ≤ kc := by
        rw [Nat.ceil_le, div_le_iff₀ hdt]; exact h2
      rw [hkc]
      exact kCNof_eq_ceil N dt c hdt (by omega)
  · intro hno
    rw [hkc]; exact kCNof_some_none N dt c hdt hno

/-! ### (2) the trigger time is the end of the hold / the ramp crossing -/

theorem segments_append (rate dt : ℝ) (Ts : ℝ) (a b : List (Hold ℝ)) :
    segments rate dt Ts (a ++ b) = segments rate dt Ts a ++ segments rate dt (lastTemp Ts a) b := by
  induction a generalizing Ts with
  | nil => simp [segments, lastTemp]
  | cons h t ih => simp [segments, lastTemp, ih, List.append_assoc]

theorem segments_length (rate dt Ts : ℝ) (h : Hold ℝ) (hs : List (Hold ℝ)) :
    (segments rate dt Ts (h :: hs)).length
      = arangeLen ((Ts - h.temp) / rate) dt + holdCount Ts h.temp rate h.duration dt
        + (segments rate dt h.temp hs).length := by
  simp [segments, simpleCool]; omega

theorem lastTemp_append (Ts : ℝ) (a b : List (Hold ℝ)) :
    lastTemp Ts (a ++ b) = lastTemp (lastTemp Ts a) b := by
  induction a generalizing Ts with
  | nil => simp [lastTemp]
  | cons h t ih => simp [lastTemp, ih]

theorem desc_append {Ts : ℝ} {a b : List (Hold ℝ)} :
    Desc Ts (a ++ b) ↔ Desc Ts a ∧ Desc (lastTemp Ts a) b := by
  induction a generalizing Ts with
  | nil => simp [Desc, lastTemp]
  | cons h t ih => simp [Desc, lastTemp, ih, and_assoc]

theorem simpleCool_length (Ts Th rate dt : ℝ) :
    (simpleCool Ts Th rate dt).length = arangeLen ((Ts - Th) / rate) dt := by
  simp [simpleCool]

theorem simpleCool_getElem (Ts Th rate dt : ℝ) (i : ℕ) (hi : i < (simpleCool Ts Th rate dt).length) :
    (simpleCool Ts Th rate dt)[i] = Ts - ((i : ℝ) * dt) * rate := by
  simp [simpleCool]

/-- the continuous-time length of the completed ramp+hold pairs of a hold list -/
noncomputable def contEnd (rate : ℝ) : ℝ → List (Hold ℝ) → ℝ
  | _, [] => 0
  | Ts, h :: hs => (Ts - h.temp) / rate + h.duration + contEnd rate h.temp hs

/-- locating the greatest index `≥ cn` in a three-part list -/
theorem split_spec (A B C : List ℝ) (cn : ℝ) (k : ℕ) (hk : k < B.length) (hge : cn ≤ B[k])
    (hB : ∀ j (hj : j < B.length), k < j → B[j] < cn) (hC : ∀ x ∈ C, x < cn) :
    ∃ h : A.length + k < (A ++ (B ++ C)).length, cn ≤ (A ++ (B ++ C))[A.length + k] ∧
      ∀ j (hj : j < (A ++ (B ++ C)).length), A.length + k < j → (A ++ (B ++ C))[j] < cn := by
  refine ⟨by simp; omega, ?_, ?_⟩
  · rw [List.getElem_append_right (by omega), List.getElem_append_left (by omega)]
    simpa using hge
  · intro j hj hcj
    rw [List.getElem_append_right (by omega)]
    by_cases hjB : j - A.length < B.length
    · rw [List.getElem_append_left hjB]
      exact hB _ hjB (by omega)
    · rw [List.getElem_append_right (by omega)]
      exact hC _ (List.getElem_mem _)

/-- `cntOf` of a truncated and padded list -/
theorem cntOf_take_pad (S : List ℝ) (cn v : ℝ) (n m c : ℕ) (hcn : c < n) (hc : c < S.length)
    (hge : cn ≤ S[c]) (hlt : ∀ j (hj : j < S.length), c < j → S[j] < cn) (hv : v < cn) :
    cntOf (S.take n ++ List.replicate m v) cn = c := by
  have hct : c < (S.take n).length := by simp; omega
  refine cntOf_unique _ cn c (by simp; omega) ?_ ?_
  · rw [List.getElem_append_left hct, List.getElem_take]; exact hge
  · intro j hj hcj
    by_cases hjt : j < (S.take n).length
    · rw [List.getElem_append_left hjt, List.getElem_take]
      exact hlt j (by simp at hjt; omega) hcj
    · rw [List.getElem_append_right (by omega), List.getElem_replicate]; exact hv

/-- **index of the trigger**: if the next plateau `p` is strictly below `cn ≤ Ts'` (the
temperature of the last completed hold, or the start temperature), `cnt` is the number `M` of
samples of the completed ramp+hold pairs plus `⌊(Ts' - cn)/rate⌋` ramp samples. -/
theorem cnt_index (oc : OpCond ℝ) (cn : ℝ) (h : C05.WF oc 1)
    (pre : List (Hold ℝ)) (p : Hold ℝ) (rest : List (Hold ℝ))
    (hsplit : allHolds oc = pre ++ p :: rest)
    (hlo : p.temp < cn) (hhi : cn ≤ lastTemp oc.start pre)
    (hin : (segments oc.rate 1 oc.start pre).length + ⌊(lastTemp oc.start pre - cn) / oc.rate⌋₊
      < nSteps oc.t_tot 1) :
    cntOf (profile oc 1) cn
      = (segments oc.rate 1 oc.start pre).length + ⌊(lastTemp oc.start pre - cn) / oc.rate⌋₊ := by
  have hr := h.rate_pos
  have hd : Desc oc.start (allHolds oc) := desc_append_singleton h.desc h.stop_le
  rw [hsplit, desc_append] at hd
  obtain ⟨hdpre, hdp, hdrest⟩ := hd
  set Ts' := lastTemp oc.start pre with hTs'
  set x := (Ts' - cn) / oc.rate with hx
  set k := ⌊x⌋₊ with hk
  have hx0 : 0 ≤ x := div_nonneg (by linarith) hr.le
  have hkx : (k : ℝ) ≤ x := Nat.floor_le hx0
  have hxk : x < (k : ℝ) + 1 := Nat.lt_floor_add_one x
  -- the stop temperature is below `cn`
  have hstop : oc.stop ≤ p.temp := by
    have e : lastTemp oc.start (allHolds oc) = oc.stop := by
      simp [allHolds, lastTemp_append_singleton]
    rw [hsplit, lastTemp_append] at e
    rw [← e]
    simpa [lastTemp] using lastTemp_le hdrest
  -- the decomposition of the concatenation
  set A := segments oc.rate 1 oc.start pre with hA
  set B := simpleCool Ts' p.temp oc.rate 1 with hB
  set C := List.replicate (holdCount Ts' p.temp oc.rate p.duration 1) p.temp
      ++ segments oc.rate 1 p.temp rest with hC
  have hsegs : segments oc.rate 1 oc.start (allHolds oc) = A ++ (B ++ C) := by
    rw [hsplit, segments_append]; simp [segments, hA, hB, hC, hTs']
  -- k is a ramp index
  have hxy : x < (Ts' - p.temp) / oc.rate := by
    apply div_lt_div_of_pos_right _ hr; linarith
  have hkB : k < B.length := by
    rw [hB, simpleCool_length]
    have := arangeLen_ge (tEnd := (Ts' - p.temp) / oc.rate) (dt := 1) one_pos
    have : (k : ℝ) < (arangeLen ((Ts' - p.temp) / oc.rate) 1 : ℝ) := by linarith
    exact_mod_cast this
  have hBk : cn ≤ B[k] := by
    simp only [hB, simpleCool_getElem]
    have : (k : ℝ) * oc.rate ≤ Ts' - cn := by
      have := mul_le_mul_of_nonneg_right hkx hr.le
      rwa [hx, div_mul_cancel₀ _ hr.ne'] at this
    linarith
  have hBj : ∀ j (hj : j < B.length), k < j → B[j] < cn := by
    intro j hj hkj
    simp only [hB, simpleCool_getElem]
    have hj1 : (k : ℝ) + 1 ≤ (j : ℝ) := by exact_mod_cast hkj
    have : Ts' - cn < (j : ℝ) * oc.rate := by
      have := mul_lt_mul_of_pos_right (lt_of_lt_of_le hxk hj1) hr
      rwa [hx, div_mul_cancel₀ _ hr.ne'] at this
    linarith
  have hCx : ∀ y ∈ C, y < cn := by
    intro y hy
    rcases List.mem_append.mp hy with hy | hy
    · rw [List.eq_of_mem_replicate hy]; exact hlo
    · have := (good_segments one_pos hr p.temp rest hdrest).bounds y hy
      linarith
  obtain ⟨hlen, hge, hlt⟩ := split_spec A B C cn k hkB hBk hBj hCx
  have hprof : profile oc 1 =
      (A ++ (B ++ C)).take (nSteps oc.t_tot 1) ++
        List.replicate (nSteps oc.t_tot 1 - ((A ++ (B ++ C)).take (nSteps oc.t_tot 1)).length) oc.stop := by
    rw [← hsegs]; rfl
  rw [hprof]
  exact cntOf_take_pad _ cn oc.stop _ _ _ hin hlen hge hlt (lt_of_le_of_lt hstop hlo)

/-- **sampling slip of the completed pairs**: `M` samples (time `M·dt`) against the continuous
duration `contEnd`; each of the `2·|pre|` program segments shifts the clock by less than a step. -/
theorem segments_slip (rate dt : ℝ) (hdt : 0 < dt) (hr : 0 < rate) :
    ∀ (Ts : ℝ) (pre : List (Hold ℝ)), Desc Ts pre → (∀ h ∈ pre, 0 ≤ h.duration) →
      (contEnd rate Ts pre - pre.length * dt ≤ ((segments rate dt Ts pre).length : ℝ) * dt ∧
       ((segments rate dt Ts pre).length : ℝ) * dt ≤ contEnd rate Ts pre + 2 * pre.length * dt) ∧
      (pre ≠ [] →
        contEnd rate Ts pre - pre.length * dt < ((segments rate dt Ts pre).length : ℝ) * dt ∧
        ((segments rate dt Ts pre).length : ℝ) * dt < contEnd rate Ts pre + 2 * pre.length * dt) := by
  intro Ts pre
  induction pre generalizing Ts with
  | nil => intro _ _; simp [segments, contEnd]
  | cons a t ih =>
    intro hd hdur
    obtain ⟨⟨ih1, ih2⟩, _⟩ := ih a.temp hd.2 (fun h hh => hdur h (List.mem_cons_of_mem _ hh))
    have hs := C05.segment_slip Ts a.temp rate a.duration dt hdt hr hd.1 (hdur a (by simp))
    simp only at hs
    obtain ⟨hs1, hs2⟩ := hs
    have hlen : ((segments rate dt Ts (a :: t)).length : ℝ) * dt
        = ((arangeLen ((Ts - a.temp) / rate) dt + holdCount Ts a.temp rate a.duration dt : ℕ) : ℝ) * dt
          + ((segments rate dt a.temp t).length : ℝ) * dt := by
      rw [segments_length]; push_cast; ring
    have hn : (((a :: t).length : ℕ) : ℝ) = (t.length : ℝ) + 1 := by simp
    have hstrict :
        contEnd rate Ts (a :: t) - ((a :: t).length : ℕ) * dt
            < ((segments rate dt Ts (a :: t)).length : ℝ) * dt ∧
        ((segments rate dt Ts (a :: t)).length : ℝ) * dt
            < contEnd rate Ts (a :: t) + 2 * ((a :: t).length : ℕ) * dt := by
      rw [hlen, hn]
      simp only [contEnd]
      constructor
      · linarith
      · linarith
    exact ⟨⟨hstrict.1.le, hstrict.2.le⟩, fun _ => hstrict⟩

/-- `segments_slip` at `dt = 1`, in samples. -/
theorem segments_slip_one (rate : ℝ) (hr : 0 < rate) (Ts : ℝ) (pre : List (Hold ℝ))
    (hd : Desc Ts pre) (hdur : ∀ h ∈ pre, 0 ≤ h.duration) :
    (contEnd rate Ts pre - pre.length ≤ ((segments rate 1 Ts pre).length : ℝ) ∧
     ((segments rate 1 Ts pre).length : ℝ) ≤ contEnd rate Ts pre + 2 * pre.length) ∧
    (pre ≠ [] →
      contEnd rate Ts pre - pre.length < ((segments rate 1 Ts pre).length : ℝ) ∧
      ((segments rate 1 Ts pre).length : ℝ) < contEnd rate Ts pre + 2 * pre.length) := by
  simpa using segments_slip rate 1 one_pos hr Ts pre hd hdur

/-- **cnt is the end of the hold at `cnTemp` / the ramp crossing, up to the sampling slip.**

Program `oc` (well-formed, 1-second profile), hold list `allHolds oc = pre ++ p :: rest`
(including the final plateau), `Ts'` the temperature of the last hold of `pre` (the start
temperature if `pre = []`), and `p.temp < cn ≤ Ts'`. `E = contEnd + (Ts' - cn)/rate` is the
continuous time at which the program leaves `[cn, ∞)`: the end of the hold at `cn` when
`cn = Ts'`, else the crossing on the following ramp. If the trigger index lies within the
process, then `cnt = M + ⌊x⌋` exactly, and `cnt` is within `2·|pre| + 1` seconds of `E`
(`2·|pre| + 1` = number of program segments, ramps and holds, up to and including the ramp
carrying the trigger). -/
theorem cnt_end_of_hold (oc : OpCond ℝ) (cn : ℝ) (h : C05.WF oc 1)
    (pre : List (Hold ℝ)) (p : Hold ℝ) (rest : List (Hold ℝ))
    (hsplit : allHolds oc = pre ++ p :: rest)
    (hdur : ∀ a ∈ pre, 0 ≤ a.duration)
    (hlo : p.temp < cn) (hhi : cn ≤ lastTemp oc.start pre)
    (hin : (segments oc.rate 1 oc.start pre).length + ⌊(lastTemp oc.start pre - cn) / oc.rate⌋₊
      < nSteps oc.t_tot 1) :
    let x := (lastTemp oc.start pre - cn) / oc.rate
    let M := (segments oc.rate 1 oc.start pre).length
    let E := contEnd oc.rate oc.start pre + x
    let cnt := cntOf (profile oc 1) cn
    cnt = M + ⌊x⌋₊ ∧
    E - pre.length - 1 < (cnt : ℝ) ∧ (cnt : ℝ) ≤ E + 2 * pre.length ∧
    (pre ≠ [] → (cnt : ℝ) < E + 2 * pre.length) ∧
    |(cnt : ℝ) - E| < 2 * pre.length + 1 := by
  intro x M E cnt
  have hr := h.rate_pos
  have hd : Desc oc.start (allHolds oc) := desc_append_singleton h.desc h.stop_le
  rw [hsplit, desc_append] at hd
  have hidx : cnt = M + ⌊x⌋₊ := cnt_index oc cn h pre p rest hsplit hlo hhi hin
  have hx0 : 0 ≤ x := div_nonneg (by linarith) hr.le
  have hkx : (⌊x⌋₊ : ℝ) ≤ x := Nat.floor_le hx0
  have hxk : x < (⌊x⌋₊ : ℝ) + 1 := Nat.lt_floor_add_one x
  obtain ⟨⟨hs1, hs2⟩, hs3⟩ := segments_slip_one oc.rate hr oc.start pre hd.1 hdur
  have hcast : (cnt : ℝ) = (M : ℝ) + (⌊x⌋₊ : ℝ) := by rw [hidx]; push_cast; ring
  have hn0 : (0 : ℝ) ≤ (pre.length : ℝ) := Nat.cast_nonneg _
  have hE : E = contEnd oc.rate oc.start pre + x := rfl
  have hM : (M : ℝ) = ((segments oc.rate 1 oc.start pre).length : ℝ) := rfl
  refine ⟨hidx, by rw [hcast, hE]; linarith, by rw [hcast, hE]; linarith, ?_, ?_⟩
  · intro hne
    have := hs3 hne
    rw [hcast, hE]; linarith [this.2]
  · rw [abs_lt, hcast, hE]
    constructor <;> linarith

/-- **hold case**: `cn` equals the temperature of a hold (`cn = Ts'`, `pre ≠ []`). Then `cnt`
is exactly the number of samples of the completed ramp+hold pairs and lies within
`2·|pre|` seconds (`2·|pre|` = number of program segments up to and including that hold) of
the continuous end `E = contEnd` of the hold: `E - |pre| < cnt < E + 2·|pre|`. -/
theorem cnt_end_of_hold_exact (oc : OpCond ℝ) (cn : ℝ) (h : C05.WF oc 1)
    (pre : List (Hold ℝ)) (p : Hold ℝ) (rest : List (Hold ℝ))
    (hsplit : allHolds oc = pre ++ p :: rest) (hpre : pre ≠ [])
    (hdur : ∀ a ∈ pre, 0 ≤ a.duration)
    (hlo : p.temp < cn) (hcn : cn = lastTemp oc.start pre)
    (hin : (segments oc.rate 1 oc.start pre).length < nSteps oc.t_tot 1) :
    let M := (segments oc.rate 1 oc.start pre).length
    let E := contEnd oc.rate oc.start pre
    let cnt := cntOf (profile oc 1) cn
    cnt = M ∧ E - pre.length < (cnt : ℝ) ∧ (cnt : ℝ) < E + 2 * pre.length ∧
    |(cnt : ℝ) - E| < 2 * pre.length := by
  intro M E cnt
  have hr := h.rate_pos
  have hd : Desc oc.start (allHolds oc) := desc_append_singleton h.desc h.stop_le
  rw [hsplit, desc_append] at hd
  have hx : (lastTemp oc.start pre - cn) / oc.rate = 0 := by rw [hcn]; simp
  have hidx : cnt = M := by
    have := cnt_index oc cn h pre p rest hsplit hlo hcn.le (by rw [hx]; simpa using hin)
    rw [hx] at this; simpa using this
  obtain ⟨_, hs3⟩ := segments_slip_one oc.rate hr oc.start pre hd.1 hdur
  obtain ⟨h1, h2⟩ := hs3 hpre
  have hn0 : (0 : ℝ) ≤ (pre.length : ℝ) := Nat.cast_nonneg _
  have hM : (M : ℝ) = ((segments oc.rate 1 oc.start pre).length : ℝ) := rfl
  have hE : E = contEnd oc.rate oc.start pre := rfl
  refine ⟨hidx, by rw [hidx, hM, hE]; exact h1, by rw [hidx, hM, hE]; exact h2, ?_⟩
  rw [abs_lt, hidx, hM, hE]
  constructor <;> linarith

/-- **first ramp** (`pre = []`): `cn` between the first plateau and the start temperature. Then
`cnt = ⌊(start - cn)/rate⌋` exactly, i.e. `E - 1 < cnt ≤ E` for the continuous crossing time
`E = (start - cn)/rate`. -/
theorem cnt_first_ramp (oc : OpCond ℝ) (cn : ℝ) (h : C05.WF oc 1)
    (p : Hold ℝ) (rest : List (Hold ℝ)) (hsplit : allHolds oc = p :: rest)
    (hlo : p.temp < cn) (hhi : cn ≤ oc.start)
    (hin : ⌊(oc.start - cn) / oc.rate⌋₊ < nSteps oc.t_tot 1) :
    cntOf (profile oc 1) cn = ⌊(oc.start - cn) / oc.rate⌋₊ ∧
    (oc.start - cn) / oc.rate - 1 < (cntOf (profile oc 1) cn : ℝ) ∧
    (cntOf (profile oc 1) cn : ℝ) ≤ (oc.start - cn) / oc.rate := by
  have hr := h.rate_pos
  have hidx := cnt_index oc cn h [] p rest (by simpa using hsplit) hlo (by simpa [lastTemp] using hhi)
    (by simpa [segments, lastTemp] using hin)
  simp only [segments, lastTemp, List.length_nil, Nat.zero_add] at hidx
  have hx0 : 0 ≤ (oc.start - cn) / oc.rate := div_nonneg (by linarith) hr.le
  rw [hidx]
  exact ⟨rfl, by have := Nat.lt_floor_add_one ((oc.start - cn) / oc.rate); linarith,
    Nat.floor_le hx0⟩

/-! ### non-vacuity -/

/-- the example program: start 20, end -20, rate 1 K/s, one hold at 0 for 10 s, 100 s total -/
noncomputable def exOc : OpCond ℝ := ⟨100, 20, -20, 1, [⟨0, 10⟩]⟩

theorem exOc_M : (segments exOc.rate 1 exOc.start [(⟨0, 10⟩ : Hold ℝ)]).length = 30 := by
  have e1 : arangeLen (((20 : ℝ) - 0) / 1) 1 = 20 := by
    unfold arangeLen; norm_num; rfl
  have e2 : holdCount (20 : ℝ) 0 1 10 1 = 10 := by
    unfold holdCount; rw [pyMod_real]; norm_num; rfl
  rw [segments_length]
  simp only [exOc, segments, List.length_nil]
  rw [e1, e2]

theorem exOc_nSteps : nSteps exOc.t_tot 1 = 101 := by
  unfold nSteps; simp only [exOc, ceilInt_real]; norm_num; rfl

/-- the hypotheses of `cnt_end_of_hold` / `cnt_end_of_hold_exact` hold for a concrete program with
a hold at the trigger temperature (`cn = 0`, the hold `⟨0, 10⟩`, next plateau `⟨-20, 100⟩`). -/
theorem nonvacuous_cnt :
    C05.WF exOc 1 ∧
    allHolds exOc = [(⟨0, 10⟩ : Hold ℝ)] ++ (⟨-20, 100⟩ : Hold ℝ) :: [] ∧
    ([(⟨0, 10⟩ : Hold ℝ)] ≠ []) ∧
    (∀ a ∈ [(⟨0, 10⟩ : Hold ℝ)], 0 ≤ a.duration) ∧
    (⟨-20, 100⟩ : Hold ℝ).temp < 0 ∧
    (0 : ℝ) = lastTemp exOc.start [(⟨0, 10⟩ : Hold ℝ)] ∧
    (segments exOc.rate 1 exOc.start [(⟨0, 10⟩ : Hold ℝ)]).length
      + ⌊(lastTemp exOc.start [(⟨0, 10⟩ : Hold ℝ)] - 0) / exOc.rate⌋₊ < nSteps exOc.t_tot 1 := by
  refine ⟨⟨one_pos, ?_, ?_, ?_, ?_, ?_⟩, ?_, by simp, ?_, ?_, ?_, ?_⟩
  · simp [exOc]
  · simp [exOc]
  · simp [exOc, Desc]
  · simp [exOc, lastTemp]
  · simp [exOc]
  · simp [exOc, allHolds]
  · simp
  · simp
  · simp [lastTemp]
  · rw [exOc_M, exOc_nSteps]; simp [lastTemp]

/-- … and the conclusion there: controlled nucleation is triggered at `cnt = 30 s`, the end of
the hold (20 s ramp + 10 s hold). -/
theorem nonvacuous_cnt_value : cntOf (profile exOc 1) 0 = 30 ∧ contEnd exOc.rate exOc.start [(⟨0, 10⟩ : Hold ℝ)] = 30 := by
  obtain ⟨hwf, hsplit, hne, hdur, hlo, hcn, hin⟩ := nonvacuous_cnt
  have hin' : (segments exOc.rate 1 exOc.start [(⟨0, 10⟩ : Hold ℝ)]).length < nSteps exOc.t_tot 1 := by
    rw [exOc_M, exOc_nSteps]; norm_num
  have := (cnt_end_of_hold_exact exOc 0 hwf _ _ _ hsplit hne hdur hlo hcn hin').1
  rw [exOc_M] at this
  refine ⟨this, ?_⟩
  simp [contEnd, exOc]; norm_num

/-- the ramp case (`pre = []`): start 20, end -20, rate 1, no holds, `cn = 5`:
hypotheses of `cnt_first_ramp` / `cnt_end_of_hold` hold and `cnt = 15`. -/
theorem nonvacuous_cnt_ramp :
    C05.WF (⟨100, 20, -20, 1, []⟩ : OpCond ℝ) 1 ∧
    allHolds (⟨100, 20, -20, 1, []⟩ : OpCond ℝ) = (⟨-20, 100⟩ : Hold ℝ) :: [] ∧
    (⟨-20, 100⟩ : Hold ℝ).temp < 5 ∧ (5 : ℝ) ≤ 20 ∧
    ⌊((20 : ℝ) - 5) / 1⌋₊ < nSteps (100 : ℝ) 1 ∧
    cntOf (profile (⟨100, 20, -20, 1, []⟩ : OpCond ℝ) 1) 5 = 15 := by
  have hwf : C05.WF (⟨100, 20, -20, 1, []⟩ : OpCond ℝ) 1 :=
    ⟨one_pos, by simp, by simp, by simp [Desc], by simp [lastTemp], by simp⟩
  have hfl : ⌊((20 : ℝ) - 5) / 1⌋₊ = 15 := by norm_num
  have hn : nSteps (100 : ℝ) 1 = 101 := by
    unfold nSteps; simp only [ceilInt_real]; norm_num; rfl
  have hin : ⌊((20 : ℝ) - 5) / 1⌋₊ < nSteps (100 : ℝ) 1 := by rw [hfl, hn]; norm_num
  refine ⟨hwf, by simp [allHolds], by norm_num, by norm_num, hin, ?_⟩
  have := (cnt_first_ramp _ 5 hwf ⟨-20, 100⟩ [] (by simp [allHolds]) (by norm_num) (by norm_num) hin).1
  rw [this]; exact hfl



/-! ### the split used by `cnt_end_of_hold` exists for every trigger temperature in range -/

/-- for a descending hold list whose last temperature is below `cn ≤ Ts` there is a (unique) place
where the program leaves `cn`: `hs = pre ++ p :: rest` with `p.temp < cn ≤ lastTemp Ts pre`. -/
theorem exists_split (cn : ℝ) : ∀ (Ts : ℝ) (hs : List (Hold ℝ)), Desc Ts hs → lastTemp Ts hs < cn → cn ≤ Ts →
    ∃ pre p rest, hs = pre ++ p :: rest ∧ p.temp < cn ∧ cn ≤ lastTemp Ts pre := by
  intro Ts hs
  induction hs generalizing Ts with
  | nil => intro _ h1 h2; simp only [lastTemp] at h1; exact absurd h2 (not_le.mpr h1)
  | cons h t ih =>
    intro hd h1 h2
    by_cases hlt : h.temp < cn
    · exact ⟨[], h, t, rfl, hlt, by simpa [lastTemp] using h2⟩
    · obtain ⟨pre, p, rest, e, hp, hc⟩ := ih h.temp hd.2 (by simpa [lastTemp] using h1) (not_lt.mp hlt)
      exact ⟨h :: pre, p, rest, by rw [e]; rfl, hp, by simpa [lastTemp] using hc⟩

/-- **every trigger temperature of the property's range is covered**: for a well-formed program and
`stop < cn ≤ start` the split of `cnt_end_of_hold` exists, with every hold of `pre` taken from the
program's own holds (so their durations are the program's durations). -/
theorem exists_split_allHolds (oc : OpCond ℝ) (cn : ℝ) (h : C05.WF oc 1) (hlo : oc.stop < cn) (hhi : cn ≤ oc.start) :
    ∃ pre p rest, allHolds oc = pre ++ p :: rest ∧ p.temp < cn ∧ cn ≤ lastTemp oc.start pre ∧
      (∀ a ∈ pre, a ∈ oc.holds) := by
  have hd : Desc oc.start (allHolds oc) := desc_append_singleton h.desc h.stop_le
  have hl : lastTemp oc.start (allHolds oc) = oc.stop := by
    simp [allHolds, lastTemp_append_singleton]
  obtain ⟨pre, p, rest, e, hp, hc⟩ := exists_split cn oc.start (allHolds oc) hd (by rw [hl]; exact hlo) hhi
  refine ⟨pre, p, rest, e, hp, hc, ?_⟩
  intro a ha
  -- `pre` is a proper prefix of `holds ++ [final]`, so it lies inside `holds`
  have hlen : pre.length < (allHolds oc).length := by rw [e]; simp
  have hlen' : pre.length ≤ oc.holds.length := by simp [allHolds] at hlen; omega
  have hpre : pre = (allHolds oc).take pre.length := by rw [e]; simp
  have : pre = oc.holds.take pre.length := by
    rw [hpre]; simp only [allHolds, List.length_take]
    rw [List.take_append_of_le_length (by simpa using hlen')]
    simp
  rw [this] at ha
  exact List.mem_of_mem_take ha

end Snow.CNT
