/-
  Helper lemmas for the 2D Snowing model (`SnowModel/Snowing2D.lean`) over ℝ:
  reading the repaired (`inplace = false`) sweep node by node, ghost arrays.
-/
import SnowProofs.RealInst
import SnowModel.Snowing2D
import Mathlib.Tactic.Linarith
import Mathlib.Tactic.Ring
import Mathlib.Tactic.FieldSimp
import Mathlib.Tactic.Positivity

namespace Snow.S2D
open Snow Num

section generic
variable {α : Type} [Num α]

theorem rd1_ofFn {n : Nat} (f : Fin n → α) (i : Nat) (h : i < n) :
    rd1 (Array.ofFn f) i = f ⟨i, h⟩ := by
  simp [rd1, Array.getD, h]

theorem idx_div {Nr i j : Nat} (hj : j < Nr) : (i * Nr + j) / Nr = i := by
  have hpos : 0 < Nr := Nat.lt_of_le_of_lt (Nat.zero_le _) hj
  rw [Nat.mul_comm, Nat.mul_add_div hpos, Nat.div_eq_of_lt hj, Nat.add_zero]

theorem idx_mod {Nr i j : Nat} (hj : j < Nr) : (i * Nr + j) % Nr = j := by
  rw [Nat.mul_comm, Nat.mul_add_mod, Nat.mod_eq_of_lt hj]

theorem idx_lt {Nz Nr i j : Nat} (hi : i < Nz) (hj : j < Nr) : i * Nr + j < Nz * Nr := by
  calc i * Nr + j < i * Nr + Nr := Nat.add_lt_add_left hj _
    _ = (i + 1) * Nr := by rw [Nat.add_mul, Nat.one_mul]
    _ ≤ Nz * Nr := Nat.mul_le_mul_right _ hi

/-- the repaired sweep, node by node -/
theorem rd_sweep_false (Nz Nr : Nat) (node : (Nat → Nat → α) → Nat → Nat → α) (T : Array α)
    {i j : Nat} (hi : i < Nz) (hj : j < Nr) :
    rd Nr (sweep Nz Nr false node T) i j = node (rd Nr T) i j := by
  have h := idx_lt hi hj
  simp [sweep, rd, Array.getD, h, idx_div hj, idx_mod hj]

end generic
end Snow.S2D
