/-
  Helper lemmas for the 2D Snowing model (`SnowModel/Snowing2D.lean`) over ℝ:
  reading the repaired (`inplace = false`) sweep node by node, ghost arrays.
-/
import SnowProofs.RealInst
import SnowModel.Snowing2D
import Mathlib.Tactic.Linarith
import Mathlib.Tactic.Ring
import Mathlib.Tactic.FieldSimp
import Mathlib.Tactic.Positivity

namespace Snow.S2D
open Snow Num

section generic
variable {α : Type} [Num α]

theorem rd1_ofFn {n : Nat} (f : Fin n → α) (i : Nat) (h : i < n) :
    rd1 (Array.ofFn f) i = f ⟨i, h⟩ := by
  simp [rd1, Array.getD, h]

theorem idx_div {Nr i j : Nat} (hj : j < Nr) : (i * Nr + j) / Nr = i := by
  have hpos : 0 < Nr := Nat.lt_of_le_of_lt (Nat.zero_le _) hj
  rw [Nat.mul_comm, Nat.mul_add_div hpos, Nat.div_eq_of_lt hj, Nat.add_zero]

theorem idx_mod {Nr i j : Nat} (hj : j < Nr) : (i * Nr + j) % Nr = j := by
  rw [Nat.mul_comm, Nat.mul_add_mod, Nat.mod_eq_of_lt hj]

theorem idx_lt {Nz Nr i j : Nat} (hi : i < Nz) (hj : j < Nr) : i * Nr + j < Nz * Nr := by
  calc i * Nr + j < i * Nr + Nr := Nat.add_lt_add_left hj _
    _ = (i + 1) * Nr := by rw [Nat.add_mul, Nat.one_mul]
    _ ≤ Nz * Nr := Nat.mul_le_mul_right _ hi

/-- the repaired sweep, node by node -/
theorem rd_sweep_false (Nz Nr : Nat) (node : (Nat → Nat → α) → Nat → Nat → α) (T : Array α)
    {i j : Nat} (hi : i < Nz) (hj : j < Nr) :
    rd Nr (sweep Nz Nr false node T) i j = node (rd Nr T) i j := by
  have h := idx_lt hi hj
  simp [sweep, rd, Array.getD, h, idx_div hj, idx_mod hj]

end generic

/-- the default configuration: 10 mm × 10 mm vial, 5 % sucrose, `K_shelf = 50`, jacket with a
1 mm air gap (constants as `calculateDerived` produces them) -/
noncomputable def pDef : Par ℝ :=
  { Nz := 30, Nr := 15, pi := 3.141592653589793, height := 0.01, diameter := 0.01, V := 0.000001,
    rho_l := 1000, mass := 0.001, mass_water := 0.001 * (1 - 0.05), mass_solute := 0.001 * 0.05,
    lambda_w := 0.598, lambda_i := 2.25, lambda_s := 0.126, cp_w := 4187, cp_i := 2108, cp_s := 1240,
    cp_solution := 0.05 * 1240 + (1 - 0.05) * 4187, solid_fraction := 0.05, T_eq := 0, k_f := 1.853,
    M_s := 0.3423, depression := 1.853 / 0.3423 * (0.05 / (1 - 0.05)), kb := 1e-29, b := 29.3,
    k_B := 1.38e-23, Dh := 333550, K_shelf := 50, config := Config.jacket,
    p_vac := 100, kappa := 0.01, dHe := 2500900, m_water := 2.99e-26, t_vac_start := 0.75,
    t_vac_duration := 0.1, air_gap := 0.001, lambda_air := 0.025 }

end Snow.S2D
