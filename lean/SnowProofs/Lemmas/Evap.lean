/-
  Helper lemmas for C20 (SnowProofs/Props/C20.lean): the generated formulas of
  SnowModel/Gen/Evap.lean as real expressions (this is where a changed formula in utils.py
  stops building), the tangent bound for `log`, the estimates for the Murphy-Koop liquid
  correlation on [235, 332] K, and the positive prefactor of the Hertz-Knudsen flux.
-/
import SnowProofs.Lemmas.GenReal
import SnowModel.Gen.Evap
import SnowModel.Gen.GenUtils
import SnowModel.EvapFormulas
import Mathlib.Analysis.Complex.ExponentialBounds

namespace Snow.EvapLemmas
open Snow Snow.GenReal

/-! ### the generated formulas, as real expressions -/

theorem p_ice_eq (T : ℝ) : Gen.vapour_pressure_solid T =
    Real.exp (9.550426 - 5723.265 / T + 3.53068 * Real.log T - 0.00728332 * T) := by
  simp only [Gen.vapour_pressure_solid, lit_real, exp_real, log_real]; norm_num

theorem p_liq_eq (T : ℝ) : Gen.vapour_pressure_liquid T =
    Real.exp (54.842763 - 6763.22 / T - 4.210 * Real.log T + 0.000367 * T
      + Real.tanh (0.0415 * (T - 218.8))
        * (53.878 - 1331.22 / T - 9.44523 * Real.log T + 0.014025 * T)) := by
  simp only [Gen.vapour_pressure_liquid, lit_real, exp_real, log_real, tanh_real]; norm_num

theorem flux_eq (κ m kB pvac pvap Tl Tv : ℝ) : Gen.vapour_flux κ m kB pvac pvap Tl Tv =
    (2 / (2 - κ)) * Real.sqrt (m * κ ^ 2 / (2 * Real.pi * kB))
      * (pvap / Real.sqrt Tl - pvac / Real.sqrt Tv) := by
  simp only [Gen.vapour_flux, lit_real, sqrt_real, pow_real, pi_real]
  norm_num

/-- `exp (11/2) > 244.5` (from `e > 2.718`) -/
theorem exp_five_half_gt : (244.5 : ℝ) < Real.exp (11 / 2) := by
  have he : (2.718 : ℝ) < Real.exp 1 := by
    have := Real.exp_one_gt_d9; linarith
  have h11 : Real.exp 11 = Real.exp 1 ^ 11 := by
    rw [← Real.exp_nat_mul]; norm_num
  have hsq : Real.exp (11 / 2) ^ 2 = Real.exp 11 := by
    rw [← Real.exp_nat_mul]; norm_num
  have hpow : (2.718 : ℝ) ^ 11 < Real.exp 1 ^ 11 := pow_lt_pow_left₀ he (by norm_num) (by norm_num)
  have h2 : (244.5 : ℝ) ^ 2 < Real.exp (11 / 2) ^ 2 := by
    rw [hsq, h11]; refine lt_trans ?_ hpow; norm_num
  exact lt_of_pow_lt_pow_left₀ 2 (Real.exp_pos _).le h2

/-- tangent bound `log T ≤ 4.5 + T/244.5` -/
theorem log_le_tangent {T : ℝ} (hT : 0 < T) : Real.log T ≤ 4.5 + T / 244.5 := by
  have hx := exp_five_half_gt
  have hxp : 0 < Real.exp (11 / 2) := Real.exp_pos _
  have h := Real.log_le_sub_one_of_pos (div_pos hT hxp)
  rw [Real.log_div hT.ne' hxp.ne', Real.log_exp] at h
  have : T / Real.exp (11 / 2) ≤ T / 244.5 := div_le_div_of_nonneg_left hT.le (by norm_num) hx.le
  linarith

/-- the second bracket `g` of the Murphy–Koop liquid correlation -/
noncomputable def gLiq (T : ℝ) : ℝ := 53.878 - 1331.22 / T - 9.44523 * Real.log T + 0.014025 * T

theorem gLiq_lower {T : ℝ} (h1 : 235 ≤ T) (h2 : T ≤ 332) : -0.81 ≤ gLiq T := by
  have hT : 0 < T := by linarith
  have hl := log_le_tangent hT
  have hq : -0.81 ≤ 53.878 - 1331.22 / T - 9.44523 * (4.5 + T / 244.5) + 0.014025 * T := by
    have hm : 0 ≤ (T - 235) * (332 - T) := mul_nonneg (by linarith) (by linarith)
    have e : 53.878 - 1331.22 / T - 9.44523 * (4.5 + T / 244.5) + 0.014025 * T + 0.81
        = ((53.878 - 9.44523 * 4.5 + 0.81) * T - 1331.22 - (9.44523 / 244.5 - 0.014025) * T ^ 2) / T := by
      field_simp; ring
    have hn : 0 ≤ (53.878 - 9.44523 * 4.5 + 0.81) * T - 1331.22 - (9.44523 / 244.5 - 0.014025) * T ^ 2 := by
      nlinarith
    have := div_nonneg hn hT.le
    linarith
  unfold gLiq
  nlinarith

/-- first bracket of the correlation grows by at least `0.049 (T₂ − T₁)` on `[235, 332]` -/
theorem liqA_incr {T1 T2 : ℝ} (h1 : 235 ≤ T1) (h12 : T1 < T2) (h2 : T2 ≤ 332) :
    0.049 * (T2 - T1)
      ≤ (6763.22 / T1 - 6763.22 / T2) - 4.210 * (Real.log T2 - Real.log T1) + 0.000367 * (T2 - T1) := by
  have hT1 : 0 < T1 := by linarith
  have hT2 : 0 < T2 := by linarith
  have hlogU := log_sub_le hT1 hT2
  have hd : 0 ≤ T2 - T1 := by linarith
  have ha : 1 / 332 ≤ 1 / T1 := by
    rw [div_le_div_iff₀ (by norm_num) hT1]; linarith
  have hb : 1 / 332 ≤ 1 / T2 := by
    rw [div_le_div_iff₀ (by norm_num) hT2]; linarith
  have eA : 6763.22 / T1 - 6763.22 / T2 = (T2 - T1) * (6763.22 * (1 / T1) * (1 / T2)) := by
    field_simp
  have eL : (T2 - T1) / T1 = (T2 - T1) * (1 / T1) := by ring
  have hab : 6763.22 * (1 / T1) * (1 / 332) ≤ 6763.22 * (1 / T1) * (1 / T2) :=
    mul_le_mul_of_nonneg_left hb (by positivity)
  have hc : 0.04867 ≤ 6763.22 * (1 / T1) * (1 / T2) - 4.210 * (1 / T1) := by linarith
  have hmul := mul_le_mul_of_nonneg_left hc hd
  have hlog' : 4.210 * (Real.log T2 - Real.log T1) ≤ 4.210 * ((T2 - T1) * (1 / T1)) := by
    rw [← eL]; exact mul_le_mul_of_nonneg_left hlogU (by norm_num)
  rw [eA]
  linarith

/-- second bracket changes by at least `−0.0092 (T₂ − T₁)` on `[235, 332]` -/
theorem gLiq_incr {T1 T2 : ℝ} (h1 : 235 ≤ T1) (h12 : T1 < T2) (h2 : T2 ≤ 332) :
    -0.0092 * (T2 - T1) ≤ gLiq T2 - gLiq T1 := by
  have hT1 : 0 < T1 := by linarith
  have hT2 : 0 < T2 := by linarith
  have hlogU := log_sub_le hT1 hT2
  have hd : 0 ≤ T2 - T1 := by linarith
  have hau : 1 / T1 ≤ 1 / 235 := by
    rw [div_le_div_iff₀ hT1 (by norm_num)]; linarith
  have hb : 1 / 332 ≤ 1 / T2 := by
    rw [div_le_div_iff₀ (by norm_num) hT2]; linarith
  have ha0 : 0 ≤ 1 / T1 := by positivity
  have eG : 1331.22 / T1 - 1331.22 / T2 = (T2 - T1) * (1331.22 * (1 / T1) * (1 / T2)) := by
    field_simp
  have eL : (T2 - T1) / T1 = (T2 - T1) * (1 / T1) := by ring
  have hab : 1331.22 * (1 / T1) * (1 / 332) ≤ 1331.22 * (1 / T1) * (1 / T2) :=
    mul_le_mul_of_nonneg_left hb (by positivity)
  have hL : -0.0092 ≤ 1331.22 * (1 / T1) * (1 / T2) - 9.44523 * (1 / T1) + 0.014025 := by linarith
  have hmul := mul_le_mul_of_nonneg_left hL hd
  have hlog' : 9.44523 * (Real.log T2 - Real.log T1) ≤ 9.44523 * ((T2 - T1) * (1 / T1)) := by
    rw [← eL]; exact mul_le_mul_of_nonneg_left hlogU (by norm_num)
  unfold gLiq
  linarith

/-- pure arithmetic: the growth of the first bracket dominates the change of `tanh · g` -/
theorem liq_assemble {d A t1 t2 g1 g2 : ℝ} (hd : 0 < d) (ht0 : 0 ≤ t2) (ht1 : t2 ≤ 1) (htm : t1 ≤ t2)
    (htl : t2 - t1 ≤ 0.0415 * d) (hg1 : -0.81 ≤ g1) (hg : -0.0092 * d ≤ g2 - g1) (hA : 0.049 * d ≤ A) :
    0 < A + (t2 * g2 - t1 * g1) := by
  have hsplit : t2 * g2 - t1 * g1 = t2 * (g2 - g1) + g1 * (t2 - t1) := by ring
  have hterm1 : -0.0092 * d ≤ t2 * (g2 - g1) := by
    by_cases hs : 0 ≤ g2 - g1
    · have : 0 ≤ t2 * (g2 - g1) := mul_nonneg ht0 hs
      nlinarith
    · have hs' : g2 - g1 ≤ 0 := by linarith
      have : (1 - t2) * (g2 - g1) ≤ 0 := mul_nonpos_of_nonneg_of_nonpos (by linarith) hs'
      nlinarith
  have hterm2 : -(0.81 * 0.0415) * d ≤ g1 * (t2 - t1) := by
    have h0 : 0 ≤ t2 - t1 := by linarith
    by_cases hs : 0 ≤ g1
    · have : 0 ≤ g1 * (t2 - t1) := mul_nonneg hs h0
      nlinarith
    · have h3 : 0 ≤ (g1 + 0.81) * (t2 - t1) := mul_nonneg (by linarith) h0
      have h4 : 0 ≤ 0.81 * (0.0415 * d - (t2 - t1)) := mul_nonneg (by norm_num) (by linarith)
      nlinarith
  rw [hsplit]
  nlinarith

/-- the positive prefactor of the flux -/
noncomputable def fluxCoef (κ m kB : ℝ) : ℝ := (2 / (2 - κ)) * Real.sqrt (m * κ ^ 2 / (2 * Real.pi * kB))

theorem fluxCoef_pos {κ m kB : ℝ} (hκ : 0 < κ) (hκ1 : κ ≤ 1) (hm : 0 < m) (hk : 0 < kB) :
    0 < fluxCoef κ m kB := by
  unfold fluxCoef
  have h2 : 0 < 2 - κ := by linarith
  have hpi := Real.pi_pos
  have : 0 < m * κ ^ 2 / (2 * Real.pi * kB) := by positivity
  have hs := Real.sqrt_pos.mpr this
  positivity

/-! ### the lower part [123, 235] K of the liquid correlation -/

/-- `exp 5 > 148.33` (from `e > 2.718`) -/
theorem exp_five_gt : (148.33 : ℝ) < Real.exp 5 := by
  have he : (2.718 : ℝ) < Real.exp 1 := by
    have := Real.exp_one_gt_d9; linarith
  have h5 : Real.exp 5 = Real.exp 1 ^ 5 := by
    rw [← Real.exp_nat_mul]; norm_num
  have hpow : (2.718 : ℝ) ^ 5 < Real.exp 1 ^ 5 := pow_lt_pow_left₀ he (by norm_num) (by norm_num)
  rw [h5]; refine lt_trans ?_ hpow; norm_num

/-- tangent bound `log T ≤ 4 + T/148.33` -/
theorem log_le_tangent5 {T : ℝ} (hT : 0 < T) : Real.log T ≤ 4 + T / 148.33 := by
  have hx := exp_five_gt
  have hxp : 0 < Real.exp 5 := Real.exp_pos _
  have h := Real.log_le_sub_one_of_pos (div_pos hT hxp)
  rw [Real.log_div hT.ne' hxp.ne', Real.log_exp] at h
  have : T / Real.exp 5 ≤ T / 148.33 := div_le_div_of_nonneg_left hT.le (by norm_num) hx.le
  linarith

theorem gLiq_lower_low {T : ℝ} (h1 : 123 ≤ T) (h2 : T ≤ 235) : -1.25 ≤ gLiq T := by
  have hT : 0 < T := by linarith
  have hl := log_le_tangent5 hT
  have hq : -1.25 ≤ 53.878 - 1331.22 / T - 9.44523 * (4 + T / 148.33) + 0.014025 * T := by
    have hm : 0 ≤ (T - 123) * (235 - T) := mul_nonneg (by linarith) (by linarith)
    have e : 53.878 - 1331.22 / T - 9.44523 * (4 + T / 148.33) + 0.014025 * T + 1.25
        = ((53.878 - 9.44523 * 4 + 1.25) * T - 1331.22 - (9.44523 / 148.33 - 0.014025) * T ^ 2) / T := by
      field_simp; ring
    have hn : 0 ≤ (53.878 - 9.44523 * 4 + 1.25) * T - 1331.22 - (9.44523 / 148.33 - 0.014025) * T ^ 2 := by
      nlinarith
    have := div_nonneg hn hT.le
    linarith
  unfold gLiq
  nlinarith

/-- on [123, 235] the first bracket grows by at least `0.1045 (T₂ − T₁)` -/
theorem liqA_incr_low {T1 T2 : ℝ} (h1 : 123 ≤ T1) (h12 : T1 < T2) (h2 : T2 ≤ 235) :
    0.1045 * (T2 - T1)
      ≤ (6763.22 / T1 - 6763.22 / T2) - 4.210 * (Real.log T2 - Real.log T1) + 0.000367 * (T2 - T1) := by
  have hT1 : 0 < T1 := by linarith
  have hT2 : 0 < T2 := by linarith
  have hlogU := log_sub_le hT1 hT2
  have hd : 0 ≤ T2 - T1 := by linarith
  have ha : 1 / 235 ≤ 1 / T1 := by
    rw [div_le_div_iff₀ (by norm_num) hT1]; linarith
  have hb : 1 / 235 ≤ 1 / T2 := by
    rw [div_le_div_iff₀ (by norm_num) hT2]; linarith
  have eA : 6763.22 / T1 - 6763.22 / T2 = (T2 - T1) * (6763.22 * (1 / T1) * (1 / T2)) := by
    field_simp
  have eL : (T2 - T1) / T1 = (T2 - T1) * (1 / T1) := by ring
  have hab : 6763.22 * (1 / T1) * (1 / 235) ≤ 6763.22 * (1 / T1) * (1 / T2) :=
    mul_le_mul_of_nonneg_left hb (by positivity)
  have hc : 0.1045 ≤ 6763.22 * (1 / T1) * (1 / T2) - 4.210 * (1 / T1) := by linarith
  have hmul := mul_le_mul_of_nonneg_left hc hd
  have hlog' : 4.210 * (Real.log T2 - Real.log T1) ≤ 4.210 * ((T2 - T1) * (1 / T1)) := by
    rw [← eL]; exact mul_le_mul_of_nonneg_left hlogU (by norm_num)
  rw [eA]
  linarith

/-- on [123, 235] the second bracket changes by at most `0.0253 (T₂ − T₁)` in either direction -/
theorem gLiq_incr_low {T1 T2 : ℝ} (h1 : 123 ≤ T1) (h12 : T1 < T2) (h2 : T2 ≤ 235) :
    -0.0253 * (T2 - T1) ≤ gLiq T2 - gLiq T1 ∧ gLiq T2 - gLiq T1 ≤ 0.0253 * (T2 - T1) := by
  have hT1 : 0 < T1 := by linarith
  have hT2 : 0 < T2 := by linarith
  have hlogU := log_sub_le hT1 hT2
  have hlogL := le_log_sub hT1 hT2
  have hd : 0 ≤ T2 - T1 := by linarith
  have hau : 1 / T1 ≤ 1 / 123 := by
    rw [div_le_div_iff₀ hT1 (by norm_num)]; linarith
  have hbu : 1 / T2 ≤ 1 / 123 := by
    rw [div_le_div_iff₀ hT2 (by norm_num)]; linarith
  have hb : 1 / 235 ≤ 1 / T2 := by
    rw [div_le_div_iff₀ (by norm_num) hT2]; linarith
  have ha0 : 0 ≤ 1 / T1 := by positivity
  have hb0 : 0 ≤ 1 / T2 := by positivity
  have eG : 1331.22 / T1 - 1331.22 / T2 = (T2 - T1) * (1331.22 * (1 / T1) * (1 / T2)) := by
    field_simp
  have eL1 : (T2 - T1) / T1 = (T2 - T1) * (1 / T1) := by ring
  have eL2 : (T2 - T1) / T2 = (T2 - T1) * (1 / T2) := by ring
  constructor
  · have hab : 1331.22 * (1 / T1) * (1 / 235) ≤ 1331.22 * (1 / T1) * (1 / T2) :=
      mul_le_mul_of_nonneg_left hb (by positivity)
    have hL : -0.0253 ≤ 1331.22 * (1 / T1) * (1 / T2) - 9.44523 * (1 / T1) + 0.014025 := by linarith
    have hmul := mul_le_mul_of_nonneg_left hL hd
    have hlog' : 9.44523 * (Real.log T2 - Real.log T1) ≤ 9.44523 * ((T2 - T1) * (1 / T1)) := by
      rw [← eL1]; exact mul_le_mul_of_nonneg_left hlogU (by norm_num)
    unfold gLiq
    linarith
  · have hab : 1331.22 * (1 / T1) * (1 / T2) ≤ 1331.22 * (1 / 123) * (1 / T2) := by
      have : 1331.22 * (1 / T1) ≤ 1331.22 * (1 / 123) := mul_le_mul_of_nonneg_left hau (by norm_num)
      exact mul_le_mul_of_nonneg_right this hb0
    have hU : 1331.22 * (1 / T1) * (1 / T2) - 9.44523 * (1 / T2) + 0.014025 ≤ 0.0253 := by linarith
    have hmul := mul_le_mul_of_nonneg_left hU hd
    have hlog' : 9.44523 * ((T2 - T1) * (1 / T2)) ≤ 9.44523 * (Real.log T2 - Real.log T1) := by
      rw [← eL2]; exact mul_le_mul_of_nonneg_left hlogL (by norm_num)
    unfold gLiq
    linarith

/-- pure arithmetic for the lower range: `tanh` of either sign -/
theorem liq_assemble_low {d A t1 t2 g1 g2 : ℝ} (hd : 0 < d) (ht0 : -1 ≤ t2) (ht1 : t2 ≤ 1) (htm : t1 ≤ t2)
    (htl : t2 - t1 ≤ 0.0415 * d) (hg1 : -1.25 ≤ g1) (hgl : -0.0253 * d ≤ g2 - g1) (hgu : g2 - g1 ≤ 0.0253 * d)
    (hA : 0.1045 * d ≤ A) :
    0 < A + (t2 * g2 - t1 * g1) := by
  have hsplit : t2 * g2 - t1 * g1 = t2 * (g2 - g1) + g1 * (t2 - t1) := by ring
  have hterm1 : -0.0253 * d ≤ t2 * (g2 - g1) := by
    by_cases hs : 0 ≤ g2 - g1
    · have : 0 ≤ (t2 + 1) * (g2 - g1) := mul_nonneg (by linarith) hs
      nlinarith
    · have hs' : g2 - g1 ≤ 0 := by linarith
      have : (1 - t2) * (g2 - g1) ≤ 0 := mul_nonpos_of_nonneg_of_nonpos (by linarith) hs'
      nlinarith
  have hterm2 : -(1.25 * 0.0415) * d ≤ g1 * (t2 - t1) := by
    have h0 : 0 ≤ t2 - t1 := by linarith
    have h3 : 0 ≤ (g1 + 1.25) * (t2 - t1) := mul_nonneg (by linarith) h0
    have h4 : 0 ≤ 1.25 * (0.0415 * d - (t2 - t1)) := mul_nonneg (by norm_num) (by linarith)
    nlinarith
  rw [hsplit]
  nlinarith

/-! ### the Hertz–Knudsen flux with π as a PARAMETER (`Gen.FU.N_w`, formula-mode extraction)

The run models evaluate the flux with their own value of `np.pi` (0D/1D: the rational `Evap.piDouble`,
2D: the input `Par.pi`); the laws below hold for every positive value of that parameter. -/

theorem fluxN_eq (π κ m kB pvac pvap Tl Tv : ℝ) :
    Gen.FU.N_w (kappa := κ) (m_water := m) (np_pi := π) (k_B := kB) (p_vap := pvap) (T_l := Tl) (p_vac := pvac)
        (T_v := Tv) =
      (2 / (2 - κ)) * Real.sqrt (m * κ ^ 2 / (2 * π * kB)) * (pvap / Real.sqrt Tl - pvac / Real.sqrt Tv) := by
  simp only [Gen.FU.N_w, sqrt_real, ofNat'_real]
  norm_num [sq]

/-- over ℝ the whole-function text `Gen.vapour_flux` is the formula-mode text at `np_pi = π` -/
theorem flux_gen_eq (κ m kB pvac pvap Tl Tv : ℝ) :
    Gen.vapour_flux κ m kB pvac pvap Tl Tv =
      Gen.FU.N_w (kappa := κ) (m_water := m) (np_pi := Real.pi) (k_B := kB) (p_vap := pvap) (T_l := Tl)
        (p_vac := pvac) (T_v := Tv) := by
  rw [flux_eq, fluxN_eq]

theorem piDouble_pos : (0 : ℝ) < (Evap.piDouble : ℝ) := by
  simp only [Evap.piDouble, ofRat_real]
  norm_num

/-- the prefactor for a given value of π -/
noncomputable def fluxCoefPi (π κ m kB : ℝ) : ℝ := (2 / (2 - κ)) * Real.sqrt (m * κ ^ 2 / (2 * π * kB))

theorem fluxCoefPi_pos {π κ m kB : ℝ} (hπ : 0 < π) (hκ : 0 < κ) (hκ1 : κ ≤ 1) (hm : 0 < m) (hk : 0 < kB) :
    0 < fluxCoefPi π κ m kB := by
  unfold fluxCoefPi
  have h2 : 0 < 2 - κ := by linarith
  have : 0 < m * κ ^ 2 / (2 * π * kB) := by positivity
  have hs := Real.sqrt_pos.mpr this
  positivity

theorem fluxN_same_T (π κ m kB pvac pvap T : ℝ) :
    Gen.FU.N_w (kappa := κ) (m_water := m) (np_pi := π) (k_B := kB) (p_vap := pvap) (T_l := T) (p_vac := pvac)
        (T_v := T) = fluxCoefPi π κ m kB * ((pvap - pvac) / Real.sqrt T) := by
  rw [fluxN_eq]; unfold fluxCoefPi; ring

end Snow.EvapLemmas
