/-
  `S2D.run` decomposed along the generic loop skeletons: which loop state every field of the
  result comes from, and when the run raises.  Used by the 2D parts of C08, C11 and C13.
-/
import SnowProofs.Lemmas.Snowing2DLoop

namespace Snow.S2D
open Snow Num

section
variable {α : Type} [Transc α]

/-- `T_shelf_cool = tempProfile(dt) + 273.15` -/
def shelfK (profileC : List α) : List α := profileC.map (· + kelvin)

def coolInit2D (c : Ctx α) (T0C : α) : CoolSt α :=
  { T := Array.replicate (c.Nz * c.Nr) (zero + (T0C + kelvin)), E := zero, rows := #[], steps := #[],
    J := #[], Kv := zero, Tshelf := zero }

/-- the step / stop functions of the cooling loop of one run -/
def coolStep2D (p : Par α) (f : Flags) (NtExp : Nat) : Nat → CoolSt α → α → CoolSt α :=
  coolStepSt (mkCtx p f) (saveStride NtExp) (Array.replicate ((mkCtx p f).Nz * (mkCtx p f).Nr) zero)

/-- the cooling loop of one run on the skeleton `loopUntil` -/
def cool2D (p : Par α) (f : Flags) (T0C : α) (profileC : List α) (NtExp : Nat) (Frand : α) (cn : Option α) :
    Option Nat × CoolSt α :=
  loopUntil (coolStep2D p f NtExp) (coolStopSt Frand cn) (shelfK profileC) 0 (coolInit2D (mkCtx p f) T0C)

/-- state after cooling step `j` (no break) -/
def st2D (p : Par α) (f : Flags) (T0C : α) (profileC : List α) (NtExp : Nat) (j : Nat) : CoolSt α :=
  stateAt (coolStep2D p f NtExp) (shelfK profileC) (coolInit2D (mkCtx p f) T0C) j

/-- kinetic mean nucleation temperature (K) of a cooling state -/
def TnucKin2D (c : Ctx α) (s : CoolSt α) : α :=
  let kinInt :=
    let Kr : Array α := Array.ofFn (n := c.Nz) fun i =>
      (two * c.p.pi) * c.rPlan.eval fun j => (rd1 c.rA j * rd c.Nr s.T i.val j) * rd c.Nr s.J i.val j
    c.zPlan.eval (rd1 Kr)
  if zero < s.Kv then (one / s.Kv) * kinInt else kelvin

/-- the extra row written right after nucleation -/
def nucRow (c : Ctx α) (iEnd : Nat) (s : CoolSt α) : Row α :=
  { time := c.dt * ofNat' iEnd, shelf := s.Tshelf - kelvin,
    temp := ((s.T.map (nucNode c)).map (·.1)).map (· - kelvin), ice := (s.T.map (nucNode c)).map (·.2) }

def solInit2D (c : Ctx α) (s : CoolSt α) : SolSt α :=
  { T := (s.T.map (nucNode c)).map (·.1), w := (s.T.map (nucNode c)).map (·.2), mask := maskOf c s.T,
    rows := #[], steps := #[], iSol := none, sg := zero }

def solStep2D (c : Ctx α) (NtExp iEnd : Nat) : Nat → SolSt α → α → SolSt α :=
  solStepSt c (saveStride (NtExp - iEnd)) (c.dt * ofNat' iEnd) iEnd

/-- final state of the solidification loop after a break at `iEnd` with cooling state `s` -/
def solFin2D (c : Ctx α) (NtExp : Nat) (profileC : List α) (iEnd : Nat) (s : CoolSt α) : SolSt α :=
  iterIdx (solStep2D c NtExp iEnd) ((shelfK profileC).drop iEnd) 0 (solInit2D c s)

/-- the rows of the four histories -/
def histRows (c : Ctx α) (iEnd : Nat) (s : CoolSt α) (sol : SolSt α) : Array (Row α) :=
  s.rows.push (nucRow c iEnd s) ++ sol.rows.extract 0 (sol.rows.size - 1)

/-- the result of a completed run -/
def mkResult (c : Ctx α) (NtExp iEnd : Nat) (s : CoolSt α) (sol : SolSt α) (iSol : Nat) : Result α :=
  { dt := c.dt, NtExp := NtExp, iCool := iEnd, iSol := iSol,
    TnucMin := minA s.T - kelvin, TnucKin := TnucKin2D c s - kelvin,
    TnucMean := meanA s.T - kelvin, TnucMax := maxA s.T - kelvin,
    tNuc := c.dt * ofNat' iEnd / ofNat' 60,
    tSol := c.dt * ofNat' iSol / ofNat' 60,
    tFr := (c.dt * ofNat' iEnd + c.dt * ofNat' iSol) / ofNat' 60,
    iSaveEnd := s.rows.size,
    time := (histRows c iEnd s sol).map fun r => r.time / ofNat' 3600,
    shelf := (histRows c iEnd s sol).map (·.shelf),
    temp := (histRows c iEnd s sol).map (·.temp),
    ice := (histRows c iEnd s sol).map (·.ice) }

/-- **`S2D.run` on the skeletons**: nucleation failure, full cooling buffer, solidification
failure, or the completed result. -/
theorem run_eq (p : Par α) (f : Flags) (T0C : α) (profileC : List α) (NtExp : Nat) (Frand : α)
    (cn : Option α) :
    run p f T0C profileC NtExp Frand cn =
      match cool2D p f T0C profileC NtExp Frand cn with
      | (none, _) => .error "ValueError"
      | (some iEnd, s) =>
        if s.rows.size ≥ 10000 then .error "IndexError" else
        match (solFin2D (mkCtx p f) NtExp profileC iEnd s).iSol with
        | none => .error "ValueError"
        | some iSol => .ok (mkResult (mkCtx p f) NtExp iEnd s (solFin2D (mkCtx p f) NtExp profileC iEnd s) iSol) := by
  unfold run
  simp only []
  have h := coolLoop_eq (mkCtx p f) (saveStride NtExp) Frand cn
    (Array.replicate ((mkCtx p f).Nz * (mkCtx p f).Nr) zero) (shelfK profileC) 0 (coolInit2D (mkCtx p f) T0C)
  simp only [coolInit2D] at h
  simp only [shelfK] at h ⊢
  rw [h]
  unfold cool2D coolStep2D
  simp only [coolInit2D, shelfK]
  rcases hl : loopUntil (coolStepSt (mkCtx p f) (saveStride NtExp)
      (Array.replicate ((mkCtx p f).Nz * (mkCtx p f).Nr) zero)) (coolStopSt Frand cn)
      (List.map (fun x => x + kelvin) profileC) 0
      { T := Array.replicate ((mkCtx p f).Nz * (mkCtx p f).Nr) (zero + (T0C + kelvin)), E := zero, rows := #[],
        steps := #[], J := #[], Kv := zero, Tshelf := zero } with ⟨_ | iEnd, s⟩
  · simp only [coolOutOf]
  · simp only [coolOutOf]
    by_cases hfull : s.rows.size ≥ 10000
    · simp only [hfull, if_true]
    · simp only [hfull, if_false]
      have hs := solidLoop_eq (mkCtx p f) (saveStride (NtExp - iEnd)) ((mkCtx p f).dt * ofNat' iEnd) iEnd
        ((List.map (fun x => x + kelvin) profileC).drop iEnd) 0 (solInit2D (mkCtx p f) s)
      simp only [solInit2D] at hs
      rw [hs]
      simp only [solOutOf, solFin2D, solStep2D, solInit2D, shelfK]
      split
      · rename_i h; rw [h]
      · rename_i iS h; rw [h]; try rfl

end
end Snow.S2D
