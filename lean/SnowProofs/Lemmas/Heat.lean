/-
  Helper lemmas for C09: the matrix entry in geometric terms for vial indices, and the
  integer row sums of the interaction matrix as `Finset` sums.
-/
import SnowProofs.Lemmas.Topology
import Mathlib.Algebra.BigOperators.Ring.Finset
import Mathlib.Algebra.BigOperators.Group.Finset.Sigma

namespace Snow.Topology
open Finset

variable {nx ny nz : Nat} {i j : Nat}

/-- entry of the interaction pattern in terms of the geometric relation -/
theorem entry_geom (arr : Arr) (hi : i < nTot nx ny nz) (hj : j < nTot nx ny nz) :
    entry arr nx ny nz i j
      = if geomNbr arr (coords nx ny i) (coords nx ny j) = true then 1 else 0 := by
  have := entry_eq arr (coords_inBox hi) (coords_inBox hj)
  rwa [idx_coords, idx_coords] at this

theorem adj_self_false (arr : Arr) (hi : i < nTot nx ny nz) : adj arr nx ny nz i i = false := by
  have h : ¬ (geomNbr arr (coords nx ny i) (coords nx ny i) = true) := by
    cases arr <;> simp [geomNbr, dist]
  unfold adj
  rw [entry_geom arr hi hi, if_neg h]
  rfl

theorem S_eq_sum (N : Nat) (f : Nat → Nat) : S N f = ∑ j ∈ range N, f j := by
  induction N with
  | zero => rfl
  | succ n ih => rw [S_succ, ih, Finset.sum_range_succ]

theorem imat_row_sum (arr : Arr) (hi : i < nTot nx ny nz) :
    ∑ j ∈ range (nTot nx ny nz), imat arr nx ny nz i j = 0 := by
  have hii : entry arr nx ny nz i i = 0 := by
    have := adj_self_false arr hi
    simpa [adj] using this
  have h1 : ∀ j, imat arr nx ny nz i j
      = (entry arr nx ny nz i j : Int) - (if j = i then (deg arr nx ny nz i : Int) else 0) := by
    intro j
    unfold imat
    by_cases h : i = j
    · subst h; simp [hii]
    · have h' : ¬ j = i := fun e => h e.symm
      simp [h, h']
  have hi' : i ∈ range (nTot nx ny nz) := Finset.mem_range.mpr hi
  rw [Finset.sum_congr rfl (fun j _ => h1 j), Finset.sum_sub_distrib, Finset.sum_ite_eq' (range _) i,
    if_pos hi']
  have : ((deg arr nx ny nz i : Nat) : Int) = ∑ j ∈ range (nTot nx ny nz), (entry arr nx ny nz i j : Int) := by
    have : deg arr nx ny nz i = S (nTot nx ny nz) (entry arr nx ny nz i) := rfl
    rw [this, S_eq_sum]; push_cast; rfl
  rw [this]; exact sub_self _

theorem imat_symm (arr : Arr) (nx ny nz i j : Nat) : imat arr nx ny nz i j = imat arr nx ny nz j i := by
  unfold imat
  by_cases h : i = j
  · subst h; rfl
  · have h' : ¬ j = i := fun e => h e.symm
    simp only [h, h', if_false]
    unfold entry; rw [Nat.add_comm]

end Snow.Topology
