/-
  Structure of one step and of the run of `SnowModel/Flake.lean`:
  heat flow as a sum over neighbours, cancellation of inter-vial heat, per-vial form of
  `stepCN`, case analysis of a vial transition, the run as iterated steps.
-/
import SnowProofs.Lemmas.Flake
import Mathlib.Algebra.BigOperators.Group.Finset.Basic
import Mathlib.Algebra.BigOperators.Ring.Finset
import Mathlib.Algebra.Order.BigOperators.Group.Finset

namespace Snow.FlakeLemmas
open Snow Num Snow.Flake

/-! ### heat flow -/

theorem foldl_heat (h : ℝ) (f : Nat → ℝ) (nb : List Nat) (z : ℝ) :
    nb.foldl (fun acc j => acc + h * f j) z = z + h * (nb.map f).sum := by
  induction nb generalizing z with
  | nil => simp
  | cons a t ih => simp only [List.foldl_cons, List.map_cons, List.sum_cons]; rw [ih]; ring

/-- heat received by vial `i` from its neighbours: `Σ_j k_int·A·(T_j − T_i)` -/
def qPair (p : Params ℝ) (Ts : Array ℝ) (i : Nat) : ℝ :=
  ((p.nbrs.getD i []).map fun j => p.kInt * p.A * (Ts.getD j 0 - Ts.getD i 0)).sum

theorem qInt_eq (p : Params ℝ) (Ts : Array ℝ) (i : Nat) : qInt p Ts i = qPair p Ts i := by
  unfold qInt qPair hOff hDiag
  simp only [zero_real, ofInt_real]
  rw [foldl_heat]
  generalize p.nbrs.getD i [] = nb
  induction nb with
  | nil => simp
  | cons a t ih =>
    simp only [List.map_cons, List.sum_cons, List.length_cons] at ih ⊢
    push_cast at ih ⊢
    linarith

/-- the model's `q_k[i]` is: neighbours + surroundings + shelf, each conductance × ΔT -/
theorem heatFlow_eq (p : Params ℝ) (Ts : Array ℝ) (Tsh Text : ℝ) (i : Nat) :
    heatFlow p Ts Tsh Text i =
      qPair p Ts i + (p.ext.getD i 0 : ℝ) * p.kExt * p.A * (Text - Ts.getD i 0)
        + p.kShelf.getD i 0 * p.A * (Tsh - Ts.getD i 0) := by
  unfold heatFlow
  rw [qInt_eq]
  simp [hExt, hShelf]

/-- a symmetric neighbour structure on `n` vials (multiplicities allowed) -/
structure SymNbrs (nbrs : List (List Nat)) (n : Nat) : Prop where
  lt : ∀ i, i < n → ∀ j ∈ nbrs.getD i [], j < n
  sym : ∀ i j, i < n → j < n → (nbrs.getD i []).count j = (nbrs.getD j []).count i

theorem qPair_as_sum (p : Params ℝ) (Ts : Array ℝ) (n i : Nat)
    (hlt : ∀ j ∈ p.nbrs.getD i [], j < n) :
    qPair p Ts i = ∑ j ∈ Finset.range n,
      ((p.nbrs.getD i []).count j : ℝ) * (p.kInt * p.A * (Ts.getD j 0 - Ts.getD i 0)) := by
  unfold qPair
  rw [Finset.sum_list_map_count]
  have hsub : (p.nbrs.getD i []).toFinset ⊆ Finset.range n := by
    intro j hj
    exact Finset.mem_range.mpr (hlt j (List.mem_toFinset.mp hj))
  rw [← Finset.sum_subset hsub]
  · apply Finset.sum_congr rfl
    intro j _
    simp [nsmul_eq_mul]
  · intro j _ hj
    have : (p.nbrs.getD i []).count j = 0 := List.count_eq_zero.mpr (fun h => hj (List.mem_toFinset.mpr h))
    rw [this]; simp

/-- **inter-vial heat cancels** over the batch for a symmetric neighbour relation -/
theorem qPair_sum_zero (p : Params ℝ) (Ts : Array ℝ) (n : Nat) (hs : SymNbrs p.nbrs n) :
    ∑ i ∈ Finset.range n, qPair p Ts i = 0 := by
  set w : Nat → Nat → ℝ := fun i j => ((p.nbrs.getD i []).count j : ℝ) with hw
  set g : Nat → Nat → ℝ := fun i j => p.kInt * p.A * (Ts.getD j 0 - Ts.getD i 0) with hg
  have h1 : ∑ i ∈ Finset.range n, qPair p Ts i
      = ∑ i ∈ Finset.range n, ∑ j ∈ Finset.range n, w i j * g i j := by
    apply Finset.sum_congr rfl
    intro i hi
    exact qPair_as_sum p Ts n i (hs.lt i (Finset.mem_range.mp hi))
  have h2 : ∑ i ∈ Finset.range n, ∑ j ∈ Finset.range n, w i j * g i j
      = ∑ i ∈ Finset.range n, ∑ j ∈ Finset.range n, w j i * g j i := Finset.sum_comm
  have h3 : ∑ i ∈ Finset.range n, ∑ j ∈ Finset.range n, w j i * g j i
      = -∑ i ∈ Finset.range n, ∑ j ∈ Finset.range n, w i j * g i j := by
    rw [← Finset.sum_neg_distrib]
    apply Finset.sum_congr rfl
    intro i hi
    rw [← Finset.sum_neg_distrib]
    apply Finset.sum_congr rfl
    intro j hj
    have : w j i = w i j := by
      simp only [hw]
      exact_mod_cast hs.sym j i (Finset.mem_range.mp hj) (Finset.mem_range.mp hi)
    rw [this]
    simp only [hg]
    ring
  rw [h1]
  linarith [h2.trans h3]

/-! ### per-vial form of a step (any numeric instance) -/

section
variable {α : Type} [Transc α]

/-- what `stepCN` does to vial `i` (value `v`) of state `s` -/
def vialStep (p : Params α) (isCN : Bool) (k : Nat) (Tsh : α) (s : State α) (i : Nat) (v : Vial α) :
    Vial α :=
  vialFinal p (timeAt p.dt k) isCN
    (vialMid p (timeAt p.dt k) (anySolid s) v (heatFlow p (temps s) Tsh Tsh i))
    (p.kb.getD i zero) ((diceOf p k Tsh s).getD i zero)

theorem stepCN_getElem? (p : Params α) (isCN : Bool) (k : Nat) (Tsh : α) (s : State α) (i : Nat) :
    (stepCN p isCN k Tsh s).vials[i]? = (s.vials[i]?).map (vialStep p isCN k Tsh s i) := by
  simp only [stepCN, mids, Array.getElem?_mapIdx, Option.map_map]
  rfl

@[simp] theorem stepCN_size (p : Params α) (isCN : Bool) (k : Nat) (Tsh : α) (s : State α) :
    (stepCN p isCN k Tsh s).vials.size = s.vials.size := by
  simp [stepCN, mids]

/-- the dice stream: a step consumes one generator call iff some vial is liquid -/
theorem stepCN_dice (p : Params α) (isCN : Bool) (k : Nat) (Tsh : α) (s : State α) :
    (stepCN p isCN k Tsh s).dice = if anyLiquid s then s.dice.tail else s.dice := rfl

/-! ### the run as iterated steps -/

/-- states at the start of the steps `k, k+1, …` (one per profile sample) -/
def trajList (p : Params α) (kCN : Nat) : Nat → List α → State α → List (State α)
  | _, [], _ => []
  | k, T :: r, s => s :: trajList p kCN (k + 1) r (step p kCN k T s)

def finalState (p : Params α) (kCN : Nat) : Nat → List α → State α → State α
  | _, [], s => s
  | k, T :: r, s => finalState p kCN (k + 1) r (step p kCN k T s)

theorem loop_eq (p : Params α) (kCN k : Nat) (l : List α) (s : State α) (acc : Array (State α)) :
    loop p kCN k l s acc = (acc ++ (trajList p kCN k l s).toArray, finalState p kCN k l s) := by
  induction l generalizing k s acc with
  | nil => simp [loop, trajList, finalState]
  | cons T r ih =>
    simp only [loop, trajList, finalState]
    rw [ih]
    simp

@[simp] theorem trajList_length (p : Params α) (kCN k : Nat) (l : List α) (s : State α) :
    (trajList p kCN k l s).length = l.length := by
  induction l generalizing k s with
  | nil => rfl
  | cons T r ih => simp [trajList, ih]

theorem trajList_zero (p : Params α) (kCN k : Nat) (T : α) (r : List α) (s : State α) :
    (trajList p kCN k (T :: r) s)[0]? = some s := by simp [trajList]

theorem trajList_succ (p : Params α) (kCN k : Nat) (l : List α) (s : State α) (j : Nat)
    (sj : State α) (T : α) (hs : (trajList p kCN k l s)[j]? = some sj) (hT : l[j]? = some T)
    (hj : j + 1 < l.length) :
    (trajList p kCN k l s)[j + 1]? = some (step p kCN (k + j) T sj) := by
  induction l generalizing k s j with
  | nil => simp at hj
  | cons T0 r ih =>
    cases j with
    | zero =>
      simp only [trajList, List.getElem?_cons_zero, Option.some.injEq] at hs hT
      subst hs; subst hT
      simp only [trajList, List.getElem?_cons_succ]
      cases r with
      | nil => simp at hj
      | cons T1 r' => simp [trajList]
    | succ j' =>
      simp only [trajList, List.getElem?_cons_succ] at hs hT ⊢
      have := ih (k + 1) (step p kCN k T0 s) j' hs hT (by simpa using hj)
      rw [this]
      congr 2
      omega

theorem finalState_eq (p : Params α) (kCN k : Nat) (l : List α) (s : State α) (sl : State α) (T : α)
    (hl : (trajList p kCN k l s)[l.length - 1]? = some sl) (hT : l[l.length - 1]? = some T)
    (hne : l ≠ []) :
    finalState p kCN k l s = step p kCN (k + (l.length - 1)) T sl := by
  induction l generalizing k s with
  | nil => exact absurd rfl hne
  | cons T0 r ih =>
    cases r with
    | nil =>
      simp only [trajList, List.length_cons, List.length_nil, Nat.zero_add, Nat.sub_self,
        List.getElem?_cons_zero, Option.some.injEq] at hl hT
      subst hl; subst hT
      simp [finalState]
    | cons T1 r' =>
      simp only [finalState]
      have e : (T0 :: T1 :: r').length - 1 = ((T1 :: r').length - 1) + 1 := by simp
      rw [e] at hl hT
      simp only [trajList, List.getElem?_cons_succ] at hl hT
      have := ih (k + 1) (step p kCN k T0 s) hl hT (by simp)
      simp only [finalState] at this
      rw [this, e]
      congr 1
      omega

/-- the trajectory from column `j` on is the trajectory started at that column's state -/
theorem trajList_drop (p : Params α) (kCN : Nat) (l : List α) (k : Nat) (s : State α) (j : Nat)
    (sj : State α) (h : (trajList p kCN k l s)[j]? = some sj) :
    trajList p kCN (k + j) (l.drop j) sj = (trajList p kCN k l s).drop j ∧
    finalState p kCN (k + j) (l.drop j) sj = finalState p kCN k l s := by
  induction l generalizing k s j with
  | nil => simp [trajList] at h
  | cons T r ih =>
    cases j with
    | zero =>
      simp only [trajList, List.getElem?_cons_zero, Option.some.injEq] at h
      subst h
      simp
    | succ j' =>
      simp only [trajList, List.getElem?_cons_succ] at h
      have := ih (k + 1) (step p kCN k T s) j' h
      have e : k + (j' + 1) = k + 1 + j' := by omega
      rw [e]
      simpa [trajList, finalState] using this

end

end Snow.FlakeLemmas
