/-
  `SimpPlan.eval (mkPlan x) y` (the Simpson rule with pre-computed abscissa factors used by the 2D
  model, `SnowModel/Snowing2D.lean`) is `simpson` of `SnowModel/Simpson.lean` – for every numeric
  instance, operation by operation (no ring laws are used).
-/
import SnowModel.Snowing2D
import SnowProofs.Lemmas.SimpsonArr
import SnowProofs.Lemmas.Snowing

namespace Snow.S2D
open Snow Num

section
variable {α : Type} [Num α]

/-- the samples `y 0, …, y (N-1)` of a reader as a list -/
def samples (y : Nat → α) (N : Nat) : List α := (List.range N).map y

omit [Num α] in
@[simp] theorem length_samples (y : Nat → α) (N : Nat) : (samples y N).length = N := by
  simp [samples]

theorem nth_samples (y : Nat → α) (N j : Nat) (h : j < N) : nth (samples y N) j = y j := by
  simp [nth, samples, List.getD_eq_getElem?_getD, h]

theorem term_eq (x : Array α) (y : Nat → α) (k : Nat)
    (hk : k < (if x.size % 2 == 0 then (x.size - 2) / 2 else (x.size - 1) / 2))
    (h2 : 2 * k + 2 < x.size) :
    (mkPlan x).term y k = simpsonTerm (samples y x.size) x.toList (2 * k) := by
  unfold SimpPlan.term mkPlan simpsonTerm
  simp only []
  rw [aget_ofFn _ _ k hk, aget_ofFn _ _ k hk, aget_ofFn _ _ k hk, aget_ofFn _ _ k hk]
  rw [nth_samples y _ (2 * k) (by omega), nth_samples y _ (2 * k + 1) (by omega),
    nth_samples y _ (2 * k + 2) h2]
  simp only [aget_eq_nth]

theorem foldl_terms_eq (x : Array α) (y : Nat → α) (m : Nat)
    (hm : m = (if x.size % 2 == 0 then (x.size - 2) / 2 else (x.size - 1) / 2))
    (h2 : ∀ k, k < m → 2 * k + 2 < x.size) :
    (List.range m).foldl (fun acc k => acc + (mkPlan x).term y k) zero
      = sumList ((List.range m).map fun k => simpsonTerm (samples y x.size) x.toList (2 * k)) := by
  unfold sumList
  rw [List.foldl_map]
  apply List.foldl_ext
  intro a k hk
  have hk' : k < m := by simpa using hk
  rw [term_eq x y k (by rw [← hm]; exact hk') (h2 k hk')]

/-- **the plan evaluates SciPy's `simpson`** -/
theorem plan_eval_eq_simpson (x : Array α) (y : Nat → α) :
    (mkPlan x).eval y = simpson (samples y x.size) x.toList := by
  unfold SimpPlan.eval simpson
  have hN : (mkPlan x).N = x.size := rfl
  simp only [hN, length_samples]
  by_cases hev : (x.size % 2 == 0) = true
  · simp only [hev, if_true]
    by_cases h2 : (x.size == 2) = true
    · simp only [h2, if_true]
      have e2 : x.size = 2 := by simpa using h2
      rw [nth_samples y _ 1 (by omega), nth_samples y _ 0 (by omega)]
      simp only [mkPlan, aget_eq_nth]
    · simp only [h2, Bool.false_eq_true, if_false]
      by_cases h0 : (x.size == 0) = true
      · simp only [h0, if_true]
      · simp only [h0, Bool.false_eq_true, if_false]
        have hne2 : x.size ≠ 2 := by simpa using h2
        have hne0 : x.size ≠ 0 := by simpa using h0
        have hmod : x.size % 2 = 0 := by simpa using hev
        have hge : 4 ≤ x.size := by omega
        rw [nth_samples y _ (x.size - 1) (by omega), nth_samples y _ (x.size - 2) (by omega),
          nth_samples y _ (x.size - 3) (by omega)]
        unfold basicSimpson
        have hcount : (x.size - 3 + 1) / 2 = (x.size - 2) / 2 := by omega
        rw [hcount, foldl_terms_eq x y ((x.size - 2) / 2) (by simp [hev]) (by intro k hk; omega)]
        simp only [mkPlan, aget_eq_nth]
  · simp only [hev, Bool.false_eq_true, if_false]
    have hmod : x.size % 2 = 1 := by
      have : ¬ x.size % 2 = 0 := by simpa using hev
      omega
    unfold basicSimpson
    have hcount : (x.size - 2 + 1) / 2 = (x.size - 1) / 2 := by omega
    rw [hcount, foldl_terms_eq x y ((x.size - 1) / 2) (by simp [hev]) (by intro k hk; omega)]

end
end Snow.S2D
