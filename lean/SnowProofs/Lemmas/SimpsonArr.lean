/-
  Lemmas about SciPy's `simpson` as modelled in `SnowModel/Simpson.lean` /
  `SnowModel/SimpsonArr.lean`:

  * the array version equals the list version (every numeric instance),
  * over ℝ, on `N ≥ 3` uniformly spaced points, `simpson y x = Σ_j simpsonW N h j · y_j` with the
    explicit weights – odd `N`: `h/3·[1,4,2,…,4,1]`; even `N`: composite rule on the first `N−1`
    points + the Cartwright end correction, last three weights `5h/4, h, 5h/12` – DERIVED from the
    model's formula (irregular-spacing segment formula with `h0 = h1 = h`, `alpha, beta, eta`),
  * all weights are ≥ 0, hence `simpson` is non-negative on non-negative data and monotone,
  * `np.linspace(0, H, n)` is uniform over ℝ.
-/
import SnowModel.SimpsonArr
import SnowProofs.RealInst
import Mathlib.Algebra.BigOperators.Group.Finset.Basic
import Mathlib.Algebra.Order.BigOperators.Group.Finset
import Mathlib.Algebra.BigOperators.Intervals
import Mathlib.Tactic.FieldSimp
import Mathlib.Tactic.Linarith
import Mathlib.Tactic.Positivity

namespace Snow
open Num Finset

section gen
variable {α : Type} [Num α]

theorem aget_eq_nth (a : Array α) (i : Nat) : aget a i = nth a.toList i := by
  simp [aget, nth, Array.getD_eq_getD_getElem?, List.getD_eq_getElem?_getD]

theorem simpsonTermA_eq (y x : Array α) (i : Nat) : simpsonTermA y x i = simpsonTerm y.toList x.toList i := by
  simp only [simpsonTermA, simpsonTerm, aget_eq_nth]

theorem basicSimpsonA_eq (y x : Array α) (s : Nat) : basicSimpsonA y x s = basicSimpson y.toList x.toList s := by
  simp only [basicSimpsonA, basicSimpson, simpsonTermA_eq]

theorem simpsonA_eq_simpson (y x : Array α) : simpsonA y x = simpson y.toList x.toList := by
  simp only [simpsonA, simpson, aget_eq_nth, basicSimpsonA_eq, Array.length_toList]
end gen

theorem sumList_real (l : List ℝ) : sumList l = l.sum := by
  simp [sumList, List.sum_eq_foldl]

theorem simpsonTerm_uniform (y x : List ℝ) (i : ℕ) (h : ℝ) (hh : h ≠ 0)
    (h0 : nth x (i+1) - nth x i = h) (h1 : nth x (i+2) - nth x (i+1) = h) :
    simpsonTerm y x i = h/3 * (nth y i + 4 * nth y (i+1) + nth y (i+2)) := by
  unfold simpsonTerm
  simp only [h0, h1, divOr0, eqb_real, zero_real, one_real, ofNat'_real]
  have h2 : h * h ≠ 0 := mul_ne_zero hh hh
  simp [hh, h2]
  field_simp
  ring

/-- uniform grid: consecutive abscissae differ by `h` -/
def Uniform (x : List ℝ) (h : ℝ) : Prop := ∀ i, i + 1 < x.length → nth x (i+1) - nth x i = h

/-- Simpson weights of the composite rule on an odd number `N` of points: `h/3·[1,4,2,…,4,1]` -/
noncomputable def wOdd (N : ℕ) (h : ℝ) (j : ℕ) : ℝ :=
  if j = 0 ∨ j + 1 = N then h / 3 else if j % 2 = 1 then 4 * h / 3 else 2 * h / 3

/-- weights of `scipy.integrate.simpson` on an even number `N ≥ 4` of uniformly spaced points:
composite rule on the first `N−1` points plus the end correction; the last three weights
are `5h/4, h, 5h/12` -/
noncomputable def wEven (N : ℕ) (h : ℝ) (j : ℕ) : ℝ :=
  if j + 1 = N then 5 * h / 12 else if j + 2 = N then h else if j + 3 = N then 5 * h / 4
  else wOdd (N - 1) h j

/-- the weights of `simpson` on `N ≥ 3` uniformly spaced points -/
noncomputable def simpsonW (N : ℕ) (h : ℝ) (j : ℕ) : ℝ :=
  if N % 2 = 1 then wOdd N h j else wEven N h j

theorem wOdd_nonneg (N : ℕ) (h : ℝ) (hh : 0 ≤ h) (j : ℕ) : 0 ≤ wOdd N h j := by
  unfold wOdd; split_ifs <;> positivity

theorem simpsonW_nonneg (N : ℕ) (h : ℝ) (hh : 0 ≤ h) (j : ℕ) : 0 ≤ simpsonW N h j := by
  unfold simpsonW wEven
  split_ifs <;> first | positivity | exact wOdd_nonneg _ _ hh _

/-- composite rule as a weighted sum, `K ≥ 1` panels -/
theorem composite_eq_weights (Y : ℕ → ℝ) (h : ℝ) (K : ℕ) :
    ∑ k ∈ range (K + 1), h / 3 * (Y (2 * k) + 4 * Y (2 * k + 1) + Y (2 * k + 2))
      = ∑ j ∈ range (2 * (K + 1) + 1), wOdd (2 * (K + 1) + 1) h j * Y j := by
  induction K with
  | zero =>
    simp [Finset.sum_range_succ, wOdd]
    ring
  | succ K ih =>
    rw [Finset.sum_range_succ, ih]
    have e : 2 * (K + 1 + 1) + 1 = (2 * (K + 1)) + 1 + 1 + 1 := by ring
    rw [e, Finset.sum_range_succ, Finset.sum_range_succ, Finset.sum_range_succ,
      Finset.sum_range_succ _ (2 * (K + 1))]
    have hc : ∀ j ∈ range (2 * (K + 1)),
        wOdd (2 * (K + 1) + 1 + 1 + 1) h j * Y j = wOdd (2 * (K + 1) + 1) h j * Y j := by
      intro j hj
      have hj' : j < 2 * (K + 1) := by simpa using hj
      unfold wOdd
      have a1 : ¬ (j + 1 = 2 * (K + 1) + 1 + 1 + 1) := by omega
      have a2 : ¬ (j + 1 = 2 * (K + 1) + 1) := by omega
      simp only [a1, a2, or_false]
    rw [Finset.sum_congr rfl hc]
    have w1 : wOdd (2 * (K + 1) + 1 + 1 + 1) h (2 * (K + 1)) = 2 * h / 3 := by
      unfold wOdd
      have a1 : ¬ (2 * (K + 1) = 0 ∨ 2 * (K + 1) + 1 = 2 * (K + 1) + 1 + 1 + 1) := by omega
      have a2 : ¬ ((2 * (K + 1)) % 2 = 1) := by omega
      simp only [a1, a2, if_false]
    have w2 : wOdd (2 * (K + 1) + 1 + 1 + 1) h (2 * (K + 1) + 1) = 4 * h / 3 := by
      unfold wOdd
      have a1 : ¬ (2 * (K + 1) + 1 = 0 ∨ 2 * (K + 1) + 1 + 1 = 2 * (K + 1) + 1 + 1 + 1) := by omega
      have a2 : ((2 * (K + 1) + 1) % 2 = 1) := by omega
      simp only [a1, a2, if_false, if_true]
    have w3 : wOdd (2 * (K + 1) + 1 + 1 + 1) h (2 * (K + 1) + 1 + 1) = h / 3 := by
      unfold wOdd; simp
    have w4 : wOdd (2 * (K + 1) + 1) h (2 * (K + 1)) = h / 3 := by
      unfold wOdd; simp
    rw [w1, w2, w3, w4]
    have e2 : 2 * (K + 1) + 1 + 1 = 2 * (K + 1) + 2 := by ring
    rw [e2]
    ring

theorem list_range_map_sum (f : ℕ → ℝ) (n : ℕ) : ((List.range n).map f).sum = ∑ k ∈ range n, f k := by
  induction n with
  | zero => simp
  | succ n ih => rw [List.range_succ, List.map_append, List.sum_append, ih, Finset.sum_range_succ]; simp

theorem basicSimpson_uniform (y x : List ℝ) (h : ℝ) (hh : h ≠ 0) (hu : Uniform x h) (K stop : ℕ)
    (hstop : (stop + 1) / 2 = K) (hlen : 2 * K + 1 ≤ x.length) :
    basicSimpson y x stop
      = ∑ k ∈ range K, h / 3 * (nth y (2 * k) + 4 * nth y (2 * k + 1) + nth y (2 * k + 2)) := by
  unfold basicSimpson
  rw [sumList_real, hstop, list_range_map_sum]
  apply Finset.sum_congr rfl
  intro k hk
  have hk' : k < K := by simpa using hk
  exact simpsonTerm_uniform y x (2 * k) h hh (hu (2 * k) (by omega)) (hu (2 * k + 1) (by omega))

/-- **Simpson weights** (both parities): on `N ≥ 3` uniformly spaced points SciPy's `simpson`
is the weighted sum with the explicit weights `simpsonW`. -/
theorem simpson_uniform_weights (y x : List ℝ) (h : ℝ) (hh : h ≠ 0) (hu : Uniform x h)
    (hlen : x.length = y.length) (hN : 3 ≤ y.length) :
    simpson y x = ∑ j ∈ range y.length, simpsonW y.length h j * nth y j := by
  obtain ⟨N, hNy⟩ : ∃ N, y.length = N := ⟨_, rfl⟩
  rcases Nat.even_or_odd' N with ⟨M, hM | hM⟩
  · -- even N = 2M, M ≥ 2 : N = 2K+4
    obtain ⟨K, hK⟩ : ∃ K, M = K + 2 := ⟨M - 2, by omega⟩
    have hNK : N = 2 * (K + 1) + 1 + 1 := by omega
    unfold simpson
    simp only [hNy]
    have c1 : (N % 2 == 0) = true := by simp; omega
    have c2 : (N == 2) = false := by simp; omega
    have c3 : (N == 0) = false := by simp; omega
    simp only [c1, c2, c3, if_true, Bool.false_eq_true, if_false]
    have s1 : N - 3 = 2 * K + 1 := by omega
    have s2 : N - 2 = 2 * K + 2 := by omega
    have s3 : N - 1 = 2 * K + 3 := by omega
    rw [basicSimpson_uniform y x h hh hu (K + 1) (N - 3) (by omega) (by omega)]
    have d0 : nth x (N - 2) - nth x (N - 3) = h := by
      rw [s1, s2]; exact hu (2 * K + 1) (by omega)
    have d1 : nth x (N - 1) - nth x (N - 2) = h := by
      rw [s2, s3]; exact hu (2 * K + 2) (by omega)
    rw [d0, d1, composite_eq_weights]
    simp only [divOr0, eqb_real, zero_real, one_real, ofNat'_real, Nat.cast_ofNat]
    have e1 : (6 : ℝ) * (h + h) ≠ 0 := by
      have : h + h = 2 * h := by ring
      rw [this]; positivity
    have e2 : (6 : ℝ) * h ≠ 0 := by positivity
    have e3 : (6 : ℝ) * h * (h + h) ≠ 0 := by
      have : h + h = 2 * h := by ring
      rw [this]; positivity
    simp only [e1, e2, e3, decide_false, Bool.false_eq_true, if_false]
    -- weighted side
    have eN : N = 2 * K + 1 + 1 + 1 + 1 := by omega
    have eM : 2 * (K + 1) + 1 = 2 * K + 1 + 1 + 1 := by ring
    rw [eN, eM]
    have L : ∑ j ∈ range (2 * K + 1 + 1 + 1), wOdd (2 * K + 1 + 1 + 1) h j * nth y j
        = ∑ j ∈ range (2 * K + 1), wOdd (2 * K + 1 + 1 + 1) h j * nth y j
          + 4 * h / 3 * nth y (2 * K + 1) + h / 3 * nth y (2 * K + 1 + 1) := by
      rw [Finset.sum_range_succ, Finset.sum_range_succ]
      have w4 : wOdd (2 * K + 1 + 1 + 1) h (2 * K + 1 + 1) = h / 3 := by
        unfold wOdd; simp
      have w5 : wOdd (2 * K + 1 + 1 + 1) h (2 * K + 1) = 4 * h / 3 := by
        unfold wOdd
        have a1 : ¬ (2 * K + 1 = 0 ∨ 2 * K + 1 + 1 = 2 * K + 1 + 1 + 1) := by omega
        have a2 : (2 * K + 1) % 2 = 1 := by omega
        simp only [a1, a2, if_false, if_true]
      rw [w4, w5]
    have R : ∑ j ∈ range (2 * K + 1 + 1 + 1 + 1), simpsonW (2 * K + 1 + 1 + 1 + 1) h j * nth y j
        = ∑ j ∈ range (2 * K + 1), wOdd (2 * K + 1 + 1 + 1) h j * nth y j
          + 5 * h / 4 * nth y (2 * K + 1) + h * nth y (2 * K + 1 + 1)
          + 5 * h / 12 * nth y (2 * K + 1 + 1 + 1) := by
      rw [Finset.sum_range_succ, Finset.sum_range_succ, Finset.sum_range_succ]
      have a0 : ¬ ((2 * K + 1 + 1 + 1 + 1) % 2 = 1) := by omega
      have hc : ∀ j ∈ range (2 * K + 1),
          simpsonW (2 * K + 1 + 1 + 1 + 1) h j * nth y j = wOdd (2 * K + 1 + 1 + 1) h j * nth y j := by
        intro j hj
        have hj' : j < 2 * K + 1 := by simpa using hj
        unfold simpsonW wEven
        have a1 : ¬ (j + 1 = 2 * K + 1 + 1 + 1 + 1) := by omega
        have a2 : ¬ (j + 2 = 2 * K + 1 + 1 + 1 + 1) := by omega
        have a3 : ¬ (j + 3 = 2 * K + 1 + 1 + 1 + 1) := by omega
        simp only [a0, a1, a2, a3, if_false]
        rfl
      rw [Finset.sum_congr rfl hc]
      have w1 : simpsonW (2 * K + 1 + 1 + 1 + 1) h (2 * K + 1 + 1 + 1) = 5 * h / 12 := by
        unfold simpsonW wEven
        simp only [a0, if_false, if_true]
      have w2 : simpsonW (2 * K + 1 + 1 + 1 + 1) h (2 * K + 1 + 1) = h := by
        unfold simpsonW wEven
        have a1 : ¬ (2 * K + 1 + 1 + 1 = 2 * K + 1 + 1 + 1 + 1) := by omega
        simp only [a0, a1, if_false, if_true]
      have w3 : simpsonW (2 * K + 1 + 1 + 1 + 1) h (2 * K + 1) = 5 * h / 4 := by
        unfold simpsonW wEven
        have a1 : ¬ (2 * K + 1 + 1 = 2 * K + 1 + 1 + 1 + 1) := by omega
        have a2 : ¬ (2 * K + 1 + 2 = 2 * K + 1 + 1 + 1 + 1) := by omega
        simp only [a0, a1, a2, if_false, if_true]
      rw [w1, w2, w3]
    rw [L, R]
    have t1 : 2 * K + 1 + 1 + 1 + 1 - 1 = 2 * K + 1 + 1 + 1 := by omega
    have t2 : 2 * K + 1 + 1 + 1 + 1 - 2 = 2 * K + 1 + 1 := by omega
    have t3 : 2 * K + 1 + 1 + 1 + 1 - 3 = 2 * K + 1 := by omega
    rw [t1, t2, t3]
    field_simp
    ring
  · -- odd N = 2M+1, M ≥ 1 : N = 2(K+1)+1
    obtain ⟨K, hK⟩ : ∃ K, M = K + 1 := ⟨M - 1, by omega⟩
    have hNK : N = 2 * (K + 1) + 1 := by omega
    unfold simpson
    simp only [hNy]
    have c1 : (N % 2 == 0) = false := by simp; omega
    simp only [c1, Bool.false_eq_true, if_false]
    rw [basicSimpson_uniform y x h hh hu (K + 1) (N - 2) (by omega) (by omega), composite_eq_weights, hNK]
    apply Finset.sum_congr rfl
    intro j _
    unfold simpsonW
    have a0 : (2 * (K + 1) + 1) % 2 = 1 := by omega
    simp only [a0, if_true]


/-! ### consequences used by the Snowing properties -/

theorem simpson_nonneg (y x : List ℝ) (h : ℝ) (hh : 0 < h) (hu : Uniform x h)
    (hlen : x.length = y.length) (hN : 3 ≤ y.length) (hy : ∀ j, j < y.length → 0 ≤ nth y j) :
    0 ≤ simpson y x := by
  rw [simpson_uniform_weights y x h (ne_of_gt hh) hu hlen hN]
  apply Finset.sum_nonneg
  intro j hj
  exact mul_nonneg (simpsonW_nonneg _ _ (le_of_lt hh) _) (hy j (by simpa using hj))

/-- monotone in the integrand (non-negative weights) -/
theorem simpson_mono (y y' x : List ℝ) (h : ℝ) (hh : 0 < h) (hu : Uniform x h)
    (hlen : x.length = y.length) (hlen' : y'.length = y.length) (hN : 3 ≤ y.length)
    (hy : ∀ j, j < y.length → nth y j ≤ nth y' j) :
    simpson y x ≤ simpson y' x := by
  rw [simpson_uniform_weights y x h (ne_of_gt hh) hu hlen hN,
    simpson_uniform_weights y' x h (ne_of_gt hh) hu (by omega) (by omega), hlen']
  apply Finset.sum_le_sum
  intro j hj
  exact mul_le_mul_of_nonneg_left (hy j (by simpa using hj)) (simpsonW_nonneg _ _ (le_of_lt hh) _)

/-- `simpson (c·y) = c·simpson y` -/
theorem simpson_smul (y y' x : List ℝ) (c h : ℝ) (hh : h ≠ 0) (hu : Uniform x h)
    (hlen : x.length = y.length) (hlen' : y'.length = y.length) (hN : 3 ≤ y.length)
    (hy : ∀ j, j < y.length → nth y' j = c * nth y j) :
    simpson y' x = c * simpson y x := by
  rw [simpson_uniform_weights y x h hh hu hlen hN,
    simpson_uniform_weights y' x h hh hu (by omega) (by omega), hlen', Finset.mul_sum]
  apply Finset.sum_congr rfl
  intro j hj
  rw [hy j (by simpa using hj)]; ring

/-- the z grid of the 1D model is uniform (over ℝ): `linspace(0, H, n)` has spacing `H/(n−1)` -/
theorem uniform_linspace0 (H : ℝ) (n : ℕ) (hn : 2 ≤ n) :
    Uniform (linspace0 H n) (H / ((n - 1 : ℕ) : ℝ)) := by
  have hne : ((n - 1 : ℕ) : ℝ) ≠ 0 := by
    have : 0 < n - 1 := by omega
    exact_mod_cast (Nat.pos_iff_ne_zero.mp this)
  have key : ∀ i, i < n → nth (linspace0 H n) i = (i : ℝ) * (H / ((n - 1 : ℕ) : ℝ)) := by
    intro i hi
    unfold nth linspace0
    rw [List.getD_eq_getElem?_getD, List.getElem?_map, List.getElem?_range hi]
    simp only [Option.map_some, Option.getD_some, ofNat'_real]
    by_cases hl : i + 1 = n
    · have : i = n - 1 := by omega
      simp only [hl, beq_self_eq_true, if_true]
      rw [this]; field_simp
    · have : (i + 1 == n) = false := by simpa using hl
      simp only [this, Bool.false_eq_true, if_false]
  intro i hi
  have hlen : (linspace0 H n).length = n := by simp [linspace0]
  rw [hlen] at hi
  rw [key (i + 1) hi, key i (by omega)]
  push_cast; ring

/-- the nodes of `linspace(0, H, n)` over ℝ -/
theorem nth_linspace0 (H : ℝ) (n : ℕ) (hn : 2 ≤ n) (i : ℕ) (hi : i < n) :
    nth (linspace0 H n) i = (i : ℝ) * (H / ((n - 1 : ℕ) : ℝ)) := by
  have hne : ((n - 1 : ℕ) : ℝ) ≠ 0 := by
    have : 0 < n - 1 := by omega
    exact_mod_cast (Nat.pos_iff_ne_zero.mp this)
  unfold nth linspace0
  rw [List.getD_eq_getElem?_getD, List.getElem?_map, List.getElem?_range hi]
  simp only [Option.map_some, Option.getD_some, ofNat'_real]
  by_cases hl : i + 1 = n
  · have : i = n - 1 := by omega
    simp only [hl, beq_self_eq_true, if_true]
    rw [this]; field_simp
  · have : (i + 1 == n) = false := by simpa using hl
    simp only [this, Bool.false_eq_true, if_false]

theorem length_linspace0 {α : Type} [Num α] (H : α) (n : ℕ) : (linspace0 H n).length = n := by
  simp [linspace0]

end Snow
