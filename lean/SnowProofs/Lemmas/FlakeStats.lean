/-
  Statistics of one vial along its trajectory (`Lemmas/FlakeRun.lean`) and the accessor
  model `SnowModel/FlakeStats.lean` over ℝ.
-/
import SnowProofs.Lemmas.FlakeRun
import SnowModel.FlakeStats
import Mathlib.Tactic.Linarith
import Mathlib.Tactic.Ring
import SnowProofs.Lemmas.CNT

namespace Snow.FlakeStatsLemmas
open Snow Num Snow.Flake Snow.FlakeLemmas Snow.FlakeRun Snow.FlakeStats

/-! ### `argmax` of a Boolean row -/

theorem argmaxBool_spec {β : Type} [Num β] (q : β → Bool) (xs : List β) (h : ∃ x ∈ xs, q x = true) :
    ∃ hI : argmaxBool q xs < xs.length, q xs[argmaxBool q xs] = true ∧
      ∀ j (hj : j < xs.length), j < argmaxBool q xs → q xs[j] = false := by
  unfold argmaxBool
  cases hf : xs.findIdx? q with
  | none =>
    rw [List.findIdx?_eq_none_iff] at hf
    obtain ⟨x, hx, hq⟩ := h
    have := hf x hx
    rw [hq] at this
    exact absurd this (by simp)
  | some i =>
    rw [List.findIdx?_eq_some_iff_getElem] at hf
    obtain ⟨hi, hqi, hlt⟩ := hf
    refine ⟨hi, hqi, ?_⟩
    intro j hj hji
    have := hlt j hji
    simpa using this

theorem argmaxBool_none {β : Type} [Num β] (q : β → Bool) (xs : List β) (h : ∀ x ∈ xs, q x = false) :
    argmaxBool q xs = 0 := by
  unfold argmaxBool
  have : xs.findIdx? q = none := by
    rw [List.findIdx?_eq_none_iff]
    intro x hx
    simp [h x hx]
  rw [this]

theorem never_iff (thr : ℝ) (row : List ℝ) : never thr row = true ↔ ∀ x ∈ row, ¬ thr < x := by
  simp [never]

theorem crossIdx_spec (thr : ℝ) (row : List ℝ) (h : never thr row = false) :
    ∃ hI : crossIdx thr row < row.length, thr < row[crossIdx thr row] ∧
      ∀ j (hj : j < row.length), j < crossIdx thr row → ¬ thr < row[j] := by
  have hex : ∃ x ∈ row, (fun x => decide (thr < x)) x = true := by
    simp only [never, Bool.not_eq_false', List.any_eq_true] at h
    exact h
  obtain ⟨hI, h1, h2⟩ := argmaxBool_spec (fun x => decide (thr < x)) row hex
  refine ⟨hI, by simpa [crossIdx] using h1, ?_⟩
  intro j hj hlt
  simpa [crossIdx] using h2 j hj hlt

/-- the first index above the threshold is unique -/
theorem crossIdx_eq (thr : ℝ) (row : List ℝ) (I : Nat) (hI : I < row.length) (h1 : thr < row[I])
    (h2 : ∀ j (hj : j < row.length), j < I → ¬ thr < row[j]) : crossIdx thr row = I ∧ never thr row = false := by
  have hn : never thr row = false := by
    cases hb : never thr row
    · rfl
    · exact absurd h1 ((never_iff thr row).mp hb _ (List.getElem_mem hI))
  obtain ⟨hc, c1, c2⟩ := crossIdx_spec thr row hn
  refine ⟨?_, hn⟩
  rcases Nat.lt_trichotomy (crossIdx thr row) I with h | h | h
  · exact absurd c1 (h2 _ hc h)
  · exact h
  · exact absurd h1 (c2 _ hI h)

/-! ### one vial along a chain -/

/-- `j`-th state of the vial (`fresh 0` beyond the end) -/
def nth (vs : List (Vial ℝ)) (j : Nat) : Vial ℝ := vs.getD j (fresh 0)

theorem nth_eq (vs : List (Vial ℝ)) (j : Nat) (hj : j < vs.length) : nth vs j = vs[j] := by
  simp [nth, List.getD_eq_getElem?_getD, hj]

theorem chain_step {p : Params ℝ} {kCN k : Nat} {vs : List (Vial ℝ)} (h : VChain p kCN k vs) (j : Nat)
    (hj : j + 1 < vs.length) : VStep p (k + j == kCN) (k + j) (nth vs j) (nth vs (j + 1)) := by
  rw [nth_eq vs j (by omega), nth_eq vs (j + 1) hj]
  exact vchain_get h j hj

/-- the initial ice of a supercooled vial is positive (a condition on the constants; C06) -/
def JumpPos (p : Params ℝ) : Prop := ∀ T, T < p.c.T_eq_l → 0 < sigmaJump p.initIce p.c T

/-- **the vial keeps its ice** (the ONLY trajectory hypothesis of the C12 theorems; a condition on
the vial's own stored row, see `adm_of_row`; monitored on every real run; follows from C06's run
invariant, `C12.adm_of_trajAdm`): in the stored columns — every element of the chain but the last —
a positive ice fraction stays positive.  (That the ice fraction is ZERO before the first ice is not
assumed: it follows from the model, `zero_before_first_ice`.) -/
structure Adm (vs : List (Vial ℝ)) : Prop where
  keeps : ∀ j m, j ≤ m → m + 1 < vs.length → 0 < (nth vs j).sigma → 0 < (nth vs m).sigma

/-- a vial that has never nucleated -/
def Fresh (v : Vial ℝ) : Prop := v.sigma = 0 ∧ v.tNuc = none ∧ v.TNuc = none ∧ v.tSol = none

variable {p : Params ℝ} {kCN k : Nat} {vs : List (Vial ℝ)}

/-- while the vial is liquid nothing is recorded -/
theorem liquid_prefix (hc : VChain p kCN k vs) (h0 : Fresh (nth vs 0)) (hJ : JumpPos p) (j : Nat)
    (hj : j < vs.length) (hz : ∀ j', j' ≤ j → (nth vs j').sigma = 0) :
    (nth vs j).tNuc = none ∧ (nth vs j).TNuc = none := by
  induction j with
  | zero => exact ⟨h0.2.1, h0.2.2.1⟩
  | succ j ih =>
    have ihj := ih (by omega) (fun j' h => hz j' (by omega))
    have st := chain_step hc j hj
    rcases vstep_liquid st (hz j (by omega)) with ⟨q, hq, hs, _, _⟩ | ⟨_, h2, h3⟩
    · have := hJ _ hq
      rw [← hs, hz (j + 1) (le_refl _)] at this
      exact absurd this (lt_irrefl _)
    · exact ⟨h2.trans ihj.1, h3.trans ihj.2⟩

/-- **before its first ice a vial is exactly liquid** (from the model, no trajectory hypothesis): a
fresh vial has `σ = 0` in every column before the first column with `σ > 0`, because a liquid vial
either stays at `σ = 0` or jumps to the positive initial ice (`JumpPos`). -/
theorem zero_before_first_ice (hc : VChain p kCN k vs) (h0 : Fresh (nth vs 0)) (hJ : JumpPos p) (k0 : Nat)
    (hfirst : ∀ j, j < k0 → ¬ 0 < (nth vs j).sigma) (j : Nat) (hj : j < k0) (hjl : j < vs.length) :
    (nth vs j).sigma = 0 := by
  induction j with
  | zero => exact h0.1
  | succ j ih =>
    have hz := ih (by omega) (by omega)
    rcases vstep_liquid (chain_step hc j hjl) hz with ⟨q, hq, hs, _, _⟩ | ⟨h1, _, _⟩
    · have := hJ _ hq
      rw [← hs] at this
      exact absurd this (hfirst (j + 1) hj)
    · exact h1

/-- the step in which ice first appears is the nucleation step: what it records -/
theorem first_ice (hc : VChain p kCN k vs) (j : Nat) (hj : j + 1 < vs.length)
    (hz : (nth vs j).sigma = 0) (hn : (nth vs (j + 1)).sigma ≠ 0) :
    ∃ q : ℝ, midT p q (nth vs j) < p.c.T_eq_l ∧
      (nth vs (j + 1)).sigma = sigmaJump p.initIce p.c (midT p q (nth vs j)) ∧
      (nth vs (j + 1)).tNuc = some (timeAt p.dt (k + j) + p.dt) ∧
      (nth vs (j + 1)).TNuc = some (midT p q (nth vs j)) := by
  rcases vstep_liquid (chain_step hc j hj) hz with h | ⟨h1, _, _⟩
  · exact h
  · exact absurd h1 hn

/-- while the vial contains ice its nucleation record does not change -/
theorem solid_keeps (hc : VChain p kCN k vs) (j m : Nat) (hjm : j ≤ m) (hm : m < vs.length)
    (hs : ∀ j', j ≤ j' → j' < m → (nth vs j').sigma ≠ 0) :
    (nth vs m).tNuc = (nth vs j).tNuc ∧ (nth vs m).TNuc = (nth vs j).TNuc := by
  induction m with
  | zero =>
    have : j = 0 := by omega
    subst this; exact ⟨rfl, rfl⟩
  | succ m ih =>
    rcases Nat.eq_or_lt_of_le hjm with h | h
    · subst h; exact ⟨rfl, rfl⟩
    · have ihm := ih (by omega) (by omega) (fun j' h1 h2 => hs j' h1 (by omega))
      have st := vstep_solid (chain_step hc m hm) (hs m (by omega) (by omega))
      exact ⟨st.1.trans ihm.1, st.2.1.trans ihm.2⟩

theorem timeAt_succ (dt : ℝ) (k : Nat) : timeAt dt k + dt = timeAt dt (k + 1) := by
  simp [timeAt]; ring

/-- **first ice**: if column `k0` is the first with `σ > 0` then from there on the vial's
nucleation time is `t[k0]`, and its nucleation temperature is the supercooled temperature
after the sensible update of step `k0 − 1` -/
theorem tnuc_of_first_ice (hc : VChain p kCN k vs) (h0 : Fresh (nth vs 0)) (hJ : JumpPos p) (ha : Adm vs) (k0 m : Nat)
    (hk0 : 0 < (nth vs k0).sigma) (hfirst : ∀ j, j < k0 → ¬ 0 < (nth vs j).sigma)
    (hkm : k0 ≤ m) (hm : m < vs.length) :
    0 < k0 ∧ (nth vs m).tNuc = some (timeAt p.dt (k + k0)) ∧
      ∃ q : ℝ, midT p q (nth vs (k0 - 1)) < p.c.T_eq_l ∧ (nth vs m).TNuc = some (midT p q (nth vs (k0 - 1))) := by
  have hpos : 0 < k0 := by
    rcases Nat.eq_zero_or_pos k0 with h | h
    · subst h; rw [h0.1] at hk0; exact absurd hk0 (lt_irrefl _)
    · exact h
  obtain ⟨j, rfl⟩ : ∃ j, k0 = j + 1 := ⟨k0 - 1, by omega⟩
  have hz : (nth vs j).sigma = 0 := zero_before_first_ice hc h0 hJ (j + 1) hfirst j (by omega) (by omega)
  obtain ⟨q, hq, _, ht, hT⟩ := first_ice hc j (by omega) hz (ne_of_gt hk0)
  have keep := solid_keeps hc (j + 1) m hkm hm
    (fun j' h1 h2 => ne_of_gt (ha.keeps (j + 1) j' h1 (by omega) hk0))
  refine ⟨hpos, ?_, q, ?_, ?_⟩
  · rw [keep.1, ht, timeAt_succ]; congr 1
  · simpa using hq
  · rw [keep.2, hT]; simp

/-- a vial all of whose columns up to `m` are ice-free has no record at `m` -/
theorem no_record (hc : VChain p kCN k vs) (h0 : Fresh (nth vs 0)) (hJ : JumpPos p) (m : Nat)
    (hm : m + 1 < vs.length) (hz : ∀ j, j ≤ m → ¬ 0 < (nth vs j).sigma) :
    (nth vs m).tNuc = none ∧ (nth vs m).TNuc = none :=
  liquid_prefix hc h0 hJ m (by omega)
    (fun j' h => zero_before_first_ice hc h0 hJ (m + 1) (fun j hj => hz j (by omega)) j' (by omega) (by omega))

/-- every recorded nucleation time is `(k'+1)·dt` for a step `k'` that has been executed -/
theorem tnuc_on_grid (hc : VChain p kCN k vs) (h0 : Fresh (nth vs 0)) (m : Nat) (hm : m < vs.length)
    (τ : ℝ) (h : (nth vs m).tNuc = some τ) : ∃ k', k' < m ∧ τ = timeAt p.dt (k + k' + 1) := by
  induction m generalizing τ with
  | zero => rw [h0.2.1] at h; exact absurd h (by simp)
  | succ m ih =>
    have st := chain_step hc m hm
    by_cases hl : (nth vs m).sigma = 0
    · rcases vstep_liquid st hl with ⟨q, _, _, ht, _⟩ | ⟨_, h2, _⟩
      · rw [ht] at h
        refine ⟨m, by omega, ?_⟩
        rw [← timeAt_succ]; exact (Option.some.inj h).symm
      · obtain ⟨k', hk', e⟩ := ih (by omega) τ (h2 ▸ h)
        exact ⟨k', by omega, e⟩
    · have := (vstep_solid st hl).1
      obtain ⟨k', hk', e⟩ := ih (by omega) τ (this ▸ h)
      exact ⟨k', by omega, e⟩

/-- **a nucleation record never moves backwards** (no trajectory hypothesis): once `t_nucleation = a`
is recorded, every later state records some `b ≥ a` (a vial that melted completely and nucleated
again would carry the LATER time). -/
theorem tnuc_mono (hc : VChain p kCN k vs) (h0 : Fresh (nth vs 0)) (hdt : 0 ≤ p.dt) (j m : Nat) (hjm : j ≤ m)
    (hm : m < vs.length) (a : ℝ) (ha : (nth vs j).tNuc = some a) :
    ∃ b, (nth vs m).tNuc = some b ∧ a ≤ b := by
  induction m with
  | zero =>
    have : j = 0 := by omega
    subst this; exact ⟨a, ha, le_refl _⟩
  | succ m ih =>
    rcases Nat.eq_or_lt_of_le hjm with h | h
    · subst h; exact ⟨a, ha, le_refl _⟩
    · obtain ⟨b, hb, hab⟩ := ih (by omega) (by omega)
      have st := chain_step hc m hm
      by_cases hl : (nth vs m).sigma = 0
      · rcases vstep_liquid st hl with ⟨q, _, _, ht, _⟩ | ⟨_, h2, _⟩
        · refine ⟨_, ht, ?_⟩
          obtain ⟨k', hk', e⟩ := tnuc_on_grid hc h0 m (by omega) b hb
          have : b ≤ timeAt p.dt (k + m) := by
            rw [e]; simp only [timeAt, ofNat'_real]
            have : ((k + k' + 1 : ℕ) : ℝ) ≤ ((k + m : ℕ) : ℝ) := by exact_mod_cast (by omega : k + k' + 1 ≤ k + m)
            exact mul_le_mul_of_nonneg_right this hdt
          linarith
        · exact ⟨b, by rw [h2]; exact hb, hab⟩
      · exact ⟨b, by rw [(vstep_solid st hl).1]; exact hb, hab⟩

/-- every recorded nucleation temperature is supercooled -/
theorem Tnuc_lt (hc : VChain p kCN k vs) (h0 : Fresh (nth vs 0)) (m : Nat) (hm : m < vs.length)
    (T : ℝ) (h : (nth vs m).TNuc = some T) : T < p.c.T_eq_l := by
  induction m generalizing T with
  | zero => rw [h0.2.2.1] at h; exact absurd h (by simp)
  | succ m ih =>
    have st := chain_step hc m hm
    by_cases hl : (nth vs m).sigma = 0
    · rcases vstep_liquid st hl with ⟨q, hq, _, _, hT⟩ | ⟨_, _, h3⟩
      · rw [hT] at h; rw [← Option.some.inj h]; exact hq
      · exact ih (by omega) T (h3 ▸ h)
    · exact ih (by omega) T ((vstep_solid st hl).2.1 ▸ h)


/-! ### the solidification record -/

/-- how the solidification record moves in step `k` when the threshold is non-negative
(then a vial above the threshold contains ice, so `any(solidMask)` holds in its batch) -/
def TSolStep (p : Params ℝ) (k : Nat) (v v' : Vial ℝ) : Prop :=
  v'.tSol = if p.threshold < v.sigma ∧ v.tSol = none then v.tNuc.map (fun tn => timeAt p.dt k - tn) else v.tSol

theorem anySolid_of (s : State ℝ) (i : Nat) (hi : i < s.vials.size) (h : (vAt s i).sigma ≠ 0) :
    anySolid s = true := by
  unfold anySolid
  rw [Array.any_eq_true]
  refine ⟨i, hi, ?_⟩
  have : vAt s i = s.vials[i] := by simp [vAt, hi]
  rw [this] at h
  simp [isLiquid, h]

theorem tSolStep_of_batch (p : Params ℝ) (isCN : Bool) (k : Nat) (Tsh : ℝ) (s : State ℝ) (i : Nat)
    (hi : i < s.vials.size) (hthr : 0 ≤ p.threshold) :
    TSolStep p k (vAt s i) (vialStep p isCN k Tsh s i (vAt s i)) := by
  unfold TSolStep
  rw [vialStep_tSol]
  unfold tSolUpdate
  by_cases hgt : p.threshold < (vAt s i).sigma
  · have hne : (vAt s i).sigma ≠ 0 := ne_of_gt (lt_of_le_of_lt hthr hgt)
    rw [anySolid_of s i hi hne]
    by_cases hn : (vAt s i).tSol = none
    · simp [hgt, hn]
    · have : (vAt s i).tSol.isNone = false := by
        cases h : (vAt s i).tSol
        · exact absurd h hn
        · rfl
      simp [hgt, hn, this]
  · simp [hgt]

/-- the solidification record of the run's vial `i` moves by `TSolStep` -/
theorem vtraj_tSolStep (inp : Inputs ℝ) (kCN i j : Nat) (hi : i < inp.nVials)
    (hj : j < nSteps inp.oc.t_tot inp.p.dt) (hthr : 0 ≤ inp.p.threshold) :
    TSolStep inp.p j (nth (vtraj inp kCN i) j) (nth (vtraj inp kCN i) (j + 1)) := by
  have hlen := vtraj_length inp kCN i
  rw [nth_eq _ j (by omega), nth_eq _ (j + 1) (by omega)]
  have h := vtraj_succ inp kCN i j hi hj
  simp only at h
  rw [h]
  have hl : j < (profile inp.oc inp.p.dt).length := by rw [profile_len]; exact hj
  have hsz : ((states inp.p kCN 0 (profile inp.oc inp.p.dt) (init inp))[j]'(by simp; omega)).vials.size
      = inp.nVials := by
    have := states_size inp.p kCN 0 (profile inp.oc inp.p.dt) (init inp) _
      (List.getElem_mem (l := states inp.p kCN 0 (profile inp.oc inp.p.dt) (init inp)) (n := j) (by simp; omega))
    rw [this]; simp [init]
  have hv : (vtraj inp kCN i)[j]'(by omega)
      = vAt ((states inp.p kCN 0 (profile inp.oc inp.p.dt) (init inp))[j]'(by simp; omega)) i := by
    simp [vtraj]
  rw [hv]
  exact tSolStep_of_batch inp.p _ j _ _ i (by rw [hsz]; exact hi) hthr

variable {p : Params ℝ} {k : Nat} {vs : List (Vial ℝ)}

/-- no record while no column is above the threshold -/
theorem tsol_none (h0 : Fresh (nth vs 0)) (hT : ∀ j, j + 1 < vs.length → TSolStep p (k + j) (nth vs j) (nth vs (j + 1)))
    (m : Nat) (hm : m < vs.length) (hz : ∀ j, j < m → ¬ p.threshold < (nth vs j).sigma) :
    (nth vs m).tSol = none := by
  induction m with
  | zero => exact h0.2.2.2
  | succ m ih =>
    have := hT m hm
    unfold TSolStep at this
    rw [this, if_neg (fun h => hz m (by omega) h.1)]
    exact ih (by omega) (fun j hj => hz j (by omega))

/-- the record is written in the first step that starts above the threshold and never changes -/
theorem tsol_set (h0 : Fresh (nth vs 0)) (hT : ∀ j, j + 1 < vs.length → TSolStep p (k + j) (nth vs j) (nth vs (j + 1)))
    (k1 m : Nat) (τ : ℝ) (hk1 : p.threshold < (nth vs k1).sigma)
    (hfirst : ∀ j, j < k1 → ¬ p.threshold < (nth vs j).sigma) (hτ : (nth vs k1).tNuc = some τ)
    (hkm : k1 < m) (hm : m < vs.length) :
    (nth vs m).tSol = some (timeAt p.dt (k + k1) - τ) := by
  induction m with
  | zero => omega
  | succ m ih =>
    have st := hT m hm
    unfold TSolStep at st
    rcases Nat.eq_or_lt_of_le (Nat.lt_succ_iff.mp hkm) with h | h
    · subst h
      have hn := tsol_none h0 hT k1 (by omega) hfirst
      rw [st, if_pos ⟨hk1, hn⟩, hτ]; rfl
    · have ihm := ih h (by omega)
      rw [st, if_neg (fun hh => by rw [ihm] at hh; exact absurd hh.2 (by simp)), ihm]

/-- a solidification record implies a nucleation record (at every state) -/
theorem tsol_needs_tnuc {kCN : Nat} (hc : VChain p kCN k vs) (h0 : Fresh (nth vs 0))
    (m : Nat) (hm : m < vs.length) (h : (nth vs m).tSol ≠ none) : (nth vs m).tNuc ≠ none := by
  induction m with
  | zero => exact absurd h0.2.2.2 h
  | succ m ih =>
    have st := chain_step hc m hm
    -- the nucleation record never disappears
    have mono : (nth vs m).tNuc ≠ none → (nth vs (m + 1)).tNuc ≠ none := by
      intro hne
      by_cases hl : (nth vs m).sigma = 0
      · rcases vstep_liquid st hl with ⟨q, _, _, ht, _⟩ | ⟨_, h2, _⟩
        · rw [ht]; simp
        · rw [h2]; exact hne
      · rw [(vstep_solid st hl).1]; exact hne
    rcases vstep_tSol st with h1 | ⟨_, _, h3⟩
    · exact mono (ih (by omega) (h1 ▸ h))
    · rw [h3] at h
      apply mono
      intro hn
      rw [hn] at h
      exact h rfl


/-! ### rows of the state matrix and the statistics of vial `i` in a run -/

/-- `X_sigma[i, :]` (when vial `i` is stored): the ice fraction at the start of every step -/
noncomputable def sigmaRow (inp : Inputs ℝ) (kCN i : Nat) : List ℝ :=
  (runWith inp kCN).traj.toList.map fun s => (vAt s i).sigma

/-- `X_T[i, :]` -/
noncomputable def tempRow (inp : Inputs ℝ) (kCN i : Nat) : List ℝ :=
  (runWith inp kCN).traj.toList.map fun s => (vAt s i).T

/-- vial `i` after the last step: its entries of `stats` -/
noncomputable def finalV (inp : Inputs ℝ) (kCN i : Nat) : Vial ℝ := vAt (runWith inp kCN).final i

/-- `N_timeSteps` -/
noncomputable def NN (inp : Inputs ℝ) : Nat := nSteps inp.oc.t_tot inp.p.dt

theorem traj_length (inp : Inputs ℝ) (kCN : Nat) : (runWith inp kCN).traj.toList.length = NN inp := by
  rw [runWith_traj]; simp [profile_len, NN]

theorem traj_size (inp : Inputs ℝ) (kCN : Nat) : (runWith inp kCN).traj.size = NN inp := by
  rw [← traj_length inp kCN]; simp

@[simp] theorem sigmaRow_length (inp : Inputs ℝ) (kCN i : Nat) : (sigmaRow inp kCN i).length = NN inp := by
  simp [sigmaRow, traj_size]

@[simp] theorem tempRow_length (inp : Inputs ℝ) (kCN i : Nat) : (tempRow inp kCN i).length = NN inp := by
  simp [tempRow, traj_size]

theorem nth_col (inp : Inputs ℝ) (kCN i j : Nat) (hj : j < NN inp) :
    nth (vtraj inp kCN i) j = vAt ((runWith inp kCN).traj.toList[j]'(by rw [traj_length]; exact hj)) i := by
  have hl := traj_length inp kCN
  rw [nth_eq _ j (by rw [vtraj_length]; unfold NN at hj; omega)]
  simp only [vtraj_eq]
  rw [List.getElem_append_left (by simp [hl]; exact hj)]
  simp

theorem sigmaRow_get (inp : Inputs ℝ) (kCN i j : Nat) (hj : j < NN inp) :
    (sigmaRow inp kCN i)[j]'(by simp; exact hj) = (nth (vtraj inp kCN i) j).sigma := by
  rw [nth_col inp kCN i j hj]; simp [sigmaRow]

theorem tempRow_get (inp : Inputs ℝ) (kCN i j : Nat) (hj : j < NN inp) :
    (tempRow inp kCN i)[j]'(by simp; exact hj) = (nth (vtraj inp kCN i) j).T := by
  rw [nth_col inp kCN i j hj]; simp [tempRow]

theorem nth_final (inp : Inputs ℝ) (kCN i : Nat) : nth (vtraj inp kCN i) (NN inp) = finalV inp kCN i := by
  have hl := traj_length inp kCN
  rw [nth_eq _ _ (by rw [vtraj_length]; unfold NN; omega)]
  simp only [vtraj_eq]
  rw [List.getElem_append_right (by simp [hl])]
  simp [hl, finalV]

theorem fresh_start (inp : Inputs ℝ) (kCN i : Nat) (hi : i < inp.nVials) : Fresh (nth (vtraj inp kCN i) 0) := by
  rw [nth_eq _ 0 (by rw [vtraj_length]; omega), vtraj_zero inp kCN i hi]
  exact ⟨rfl, rfl, rfl, rfl⟩

/-- `t[k] = k·dt` for `k < N` -/
theorem timeVec_get (N : Nat) (dt : ℝ) (hdt : 0 < dt) (k : Nat) (hk : k < N) :
    (timeVec N dt)[k]? = some (timeAt dt k) := by
  rw [Snow.CNT.timeVec_real N hdt]
  simp [hk, timeAt]

theorem timeAt_mono (dt : ℝ) (hdt : 0 < dt) (a b : Nat) : timeAt dt a ≤ timeAt dt b ↔ a ≤ b := by
  simp only [timeAt, ofNat'_real]
  constructor
  · intro h
    have : (a : ℝ) ≤ b := le_of_mul_le_mul_right h hdt
    exact_mod_cast this
  · intro h
    have : (a : ℝ) ≤ b := by exact_mod_cast h
    exact mul_le_mul_of_nonneg_right this (le_of_lt hdt)


/-- first column of vial `i` above `thr`, in terms of its trajectory -/
theorem row_cross (inp : Inputs ℝ) (kCN i : Nat) (thr : ℝ) (h : never thr (sigmaRow inp kCN i) = false) :
    crossIdx thr (sigmaRow inp kCN i) < NN inp ∧
      thr < (nth (vtraj inp kCN i) (crossIdx thr (sigmaRow inp kCN i))).sigma ∧
      ∀ j, j < crossIdx thr (sigmaRow inp kCN i) → ¬ thr < (nth (vtraj inp kCN i) j).sigma := by
  obtain ⟨hI, h1, h2⟩ := crossIdx_spec thr _ h
  have hI' : crossIdx thr (sigmaRow inp kCN i) < NN inp := by simpa using hI
  refine ⟨hI', ?_, ?_⟩
  · rw [← sigmaRow_get inp kCN i _ hI']; exact h1
  · intro j hj
    have hjN : j < NN inp := by omega
    rw [← sigmaRow_get inp kCN i j hjN]
    exact h2 j (by simpa using hjN) hj

theorem row_never (inp : Inputs ℝ) (kCN i : Nat) (thr : ℝ) (h : never thr (sigmaRow inp kCN i) = true) :
    ∀ j, j < NN inp → ¬ thr < (nth (vtraj inp kCN i) j).sigma := by
  intro j hj
  rw [← sigmaRow_get inp kCN i j hj]
  exact (never_iff thr _).mp h _ (List.getElem_mem _)


theorem argmaxBool_eq {β : Type} [Num β] (q : β → Bool) (xs : List β) (I : Nat) (hI : I < xs.length)
    (h1 : q xs[I] = true) (h2 : ∀ j (hj : j < xs.length), j < I → q xs[j] = false) : argmaxBool q xs = I := by
  obtain ⟨hc, c1, c2⟩ := argmaxBool_spec q xs ⟨xs[I], List.getElem_mem hI, h1⟩
  rcases Nat.lt_trichotomy (argmaxBool q xs) I with h | h | h
  · rw [h2 _ hc h] at c1; exact absurd c1 (by simp)
  · exact h
  · rw [c2 _ hI h] at h1; exact absurd h1 (by simp)

theorem timeIdx_of_reached (t : List ℝ) (q : ℝ) (h : ∃ x ∈ t, q ≤ x) : timeIdx t q = timeIdxOld t q := by
  unfold timeIdx timeIdxOld
  have : t.any (fun x => decide (q ≤ x)) = true := by
    rw [List.any_eq_true]
    obtain ⟨x, hx, hq⟩ := h
    exact ⟨x, hx, by simpa using hq⟩
  rw [if_pos this]

/-- beyond the last stored time the repaired accessor reads the LAST stored column -/
theorem timeIdx_beyond (t : List ℝ) (q : ℝ) (h : ∀ x ∈ t, x < q) : timeIdx t q = t.length - 1 := by
  unfold timeIdx
  have : t.any (fun x => decide (q ≤ x)) = false := by
    rw [List.any_eq_false]
    intro x hx
    simpa using h x hx
  rw [this]; simp

/-- … where the old code read column 0 -/
theorem timeIdxOld_beyond (t : List ℝ) (q : ℝ) (h : ∀ x ∈ t, x < q) : timeIdxOld t q = 0 := by
  unfold timeIdxOld
  apply argmaxBool_none
  intro x hx
  simpa using h x hx

/-- an on-grid query time selects its own column -/
theorem timeIdx_grid (N : Nat) (dt : ℝ) (hdt : 0 < dt) (m : Nat) (hm : m < N) :
    timeIdx (timeVec N dt) (timeAt dt m) = m := by
  rw [timeIdx_of_reached _ _ ⟨timeAt dt m, by
    rw [Snow.CNT.timeVec_real N hdt]
    exact List.mem_map.mpr ⟨m, List.mem_range.mpr hm, by simp [timeAt]⟩, le_refl _⟩]
  unfold timeIdxOld
  rw [Snow.CNT.timeVec_real N hdt]
  refine argmaxBool_eq _ _ m (by simpa using hm) ?_ ?_
  · simp [timeAt]
  · intro j hj hjm
    simp only [List.getElem_map, List.getElem_range, timeAt, ofNat'_real, decide_eq_false_iff_not, not_le]
    have : (j : ℝ) < m := by exact_mod_cast hjm
    exact mul_lt_mul_of_pos_right this hdt

/-- vial `i` counts as nucleated by the on-grid time `t[m]` (stats path: `t_nucleation ≤ t[m]`)
iff column `m` of its trajectory shows ice -/
theorem nucleated_by_iff (inp : Inputs ℝ) (kCN i : Nat) (hi : i < inp.nVials) (hdt : 0 < inp.p.dt)
    (hJ : JumpPos inp.p) (ha : Adm (vtraj inp kCN i)) (m : Nat) (hm : m < NN inp) :
    (∃ τ, (finalV inp kCN i).tNuc = some τ ∧ τ ≤ timeAt inp.p.dt m) ↔ 0 < (nth (vtraj inp kCN i) m).sigma := by
  have hc := vtraj_chain inp kCN i hi
  have h0 := fresh_start inp kCN i hi
  have hlen : (vtraj inp kCN i).length = NN inp + 1 := vtraj_length inp kCN i
  constructor
  · rintro ⟨τ, hτ, hle⟩
    cases hb : never 0 (sigmaRow inp kCN i)
    · obtain ⟨hk, hpos, hfirst⟩ := row_cross inp kCN i 0 hb
      have tN := tnuc_of_first_ice hc h0 hJ ha _ (NN inp) hpos hfirst (by omega) (by omega)
      rw [nth_final, hτ, Nat.zero_add] at tN
      have e := Option.some.inj tN.2.1
      rw [e] at hle
      have := (timeAt_mono inp.p.dt hdt _ _).mp hle
      exact ha.keeps _ m this (by omega) hpos
    · -- no column shows ice: the record can only come from the last step, i.e. τ = N·dt > t[m]
      exfalso
      obtain ⟨N', hN'⟩ : ∃ N', NN inp = N' + 1 := ⟨NN inp - 1, by omega⟩
      have hz := row_never inp kCN i 0 hb
      have nr := no_record hc h0 hJ N' (by omega) (fun j hj => hz j (by omega))
      have hz' : (nth (vtraj inp kCN i) N').sigma = 0 :=
        zero_before_first_ice hc h0 hJ (N' + 1) (fun j hj => hz j (by omega)) N' (by omega) (by omega)
      have st := chain_step hc N' (by omega)
      rw [← hN', nth_final] at st
      rcases vstep_liquid st hz' with ⟨q, _, _, ht, _⟩ | ⟨_, h2, _⟩
      · rw [hτ] at ht
        have e := Option.some.inj ht
        rw [e, Nat.zero_add, timeAt_succ, ← hN'] at hle
        have := (timeAt_mono inp.p.dt hdt _ _).mp hle
        omega
      · rw [h2, nr.1] at hτ; exact absurd hτ (by simp)
  · intro hpos
    have hb : never 0 (sigmaRow inp kCN i) = false := by
      cases hb : never 0 (sigmaRow inp kCN i)
      · rfl
      · exact absurd hpos (row_never inp kCN i 0 hb m hm)
    obtain ⟨hk, hp0, hfirst⟩ := row_cross inp kCN i 0 hb
    have hle : crossIdx 0 (sigmaRow inp kCN i) ≤ m := by
      by_contra hcon
      exact hfirst m (by omega) hpos
    have tN := tnuc_of_first_ice hc h0 hJ ha _ (NN inp) hp0 hfirst (by omega) (by omega)
    rw [nth_final, Nat.zero_add] at tN
    exact ⟨_, tN.2.1, (timeAt_mono inp.p.dt hdt _ _).mpr hle⟩

theorem scatter_all_true (vals : List (Option ℝ)) :
    scatter (List.replicate vals.length true) vals = vals := by
  induction vals with
  | nil => rfl
  | cons v vs ih => simp [List.replicate_succ, scatter, ih]

/-- the recorded statistics as the list over all vials -/
theorem stats_eq_finalV (inp : Inputs ℝ) (kCN : Nat) :
    (runWith inp kCN).tNucleation = (List.range inp.nVials).map (fun i => (finalV inp kCN i).tNuc) ∧
    (runWith inp kCN).tSolidification = (List.range inp.nVials).map (fun i => (finalV inp kCN i).tSol) := by
  have hsz : (runWith inp kCN).final.vials.size = inp.nVials := by
    have := states_size inp.p kCN 0 (profile inp.oc inp.p.dt) (init inp) (runWith inp kCN).final
      (by rw [← runWith_states]; simp)
    rw [this]; simp [init]
  constructor <;>
  · apply List.ext_getElem
    · simp [Result.tNucleation, Result.tSolidification, hsz]
    · intro i h1 h2
      have hi : i < (runWith inp kCN).final.vials.size := by
        simp [Result.tNucleation, Result.tSolidification] at h1; exact h1
      simp [Result.tNucleation, Result.tSolidification, finalV, vAt, hi]


/-- for physically valid constants (`Phys.Valid`: positive masses, heats, 0 < w_s < 1, …) the initial
ice of a supercooled vial is positive in both formulations: `JumpPos` is not an extra assumption
for the configurations the package can produce. -/
theorem jumpPos_of_valid (ph : Phys) (hv : ph.Valid) (p : Params ℝ) (hc : p.c = ph.consts) : JumpPos p := by
  intro T hT
  rw [hc] at hT ⊢
  have hT' : T < ph.TeqL := hT
  cases hii : p.initIce with
  | direct => exact (sigmaDirect_spec ph hv T hT').1.2.1
  | indirect =>
    have hs : sigmaJump .indirect ph.consts T = (ph.TeqL - T) / (ph.D + ph.lam / ph.cpl * (1 - ph.w_s)) :=
      sigmaIndirect_spec ph hv T
    rw [hs]
    have hgam : ph.lam / ph.cpl * (1 - ph.w_s) = ph.gamma := by unfold Phys.gamma; ring
    rw [hgam]
    exact div_pos (by linarith) (by linarith [hv.D_pos, hv.gamma_pos])


/-! ### the nucleating step with its actual heat flow; the rows are rows of the stored matrix -/

theorem traj_get (inp : Inputs ℝ) (kCN j : Nat) (hj : j < NN inp) :
    (runWith inp kCN).traj[j]? =
      some ((states inp.p kCN 0 (profile inp.oc inp.p.dt) (init inp))[j]'(by simp [profile_len]; unfold NN at hj; omega)) := by
  have hl : j < (trajList inp.p kCN 0 (profile inp.oc inp.p.dt) (init inp)).length := by
    simp [profile_len]; exact hj
  rw [← Array.getElem?_toList, runWith_traj, List.getElem?_eq_getElem hl]
  congr 1
  simp only [states_eq]
  rw [List.getElem_append_left hl]

/-- **the recorded nucleation temperature, exactly**: if vial `i` is ice-free in column `j` and
contains ice in column `j+1`, its `T_nucleation` after step `j` is its stored temperature in column
`j` plus the sensible update `q/hl·dt` with `q` the vial's ACTUAL net heat flow of step `j`
(`Flake.heatFlow` of the batch state stored in column `j` and the shelf sample `T_shelf[j]`). -/
theorem Tnuc_exact (inp : Inputs ℝ) (kCN i j : Nat) (hi : i < inp.nVials) (hj : j < NN inp)
    (hz : (nth (vtraj inp kCN i) j).sigma = 0) (hn : (nth (vtraj inp kCN i) (j + 1)).sigma ≠ 0) :
    ∃ (S : State ℝ) (Tsh : ℝ), (runWith inp kCN).traj[j]? = some S ∧ (runWith inp kCN).Tshelf[j]? = some Tsh ∧
      (nth (vtraj inp kCN i) (j + 1)).TNuc
        = some ((nth (vtraj inp kCN i) j).T + heatFlow inp.p (temps S) Tsh Tsh i / inp.p.c.hl * inp.p.dt) := by
  have hlen := vtraj_length inp kCN i
  have hjn : j < nSteps inp.oc.t_tot inp.p.dt := hj
  have hl : j < (profile inp.oc inp.p.dt).length := by rw [profile_len]; exact hj
  refine ⟨_, (profile inp.oc inp.p.dt)[j], traj_get inp kCN j hj, ?_, ?_⟩
  · show (profile inp.oc inp.p.dt)[j]? = _
    exact List.getElem?_eq_getElem hl
  · have h := vtraj_succ inp kCN i j hi hjn
    simp only at h
    have e1 := nth_eq (vtraj inp kCN i) (j + 1) (by omega)
    have e0 := nth_eq (vtraj inp kCN i) j (by omega)
    rw [e1] at hn ⊢
    rw [e0] at hz ⊢
    rw [h] at hn ⊢
    unfold vialStep at hn ⊢
    rcases vfinal_liquid inp.p (j == kCN) (timeAt inp.p.dt j) _ _ _ _ _ hz with hh | hh
    · rw [hh.2.2.2]; simp [midT, liquidTemp]
    · exact absurd hh.1 hn

theorem masked_all_true {β : Type} (xs : List β) : masked (List.replicate xs.length true) xs = xs := by
  induction xs with
  | nil => rfl
  | cons x xs ih =>
    simp only [masked, List.length_cons, List.replicate_succ, List.zip_cons_cons, List.filter_cons_of_pos,
      List.map_cons] at ih ⊢
    rw [ih]

/-- **the rows are rows of the model's stored matrix** (full recording): column `k` of `Result.X` is
the stored temperatures followed by the stored ice fractions, and its entries `i` and `n + i` are
entry `k` of `tempRow i` and `sigmaRow i` — what `X_T[i, k]` and `X_sigma[i, k]` read. -/
theorem X_rows (inp : Inputs ℝ) (kCN i k : Nat) (hi : i < inp.nVials) (hk : k < NN inp) :
    ∃ col, ((runWith inp kCN).X (List.replicate inp.nVials true))[k]? = some col ∧
      col[i]? = (tempRow inp kCN i)[k]? ∧ col[inp.nVials + i]? = (sigmaRow inp kCN i)[k]? ∧
      (tempRow inp kCN i)[k]? ≠ none := by
  have hS := traj_get inp kCN k hk
  set S := (states inp.p kCN 0 (profile inp.oc inp.p.dt) (init inp))[k]'(by
    simp [profile_len]; unfold NN at hk; omega) with hSdef
  have hsz : S.vials.size = inp.nVials := by
    have := states_size inp.p kCN 0 (profile inp.oc inp.p.dt) (init inp) S (List.getElem_mem _)
    rw [this]; simp [init]
  have hl1 : (S.vials.toList.map (·.T)).length = inp.nVials := by simp [hsz]
  have hl2 : (S.vials.toList.map (·.sigma)).length = inp.nVials := by simp [hsz]
  have hS' : (runWith inp kCN).traj.toList[k]? = some S := by rw [Array.getElem?_toList]; exact hS
  refine ⟨column (List.replicate inp.nVials true) S, ?_, ?_, ?_, ?_⟩
  · simp only [Result.X, List.getElem?_map, hS', Option.map_some]
  · have e : masked (List.replicate inp.nVials true) (S.vials.toList.map (·.T)) = S.vials.toList.map (·.T) := by
      have := masked_all_true (S.vials.toList.map (·.T)); rwa [hl1] at this
    simp only [column, e]
    rw [List.getElem?_append_left (by rw [hl1]; exact hi)]
    simp only [tempRow, List.getElem?_map, hS', Option.map_some, vAt]
    simp [hsz, hi]
  · have e1 : masked (List.replicate inp.nVials true) (S.vials.toList.map (·.T)) = S.vials.toList.map (·.T) := by
      have := masked_all_true (S.vials.toList.map (·.T)); rwa [hl1] at this
    have e2 : masked (List.replicate inp.nVials true) (S.vials.toList.map (·.sigma)) = S.vials.toList.map (·.sigma) := by
      have := masked_all_true (S.vials.toList.map (·.sigma)); rwa [hl2] at this
    simp only [column, e1, e2]
    rw [List.getElem?_append_right (by rw [hl1]; omega)]
    simp only [hl1, Nat.add_sub_cancel_left]
    simp only [sigmaRow, List.getElem?_map, hS', Option.map_some, vAt]
    simp [hsz, hi]
  · simp only [tempRow, List.getElem?_map, hS', Option.map_some]; simp


/-- column `j` of the run, vial `i`: the batch state, the vial record, and the chain element agree -/
theorem col_vial (inp : Inputs ℝ) (kCN i j : Nat) (hi : i < inp.nVials) (hj : j < NN inp) :
    ∃ (S : State ℝ) (v : Vial ℝ), (runWith inp kCN).traj[j]? = some S ∧ S.vials[i]? = some v ∧
      nth (vtraj inp kCN i) j = v := by
  have hS := traj_get inp kCN j hj
  set S := (states inp.p kCN 0 (profile inp.oc inp.p.dt) (init inp))[j]'(by
    simp [profile_len]; unfold NN at hj; omega) with hSdef
  have hsz : S.vials.size = inp.nVials := by
    have := states_size inp.p kCN 0 (profile inp.oc inp.p.dt) (init inp) S (List.getElem_mem _)
    rw [this]; simp [init]
  have hi' : i < S.vials.size := by rw [hsz]; exact hi
  refine ⟨S, S.vials[i], hS, Array.getElem?_eq_getElem hi', ?_⟩
  rw [nth_eq _ j (by rw [vtraj_length]; unfold NN at hj; omega)]
  simp only [vtraj, List.getElem_map]
  simp [vAt, hi', ← hSdef]


/-- the vial's stored ROW keeps its ice: once an entry of `X_sigma[i, :]` is positive, all later ones are -/
def StaysIce (row : List ℝ) : Prop :=
  ∀ j m (hm : m < row.length) (hjm : j ≤ m), 0 < row[j]'(by omega) → 0 < row[m]

/-- the trajectory hypothesis is a condition on the vial's own stored row -/
theorem adm_of_row (inp : Inputs ℝ) (kCN i : Nat) (h : StaysIce (sigmaRow inp kCN i)) : Adm (vtraj inp kCN i) := by
  have hlen : (vtraj inp kCN i).length = NN inp + 1 := vtraj_length inp kCN i
  constructor
  intro j m hjm hm hpos
  have hmN : m < NN inp := by omega
  have hjN : j < NN inp := by omega
  rw [← sigmaRow_get inp kCN i m hmN]
  rw [← sigmaRow_get inp kCN i j hjN] at hpos
  exact h j m (by simpa using hmN) hjm hpos

end Snow.FlakeStatsLemmas
