/-
  Link between the window model SnowModel/EvapWindow.lean (the object of C20's window theorems)
  and the run models that are compared with the code: `Snow.qEvap` (Snowing1D.lean) and
  `S2D.qEvap` (Snowing2D.lean) are `EvapWindow.qEWith` — the same window test, the same sign —
  with their own transcription of the vapour flux.  Plus the run-level consequence on the REAL
  1D model: a VISF run whose window is never met is the shelf run.  Generic in `[Transc α]`.
-/
import SnowModel.EvapWindow
import SnowModel.Snowing1D
import SnowModel.Snowing2D
import SnowProofs.Lemmas.SnowingLoop
import Mathlib.Tactic.NormNum

namespace Snow.EvapLink
open Snow Num Snow.EvapWindow

section
variable {α : Type} [Transc α]

theorem lit3600 : (lit 3600 0 : α) = ofNat' 3600 := by
  unfold Num.lit Num.ofNat'
  congr 1
  norm_num

/-- the window parameters of a 1D/0D run as the window model's record -/
def ofVisf (v : Visf α) (k_B : α) : VISF α :=
  ⟨v.p_vac, v.kappa, v.dHe, v.m_water, k_B, v.t_vac_start, v.t_vac_duration⟩

/-- the window parameters of a 2D run -/
def ofPar (p : S2D.Par α) : VISF α :=
  ⟨p.p_vac, p.kappa, p.dHe, p.m_water, p.k_B, p.t_vac_start, p.t_vac_duration⟩

theorem inWindow_iff' (p : VISF α) (t : α) :
    inWindow p t = true ↔
      (p.t_vac_start * ofNat' 3600 < t ∧ t < (p.t_vac_start + p.t_vac_duration) * ofNat' 3600) := by
  simp [inWindow, lit3600]

/-- the generated-flux `qEOf` of the window model is `qEWith` at the generated flux -/
theorem qEOf_eq_qEWith [HasPi α] (isVISF : Bool) (p : VISF α) (t T pv : α) :
    qEOf isVISF p t T pv = qEWith isVISF p t (Gen.vapour_flux p.kappa p.m_water p.k_B p.p_vac pv T T) := rfl

/-- **1D/0D run model**: `Snow.qEvap` is the window model's `q_e` (same window, same sign) -/
theorem qEvap1D_eq (p : SnowIn α) (pvap : α → α) (t Ttop : α) :
    Snow.qEvap p pvap t Ttop =
      match p.visf with
      | none => zero
      | some v => qEWith true (ofVisf v p.const.k_B) t
          (Evap.vapourFlux v.kappa v.m_water p.const.k_B v.p_vac (pvap Ttop) Ttop Ttop) := by
  unfold Snow.qEvap qEWith
  cases hv : p.visf with
  | none => rfl
  | some v =>
    simp only [Bool.true_and]
    by_cases hw : v.t_vac_start * ofNat' 3600 < t ∧ t < (v.t_vac_start + v.t_vac_duration) * ofNat' 3600
    · have : inWindow (ofVisf v p.const.k_B) t = true := (inWindow_iff' _ _).mpr hw
      rw [this]
      simp [hw, ofVisf]
    · have : inWindow (ofVisf v p.const.k_B) t = false := by
        cases h : inWindow (ofVisf v p.const.k_B) t with
        | false => rfl
        | true => exact absurd ((inWindow_iff' _ _).mp h) hw
      rw [this]
      simp [hw]

/-- the vapour flux the 2D model evaluates at the top node of column `j`: its own transcription of
`vapour_flux` at the surface pressure of the stage (ice curve in the solidification stage) -/
def flux2D (c : S2D.Ctx α) (solidStage : Bool) (T : Array α) (j : Nat) : α :=
  let Tl := S2D.rd c.Nr T (c.Nz - 1) j
  let pv := if (solidStage || c.f.coolingSolidPvap) then Evap2D.pSolid Tl else Evap2D.pLiquid Tl
  Evap2D.vapourFlux c.p.pi c.p.kappa c.p.m_water c.p.k_B c.p.p_vac pv Tl Tl

/-- **2D run model**: `S2D.qEvap` is the window model's `q_e` column by column, at the flux `flux2D` -/
theorem qEvap2D_eq (c : S2D.Ctx α) (solidStage : Bool) (time : α) (T : Array α) (j : Nat) :
    S2D.qEvap c solidStage time T j =
      qEWith (decide (c.p.config = S2D.Config.visf)) (ofPar c.p) time (flux2D c solidStage T j) := by
  unfold S2D.qEvap qEWith
  cases hc : c.p.config with
  | visf =>
    by_cases hw : c.p.t_vac_start * ofNat' 3600 < time ∧
        time < (c.p.t_vac_start + c.p.t_vac_duration) * ofNat' 3600
    · have : inWindow (ofPar c.p) time = true := (inWindow_iff' _ _).mpr hw
      simp only [hw, and_self, if_true, this, decide_true, Bool.and_self]
      rfl
    · have : inWindow (ofPar c.p) time = false := by
        cases h : inWindow (ofPar c.p) time with
        | false => rfl
        | true => exact absurd ((inWindow_iff' _ _).mp h) hw
      rw [this]
      simp [hw]
  | shelf => simp
  | jacket => simp

end

/-! ### loops: pointwise equal steps give equal loops -/

universe u v
variable {σ : Type u} {β : Type v}

theorem loopUntil_congr (step1 step2 : Nat → σ → β → σ) (stop : σ → Bool) (xs : List β) (i0 : Nat) (s : σ)
    (h : ∀ j, i0 ≤ j → j < i0 + xs.length → ∀ s x, step1 j s x = step2 j s x) :
    loopUntil step1 stop xs i0 s = loopUntil step2 stop xs i0 s := by
  induction xs generalizing i0 s with
  | nil => rfl
  | cons x xs ih =>
    simp only [loopUntil]
    rw [h i0 (Nat.le_refl _) (by simp)]
    split
    · rfl
    · apply ih
      intro j hj1 hj2
      exact h j (by omega) (by simp only [List.length_cons]; omega)

theorem iterIdx_congr (step1 step2 : Nat → σ → β → σ) (xs : List β) (i0 : Nat) (s : σ)
    (h : ∀ j, i0 ≤ j → j < i0 + xs.length → ∀ s x, step1 j s x = step2 j s x) :
    iterIdx step1 xs i0 s = iterIdx step2 xs i0 s := by
  induction xs generalizing i0 s with
  | nil => rfl
  | cons x xs ih =>
    simp only [iterIdx]
    rw [h i0 (Nat.le_refl _) (by simp)]
    apply ih
    intro j hj1 hj2
    exact h j (by omega) (by simp only [List.length_cons]; omega)

/-! ### the real 1D model: VISF with a window that is not met = shelf -/

section
variable {α : Type} [Transc α]

/-- the same run with configuration `shelf` -/
def shelfOf (p : SnowIn α) : SnowIn α := { p with visf := none }

/-- the vacuum window of a run is not met at time `t` (trivially so without VISF) -/
def notMet (p : SnowIn α) (t : α) : Prop :=
  ∀ v, p.visf = some v →
    ¬(v.t_vac_start * ofNat' 3600 < t ∧ t < (v.t_vac_start + v.t_vac_duration) * ofNat' 3600)

theorem qEvap_zero_of_notMet (p : SnowIn α) (pvap : α → α) (t Ttop : α) (h : notMet p t) :
    Snow.qEvap p pvap t Ttop = zero := by
  unfold Snow.qEvap
  cases hv : p.visf with
  | none => rfl
  | some v => simp [h v hv]

theorem qEvap_shelfOf (p : SnowIn α) (pvap : α → α) (t Ttop : α) :
    Snow.qEvap (shelfOf p) pvap t Ttop = zero := rfl

theorem coolField1D_shelf (p : SnowIn α) (g : Grid1D α) (i : Nat) (T : Array α) (Tsh : α)
    (h : notMet p (g.dt * ofNat' i)) :
    coolField1D p g i T Tsh = coolField1D (shelfOf p) g i T Tsh := by
  have hz : ∀ pvap Ttop, Snow.qEvap p pvap (g.dt * ofNat' i) Ttop = zero :=
    fun pvap Ttop => qEvap_zero_of_notMet p pvap _ Ttop h
  simp only [coolField1D, hz, qEvap_shelfOf]
  rfl

theorem coolStep1D_shelf (p : SnowIn α) (g : Grid1D α) (stride i : Nat) (s : Cool1D α) (Tsh : α)
    (h : notMet p (g.dt * ofNat' i)) :
    coolStep1D p g stride i s Tsh = coolStep1D (shelfOf p) g stride i s Tsh := by
  unfold coolStep1D
  rw [coolField1D_shelf p g i s.T Tsh h]
  rfl

/-- **cooling loop**: if the window is not met at any step time `dt·i`, `i < len(shelf)`, the
cooling loop of the VISF run (stop index and final state: field, hazard, every saved row) is
that of the shelf run.  With `shelf.take n` this is "identical up to step `n`". -/
theorem cool1D_shelf (p : SnowIn α) (g : Grid1D α) (old : Bool) (shelf : List α)
    (h : ∀ i, i < shelf.length → notMet p (g.dt * ofNat' i)) :
    cool1D p g old shelf = cool1D (shelfOf p) g old shelf := by
  unfold cool1D
  have := loopUntil_congr (coolStep1D p g (saveStride g.NtExp)) (coolStep1D (shelfOf p) g (saveStride g.NtExp))
    (coolStop1D p old) shelf 0 (coolInit1D p g)
    (fun j _ hj s x => coolStep1D_shelf p g _ j s x (h j (by omega)))
  rw [this]
  rfl

theorem solidStep1D_shelf (p : SnowIn α) (g : Grid1D α) (stride iEnd : Nat) (tNuc : α) (i : Nat)
    (s : Solid1D α) (Tsh : α) (h : notMet p (tNuc + g.dt * ofNat' i)) :
    solidStep1D p g stride iEnd tNuc i s Tsh = solidStep1D (shelfOf p) g stride iEnd tNuc i s Tsh := by
  have hz : ∀ pvap Ttop, Snow.qEvap p pvap (tNuc + g.dt * ofNat' i) Ttop = zero :=
    fun pvap Ttop => qEvap_zero_of_notMet p pvap _ Ttop h
  simp only [solidStep1D, hz, qEvap_shelfOf]
  rfl

/-- **whole run, sampled times only**: if the window is met at none of the step times the loops
actually evaluate — `dt·i` for the cooling steps and `dt·iEnd + dt·i` for the solidification steps after a
nucleation at step `iEnd` — the VISF run is the shelf run: exception, statistics, every history row of
`run1DOn`.  (A window beyond the process, or between two samples, is covered.) -/
theorem run1DOn_shelf_sampled (p : SnowIn α) (Nz : Nat) (old : Bool) (shelf : List α)
    (hcool : ∀ i, i < shelf.length → notMet p ((grid1D p Nz).dt * ofNat' i))
    (hsol : ∀ iEnd i, iEnd + i < shelf.length →
      notMet p ((grid1D p Nz).dt * ofNat' iEnd + (grid1D p Nz).dt * ofNat' i)) :
    run1DOn p Nz old shelf = run1DOn (shelfOf p) Nz old shelf := by
  have hc : cool1D p (grid1D p Nz) old shelf = cool1D (shelfOf p) (grid1D p Nz) old shelf :=
    cool1D_shelf p _ old shelf hcool
  have hs : ∀ stride iEnd (s0 : Solid1D α),
      iterIdx (solidStep1D p (grid1D p Nz) stride iEnd ((grid1D p Nz).dt * ofNat' iEnd)) (shelf.drop iEnd) 0 s0
      = iterIdx (solidStep1D (shelfOf p) (grid1D p Nz) stride iEnd ((grid1D p Nz).dt * ofNat' iEnd))
          (shelf.drop iEnd) 0 s0 := by
    intro stride iEnd s0
    apply iterIdx_congr
    intro j _ hj s x
    apply solidStep1D_shelf
    apply hsol iEnd j
    simp only [List.length_drop, Nat.zero_add] at hj
    omega
  have hg : grid1D (shelfOf p) Nz = grid1D p Nz := rfl
  unfold run1DOn
  simp only [hc, hg]
  cases hcl : cool1D (shelfOf p) (grid1D p Nz) old shelf with
  | mk o s =>
    cases o with
    | none => rfl
    | some iEnd =>
      simp only [hs]
      rfl

/-- corollary: a window met at NO time at all -/
theorem run1DOn_shelf (p : SnowIn α) (Nz : Nat) (old : Bool) (shelf : List α) (h : ∀ t, notMet p t) :
    run1DOn p Nz old shelf = run1DOn (shelfOf p) Nz old shelf :=
  run1DOn_shelf_sampled p Nz old shelf (fun _ _ => h _) (fun _ _ _ => h _)

/-! ### prefix before a window that opens later (possibly during the solidification stage) -/

/-- `loopUntil` congruence UP TO THE BREAK: if the second loop is left at index `i` and the step
functions agree at every index `≤ i`, the first loop is left at the same index in the same state. -/
theorem loopUntil_congr_upto {σ β : Type} (step1 step2 : Nat → σ → β → σ) (stop : σ → Bool) (xs : List β)
    (i0 : Nat) (s : σ) (i : Nat) (s' : σ)
    (h2 : loopUntil step2 stop xs i0 s = (some i, s'))
    (h : ∀ j, i0 ≤ j → j ≤ i → ∀ s x, step1 j s x = step2 j s x) :
    loopUntil step1 stop xs i0 s = (some i, s') := by
  induction xs generalizing i0 s with
  | nil => simp [loopUntil] at h2
  | cons x xs ih =>
    have hge : i0 ≤ i := loopUntil_idx_ge step2 stop (x :: xs) i0 s i s' h2
    simp only [loopUntil] at h2 ⊢
    rw [h i0 (Nat.le_refl _) hge]
    split at h2
    · rename_i hst
      simp only [hst, if_true]
      exact h2
    · rename_i hst
      simp only [hst]
      exact ih (i0 + 1) _ h2 (fun j hj1 hj2 => h j (by omega) hj2)

/-- the state the solidification loop of `run1DOn` starts from (post-nucleation field of the cooling
state `s`, empty buffer) -/
def solidInit (p : SnowIn α) (s : Cool1D α) : Solid1D α :=
  { T := (nucleate1D p s.T).1,
    w := (nucleate1D p s.T).2.map (· / (p.const.mass_water + p.const.mass_solute)),
    buf := #[], oob := false, solEnd := none, sg := zero, sigma := #[] }

/-- the solidification loop of `run1DOn` (nucleation at step `iEnd` out of cooling state `s`) after its
first `m` iterations: field, ice, the rows saved so far, the solidification bookkeeping -/
def solidAfter (p : SnowIn α) (Nz : Nat) (shelf : List α) (iEnd : Nat) (s : Cool1D α) (m : Nat) : Solid1D α :=
  iterIdx (solidStep1D p (grid1D p Nz) (saveStride ((grid1D p Nz).NtExp - iEnd)) iEnd
      ((grid1D p Nz).dt * ofNat' iEnd)) ((shelf.drop iEnd).take m) 0 (solidInit p s)

theorem solidInit_shelfOf (p : SnowIn α) (s : Cool1D α) : solidInit (shelfOf p) s = solidInit p s := rfl

/-- `solidAfter` at `m ≥` the number of remaining samples IS the `sol` of `run1DOn` -/
theorem solidAfter_full (p : SnowIn α) (Nz : Nat) (shelf : List α) (iEnd : Nat) (s : Cool1D α) (m : Nat)
    (hm : (shelf.drop iEnd).length ≤ m) :
    solidAfter p Nz shelf iEnd s m =
      iterIdx (solidStep1D p (grid1D p Nz) (saveStride ((grid1D p Nz).NtExp - iEnd)) iEnd
        ((grid1D p Nz).dt * ofNat' iEnd)) (shelf.drop iEnd) 0 (solidInit p s) := by
  unfold solidAfter
  rw [List.take_of_length_le hm]

/-- **prefix, both stages**: suppose the SHELF run nucleates at step `iEnd` (cooling state `s`), the
window is not met at the cooling step times `dt·i`, `i ≤ iEnd`, nor at the first `m` solidification step
times `dt·iEnd + dt·i`, `i < m`.  Then the VISF run has the same cooling stage (same nucleation step, same
state: field, hazard, every saved row) and its solidification loop after `m` iterations is in the same
state as the shelf run's (field, ice fractions, every saved row, solidification bookkeeping). -/
theorem run1D_prefix_shelf (p : SnowIn α) (Nz : Nat) (old : Bool) (shelf : List α) (iEnd : Nat) (s : Cool1D α)
    (m : Nat)
    (hnuc : cool1D (shelfOf p) (grid1D p Nz) old shelf = (some iEnd, s))
    (hcool : ∀ i, i ≤ iEnd → notMet p ((grid1D p Nz).dt * ofNat' i))
    (hsol : ∀ i, i < m → notMet p ((grid1D p Nz).dt * ofNat' iEnd + (grid1D p Nz).dt * ofNat' i)) :
    cool1D p (grid1D p Nz) old shelf = (some iEnd, s) ∧
    solidAfter p Nz shelf iEnd s m = solidAfter (shelfOf p) Nz shelf iEnd s m := by
  constructor
  · unfold cool1D at hnuc ⊢
    have hstop : coolStop1D (shelfOf p) old = coolStop1D p old := rfl
    have hinit : coolInit1D (shelfOf p) (grid1D p Nz) = coolInit1D p (grid1D p Nz) := rfl
    rw [hstop, hinit] at hnuc
    exact loopUntil_congr_upto _ _ _ shelf 0 _ iEnd s hnuc
      (fun j _ hj st x => coolStep1D_shelf p _ _ j st x (hcool j hj))
  · unfold solidAfter
    have hg : grid1D (shelfOf p) Nz = grid1D p Nz := rfl
    rw [hg, solidInit_shelfOf]
    apply iterIdx_congr
    intro j _ hj st x
    apply solidStep1D_shelf
    apply hsol j
    have := List.length_take_le m (shelf.drop iEnd)
    omega

/-- one solidification iteration only APPENDS to the saved rows -/
theorem solidStep1D_buf (p : SnowIn α) (g : Grid1D α) (stride iEnd : Nat) (tNuc : α) (i : Nat)
    (s : Solid1D α) (x : α) : ∃ r, (solidStep1D p g stride iEnd tNuc i s x).buf = s.buf ++ r := by
  unfold solidStep1D
  simp only
  split
  · unfold saveRow
    split
    · exact ⟨#[_], (Array.append_singleton ..).symm⟩
    · exact ⟨#[], (Array.append_empty ..).symm⟩
  · exact ⟨#[], (Array.append_empty ..).symm⟩

theorem iterIdx_solid_buf (p : SnowIn α) (g : Grid1D α) (stride iEnd : Nat) (tNuc : α) (xs : List α)
    (i0 : Nat) (s : Solid1D α) :
    ∃ r, (iterIdx (solidStep1D p g stride iEnd tNuc) xs i0 s).buf = s.buf ++ r := by
  induction xs generalizing i0 s with
  | nil => exact ⟨#[], by simp [iterIdx]⟩
  | cons x xs ih =>
    obtain ⟨r1, h1⟩ := solidStep1D_buf p g stride iEnd tNuc i0 s x
    obtain ⟨r2, h2⟩ := ih (i0 + 1) (solidStep1D p g stride iEnd tNuc i0 s x)
    exact ⟨r1 ++ r2, by simp only [iterIdx]; rw [h2, h1, Array.append_assoc]⟩

/-- **the rows saved in the first `m` solidification iterations are the first rows of the
solidification history** (the whole loop only appends to them) -/
theorem solidAfter_buf_prefix (p : SnowIn α) (Nz : Nat) (shelf : List α) (iEnd : Nat) (s : Cool1D α) (m : Nat) :
    ∃ r, (solidAfter p Nz shelf iEnd s (shelf.drop iEnd).length).buf = (solidAfter p Nz shelf iEnd s m).buf ++ r := by
  unfold solidAfter
  rw [List.take_of_length_le (Nat.le_refl _)]
  conv => enter [1, r, 1, 1, 2]; rw [← List.take_append_drop m (shelf.drop iEnd)]
  rw [iterIdx_append]
  exact iterIdx_solid_buf _ _ _ _ _ _ _ _

/-- the extra post-nucleation row `run1DOn` writes after the cooling rows -/
def nucRow (p : SnowIn α) (Nz : Nat) (iEnd : Nat) (s : Cool1D α) : Row α :=
  { step := iEnd, time := (grid1D p Nz).dt * ofNat' iEnd, shelf := s.Tshelf - lit 27315 2,
    temp := (nucleate1D p s.T).1.map (· - lit 27315 2),
    ice := (nucleate1D p s.T).2.map (· / (p.const.mass_water + p.const.mass_solute)) }

/-- **how `run1DOn` builds the PUBLISHED history**: if the cooling loop nucleates at step `iEnd` in state `s`,
`hist` is `none` (the run raises) when the post-nucleation row or a solidification row falls outside its
buffer or solidification does not complete, and otherwise the cooling rows, the post-nucleation row and the
rows saved by the solidification loop `solidAfter … (full length)` except the last. -/
theorem run1DOn_hist (p : SnowIn α) (Nz : Nat) (old : Bool) (shelf : List α) (iEnd : Nat) (s : Cool1D α)
    (hc : cool1D p (grid1D p Nz) old shelf = (some iEnd, s)) :
    (run1DOn p Nz old shelf).hist =
      if (saveRow NSave (s.buf, s.oob) (nucRow p Nz iEnd s)).2 then none
      else if (solidAfter p Nz shelf iEnd s (shelf.drop iEnd).length).oob then none
      else match (solidAfter p Nz shelf iEnd s (shelf.drop iEnd).length).solEnd with
        | none => none
        | some _ => some ((saveRow NSave (s.buf, s.oob) (nucRow p Nz iEnd s)).1 ++
            (solidAfter p Nz shelf iEnd s (shelf.drop iEnd).length).buf.extract 0
              ((solidAfter p Nz shelf iEnd s (shelf.drop iEnd).length).buf.size - 1)) := by
  rw [solidAfter_full p Nz shelf iEnd s _ (Nat.le_refl _)]
  unfold run1DOn
  simp only [hc]
  unfold nucRow solidInit
  split
  · rfl
  · split
    · rfl
    · split
      · rename_i heq; simp only [heq]
      · rename_i heq; simp only [heq]

theorem extract_dropLast_prefix {ρ : Type} (A r : Array ρ) :
    ∃ t, (A ++ r).extract 0 ((A ++ r).size - 1) = A.extract 0 (A.size - 1) ++ t := by
  refine ⟨(A ++ r).extract (A.size - 1) ((A ++ r).size - 1), ?_⟩
  have h1 : A.extract 0 (A.size - 1) = (A ++ r).extract 0 (A.size - 1) := by
    rw [Array.extract_append]
    simp
  rw [h1, Array.extract_append_extract]
  congr 1
  simp only [Array.size_append]; omega

/-- a published history starts with the cooling rows, the post-nucleation row and the rows saved in the first
`m` solidification iterations (all but the last of them) -/
theorem hist_starts_with (p : SnowIn α) (Nz : Nat) (old : Bool) (shelf : List α) (iEnd : Nat) (s : Cool1D α) (m : Nat)
    (hc : cool1D p (grid1D p Nz) old shelf = (some iEnd, s)) (H : Array (Row α))
    (hH : (run1DOn p Nz old shelf).hist = some H) :
    ∃ t, H = ((saveRow NSave (s.buf, s.oob) (nucRow p Nz iEnd s)).1 ++
        (solidAfter p Nz shelf iEnd s m).buf.extract 0 ((solidAfter p Nz shelf iEnd s m).buf.size - 1)) ++ t := by
  rw [run1DOn_hist p Nz old shelf iEnd s hc] at hH
  obtain ⟨r, hr⟩ := solidAfter_buf_prefix p Nz shelf iEnd s m
  obtain ⟨t, ht⟩ := extract_dropLast_prefix (solidAfter p Nz shelf iEnd s m).buf r
  split at hH
  · cases hH
  · split at hH
    · cases hH
    · split at hH
      · cases hH
      · simp only [Option.some.injEq] at hH
        refine ⟨t, ?_⟩
        rw [← hH, hr, ht, Array.append_assoc]

/-- **published rows before a window that opens later, both stages**: under the hypotheses of
`run1D_prefix_shelf`, whenever the VISF run and the shelf run publish a history (`hist = some _`; a run that
raises publishes none), BOTH histories start with the same rows: every cooling row, the post-nucleation row,
and the rows saved in the first `m` solidification iterations except the last of them. -/
theorem run1D_hist_prefix_shelf (p : SnowIn α) (Nz : Nat) (old : Bool) (shelf : List α) (iEnd : Nat) (s : Cool1D α)
    (m : Nat)
    (hnuc : cool1D (shelfOf p) (grid1D p Nz) old shelf = (some iEnd, s))
    (hcool : ∀ i, i ≤ iEnd → notMet p ((grid1D p Nz).dt * ofNat' i))
    (hsol : ∀ i, i < m → notMet p ((grid1D p Nz).dt * ofNat' iEnd + (grid1D p Nz).dt * ofNat' i))
    (Hv Hs : Array (Row α))
    (hv : (run1DOn p Nz old shelf).hist = some Hv) (hs : (run1DOn (shelfOf p) Nz old shelf).hist = some Hs) :
    ∃ P tv ts, Hv = P ++ tv ∧ Hs = P ++ ts ∧
      P = (saveRow NSave (s.buf, s.oob) (nucRow p Nz iEnd s)).1 ++
        (solidAfter (shelfOf p) Nz shelf iEnd s m).buf.extract 0
          ((solidAfter (shelfOf p) Nz shelf iEnd s m).buf.size - 1) := by
  obtain ⟨hc, hpre⟩ := run1D_prefix_shelf p Nz old shelf iEnd s m hnuc hcool hsol
  obtain ⟨tv, htv⟩ := hist_starts_with p Nz old shelf iEnd s m hc Hv hv
  obtain ⟨ts, hts⟩ := hist_starts_with (shelfOf p) Nz old shelf iEnd s m hnuc Hs hs
  rw [hpre] at htv
  exact ⟨_, tv, ts, htv, hts, rfl⟩

end
end Snow.EvapLink
