/-
  Lemmas about the configuration-tree model (SnowModel/Config.lean):
  association-list facts, the characterisation of `_nestedDictUpdate` at a key,
  idempotence, and "unknown key names are inert along known paths".
  Core Lean + a few Mathlib tactics; no numeric content (any leaf type `α`).
-/
import SnowModel.Config
import Mathlib.Tactic.Cases
import Mathlib.Tactic.SplitIfs
import Mathlib.Tactic.Tauto

namespace Snow.Cfg
variable {α : Type}

/-! ### well-formed trees: keys of every mapping are distinct (as in any Python dict) -/

mutual
def WF : Cfg α → Prop
  | .leaf _ => True
  | .node es => WFL es
def WFL : List (String × Cfg α) → Prop
  | [] => True
  | (k, v) :: es => find? es k = none ∧ WF v ∧ WFL es
end

mutual
/-- `u` lies inside the key tree of `d`: every key of `u` exists in `d` at the same place,
mappings over mappings, scalars over scalars. -/
def Sub : Cfg α → Cfg α → Prop
  | .leaf _, .leaf _ => True
  | .node us, .node ds => SubL us ds
  | .leaf _, .node _ => False
  | .node _, .leaf _ => False
def SubL : List (String × Cfg α) → List (String × Cfg α) → Prop
  | [], _ => True
  | (k, v) :: us, ds =>
    (match find? ds k with
      | some dv => Sub v dv
      | none => False) ∧ SubL us ds
end

/-! ### association lists -/

@[simp] theorem find?_nil (k : String) : find? ([] : List (String × Cfg α)) k = none := rfl

theorem find?_cons (k' : String) (v : Cfg α) (es) (k : String) :
    find? ((k', v) :: es) k = if k' = k then some v else find? es k := rfl

theorem find?_setKey (ds : List (String × Cfg α)) (k : String) (v : Cfg α) (k' : String) :
    find? (setKey ds k v) k' = if k = k' then some v else find? ds k' := by
  induction ds with
  | nil => simp [setKey, find?_cons]
  | cons e es ih =>
    obtain ⟨k0, v0⟩ := e
    simp only [setKey]
    by_cases h0 : k0 = k
    · subst h0
      simp only [if_true, find?_cons]
      by_cases h1 : k0 = k' <;> simp [h1]
    · simp only [h0, if_false, find?_cons, ih]
      by_cases h1 : k0 = k'
      · subst h1; simp [Ne.symm h0]
      · simp [h1]

theorem setKey_self (ds : List (String × Cfg α)) (k : String) (v : Cfg α) (h : find? ds k = some v) :
    setKey ds k v = ds := by
  induction ds with
  | nil => simp at h
  | cons e es ih =>
    obtain ⟨k0, v0⟩ := e
    simp only [setKey]
    rw [find?_cons] at h
    by_cases h0 : k0 = k
    · simp only [h0, if_true] at h ⊢
      cases h; rfl
    · simp only [h0, if_false] at h ⊢
      rw [ih h]

/-! ### `_nestedDictUpdate` at one key -/

/-- the value `d[k]` gets in the loop body for the entry `(k, v)` of `u` -/
def merge (od : Option (Cfg α)) (v : Cfg α) : Cfg α :=
  match v with
  | .leaf _ => v
  | .node _ => update (od.getD (.node [])) v

theorem updateL_nil (ds : List (String × Cfg α)) : updateL ds [] = ds := by
  simp [updateL]

theorem updateL_cons (ds : List (String × Cfg α)) (k : String) (v : Cfg α) (us) :
    updateL ds ((k, v) :: us) = updateL (setKey ds k (merge (find? ds k) v)) us := by
  cases v <;> simp [updateL, merge]

theorem update_node_node (ds us : List (String × Cfg α)) :
    update (.node ds) (.node us) = .node (updateL ds us) := by simp [update]

theorem update_leaf_node (x : Val α) (us : List (String × Cfg α)) :
    update (.leaf x) (.node us) = .leaf x := by simp [update]

theorem update_leaf (d : Cfg α) (y : Val α) : update d (.leaf y) = .leaf y := by
  cases d <;> simp [update]

/-- entry `k` of the updated mapping: untouched when `u` has no `k`, else the merged value -/
theorem find?_updateL (us : List (String × Cfg α)) (hw : WFL us) (ds : List (String × Cfg α)) (k : String) :
    find? (updateL ds us) k =
      match find? us k with
      | none => find? ds k
      | some v => some (merge (find? ds k) v) := by
  induction us generalizing ds with
  | nil => simp [updateL_nil]
  | cons e es ih =>
    obtain ⟨k0, v0⟩ := e
    simp only [WFL] at hw
    obtain ⟨hfresh, _, hes⟩ := hw
    rw [updateL_cons, ih hes, find?_cons]
    by_cases h0 : k0 = k
    · subst h0
      simp [hfresh, find?_setKey]
    · simp only [h0, if_false, find?_setKey]

/-! ### idempotence -/

theorem updateL_fix (us : List (String × Cfg α)) (hw : WFL us) (ds : List (String × Cfg α))
    (h : ∀ k v, find? us k = some v → find? ds k = some (merge (find? ds k) v)) :
    updateL ds us = ds := by
  induction us generalizing ds with
  | nil => exact updateL_nil ds
  | cons e es ih =>
    obtain ⟨k0, v0⟩ := e
    simp only [WFL] at hw
    obtain ⟨hfresh, _, hes⟩ := hw
    have h0 := h k0 v0 (by simp [find?_cons])
    rw [updateL_cons, setKey_self ds k0 _ h0]
    apply ih hes
    intro k v hk
    apply h k v
    rw [find?_cons]
    by_cases hk0 : k0 = k
    · subst hk0; rw [hfresh] at hk; cases hk
    · simp [hk0, hk]

theorem update_idem_aux (u : Cfg α) : WF u → ∀ d : Cfg α, update (update d u) u = update d u := by
  refine Cfg.rec
    (motive_1 := fun u => WF u → ∀ d : Cfg α, update (update d u) u = update d u)
    (motive_2 := fun us => WFL us → ∀ k v, find? us k = some v →
        WF v ∧ ∀ d : Cfg α, update (update d v) v = update d v)
    (motive_3 := fun p => WF p.2 → ∀ d : Cfg α, update (update d p.2) p.2 = update d p.2)
    ?leaf ?node ?nil ?cons ?mk u
  case leaf => intro y _ d; simp [update_leaf]
  case node =>
    intro us ih hw d
    simp only [WF] at hw
    cases d with
    | leaf x => simp [update_leaf_node]
    | node ds =>
      rw [update_node_node, update_node_node]
      congr 1
      apply updateL_fix us hw
      intro k v hk
      rw [find?_updateL us hw ds k, hk]
      obtain ⟨_, hv⟩ := ih hw k v hk
      cases v with
      | leaf y => simp [merge]
      | node vs =>
        simp only [merge, Option.getD_some]
        rw [hv]
  case nil => intro _ k v h; simp at h
  case cons =>
    intro e es ihe ihes hw k v hk
    obtain ⟨k0, v0⟩ := e
    simp only [WFL] at hw
    obtain ⟨_, hv0, hes⟩ := hw
    rw [find?_cons] at hk
    by_cases h0 : k0 = k
    · simp only [h0, if_true] at hk
      cases hk
      exact ⟨hv0, ihe hv0⟩
    · simp only [h0, if_false] at hk
      exact ihes hes k v hk
  case mk => intro k v ih; exact ih

/-! ### layering: every leaf comes from `u` if `u` defines it, else from `d` -/

theorem wfl_find {us : List (String × Cfg α)} (hw : WFL us) {k : String} {v : Cfg α}
    (hk : find? us k = some v) : WF v := by
  induction us with
  | nil => simp at hk
  | cons e es ih =>
    obtain ⟨k0, v0⟩ := e
    simp only [WFL] at hw
    rw [find?_cons] at hk
    by_cases h0 : k0 = k
    · simp only [h0, if_true] at hk; cases hk; exact hw.2.1
    · simp only [h0, if_false] at hk; exact ih hw.2.2 hk

theorem subL_find {us ds : List (String × Cfg α)} (h : SubL us ds) {k : String} {v : Cfg α}
    (hk : find? us k = some v) : ∃ dv, find? ds k = some dv ∧ Sub v dv := by
  induction us with
  | nil => simp at hk
  | cons e es ih =>
    obtain ⟨k0, v0⟩ := e
    simp only [SubL] at h
    rw [find?_cons] at hk
    by_cases h0 : k0 = k
    · simp only [h0, if_true] at hk
      cases hk
      subst h0
      obtain ⟨h1, _⟩ := h
      cases hf : find? ds k0 with
      | none => simp [hf] at h1
      | some dv => exact ⟨dv, rfl, by simpa [hf] using h1⟩
    · simp only [h0, if_false] at hk
      exact ih h.2 hk

theorem get?_nil (c : Cfg α) : get? c [] = some c := by cases c <;> simp [get?]

theorem get?_leaf_cons (x : Val α) (k : String) (ks) : get? (.leaf x) (k :: ks) = none := by simp [get?]

theorem get?_node_cons (es : List (String × Cfg α)) (k : String) (ks) :
    get? (.node es) (k :: ks) = match find? es k with | none => none | some c => get? c ks := by
  simp only [get?]
  cases find? es k <;> rfl

theorem update_lookup_aux (p : List String) :
    ∀ (u d : Cfg α), WF u → Sub u d → ∀ x, get? d p = some (.leaf x) →
      get? (update d u) p = some ((get? u p).getD (.leaf x)) := by
  induction p with
  | nil =>
    intro u d _ hs x hd
    rw [get?_nil] at hd
    cases hd
    cases u with
    | leaf y => simp [update_leaf, get?_nil]
    | node us => simp [Sub] at hs
  | cons k ks ih =>
    intro u d hw hs x hd
    cases d with
    | leaf z => simp [get?_leaf_cons] at hd
    | node ds =>
      cases u with
      | leaf y => simp [Sub] at hs
      | node us =>
        simp only [WF] at hw
        simp only [Sub] at hs
        rw [get?_node_cons] at hd
        rw [update_node_node, get?_node_cons, get?_node_cons, find?_updateL us hw]
        cases hfu : find? us k with
        | none =>
          simp only []
          cases hfd : find? ds k with
          | none => simp [hfd] at hd
          | some dv => simpa [hfd] using hd
        | some v =>
          obtain ⟨dv, hfd, hsv⟩ := subL_find hs hfu
          simp only [hfd] at hd ⊢
          cases v with
          | leaf y =>
            cases dv with
            | node _ => simp [Sub] at hsv
            | leaf z =>
              cases ks with
              | nil => simp [merge, get?_nil]
              | cons k' ks' => simp [get?_leaf_cons] at hd
          | node vs =>
            have := ih (.node vs) dv (wfl_find hw hfu) hsv x hd
            simpa [merge] using this

/-! ### pruning unknown key names -/

theorem find?_pruneL (K : List String) (es : List (String × Cfg α)) (k : String) (hk : k ∈ K) :
    find? (pruneL K es) k = (find? es k).map (prune K) := by
  induction es with
  | nil => simp [pruneL]
  | cons e es ih =>
    obtain ⟨k0, v0⟩ := e
    simp only [pruneL]
    by_cases h0 : k0 = k
    · subst h0
      simp [hk, find?_cons]
    · by_cases hc : k0 ∈ K
      · simp [hc, find?_cons, h0, ih]
      · simp [hc, find?_cons, h0, ih]

theorem find?_pruneL_none (K : List String) (es : List (String × Cfg α)) (k : String)
    (h : find? es k = none) : find? (pruneL K es) k = none := by
  induction es with
  | nil => simp [pruneL]
  | cons e es ih =>
    obtain ⟨k0, v0⟩ := e
    rw [find?_cons] at h
    by_cases h0 : k0 = k
    · simp [h0] at h
    · simp only [h0, if_false] at h
      simp only [pruneL]
      split_ifs
      · simp [find?_cons, h0, ih h]
      · exact ih h

theorem wf_prune (K : List String) (u : Cfg α) : WF u → WF (prune K u) := by
  refine Cfg.rec
    (motive_1 := fun u => WF u → WF (prune K u))
    (motive_2 := fun us => WFL us → WFL (pruneL K us))
    (motive_3 := fun p => WF p.2 → WF (prune K p.2))
    ?leaf ?node ?nil ?cons ?mk u
  case leaf => intro y h; simpa [prune] using h
  case node => intro us ih h; simp only [WF, prune] at h ⊢; exact ih h
  case nil => intro _; simp [pruneL, WFL]
  case cons =>
    intro e es ihe ihes hw
    obtain ⟨k0, v0⟩ := e
    simp only [WFL] at hw
    obtain ⟨hfresh, hv0, hes⟩ := hw
    simp only [pruneL]
    split_ifs
    · simp only [WFL]
      exact ⟨find?_pruneL_none K es k0 hfresh, ihe hv0, ihes hes⟩
    · exact ihes hes
  case mk => intro k v ih; exact ih

/-! ### what a lookup can see -/

/-- the part of a value that `float()`, `str()` and `.startswith` depend on:
the scalar, or "a mapping" without its contents -/
def obs : Cfg α → Option (Val α)
  | .leaf v => some v
  | .node _ => none

/-- `config[p0][p1]…` reduced to what the conversions can see -/
def look (c : Cfg α) (p : List String) : Except String (Option (Val α)) :=
  match itemPath c p with
  | .error e => .error e
  | .ok v => .ok (obs v)

theorem look_nil (c : Cfg α) : look c [] = .ok (obs c) := by simp [look, itemPath]

theorem look_cons_leaf (x : Val α) (k : String) (ks) : look (.leaf x) (k :: ks) = .error "TypeError" := by
  simp [look, itemPath, item]

theorem look_cons_node (es : List (String × Cfg α)) (k : String) (ks) :
    look (.node es) (k :: ks) =
      match find? es k with
      | none => .error "KeyError"
      | some v => look v ks := by
  simp only [look, itemPath, item]
  cases find? es k <;> simp

theorem pyFloat_of_obs {c1 c2 : Cfg α} (h : obs c1 = obs c2) : pyFloat c1 = pyFloat c2 := by
  cases c1 <;> cases c2 <;> simp_all [obs, pyFloat]

theorem pyStr_of_obs {c1 c2 : Cfg α} (h : obs c1 = obs c2) : pyStr c1 = pyStr c2 := by
  cases c1 <;> cases c2 <;> simp_all [obs, pyStr]

theorem rawStr_of_obs {c1 c2 : Cfg α} (h : obs c1 = obs c2) : rawStr c1 = rawStr c2 := by
  cases c1 <;> cases c2 <;> simp_all [obs, rawStr]

theorem floatAt_of_look {c1 c2 : Cfg α} {p : List String} (h : look c1 p = look c2 p) :
    floatAt c1 p = floatAt c2 p := by
  simp only [look, floatAt] at h ⊢
  cases h1 : itemPath c1 p <;> cases h2 : itemPath c2 p <;> simp_all
  exact pyFloat_of_obs h

theorem strAt_of_look {c1 c2 : Cfg α} {p : List String} (h : look c1 p = look c2 p) :
    strAt c1 p = strAt c2 p := by
  simp only [look, strAt] at h ⊢
  cases h1 : itemPath c1 p <;> cases h2 : itemPath c2 p <;> simp_all
  exact pyStr_of_obs h

theorem rawStrAt_of_look {c1 c2 : Cfg α} {p : List String} (h : look c1 p = look c2 p) :
    rawStrAt c1 p = rawStrAt c2 p := by
  simp only [look, rawStrAt] at h ⊢
  cases h1 : itemPath c1 p <;> cases h2 : itemPath c2 p <;> simp_all
  exact rawStr_of_obs h

/-- **unknown key names are inert along known paths**: removing from `u` every entry whose
key name is not in `K` does not change what any lookup along a path of names in `K` sees in
the merged configuration. -/
theorem look_update_prune (K : List String) (p : List String) :
    ∀ (u : Cfg α), WF u → ∀ d : Cfg α, (∀ k ∈ p, k ∈ K) →
      look (update d u) p = look (update d (prune K u)) p := by
  induction p with
  | nil =>
    intro u _ d _
    rw [look_nil, look_nil]
    cases u with
    | leaf y => simp [prune]
    | node us =>
      cases d with
      | leaf x => simp [prune, update_leaf_node]
      | node ds => simp [prune, update_node_node, obs]
  | cons k ks ih =>
    intro u hw d hK
    have hk : k ∈ K := hK k (by simp)
    have hks : ∀ k' ∈ ks, k' ∈ K := fun k' h => hK k' (by simp [h])
    cases u with
    | leaf y => simp [prune]
    | node us =>
      cases d with
      | leaf x => simp [prune, update_leaf_node]
      | node ds =>
        simp only [WF] at hw
        have hwp : WFL (pruneL K us) := by
          have := wf_prune K (.node us) (by simpa [WF] using hw)
          simpa [prune, WF] using this
        simp only [prune, update_node_node, look_cons_node]
        rw [find?_updateL us hw, find?_updateL _ hwp, find?_pruneL K us k hk]
        cases hfu : find? us k with
        | none => simp
        | some v =>
          simp only [Option.map_some]
          cases v with
          | leaf y => simp [merge, prune]
          | node vs =>
            have hwv : WF (Cfg.node vs) := by
              clear ih hwp
              induction us with
              | nil => simp at hfu
              | cons e es ihes =>
                obtain ⟨k0, v0⟩ := e
                simp only [WFL] at hw
                rw [find?_cons] at hfu
                by_cases h0 : k0 = k
                · simp only [h0, if_true] at hfu; cases hfu; exact hw.2.1
                · simp only [h0, if_false] at hfu; exact ihes hw.2.2 hfu
            have := ih (.node vs) hwv ((find? ds k).getD (.node [])) hks
            simpa [merge, prune] using this

/-! ### `_nestedDictUpdate` does not raise on partial files -/

/-- the entry `(k, v)` of `u` makes the update raise, seen from the ORIGINAL mapping `ds` -/
def clashAt (ds : List (String × Cfg α)) (e : String × Cfg α) : Bool :=
  match e.2 with
  | .leaf _ => false
  | .node _ => clash ((find? ds e.1).getD (.node [])) e.2

theorem clashL_nil (ds : List (String × Cfg α)) : clashL ds [] = false := by simp [clashL]

theorem clashL_cons (ds : List (String × Cfg α)) (k : String) (v : Cfg α) (us) :
    clashL ds ((k, v) :: us) = (clashAt ds (k, v) || clashL (setKey ds k (merge (find? ds k) v)) us) := by
  cases v <;> simp [clashL, clashAt, merge]

theorem find?_none_ne {es : List (String × Cfg α)} {k0 : String} (h : find? es k0 = none) :
    ∀ e ∈ es, e.1 ≠ k0 := by
  induction es with
  | nil => intro e he; simp at he
  | cons a t ih =>
    obtain ⟨k1, v1⟩ := a
    rw [find?_cons] at h
    by_cases h1 : k1 = k0
    · simp [h1] at h
    · simp only [h1, if_false] at h
      intro e he
      rcases List.mem_cons.mp he with rfl | he
      · exact h1
      · exact ih h e he

theorem any_congr_mem {β : Type} {l : List β} {p q : β → Bool} (h : ∀ a ∈ l, p a = q a) :
    l.any p = l.any q := by
  induction l with
  | nil => rfl
  | cons a t ih =>
    simp only [List.any_cons]
    rw [h a (List.mem_cons_self), ih (fun b hb => h b (List.mem_cons_of_mem _ hb))]

theorem clashL_eq (us : List (String × Cfg α)) (hw : WFL us) (ds : List (String × Cfg α)) :
    clashL ds us = us.any (clashAt ds) := by
  induction us generalizing ds with
  | nil => simp [clashL_nil]
  | cons e es ih =>
    obtain ⟨k0, v0⟩ := e
    simp only [WFL] at hw
    obtain ⟨hfresh, _, hes⟩ := hw
    rw [clashL_cons, ih hes, List.any_cons]
    congr 1
    apply any_congr_mem
    intro e he
    have hne := find?_none_ne hfresh e he
    simp only [clashAt, find?_setKey, if_neg (Ne.symm hne)]

theorem clash_node_node (ds us : List (String × Cfg α)) : clash (.node ds) (.node us) = clashL ds us := by
  simp [clash]

theorem clash_leaf (d : Cfg α) (y : Val α) : clash d (.leaf y) = false := by
  cases d <;> simp [clash]

/-- nothing can clash with an empty mapping -/
theorem clash_empty (v : Cfg α) : WF v → clash (.node []) v = false := by
  refine Cfg.rec
    (motive_1 := fun v => WF v → clash (.node []) v = false)
    (motive_2 := fun vs => WFL vs → ∀ e ∈ vs, clashAt ([] : List (String × Cfg α)) e = false)
    (motive_3 := fun p => WF p.2 → clash (.node []) p.2 = false)
    ?leaf ?node ?nil ?cons ?mk v
  case leaf => intro y _; exact clash_leaf _ y
  case node =>
    intro vs ih hw
    simp only [WF] at hw
    rw [clash_node_node, clashL_eq vs hw]
    rw [List.any_eq_false]
    intro e he
    simp [ih hw e he]
  case nil => intro _ e he; simp at he
  case cons =>
    intro a t iha iht hw e he
    obtain ⟨k0, v0⟩ := a
    simp only [WFL] at hw
    rcases List.mem_cons.mp he with rfl | he
    · have := iha hw.2.1
      cases v0 with
      | leaf y => simp [clashAt]
      | node vs => simpa [clashAt] using this
    · exact iht hw.2.2 e he
  case mk => intro k v ih; exact ih

theorem find?_mem_keys {es : List (String × Cfg α)} {k : String} {v : Cfg α} (h : find? es k = some v) :
    k ∈ keys es := by
  induction es with
  | nil => simp at h
  | cons a t ih =>
    obtain ⟨k1, v1⟩ := a
    rw [find?_cons] at h
    by_cases h1 : k1 = k
    · simp [keys, h1]
    · simp only [h1, if_false] at h
      have := ih h
      simp only [keys, List.map_cons, List.mem_cons] at this ⊢
      exact Or.inr this

theorem allKeys_of_find? {es : List (String × Cfg α)} {k : String} {v : Cfg α} (h : find? es k = some v) :
    ∀ x ∈ allKeys v, x ∈ allKeysL es := by
  induction es with
  | nil => simp at h
  | cons a t ih =>
    obtain ⟨k1, v1⟩ := a
    rw [find?_cons] at h
    intro x hx
    simp only [allKeysL, List.mem_append]
    by_cases h1 : k1 = k
    · simp only [h1, if_true] at h; cases h; exact Or.inl hx
    · simp only [h1, if_false] at h; exact Or.inr (ih h x hx)

theorem mem_pruneL {K : List String} {es : List (String × Cfg α)} {k : String} {v : Cfg α}
    (he : (k, v) ∈ es) (hk : k ∈ K) : (k, prune K v) ∈ pruneL K es := by
  induction es with
  | nil => simp at he
  | cons a t ih =>
    obtain ⟨k1, v1⟩ := a
    simp only [pruneL]
    rcases List.mem_cons.mp he with h | h
    · cases h
      simp [hk]
    · split_ifs
      · exact List.mem_cons_of_mem _ (ih h)
      · exact ih h

theorem subL_mem {us ds : List (String × Cfg α)} (h : SubL us ds) {k : String} {v : Cfg α}
    (he : (k, v) ∈ us) : ∃ dv, find? ds k = some dv ∧ Sub v dv := by
  induction us with
  | nil => simp at he
  | cons a t ih =>
    obtain ⟨k1, v1⟩ := a
    simp only [SubL] at h
    rcases List.mem_cons.mp he with h1 | h1
    · cases h1
      obtain ⟨h2, _⟩ := h
      cases hf : find? ds k with
      | none => simp [hf] at h2
      | some dv => exact ⟨dv, rfl, by simpa [hf] using h2⟩
    · exact ih h.2 h1

/-- **a partial file never makes `_nestedDictUpdate` raise**: if, after removing the key names
not in `K ⊇ keys(d)`, the custom tree lies inside the key tree of `d`, there is no clash. -/
theorem no_clash (K : List String) (u : Cfg α) :
    WF u → ∀ d : Cfg α, (∀ x ∈ allKeys d, x ∈ K) → Sub (prune K u) d → clash d u = false := by
  refine Cfg.rec
    (motive_1 := fun u => WF u → ∀ d : Cfg α, (∀ x ∈ allKeys d, x ∈ K) → Sub (prune K u) d → clash d u = false)
    (motive_2 := fun us => WFL us → ∀ ds : List (String × Cfg α), (∀ x ∈ allKeys (.node ds), x ∈ K) →
        SubL (pruneL K us) ds → ∀ e ∈ us, clashAt ds e = false)
    (motive_3 := fun p => WF p.2 → ∀ d : Cfg α, (∀ x ∈ allKeys d, x ∈ K) → Sub (prune K p.2) d →
        clash d p.2 = false)
    ?leaf ?node ?nil ?cons ?mk u
  case leaf => intro y _ d _ _; exact clash_leaf d y
  case node =>
    intro us ih hw d hK hs
    simp only [WF] at hw
    cases d with
    | leaf x => simp [prune, Sub] at hs
    | node ds =>
      simp only [prune, Sub] at hs
      rw [clash_node_node, clashL_eq us hw, List.any_eq_false]
      intro e he
      simp [ih hw ds hK hs e he]
  case nil => intro _ ds _ _ e he; simp at he
  case cons =>
    intro a t iha iht hw ds hK hs e he
    obtain ⟨k0, v0⟩ := a
    simp only [WFL] at hw
    obtain ⟨_, hv0, ht⟩ := hw
    have hst : SubL (pruneL K t) ds := by
      simp only [pruneL] at hs
      split_ifs at hs
      · simp only [SubL] at hs; exact hs.2
      · exact hs
    rcases List.mem_cons.mp he with rfl | he
    · cases v0 with
      | leaf y => simp [clashAt]
      | node vs =>
        simp only [clashAt]
        by_cases hk : k0 ∈ K
        · have hm : (k0, prune K (Cfg.node vs)) ∈ pruneL K ((k0, Cfg.node vs) :: t) :=
            mem_pruneL (List.mem_cons_self) hk
          obtain ⟨dv, hf, hsv⟩ := subL_mem hs hm
          rw [hf, Option.getD_some]
          apply iha hv0 dv _ hsv
          intro x hx
          apply hK
          simp only [allKeys, List.mem_append]
          exact Or.inl (allKeys_of_find? hf x hx)
        · have hnone : find? ds k0 = none := by
            cases hf : find? ds k0 with
            | none => rfl
            | some dv =>
              exfalso; apply hk; apply hK
              simp only [allKeys, List.mem_append]
              exact Or.inr (find?_mem_keys hf)
          rw [hnone]
          exact clash_empty _ hv0
    · exact iht ht ds hK hst e he
  case mk => intro k v ih; exact ih

theorem prune_idem (K : List String) (u : Cfg α) : prune K (prune K u) = prune K u := by
  refine Cfg.rec
    (motive_1 := fun u => prune K (prune K u) = prune K u)
    (motive_2 := fun us => pruneL K (pruneL K us) = pruneL K us)
    (motive_3 := fun p => prune K (prune K p.2) = prune K p.2)
    ?leaf ?node ?nil ?cons ?mk u
  case leaf => intro y; simp [prune]
  case node => intro us ih; simp only [prune, ih]
  case nil => simp [pruneL]
  case cons =>
    intro a t iha iht
    obtain ⟨k0, v0⟩ := a
    simp only [pruneL]
    split_ifs with h
    · simp only [pruneL, h, if_true]
      rw [iha, iht]
    · exact iht
  case mk => intro k v ih; exact ih

theorem mem_dedup (k : String) (l : List String) : k ∈ dedup l ↔ k ∈ l := by
  induction l with
  | nil => simp [dedup]
  | cons a t ih =>
    simp only [dedup]
    split_ifs with h
    · have h' : a ∈ t := by simpa using h
      rw [ih]
      simp only [List.mem_cons]
      constructor
      · exact Or.inr
      · rintro (rfl | h2)
        · exact h'
        · exact h2
    · simp [ih]

end Snow.Cfg
