/-
  The run of `SnowModel/Flake.lean` seen from ONE vial: the list of the `N+1` batch states
  (start of every step, then the state after the last step), the chain of the vial's own
  states, and the case analysis of one vial transition in terms of its record fields.
  Built on `Lemmas/FlakeStep.lean` (`trajList`, `finalState`, `vialStep`).
-/
import SnowProofs.Lemmas.FlakeStep
import Mathlib.Tactic.Linarith

namespace Snow.FlakeRun
open Snow Num Snow.Flake Snow.FlakeLemmas

/-! ### all states of a run -/

section
variable {α : Type} [Transc α]

/-- the states at the start of the steps `k, k+1, …` followed by the state after the last step -/
def states (p : Params α) (kCN : Nat) : Nat → List α → State α → List (State α)
  | _, [], s => [s]
  | k, T :: r, s => s :: states p kCN (k + 1) r (step p kCN k T s)

theorem states_eq (p : Params α) (kCN k : Nat) (l : List α) (s : State α) :
    states p kCN k l s = trajList p kCN k l s ++ [finalState p kCN k l s] := by
  induction l generalizing k s with
  | nil => rfl
  | cons T r ih => simp [states, trajList, finalState, ih]

@[simp] theorem states_length (p : Params α) (kCN k : Nat) (l : List α) (s : State α) :
    (states p kCN k l s).length = l.length + 1 := by
  simp [states_eq]

/-- the states of `runWith`: columns of the state matrix, then the final state -/
theorem runWith_states (inp : Inputs α) (kCN : Nat) :
    (runWith inp kCN).traj.toList ++ [(runWith inp kCN).final]
      = states inp.p kCN 0 (profile inp.oc inp.p.dt) (init inp) := by
  simp [runWith, loop_eq, states_eq]

theorem runWith_traj (inp : Inputs α) (kCN : Nat) :
    (runWith inp kCN).traj.toList = trajList inp.p kCN 0 (profile inp.oc inp.p.dt) (init inp) := by
  simp [runWith, loop_eq]

theorem runWith_final (inp : Inputs α) (kCN : Nat) :
    (runWith inp kCN).final = finalState inp.p kCN 0 (profile inp.oc inp.p.dt) (init inp) := by
  simp [runWith, loop_eq]

theorem step_size (p : Params α) (kCN k : Nat) (T : α) (s : State α) :
    (step p kCN k T s).vials.size = s.vials.size := by simp [step]

theorem states_size (p : Params α) (kCN k : Nat) (l : List α) (s : State α) :
    ∀ st ∈ states p kCN k l s, st.vials.size = s.vials.size := by
  induction l generalizing k s with
  | nil => intro st h; simp [states] at h; rw [h]
  | cons T r ih =>
    intro st h
    simp only [states, List.mem_cons] at h
    rcases h with h | h
    · rw [h]
    · rw [ih _ _ st h, step_size]

end

/-! ### one vial -/

/-- a vial that has never nucleated (initial state of every vial) -/
def fresh (T : ℝ) : Vial ℝ := { T := T, sigma := 0 }

/-- vial `i` of a state (`fresh 0` outside the batch) -/
def vAt (s : State ℝ) (i : Nat) : Vial ℝ := s.vials.getD i (fresh 0)

theorem vAt_stepCN (p : Params ℝ) (isCN : Bool) (k : Nat) (Tsh : ℝ) (s : State ℝ) (i : Nat)
    (hi : i < s.vials.size) :
    vAt (stepCN p isCN k Tsh s) i = vialStep p isCN k Tsh s i (vAt s i) := by
  have h := stepCN_getElem? p isCN k Tsh s i
  have hs : s.vials[i]? = some s.vials[i] := Array.getElem?_eq_getElem hi
  rw [hs] at h
  simp only [Option.map_some] at h
  unfold vAt
  simp only [Array.getD_eq_getD_getElem?, h, hs, Option.getD_some]

theorem vAt_init (inp : Inputs ℝ) (i : Nat) (hi : i < inp.nVials) :
    vAt (init inp) i = fresh inp.T0 := by
  simp [vAt, init, fresh, hi]

/-- `v'` is what one step `k` can make of `v` (for some batch context: whether any vial is
solid, the vial's heat flow, its `kb` and its die) -/
def VStep (p : Params ℝ) (isCN : Bool) (k : Nat) (v v' : Vial ℝ) : Prop :=
  ∃ (as : Bool) (q kb die : ℝ),
    v' = vialFinal p (timeAt p.dt k) isCN (vialMid p (timeAt p.dt k) as v q) kb die

theorem vstep_of_stepCN (p : Params ℝ) (isCN : Bool) (k : Nat) (Tsh : ℝ) (s : State ℝ) (i : Nat)
    (hi : i < s.vials.size) : VStep p isCN k (vAt s i) (vAt (stepCN p isCN k Tsh s) i) :=
  ⟨_, _, _, _, vAt_stepCN p isCN k Tsh s i hi⟩

/-- consecutive elements are related by the step with the right index -/
def VChain (p : Params ℝ) (kCN : Nat) : Nat → List (Vial ℝ) → Prop
  | _, [] => True
  | _, [_] => True
  | k, v :: v' :: rest => VStep p (k == kCN) k v v' ∧ VChain p kCN (k + 1) (v' :: rest)

theorem vchain_states (p : Params ℝ) (kCN k : Nat) (l : List ℝ) (s : State ℝ) (i : Nat)
    (hi : i < s.vials.size) : VChain p kCN k ((states p kCN k l s).map (vAt · i)) := by
  induction l generalizing k s with
  | nil => simp [states, VChain]
  | cons T r ih =>
    have h2 := ih (k + 1) (step p kCN k T s) (by rw [step_size]; exact hi)
    cases r with
    | nil =>
      simp only [states, List.map_cons, List.map_nil, VChain, and_true]
      exact vstep_of_stepCN p _ k T s i hi
    | cons T1 r' =>
      simp only [states, List.map_cons, VChain] at h2 ⊢
      exact ⟨vstep_of_stepCN p _ k T s i hi, h2⟩

/-! ### one transition, field by field -/

theorem isLiquid_iff (v : Vial ℝ) : isLiquid v = true ↔ v.sigma = 0 := by
  simp [isLiquid]

/-- the temperature a liquid vial has after the sensible update -/
noncomputable def midT (p : Params ℝ) (q : ℝ) (v : Vial ℝ) : ℝ := liquidTemp p.c p.dt q v.T

/-- transition of a LIQUID vial (`σ = 0`) with its heat flow `q` EXPLICIT: it either nucleates at
the temperature `T + q/hl·dt` it has after this step's sensible update … or stays liquid -/
theorem vfinal_liquid (p : Params ℝ) (isCN : Bool) (tk : ℝ) (as : Bool) (v : Vial ℝ) (q kb die : ℝ)
    (hl : v.sigma = 0) :
    let v' := vialFinal p tk isCN (vialMid p tk as v q) kb die
    (midT p q v < p.c.T_eq_l ∧
        v'.sigma = sigmaJump p.initIce p.c (midT p q v) ∧
        v'.tNuc = some (tk + p.dt) ∧ v'.TNuc = some (midT p q v)) ∨
    (v'.sigma = 0 ∧ v'.tNuc = v.tNuc ∧ v'.TNuc = v.TNuc) := by
  intro v'
  have hliq : isLiquid v = true := (isLiquid_iff v).mpr hl
  have hm : vialMid p tk as v q
      = ⟨{ v with T := liquidTemp p.c p.dt q v.T, tSol := tSolUpdate p tk as v }, true⟩ := by
    simp [vialMid, hliq]
  by_cases hn : nucleates p isCN (vialMid p tk as v q) kb die = true
  · left
    refine ⟨?_, ?_, ?_, ?_⟩
    · rw [hm] at hn
      simp only [nucleates, isCand, Bool.and_eq_true, decide_eq_true_eq] at hn
      exact hn.1.2
    all_goals (simp only [v']; rw [vialFinal, if_pos hn, hm]; try (first | rfl | simp [midT]))
  · right
    simp only [v']
    rw [vialFinal, if_neg hn, hm]
    exact ⟨hl, rfl, rfl⟩

/-- transition of a LIQUID vial (`σ = 0`): it either nucleates … or stays liquid -/
theorem vstep_liquid {p : Params ℝ} {isCN : Bool} {k : Nat} {v v' : Vial ℝ}
    (h : VStep p isCN k v v') (hl : v.sigma = 0) :
    (∃ q : ℝ, midT p q v < p.c.T_eq_l ∧
        v'.sigma = sigmaJump p.initIce p.c (midT p q v) ∧
        v'.tNuc = some (timeAt p.dt k + p.dt) ∧ v'.TNuc = some (midT p q v)) ∨
    (v'.sigma = 0 ∧ v'.tNuc = v.tNuc ∧ v'.TNuc = v.TNuc) := by
  obtain ⟨as, q, kb, die, rfl⟩ := h
  rcases vfinal_liquid p isCN (timeAt p.dt k) as v q kb die hl with h | h
  · exact Or.inl ⟨q, h⟩
  · exact Or.inr h

/-- transition of a vial that contains ice (`σ ≠ 0`): the nucleation record is kept -/
theorem vstep_solid {p : Params ℝ} {isCN : Bool} {k : Nat} {v v' : Vial ℝ}
    (h : VStep p isCN k v v') (hs : v.sigma ≠ 0) :
    v'.tNuc = v.tNuc ∧ v'.TNuc = v.TNuc ∧
      ∃ q : ℝ, v'.sigma = solidSigma p.c p.dt q v.sigma ∧ v'.T = eqTemp p.c v'.sigma := by
  obtain ⟨as, q, kb, die, rfl⟩ := h
  have hliq : isLiquid v = false := by
    cases hb : isLiquid v
    · rfl
    · exact absurd ((isLiquid_iff v).mp hb) hs
  have hm : vialMid p (timeAt p.dt k) as v q
      = ⟨{ v with T := eqTemp p.c (solidSigma p.c p.dt q v.sigma), sigma := solidSigma p.c p.dt q v.sigma,
                  tSol := tSolUpdate p (timeAt p.dt k) as v }, false⟩ := by
    simp [vialMid, hliq]
  have hn : ¬ nucleates p isCN (vialMid p (timeAt p.dt k) as v q) kb die = true := by
    rw [hm]; simp [nucleates, isCand]
  rw [vialFinal, if_neg hn, hm]
  exact ⟨rfl, rfl, q, rfl, rfl⟩

/-- the solidification record after a step: set once, to `t[k] − t_nuc`, in the first step
that starts with `σ > threshold` (and with some vial solid, which this vial then is) -/
theorem vstep_tSol {p : Params ℝ} {isCN : Bool} {k : Nat} {v v' : Vial ℝ}
    (h : VStep p isCN k v v') :
    v'.tSol = v.tSol ∨
      (v.tSol = none ∧ p.threshold < v.sigma ∧ v'.tSol = v.tNuc.map fun tn => timeAt p.dt k - tn) := by
  obtain ⟨as, q, kb, die, rfl⟩ := h
  have key : (vialFinal p (timeAt p.dt k) isCN (vialMid p (timeAt p.dt k) as v q) kb die).tSol
      = tSolUpdate p (timeAt p.dt k) as v := by
    unfold vialFinal vialMid
    split <;> split <;> rfl
  rw [key]
  unfold tSolUpdate
  split
  · rename_i hc
    simp only [Bool.and_eq_true, decide_eq_true_eq, Option.isNone_iff_eq_none] at hc
    right; exact ⟨hc.2, hc.1.2, rfl⟩
  · left; rfl

/-- with ice and above the threshold the record IS set (the vial itself makes `any(solidMask)` true
in the batch; here: for the batch step, see `vstep_tSol_set_of_batch`) -/
theorem vialStep_tSol (p : Params ℝ) (isCN : Bool) (k : Nat) (Tsh : ℝ) (s : State ℝ) (i : Nat) (v : Vial ℝ) :
    (vialStep p isCN k Tsh s i v).tSol = tSolUpdate p (timeAt p.dt k) (anySolid s) v := by
  unfold vialStep vialFinal vialMid
  split <;> split <;> rfl

end Snow.FlakeRun

namespace Snow.FlakeRun
open Snow Num Snow.Flake Snow.FlakeLemmas

/-! ### index form -/

section
variable {α : Type} [Transc α]

theorem states_getElem_zero (p : Params α) (kCN k : Nat) (l : List α) (s : State α) :
    (states p kCN k l s)[0]'(by simp) = s := by
  cases l <;> simp [states]

/-- state `j+1` is the step `k+j` applied to state `j` -/
theorem states_succ (p : Params α) (kCN k : Nat) (l : List α) (s : State α) (j : Nat)
    (hj : j < l.length) :
    (states p kCN k l s)[j + 1]'(by simp; omega)
      = step p kCN (k + j) l[j] ((states p kCN k l s)[j]'(by simp; omega)) := by
  induction l generalizing k s j with
  | nil => simp at hj
  | cons T r ih =>
    cases j with
    | zero =>
      simp only [states, List.getElem_cons_succ, List.getElem_cons_zero, Nat.add_zero]
      exact states_getElem_zero p kCN (k + 1) r _
    | succ j' =>
      simp only [states, List.getElem_cons_succ]
      have := ih (k + 1) (step p kCN k T s) j' (by simpa using hj)
      rw [this]
      congr 1
      omega

/-- two runs with different controlled-nucleation indices agree on every state up to (and
including) the start of the earlier trigger step — vials AND the remaining dice stream -/
theorem states_prefix (p : Params α) (kCN kCN' k : Nat) (l : List α) (s : State α) (j : Nat)
    (hj : j ≤ l.length) (h1 : k + j ≤ kCN) (h2 : k + j ≤ kCN') :
    (states p kCN k l s)[j]'(by simp; omega) = (states p kCN' k l s)[j]'(by simp; omega) := by
  induction j with
  | zero => simp [states_getElem_zero]
  | succ j ih =>
    have hj' : j < l.length := by omega
    rw [states_succ p kCN k l s j hj', states_succ p kCN' k l s j hj', ih (by omega) (by omega) (by omega)]
    have e1 : (k + j == kCN) = false := by simp; omega
    have e2 : (k + j == kCN') = false := by simp; omega
    simp [step, e1, e2]

end

theorem vchain_get {p : Params ℝ} {kCN k : Nat} {vs : List (Vial ℝ)} (h : VChain p kCN k vs) (j : Nat)
    (hj : j + 1 < vs.length) : VStep p (k + j == kCN) (k + j) vs[j] vs[j + 1] := by
  induction vs generalizing k j with
  | nil => simp at hj
  | cons v rest ih =>
    cases rest with
    | nil => simp at hj
    | cons v' rest' =>
      simp only [VChain] at h
      cases j with
      | zero => simpa using h.1
      | succ j' =>
        have := ih h.2 j' (by simpa using hj)
        simp only [List.getElem_cons_succ]
        have e : k + (j' + 1) = k + 1 + j' := by omega
        rw [e]
        exact this

/-! ### the trajectory of one vial in a run -/

/-- (= `C05.profile_length`) one shelf sample per step -/
theorem profile_len {α : Type} [Num α] (oc : OpCond α) (dt : α) :
    (profile oc dt).length = nSteps oc.t_tot dt := by
  simp only [profile, List.length_append, List.length_replicate, List.length_take]
  omega


/-- vial `i` in the `N+1` states of the run with trigger index `kCN` -/
noncomputable def vtraj (inp : Inputs ℝ) (kCN i : Nat) : List (Vial ℝ) :=
  (states inp.p kCN 0 (profile inp.oc inp.p.dt) (init inp)).map (vAt · i)

theorem vtraj_length (inp : Inputs ℝ) (kCN i : Nat) :
    (vtraj inp kCN i).length = nSteps inp.oc.t_tot inp.p.dt + 1 := by
  simp [vtraj, profile_len]

theorem vtraj_chain (inp : Inputs ℝ) (kCN i : Nat) (hi : i < inp.nVials) :
    VChain inp.p kCN 0 (vtraj inp kCN i) :=
  vchain_states inp.p kCN 0 _ (init inp) i (by simpa [init] using hi)

theorem vtraj_zero (inp : Inputs ℝ) (kCN i : Nat) (hi : i < inp.nVials) :
    (vtraj inp kCN i)[0]'(by rw [vtraj_length]; omega) = fresh inp.T0 := by
  simp [vtraj, states_getElem_zero, vAt_init inp i hi]

/-- the columns of vial `i` (what `X_T[i, :]`, `X_sigma[i, :]` hold when the vial is stored)
followed by its final state (what `stats` holds) -/
theorem vtraj_eq (inp : Inputs ℝ) (kCN i : Nat) :
    vtraj inp kCN i = (runWith inp kCN).traj.toList.map (vAt · i) ++ [vAt (runWith inp kCN).final i] := by
  unfold vtraj
  rw [← runWith_states]
  simp

/-- the exact transition of vial `i` between consecutive states of the run -/
theorem vtraj_succ (inp : Inputs ℝ) (kCN i j : Nat) (hi : i < inp.nVials)
    (hj : j < nSteps inp.oc.t_tot inp.p.dt) :
    let S := states inp.p kCN 0 (profile inp.oc inp.p.dt) (init inp)
    (vtraj inp kCN i)[j + 1]'(by rw [vtraj_length]; omega)
      = vialStep inp.p (j == kCN) j ((profile inp.oc inp.p.dt)[j]'(by rw [profile_len]; exact hj))
          (S[j]'(by simp [S, profile_len]; omega)) i
          ((vtraj inp kCN i)[j]'(by rw [vtraj_length]; omega)) := by
  intro S
  have hl : j < (profile inp.oc inp.p.dt).length := by rw [profile_len]; exact hj
  have h := states_succ inp.p kCN 0 (profile inp.oc inp.p.dt) (init inp) j hl
  simp only [vtraj, List.getElem_map]
  rw [h]
  simp only [Nat.zero_add, step]
  apply vAt_stepCN
  have := states_size inp.p kCN 0 (profile inp.oc inp.p.dt) (init inp)
    ((states inp.p kCN 0 (profile inp.oc inp.p.dt) (init inp))[j]'(by simp; omega)) (List.getElem_mem _)
  rw [this]
  simpa [init] using hi

end Snow.FlakeRun
