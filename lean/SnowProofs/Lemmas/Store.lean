/-
  Helper lemmas for the recording model (`SnowModel/Store.lean`): the stride of
  `uniform`, counting the recorded vials, and the masked write `pick`.
-/
import SnowProofs.Lemmas.Topology
import SnowModel.Store

namespace Snow.Store
open Snow.Topology Snow.Groups

/-- a request string that names a group and neither `random` nor `uniform` -/
theorem store_string_group (arr : Arr) (nz : Nat) (exts : List Nat) (s g : String) (choice : List Nat)
    (hg : firstGroup (lower s) = some g)
    (hr : hasSub "random".toList (lower s) = false) (hu : hasSub "uniform".toList (lower s) = false) :
    interpretString arr nz exts s choice = (maskOf arr nz exts [g]).map fun m => (m, false) := by
  unfold interpretString
  simp only [hg, hr, hu]
  cases maskOf arr nz exts [g] <;> rfl

/-- what `interpretString` does for a `uniform` request with one count `n` -/
theorem uniform_request_lemma (arr : Arr) (nz : Nat) (exts : List Nat) (s : String) (choice : List Nat)
    (mask0 : List Bool) (n : Nat)
    (hm : (match firstGroup (lower s) with
            | some g => maskOf arr nz exts [g]
            | none => pure (List.replicate exts.length true)) = .ok mask0)
    (hr : hasSub "random".toList (lower s) = false) (hu : hasSub "uniform".toList (lower s) = true)
    (hn : digitRuns (lower s) none = [n]) (hn0 : 0 < n) (hc : 0 < (whereTrue mask0).length) :
    interpretString arr nz exts s choice
      = .ok (maskFromIdx exts.length (uniformPick (whereTrue mask0) n), false) := by
  unfold interpretString
  simp only [hr, hu, hn]
  have h1 : ¬ n = 0 := by omega
  have h2 : ¬ (whereTrue mask0).length = 0 := by omega
  cases hfg : firstGroup (lower s) with
  | none =>
    rw [hfg] at hm
    simp only [pure, Except.pure, Except.ok.injEq] at hm
    subst hm
    simp [bind, Except.bind, pure, Except.pure, h1, h2]
  | some g =>
    rw [hfg] at hm
    simp only at hm
    simp [hm, bind, Except.bind, pure, Except.pure, h1, h2]

/-- what `interpretString` does for a `random` request with one count `n` -/
theorem random_request_lemma (arr : Arr) (nz : Nat) (exts : List Nat) (s : String) (choice : List Nat)
    (mask0 : List Bool) (n : Nat)
    (hm : (match firstGroup (lower s) with
            | some g => maskOf arr nz exts [g]
            | none => pure (List.replicate exts.length true)) = .ok mask0)
    (hr : hasSub "random".toList (lower s) = true)
    (hn : digitRuns (lower s) none = [n]) :
    interpretString arr nz exts s choice
      = if n > (whereTrue mask0).length then .error "ValueError"
        else .ok (maskFromIdx exts.length choice, true) := by
  unfold interpretString
  simp only [hr, hn]
  cases hfg : firstGroup (lower s) with
  | none =>
    rw [hfg] at hm
    simp only [pure, Except.pure, Except.ok.injEq] at hm
    subst hm
    by_cases h : n > (whereTrue (List.replicate exts.length true)).length <;>
      simp [bind, Except.bind, pure, Except.pure, h, throw, throwThe, MonadExceptOf.throw]
  | some g =>
    rw [hfg] at hm
    simp only at hm
    by_cases h : n > (whereTrue mask0).length <;>
      simp [hm, bind, Except.bind, pure, Except.pure, h, throw, throwThe, MonadExceptOf.throw]

/-! ### `uniform`: stride arithmetic -/

theorem ceilDiv_pos {a b : Nat} (ha : 0 < a) (hb : 0 < b) : 0 < ceilDiv a b := by
  unfold ceilDiv
  exact Nat.div_pos (by omega) hb

theorem le_ceilDiv_mul {a b : Nat} (hb : 0 < b) : a ≤ ceilDiv a b * b := by
  unfold ceilDiv
  have h1 := Nat.div_add_mod (a + b - 1) b
  have h2 := Nat.mod_lt (a + b - 1) hb
  rw [Nat.mul_comm]
  omega

/-- taking every `⌈len/h⌉`-th of `len` items yields at most `h` items -/
theorem ceilDiv_ceilDiv_le {len h : Nat} (hlen : 0 < len) (hh : 0 < h) :
    ceilDiv len (ceilDiv len h) ≤ h := by
  have hs := ceilDiv_pos hlen hh
  have h1 : len ≤ ceilDiv len h * h := le_ceilDiv_mul hh
  generalize ceilDiv len h = s at hs h1
  unfold ceilDiv
  have : (len + s - 1) / s < h + 1 := by
    apply Nat.div_lt_of_lt_mul
    rw [Nat.mul_succ]
    omega
  omega

theorem strideIdx_length (len step : Nat) : (strideIdx len step).length = ceilDiv len step := by
  simp [strideIdx]

theorem strideIdx_lt {len step : Nat} (hs : 0 < step) : ∀ k ∈ strideIdx len step, k < len := by
  intro k hk
  simp only [strideIdx, List.mem_map, List.mem_range] at hk
  obtain ⟨q, hq, rfl⟩ := hk
  unfold ceilDiv at hq
  have h1 := Nat.div_add_mod (len + step - 1) step
  have h2 := Nat.mod_lt (len + step - 1) hs
  have : (q + 1) * step ≤ (len + step - 1) / step * step := Nat.mul_le_mul_right step hq
  rw [Nat.succ_mul] at this
  rw [Nat.mul_comm] at h1
  omega

theorem uniformPick_length (cand : List Nat) (h : Nat) :
    (uniformPick cand h).length = ceilDiv cand.length (ceilDiv cand.length h) := by
  simp [uniformPick, strideIdx_length]

theorem uniformPick_mem {cand : List Nat} {h : Nat} (hc : 0 < cand.length) (hh : 0 < h) :
    ∀ v ∈ uniformPick cand h, v ∈ cand := by
  intro v hv
  simp only [uniformPick, List.mem_map] at hv
  obtain ⟨k, hk, rfl⟩ := hv
  have hlt := strideIdx_lt (ceilDiv_pos hc hh) k hk
  have : cand.getD k 0 = cand[k] := by
    simp [List.getD_eq_getElem?_getD, List.getElem?_eq_getElem hlt]
  rw [this]
  exact List.getElem_mem hlt

/-! ### counting recorded vials -/

/-- number of `True` entries of a mask -/
theorem count_maskFromIdx (N : Nat) (sel : List Nat) :
    (maskFromIdx N sel).count true = S N (fun i => if i ∈ sel then 1 else 0) := by
  have : S N (fun i => if i ∈ sel then 1 else 0)
      = S N (fun i => if sel.contains i = true then 1 else 0) := by
    apply S_congr; intro i _; simp
  rw [this, S_indicator_eq_filter]
  unfold maskFromIdx
  rw [List.count_eq_countP, List.countP_map, List.countP_eq_length_filter]
  congr 1
  apply List.filter_congr
  intro i _
  simp

theorem S_mem_le (N : Nat) (sel : List Nat) :
    S N (fun i => if i ∈ sel then 1 else 0) ≤ sel.length := by
  induction sel with
  | nil => simp [S_zero]
  | cons a sel ih =>
    have hle : S N (fun i => if i ∈ a :: sel then 1 else 0)
        ≤ S N (fun i => (if i = a then 1 else 0) + (if i ∈ sel then 1 else 0)) := by
      apply S_le_of_le
      intro i _
      by_cases h1 : i = a <;> by_cases h2 : i ∈ sel <;> simp [h1, h2]
    rw [S_add, S_point] at hle
    have : (if a < N then 1 else 0) ≤ 1 := by split <;> omega
    simp only [List.length_cons]
    omega

theorem S_mem_eq {N : Nat} {sel : List Nat} (hnd : sel.Nodup) (hlt : ∀ v ∈ sel, v < N) :
    S N (fun i => if i ∈ sel then 1 else 0) = sel.length := by
  induction sel with
  | nil => simp [S_zero]
  | cons a sel ih =>
    have ha : a ∉ sel := (List.nodup_cons.mp hnd).1
    have heq : S N (fun i => if i ∈ a :: sel then 1 else 0)
        = S N (fun i => (if i = a then 1 else 0) + (if i ∈ sel then 1 else 0)) := by
      apply S_congr
      intro i _
      by_cases h1 : i = a
      · subst h1; simp [ha]
      · by_cases h2 : i ∈ sel <;> simp [h1, h2]
    rw [heq, S_add, S_point, if_pos (hlt a (List.mem_cons_self)),
      ih (List.nodup_cons.mp hnd).2 (fun v hv => hlt v (List.mem_cons_of_mem _ hv))]
    simp only [List.length_cons]; omega

theorem getD_maskFromIdx {N i : Nat} (sel : List Nat) (hi : i < N) :
    (maskFromIdx N sel).getD i false = sel.contains i := by
  unfold maskFromIdx
  simp [List.getD_eq_getElem?_getD, hi]

theorem length_maskFromIdx (N : Nat) (sel : List Nat) : (maskFromIdx N sel).length = N := by
  simp [maskFromIdx]

/-! ### the masked write -/

section pick
variable {α : Type}

theorem pick_nil_left (v : List α) : pick [] v = [] := by simp [pick]

theorem pick_cons (b : Bool) (m : List Bool) (a : α) (v : List α) :
    pick (b :: m) (a :: v) = if b then a :: pick m v else pick m v := by
  cases b <;> simp [pick]

theorem pick_append {m₁ m₂ : List Bool} {v₁ v₂ : List α} (h : m₁.length = v₁.length) :
    pick (m₁ ++ m₂) (v₁ ++ v₂) = pick m₁ v₁ ++ pick m₂ v₂ := by
  unfold pick
  rw [List.zip_append h, List.filter_append, List.map_append]

theorem pick_length {m : List Bool} {v : List α} (h : m.length = v.length) :
    (pick m v).length = m.count true := by
  induction m generalizing v with
  | nil => simp [pick]
  | cons b m ih =>
    cases v with
    | nil => simp at h
    | cons a v =>
      rw [pick_cons]
      have := ih (v := v) (by simpa using h)
      cases b <;> simp [this]

theorem pick_all (v : List α) : pick (List.replicate v.length true) v = v := by
  induction v with
  | nil => simp [pick]
  | cons a v ih => rw [List.length_cons, List.replicate_succ, pick_cons]; simp [ih]

end pick

theorem mem_whereTrue {m : List Bool} {i : Nat} (h : i ∈ whereTrue m) : m.getD i false = true := by
  unfold whereTrue at h
  exact (List.mem_filter.mp h).2

end Snow.Store
