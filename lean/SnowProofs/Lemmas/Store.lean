/-
  Helper lemmas for the recording model (`SnowModel/Store.lean`): the stride of
  `uniform`, counting the recorded vials, and the masked write `pick`.
-/
import SnowProofs.Lemmas.Topology
import SnowModel.Store

namespace Snow.Store
open Snow.Topology Snow.Groups

/-- a request string that names a group and neither `random` nor `uniform` -/
theorem store_string_group (arr : Arr) (nz : Nat) (exts : List Nat) (s g : String) (choice : List Nat)
    (hg : firstGroup (lower s) = some g)
    (hr : hasSub "random".toList (lower s) = false) (hu : hasSub "uniform".toList (lower s) = false) :
    interpretString arr nz exts s choice = (maskOf arr nz exts [g]).map fun m => (m, false) := by
  unfold interpretString
  simp only [hg, hr, hu]
  cases maskOf arr nz exts [g] <;> rfl

/-- what `interpretString` does for a `uniform` request with one count `n` -/
theorem uniform_request_lemma (arr : Arr) (nz : Nat) (exts : List Nat) (s : String) (choice : List Nat)
    (mask0 : List Bool) (n : Nat)
    (hm : (match firstGroup (lower s) with
            | some g => maskOf arr nz exts [g]
            | none => pure (List.replicate exts.length true)) = .ok mask0)
    (hr : hasSub "random".toList (lower s) = false) (hu : hasSub "uniform".toList (lower s) = true)
    (hn : digitRuns (lower s) none = [n]) (hn0 : 0 < n) (hc : 0 < (whereTrue mask0).length) :
    interpretString arr nz exts s choice
      = .ok (maskFromIdx exts.length (uniformPick (whereTrue mask0) n), false) := by
  unfold interpretString
  simp only [hr, hu, hn]
  have h1 : ¬ n = 0 := by omega
  have h2 : ¬ (whereTrue mask0).length = 0 := by omega
  cases hfg : firstGroup (lower s) with
  | none =>
    rw [hfg] at hm
    simp only [pure, Except.pure, Except.ok.injEq] at hm
    subst hm
    simp [bind, Except.bind, pure, Except.pure, h1, h2]
  | some g =>
    rw [hfg] at hm
    simp only at hm
    simp [hm, bind, Except.bind, pure, Except.pure, h1, h2]

/-- what `interpretString` does for a `random` request with one count `n` -/
theorem random_request_lemma (arr : Arr) (nz : Nat) (exts : List Nat) (s : String) (choice : List Nat)
    (mask0 : List Bool) (n : Nat)
    (hm : (match firstGroup (lower s) with
            | some g => maskOf arr nz exts [g]
            | none => pure (List.replicate exts.length true)) = .ok mask0)
    (hr : hasSub "random".toList (lower s) = true)
    (hn : digitRuns (lower s) none = [n]) :
    interpretString arr nz exts s choice
      = if n > (whereTrue mask0).length then .error "ValueError"
        else .ok (maskFromIdx exts.length choice, true) := by
  unfold interpretString
  simp only [hr, hn]
  cases hfg : firstGroup (lower s) with
  | none =>
    rw [hfg] at hm
    simp only [pure, Except.pure, Except.ok.injEq] at hm
    subst hm
    by_cases h : n > (whereTrue (List.replicate exts.length true)).length <;>
      simp [bind, Except.bind, pure, Except.pure, h, throw, throwThe, MonadExceptOf.throw]
  | some g =>
    rw [hfg] at hm
    simp only at hm
    by_cases h : n > (whereTrue mask0).length <;>
      simp [hm, bind, Except.bind, pure, Except.pure, h, throw, throwThe, MonadExceptOf.throw]

/-! ### `uniform`: stride arithmetic -/

theorem ceilDiv_pos {a b : Nat} (ha : 0 < a) (hb : 0 < b) : 0 < ceilDiv a b := by
  unfold ceilDiv
  exact Nat.div_pos (by omega) hb

theorem le_ceilDiv_mul {a b : Nat} (hb : 0 < b) : a ≤ ceilDiv a b * b := by
  unfold ceilDiv
  have h1 := Nat.div_add_mod (a + b - 1) b
  have h2 := Nat.mod_lt (a + b - 1) hb
  rw [Nat.mul_comm]
  omega

/-- taking every `⌈len/h⌉`-th of `len` items yields at most `h` items -/
theorem ceilDiv_ceilDiv_le {len h : Nat} (hlen : 0 < len) (hh : 0 < h) :
    ceilDiv len (ceilDiv len h) ≤ h := by
  have hs := ceilDiv_pos hlen hh
  have h1 : len ≤ ceilDiv len h * h := le_ceilDiv_mul hh
  generalize ceilDiv len h = s at hs h1
  unfold ceilDiv
  have : (len + s - 1) / s < h + 1 := by
    apply Nat.div_lt_of_lt_mul
    rw [Nat.mul_succ]
    omega
  omega

theorem strideIdx_length (len step : Nat) : (strideIdx len step).length = ceilDiv len step := by
  simp [strideIdx]

theorem strideIdx_lt {len step : Nat} (hs : 0 < step) : ∀ k ∈ strideIdx len step, k < len := by
  intro k hk
  simp only [strideIdx, List.mem_map, List.mem_range] at hk
  obtain ⟨q, hq, rfl⟩ := hk
  unfold ceilDiv at hq
  have h1 := Nat.div_add_mod (len + step - 1) step
  have h2 := Nat.mod_lt (len + step - 1) hs
  have : (q + 1) * step ≤ (len + step - 1) / step * step := Nat.mul_le_mul_right step hq
  rw [Nat.succ_mul] at this
  rw [Nat.mul_comm] at h1
  omega

theorem uniformPick_length (cand : List Nat) (h : Nat) :
    (uniformPick cand h).length = ceilDiv cand.length (ceilDiv cand.length h) := by
  simp [uniformPick, strideIdx_length]

theorem uniformPick_mem {cand : List Nat} {h : Nat} (hc : 0 < cand.length) (hh : 0 < h) :
    ∀ v ∈ uniformPick cand h, v ∈ cand := by
  intro v hv
  simp only [uniformPick, List.mem_map] at hv
  obtain ⟨k, hk, rfl⟩ := hv
  have hlt := strideIdx_lt (ceilDiv_pos hc hh) k hk
  have : cand.getD k 0 = cand[k] := by
    simp [List.getD_eq_getElem?_getD, List.getElem?_eq_getElem hlt]
  rw [this]
  exact List.getElem_mem hlt

/-! ### counting recorded vials -/

/-- number of `True` entries of a mask -/
theorem count_maskFromIdx (N : Nat) (sel : List Nat) :
    (maskFromIdx N sel).count true = S N (fun i => if i ∈ sel then 1 else 0) := by
  have : S N (fun i => if i ∈ sel then 1 else 0)
      = S N (fun i => if sel.contains i = true then 1 else 0) := by
    apply S_congr; intro i _; simp
  rw [this, S_indicator_eq_filter]
  unfold maskFromIdx
  rw [List.count_eq_countP, List.countP_map, List.countP_eq_length_filter]
  congr 1
  apply List.filter_congr
  intro i _
  simp

theorem S_mem_le (N : Nat) (sel : List Nat) :
    S N (fun i => if i ∈ sel then 1 else 0) ≤ sel.length := by
  induction sel with
  | nil => simp [S_zero]
  | cons a sel ih =>
    have hle : S N (fun i => if i ∈ a :: sel then 1 else 0)
        ≤ S N (fun i => (if i = a then 1 else 0) + (if i ∈ sel then 1 else 0)) := by
      apply S_le_of_le
      intro i _
      by_cases h1 : i = a <;> by_cases h2 : i ∈ sel <;> simp [h1, h2]
    rw [S_add, S_point] at hle
    have : (if a < N then 1 else 0) ≤ 1 := by split <;> omega
    simp only [List.length_cons]
    omega

theorem S_mem_eq {N : Nat} {sel : List Nat} (hnd : sel.Nodup) (hlt : ∀ v ∈ sel, v < N) :
    S N (fun i => if i ∈ sel then 1 else 0) = sel.length := by
  induction sel with
  | nil => simp [S_zero]
  | cons a sel ih =>
    have ha : a ∉ sel := (List.nodup_cons.mp hnd).1
    have heq : S N (fun i => if i ∈ a :: sel then 1 else 0)
        = S N (fun i => (if i = a then 1 else 0) + (if i ∈ sel then 1 else 0)) := by
      apply S_congr
      intro i _
      by_cases h1 : i = a
      · subst h1; simp [ha]
      · by_cases h2 : i ∈ sel <;> simp [h1, h2]
    rw [heq, S_add, S_point, if_pos (hlt a (List.mem_cons_self)),
      ih (List.nodup_cons.mp hnd).2 (fun v hv => hlt v (List.mem_cons_of_mem _ hv))]
    simp only [List.length_cons]; omega

theorem getD_maskFromIdx {N i : Nat} (sel : List Nat) (hi : i < N) :
    (maskFromIdx N sel).getD i false = sel.contains i := by
  unfold maskFromIdx
  simp [List.getD_eq_getElem?_getD, hi]

theorem length_maskFromIdx (N : Nat) (sel : List Nat) : (maskFromIdx N sel).length = N := by
  simp [maskFromIdx]

/-! ### the masked write -/

section pick
variable {α : Type}

theorem pick_nil_left (v : List α) : pick [] v = [] := by simp [pick]

theorem pick_cons (b : Bool) (m : List Bool) (a : α) (v : List α) :
    pick (b :: m) (a :: v) = if b then a :: pick m v else pick m v := by
  cases b <;> simp [pick]

theorem pick_append {m₁ m₂ : List Bool} {v₁ v₂ : List α} (h : m₁.length = v₁.length) :
    pick (m₁ ++ m₂) (v₁ ++ v₂) = pick m₁ v₁ ++ pick m₂ v₂ := by
  unfold pick
  rw [List.zip_append h, List.filter_append, List.map_append]

theorem pick_length {m : List Bool} {v : List α} (h : m.length = v.length) :
    (pick m v).length = m.count true := by
  induction m generalizing v with
  | nil => simp [pick]
  | cons b m ih =>
    cases v with
    | nil => simp at h
    | cons a v =>
      rw [pick_cons]
      have := ih (v := v) (by simpa using h)
      cases b <;> simp [this]

theorem pick_all (v : List α) : pick (List.replicate v.length true) v = v := by
  induction v with
  | nil => simp [pick]
  | cons a v ih => rw [List.length_cons, List.replicate_succ, pick_cons]; simp [ih]

end pick

theorem mem_whereTrue {m : List Bool} {i : Nat} (h : i ∈ whereTrue m) : m.getD i false = true := by
  unfold whereTrue at h
  exact (List.mem_filter.mp h).2

/-! ### acceptance / rejection as a total decision -/
theorem firstGroup_known {s : List Char} {g : String} (h : firstGroup s = some g) : known g = true := by
  unfold firstGroup at h
  have := List.mem_of_find?_eq_some h
  unfold known
  simpa using this

/-- mask of one known group, as a total function of the exposure vector -/
def groupMask (arr : Arr) (nz : Nat) (exts : List Nat) (g : String) : List Bool :=
  exts.map fun e => (g == "all") || groupTest arr nz g e

theorem maskOf_known (arr : Arr) (nz : Nat) (exts : List Nat) {g : String} (hk : known g = true) :
    maskOf arr nz exts [g] = .ok (groupMask arr nz exts g) := by
  unfold maskOf groupMask
  induction exts with
  | nil => rfl
  | cons e es ih =>
    rw [List.mapM_cons, ih]
    by_cases hall : (g == "all") = true
    · simp [groupLoop, hall, bind, Except.bind, pure, Except.pure]
    · simp [groupLoop, hall, hk, bind, Except.bind, pure, Except.pure]



/-- the vials a request string selects from: the first group word found, else every vial -/
def candidates (arr : Arr) (nz : Nat) (exts : List Nat) (s : List Char) : List Nat :=
  match firstGroup s with
  | some g => whereTrue (groupMask arr nz exts g)
  | none => whereTrue (List.replicate exts.length true)

/-- **category table for one request string** (`none`: well-formed; `some cls`: the
exception class raised at construction). -/
def strOutcome (arr : Arr) (nz : Nat) (exts : List Nat) (str : String) : Option String :=
  let s := lower str
  let rnd := hasSub "random".toList s
  let uni := hasSub "uniform".toList s
  let nums := digitRuns s none
  let count := match nums with | [] => defaultCount exts.length | n :: _ => n
  let size := (candidates arr nz exts s).length
  if (firstGroup s).isNone && !rnd && !uni then some "ValueError"        -- no key word
  else if !(rnd || uni) then none                                         -- plain group
  else if nums.length ≥ 2 then some "ValueError"                          -- more than one number
  else if rnd then (if count > size then some "ValueError" else none)     -- larger sample than the group
  else if count = 0 then some "ZeroDivisionError"                         -- uniform, zero vials
  else if size = 0 then some "ZeroDivisionError"                          -- uniform over an empty group
  else none

theorem interpretString_decision (arr : Arr) (nz : Nat) (exts : List Nat) (str : String) (choice : List Nat) :
    match strOutcome arr nz exts str with
    | some cls => interpretString arr nz exts str choice = .error cls
    | none => ∃ p, interpretString arr nz exts str choice = .ok p := by
  unfold strOutcome interpretString candidates
  simp only
  cases hg : firstGroup (lower str) with
  | none =>
    cases hr : hasSub "random".toList (lower str) <;> cases hu : hasSub "uniform".toList (lower str) <;>
    (rcases hn : digitRuns (lower str) none with _ | ⟨n, _ | ⟨n2, rest⟩⟩) <;>
    simp [bind, Except.bind, pure, Except.pure, throw, throwThe, MonadExceptOf.throw] <;>
    (repeat' split) <;> simp_all
  | some g =>
    have hk := firstGroup_known hg
    cases hr : hasSub "random".toList (lower str) <;> cases hu : hasSub "uniform".toList (lower str) <;>
    (rcases hn : digitRuns (lower str) none with _ | ⟨n, _ | ⟨n2, rest⟩⟩) <;>
    simp [maskOf_known arr nz exts hk, bind, Except.bind, pure, Except.pure, throw, throwThe, MonadExceptOf.throw] <;>
    (repeat' split) <;> simp_all



/-- a list of request strings fails with the class of its first malformed entry -/
def strsOutcome (arr : Arr) (nz : Nat) (exts : List Nat) : List String → Option String
  | [] => none
  | s :: ss => match strOutcome arr nz exts s with
    | some c => some c
    | none => strsOutcome arr nz exts ss

theorem interpretStrings_decision (arr : Arr) (nz : Nat) (exts : List Nat) (ss : List String) :
    ∀ choices : List (List Nat),
    match strsOutcome arr nz exts ss with
    | some cls => interpretStrings arr nz exts ss choices = .error cls
    | none => ∃ m, interpretStrings arr nz exts ss choices = .ok m := by
  induction ss with
  | nil => intro choices; exact ⟨_, rfl⟩
  | cons s ss ih =>
    intro choices
    have h1 := interpretString_decision arr nz exts s (choices.headD [])
    unfold strsOutcome
    rw [interpretStrings]
    cases hs : strOutcome arr nz exts s with
    | some c =>
      rw [hs] at h1
      simp only at h1 ⊢
      rw [h1]; rfl
    | none =>
      rw [hs] at h1
      obtain ⟨⟨m, used⟩, hp⟩ := h1
      rw [hp]
      have h2 := ih (if used then choices.tail else choices)
      simp only
      cases hr : strsOutcome arr nz exts ss with
      | some c =>
        rw [hr] at h2; simp only at h2 ⊢
        simp [bind, Except.bind, h2]
      | none =>
        rw [hr] at h2; simp only at h2 ⊢
        obtain ⟨r, hr2⟩ := h2
        exact ⟨orMask m r, by simp [bind, Except.bind, hr2, pure, Except.pure]⟩

/-- a list/tuple given entry by entry is first classified by `classify` (all `int` →
index list or boolean mask; all `str` → request strings; otherwise mixed) -/
def normalize : Spec → Spec
  | .seq items => classify items
  | sp => sp

/-- **category table for a `storeStates` argument** on a batch of `N = exts.length`
vials (`none`: accepted; `some cls`: rejected at construction with that class). -/
def specOutcome (arr : Arr) (nz : Nat) (exts : List Nat) (spec : Spec) : Option String :=
  match normalize spec with
  | .none => none
  | .other => some "UnboundLocalError"                       -- not a list/tuple, string or None
  | .mixed => some "ValueError"                              -- neither all int nor all str
  | .ints xs =>                                              -- index out of range
    if xs.any (fun x => decide (x > (exts.length : Int) - 1)) || xs.any (fun x => decide (x < 0))
    then some "ValueError" else none
  | .boolMask bs =>                                          -- range check with True = 1, then mask length
    if bs.any (fun b => decide ((if b then 1 else 0 : Int) > (exts.length : Int) - 1)) then some "ValueError"
    else if bs.length = exts.length then none else some "IndexError"
  | .str s => strOutcome arr nz exts s
  | .strs ss => strsOutcome arr nz exts ss
  | .seq _ => some "unreachable"

theorem classify_not_seq (items : List Item) : ∀ l, classify items ≠ .seq l := by
  intro l; unfold classify; repeat' split
  all_goals simp

theorem storageMask_decision (arr : Arr) (nx ny nz : Nat) (spec : Spec) (choices : List (List Nat)) :
    match specOutcome arr nz (extVec arr nx ny nz) spec with
    | some cls => storageMask arr nx ny nz spec choices = .error cls
    | none => ∃ p, storageMask arr nx ny nz spec choices = .ok p := by
  have key : ∀ sp : Spec, (∀ l, sp ≠ .seq l) →
      match specOutcome arr nz (extVec arr nx ny nz) sp with
      | some cls => storageMask arr nx ny nz sp choices = .error cls
      | none => ∃ p, storageMask arr nx ny nz sp choices = .ok p := by
    intro sp hsp
    cases sp with
    | seq l => exact absurd rfl (hsp l)
    | none => exact ⟨_, rfl⟩
    | other => rfl
    | mixed => rfl
    | ints xs =>
      simp only [specOutcome, normalize, storageMask, interpretInts]
      by_cases hc : (xs.any (fun x => decide (x > ((extVec arr nx ny nz).length : Int) - 1))
          || xs.any (fun x => decide (x < 0))) = true
      · rw [if_pos hc, if_pos hc]; rfl
      · rw [if_neg hc, if_neg hc]; exact ⟨_, rfl⟩
    | boolMask bs =>
      simp only [specOutcome, normalize, storageMask]
      split <;> (try split) <;> simp_all
    | str s =>
      have := interpretString_decision arr nz (extVec arr nx ny nz) s (choices.headD [])
      simp only [specOutcome, normalize, storageMask]
      cases h : strOutcome arr nz (extVec arr nx ny nz) s with
      | some c => rw [h] at this; simp only at this ⊢; rw [this]; rfl
      | none => rw [h] at this; obtain ⟨p, hp⟩ := this; exact ⟨_, by rw [hp]; rfl⟩
    | strs ss =>
      have := interpretStrings_decision arr nz (extVec arr nx ny nz) ss choices
      simp only [specOutcome, normalize, storageMask]
      cases h : strsOutcome arr nz (extVec arr nx ny nz) ss with
      | some c => rw [h] at this; simp only at this ⊢; rw [this]; rfl
      | none => rw [h] at this; obtain ⟨p, hp⟩ := this; exact ⟨_, by rw [hp]; rfl⟩
  cases spec with
  | seq items =>
    have h := key (classify items) (classify_not_seq items)
    have e1 : specOutcome arr nz (extVec arr nx ny nz) (.seq items)
        = specOutcome arr nz (extVec arr nx ny nz) (classify items) := by
      unfold specOutcome normalize
      cases hc : classify items <;> simp_all [classify_not_seq]
    have e2 : storageMask arr nx ny nz (.seq items) choices = storageMask arr nx ny nz (classify items) choices := by
      unfold storageMask
      cases hc : classify items <;> simp_all [classify_not_seq]
    rw [e1, e2]; exact h
  | none => exact key Spec.none (fun l h => by cases h)
  | other => exact key Spec.other (fun l h => by cases h)
  | mixed => exact key Spec.mixed (fun l h => by cases h)
  | ints xs => exact key (Spec.ints xs) (fun l h => by cases h)
  | boolMask bs => exact key (Spec.boolMask bs) (fun l h => by cases h)
  | str s => exact key (Spec.str s) (fun l h => by cases h)
  | strs ss => exact key (Spec.strs ss) (fun l h => by cases h)



theorem strOutcome_classes (arr : Arr) (nz : Nat) (exts : List Nat) (s c : String)
    (h : strOutcome arr nz exts s = some c) : c = "ValueError" ∨ c = "ZeroDivisionError" := by
  unfold strOutcome at h
  simp only at h
  repeat' split at h
  all_goals simp_all

theorem strsOutcome_classes (arr : Arr) (nz : Nat) (exts : List Nat) (ss : List String) (c : String)
    (h : strsOutcome arr nz exts ss = some c) : c = "ValueError" ∨ c = "ZeroDivisionError" := by
  induction ss with
  | nil => simp [strsOutcome] at h
  | cons s ss ih =>
    unfold strsOutcome at h
    cases hs : strOutcome arr nz exts s with
    | some c' => rw [hs] at h; simp only [Option.some.injEq] at h; subst h; exact strOutcome_classes arr nz exts s _ hs
    | none => rw [hs] at h; exact ih h

theorem specOutcome_classes (arr : Arr) (nz : Nat) (exts : List Nat) (spec : Spec) (c : String)
    (h : specOutcome arr nz exts spec = some c) :
    c ∈ ["ValueError", "UnboundLocalError", "ZeroDivisionError", "IndexError"] := by
  unfold specOutcome at h
  cases hn : normalize spec with
  | seq l =>
    exfalso
    cases spec <;> simp [normalize] at hn
    exact classify_not_seq _ _ hn
  | none => rw [hn] at h; simp at h
  | other => rw [hn] at h; simp at h; simp [← h]
  | mixed => rw [hn] at h; simp at h; simp [← h]
  | ints xs => rw [hn] at h; simp only at h; split at h <;> simp_all
  | boolMask bs => rw [hn] at h; simp only at h; repeat' split at h
                   all_goals simp_all
  | str s =>
    rw [hn] at h
    rcases strOutcome_classes arr nz exts s c h with r | r <;> simp [r]
  | strs ss =>
    rw [hn] at h
    rcases strsOutcome_classes arr nz exts ss c h with r | r <;> simp [r]

/-! ### mask lengths, default-count requests -/
theorem groupMask_length (arr : Arr) (nz : Nat) (exts : List Nat) (g : String) :
    (groupMask arr nz exts g).length = exts.length := by simp [groupMask]

/-- every mask that `interpretString` returns has one entry per vial -/
theorem interpretString_length (arr : Arr) (nz : Nat) (exts : List Nat) (str : String) (choice : List Nat)
    (m : List Bool) (u : Bool) (h : interpretString arr nz exts str choice = .ok (m, u)) :
    m.length = exts.length := by
  unfold interpretString at h
  simp only at h
  cases hg : firstGroup (lower str) with
  | none =>
    rw [hg] at h
    revert h
    cases hr : hasSub "random".toList (lower str) <;> cases hu : hasSub "uniform".toList (lower str) <;>
    (rcases hn : digitRuns (lower str) none with _ | ⟨n, _ | ⟨n2, rest⟩⟩) <;>
    simp [bind, Except.bind, pure, Except.pure, throw, throwThe, MonadExceptOf.throw] <;>
    (repeat' split) <;> simp_all <;> (intro h _; subst h; simp [length_maskFromIdx])
  | some g =>
    have hk := firstGroup_known hg
    rw [hg] at h
    revert h
    cases hr : hasSub "random".toList (lower str) <;> cases hu : hasSub "uniform".toList (lower str) <;>
    (rcases hn : digitRuns (lower str) none with _ | ⟨n, _ | ⟨n2, rest⟩⟩) <;>
    simp [maskOf_known arr nz exts hk, bind, Except.bind, pure, Except.pure, throw, throwThe, MonadExceptOf.throw] <;>
    (repeat' split) <;> simp_all <;> (intro h _; subst h; simp [length_maskFromIdx, groupMask_length])



theorem orMask_length {a b : List Bool} (h : a.length = b.length) : (orMask a b).length = a.length := by
  simp [orMask, h]

theorem interpretStrings_length (arr : Arr) (nz : Nat) (exts : List Nat) (ss : List String) :
    ∀ (choices : List (List Nat)) (m : List Bool), interpretStrings arr nz exts ss choices = .ok m →
      m.length = exts.length := by
  induction ss with
  | nil => intro choices m h; simp [interpretStrings] at h; subst h; simp
  | cons s ss ih =>
    intro choices m h
    rw [interpretStrings] at h
    cases h1 : interpretString arr nz exts s (choices.headD []) with
    | error e => rw [h1] at h; simp [bind, Except.bind] at h
    | ok p =>
      obtain ⟨m1, u⟩ := p
      rw [h1] at h
      simp only [bind, Except.bind] at h
      cases h2 : interpretStrings arr nz exts ss (if u = true then choices.tail else choices) with
      | error e => rw [h2] at h; simp at h
      | ok r =>
        rw [h2] at h
        simp only [pure, Except.pure, Except.ok.injEq] at h
        subst h
        have l1 := interpretString_length arr nz exts s _ m1 u h1
        have l2 := ih _ r h2
        rw [orMask_length (l1.trans l2.symm), l1]

/-- default-count requests (`"uniform"`, `"uniform.core"` …: no number in the string):
the count is `defaultCount N = int(ceil(0.1·N))` -/
theorem uniform_default_lemma (arr : Arr) (nz : Nat) (exts : List Nat) (s : String) (choice : List Nat)
    (mask0 : List Bool)
    (hm : (match firstGroup (lower s) with
            | some g => maskOf arr nz exts [g]
            | none => pure (List.replicate exts.length true)) = .ok mask0)
    (hr : hasSub "random".toList (lower s) = false) (hu : hasSub "uniform".toList (lower s) = true)
    (hn : digitRuns (lower s) none = []) (hn0 : 0 < defaultCount exts.length) (hc : 0 < (whereTrue mask0).length) :
    interpretString arr nz exts s choice
      = .ok (maskFromIdx exts.length (uniformPick (whereTrue mask0) (defaultCount exts.length)), false) := by
  unfold interpretString
  simp only [hr, hu, hn]
  have h1 : ¬ defaultCount exts.length = 0 := by omega
  have h2 : ¬ (whereTrue mask0).length = 0 := by omega
  cases hfg : firstGroup (lower s) with
  | none =>
    rw [hfg] at hm
    simp only [pure, Except.pure, Except.ok.injEq] at hm
    subst hm
    simp [bind, Except.bind, pure, Except.pure, h1, h2]
  | some g =>
    rw [hfg] at hm
    simp only at hm
    simp [hm, bind, Except.bind, pure, Except.pure, h1, h2]

theorem random_default_lemma (arr : Arr) (nz : Nat) (exts : List Nat) (s : String) (choice : List Nat)
    (mask0 : List Bool)
    (hm : (match firstGroup (lower s) with
            | some g => maskOf arr nz exts [g]
            | none => pure (List.replicate exts.length true)) = .ok mask0)
    (hr : hasSub "random".toList (lower s) = true)
    (hn : digitRuns (lower s) none = []) :
    interpretString arr nz exts s choice
      = if defaultCount exts.length > (whereTrue mask0).length then .error "ValueError"
        else .ok (maskFromIdx exts.length choice, true) := by
  unfold interpretString
  simp only [hr, hn]
  cases hfg : firstGroup (lower s) with
  | none =>
    rw [hfg] at hm
    simp only [pure, Except.pure, Except.ok.injEq] at hm
    subst hm
    by_cases h : defaultCount exts.length > (whereTrue (List.replicate exts.length true)).length <;>
      simp [bind, Except.bind, pure, Except.pure, h, throw, throwThe, MonadExceptOf.throw]
  | some g =>
    rw [hfg] at hm
    simp only at hm
    by_cases h : defaultCount exts.length > (whereTrue mask0).length <;>
      simp [hm, bind, Except.bind, pure, Except.pure, h, throw, throwThe, MonadExceptOf.throw]

end Snow.Store
