/-
  Lemmas and proofs for C17 — Tabular exports reproduce the simulated numbers exactly.

  Model: SnowModel/Frames.lean.  Values are opaque (`V`): the tables copy them.
  Helper lemmas: SnowProofs/Lemmas/Frames.lean.
-/
import SnowProofs.Lemmas.Frames

namespace Snow.FramesProps
open Snow.Frames Snow.FramesLemmas

set_option linter.unusedSectionVars false

variable {V : Type} [Inhabited V]

/-- a `stats` dict as `Snowflake.run` builds it: one value per vial under every key -/
def StatsWF (N : Nat) (stats : Stats V) : Prop := ∀ kv ∈ stats, kv.2.length = N

theorem meltPlain_length (N : Nat) (stats : Stats V) (h : StatsWF N stats) :
    (meltPlain stats).length = stats.length * N := by
  unfold meltPlain
  apply flatMap_length_block
  intro kv hkv; simp [h kv hkv]

theorem meltPlain_getElem? (N : Nat) (stats : Stats V) (h : StatsWF N stats) (j v : Nat) (hv : v < N)
    (kv : String × List V) (x : V) (hj : stats[j]? = some kv) (hx : kv.2[v]? = some x) :
    (meltPlain stats)[j * N + v]? = some (kv.1, v, x) := by
  unfold meltPlain
  rw [flatMap_getElem?_block _ _ N (by intro kv hkv; simp [h kv hkv]) j v hv, hj]
  simp [List.getElem?_zipIdx, hx]

/-- **stats_table_exact**: the statistics table has one row per (key, vial); row
`j * N + v` carries vial `v`, its label, the `j`-th key and exactly the value the run
holds for that vial under that key. -/
theorem stats_table_exact (N : Nat) (labels : List String) (stats : Stats V) (h : StatsWF N stats) :
    (statsTable labels stats).length = stats.length * N ∧
    ∀ j v kv x, v < N → stats[j]? = some kv → kv.2[v]? = some x →
      (statsTable labels stats)[j * N + v]? = some ⟨labels.getD v "", v, kv.1, x⟩ := by
  constructor
  · unfold statsTable; rw [List.length_map, meltPlain_length N stats h]
  · intro j v kv x hv hj hx
    unfold statsTable
    rw [List.getElem?_map, meltPlain_getElem? N stats h j v hv kv x hj hx]
    rfl

/-- every row of the statistics table is one of those (position ↦ (key, vial)) -/
theorem stats_table_row (N : Nat) (labels : List String) (stats : Stats V) (h : StatsWF N stats)
    (p : Nat) (r : StatRow V) (hp : (statsTable labels stats)[p]? = some r) :
    0 < N ∧ ∃ kv x, stats[p / N]? = some kv ∧ kv.2[p % N]? = some x ∧
      r = ⟨labels.getD (p % N) "", p % N, kv.1, x⟩ := by
  have hlen := (stats_table_exact N labels stats h).1
  have hlt : p < stats.length * N := by
    rw [← hlen]; exact (List.getElem?_eq_some_iff.1 hp).1
  have hN : 0 < N := by
    cases N with
    | zero => simp at hlt
    | succ n => omega
  have hj : p / N < stats.length := by
    apply (Nat.div_lt_iff_lt_mul hN).2; exact hlt
  have hv : p % N < N := Nat.mod_lt _ hN
  obtain ⟨kv, hkv⟩ : ∃ kv, stats[p / N]? = some kv := ⟨stats[p / N], by simp [hj]⟩
  have hmem : kv ∈ stats := List.mem_of_getElem? hkv
  have hl := h kv hmem
  obtain ⟨x, hx⟩ : ∃ x, kv.2[p % N]? = some x := ⟨kv.2[p % N]'(by omega), by simp [hl, hv]⟩
  refine ⟨hN, kv, x, hkv, hx, ?_⟩
  have := (stats_table_exact N labels stats h).2 (p / N) (p % N) kv x hv hkv hx
  have hpe : p / N * N + p % N = p := by rw [Nat.mul_comm]; exact Nat.div_add_mod p N
  rw [hpe, hp] at this
  exact Option.some.inj this

/-- **stats_table_once**: with distinct keys, each (vial, variable) pair occurs in
exactly one row. -/
theorem stats_table_once (N : Nat) (labels : List String) (stats : Stats V) (h : StatsWF N stats)
    (hk : (stats.map (·.1)).Nodup) (p q : Nat) (r1 r2 : StatRow V)
    (hp : (statsTable labels stats)[p]? = some r1) (hq : (statsTable labels stats)[q]? = some r2)
    (hvial : r1.vial = r2.vial) (hvar : r1.var = r2.var) : p = q := by
  obtain ⟨hN, kv1, x1, hkv1, _, rfl⟩ := stats_table_row N labels stats h p r1 hp
  obtain ⟨_, kv2, x2, hkv2, _, rfl⟩ := stats_table_row N labels stats h q r2 hq
  simp only at hvial hvar
  have hj : p / N = q / N := by
    have h1 : (stats.map (·.1))[p / N]? = some kv1.1 := by simp [hkv1]
    have h2 : (stats.map (·.1))[q / N]? = some kv2.1 := by simp [hkv2]
    have hlt : p / N < (stats.map (·.1)).length := (List.getElem?_eq_some_iff.1 h1).1
    exact (List.getElem?_inj hlt hk).1 (by rw [h1, h2, hvar])
  have := Nat.div_add_mod p N
  have := Nat.div_add_mod q N
  rw [hj] at *
  omega

/-! ### trajectory table -/

/-- the sampling stride of `to_frame(n)` for a state matrix with `ncols` columns -/
def stride (ncols n : Nat) : Nat := max 1 (ncols / (n - 1))

/-- number of sampled columns -/
def nSamples (ncols n : Nat) : Nat := (ncols + stride ncols n - 1) / stride ncols n

theorem stride_pos (ncols n : Nat) : 0 < stride ncols n := by unfold stride; omega

/-- the table the repaired code returns when vials are recorded, `n ≥ 2` and the
time vector has one entry per column -/
theorem trajTable_eq (X : List (List V)) (t : List V) (n : Nat) (vials : List Nat) (tlabels : List String)
    (hn : 2 ≤ n) (hm : 0 < vials.length) (ht : t.length = (X.headD []).length) :
    trajTable false X t n vials tlabels =
      .ok (some ((sliceIdx (X.headD []).length (stride (X.headD []).length n)).flatMap fun c =>
        (List.range (2 * vials.length)).map fun r =>
          ({ group := tlabels.getD (r % vials.length) "", vial := vials.getD (r % vials.length) 0,
             state := if r < vials.length then "temperature" else "sigma",
             time := t.getD c default, value := (X.getD r []).getD c default } : TrajRow V))) := by
  unfold trajTable stride
  have h0 : ¬ vials.length = 0 := by omega
  have h1 : ¬ n = 1 := by omega
  simp [h0, h1, ht]

/-- **traj_table_total**: for ANY run length (also fewer columns than requested
samples) the call succeeds; the table has `2m` rows per sampled column, at least
`min(ncols, n − 1)` columns are sampled, and every sampled column exists. -/
theorem traj_table_total (X : List (List V)) (t : List V) (n : Nat) (vials : List Nat) (tlabels : List String)
    (hn : 2 ≤ n) (hm : 0 < vials.length) (ht : t.length = (X.headD []).length) :
    ∃ rows, trajTable false X t n vials tlabels = .ok (some rows) ∧
      rows.length = nSamples (X.headD []).length n * (2 * vials.length) ∧
      min (X.headD []).length (n - 1) ≤ nSamples (X.headD []).length n ∧
      ∀ k, k < nSamples (X.headD []).length n → k * stride (X.headD []).length n < (X.headD []).length := by
  refine ⟨_, trajTable_eq X t n vials tlabels hn hm ht, ?_, ?_, ?_⟩
  · rw [flatMap_length_block _ _ (2 * vials.length) (by intro c _; simp), sliceIdx_length]; rfl
  · generalize (X.headD []).length = ncols
    unfold nSamples stride
    have hq := Nat.div_mul_le_self ncols (n - 1)
    by_cases hlt : ncols / (n - 1) = 0
    · have : ncols < n - 1 := (Nat.div_eq_zero_iff.1 hlt).resolve_left (by omega)
      rw [hlt]; simp; omega
    · generalize ncols / (n - 1) = q at hq hlt
      have hmax : max 1 q = q := by omega
      rw [hmax]
      have hpos : 0 < q := by omega
      have : (n - 1) ≤ (ncols + q - 1) / q := by
        apply (Nat.le_div_iff_mul_le hpos).2
        rw [Nat.mul_comm]; omega
      omega
  · intro k hk
    exact sliceIdx_lt _ _ k (stride_pos _ n) hk

/-- **traj_table_exact**: for every recorded vial (row `r` of the state matrix; the
first `m` rows are temperatures, the next `m` ice fractions) and every sampled
column `k`, row `k * 2m + r` of the table carries the vial's index and label, the
state name, the time `t[k * stride]` and exactly the stored number `X[r][k * stride]`. -/
theorem traj_table_exact (X : List (List V)) (t : List V) (n : Nat) (vials : List Nat) (tlabels : List String)
    (hn : 2 ≤ n) (hm : 0 < vials.length) (ht : t.length = (X.headD []).length)
    (rows : List (TrajRow V)) (hrows : trajTable false X t n vials tlabels = .ok (some rows))
    (k r : Nat) (hk : k < nSamples (X.headD []).length n) (hr : r < 2 * vials.length)
    (tv xv : V) (row : List V) (vi : Nat)
    (htv : t[k * stride (X.headD []).length n]? = some tv)
    (hrow : X[r]? = some row) (hxv : row[k * stride (X.headD []).length n]? = some xv)
    (hvi : vials[r % vials.length]? = some vi) :
    rows[k * (2 * vials.length) + r]? =
      some { group := tlabels.getD (r % vials.length) "", vial := vi,
             state := if r < vials.length then "temperature" else "sigma", time := tv, value := xv } := by
  rw [trajTable_eq X t n vials tlabels hn hm ht] at hrows
  have hrows' := Option.some.inj (Except.ok.inj hrows)
  subst hrows'
  rw [flatMap_getElem?_block _ _ (2 * vials.length) (by intro c _; simp) k r hr,
    sliceIdx_getElem? _ _ k hk]
  simp only [List.headD_eq_head?_getD] at htv hxv
  simp [hr, List.getD_eq_getElem?_getD, htv, hrow, hxv, hvi]

/-! ### Snowfall table -/

/-- the stats of a Snowfall: at least one repetition, every repetition lists three
keys with one value per vial (true by construction of `Snowflake.run`; checked by
the harness on every case) -/
def FallWF (N : Nat) (statsList : List (Stats V)) : Prop :=
  statsList ≠ [] ∧ ∀ st ∈ statsList, st.length = 3 ∧ StatsWF N st

/-- the block of repetition `i` -/
def fallBlock (labels : List String) (s0 : Stats V) (si : Stats V × Nat) : List (FallRow V) :=
  List.zipWith (fun (row : StatRow V) (mv : String × Nat × V) =>
      ({ group := row.group, vial := row.vial, var := mv.1, value := mv.2.2, seed := si.2 } : FallRow V))
    (statsTable labels s0) (meltPlain si.1)

theorem fallBlock_length (labels : List String) (s0 : Stats V) (si : Stats V × Nat)
    (h0 : s0.length = 3 ∧ StatsWF labels.length s0) (hi : si.1.length = 3 ∧ StatsWF labels.length si.1) :
    (fallBlock labels s0 si).length = labels.length * 3 := by
  unfold fallBlock
  rw [List.length_zipWith, (stats_table_exact labels.length labels s0 h0.2).1,
    meltPlain_length labels.length si.1 hi.2, h0.1, hi.1]
  omega

theorem fallTable_eq (labels : List String) (statsList : List (Stats V))
    (h : FallWF labels.length statsList) :
    fallTable labels statsList =
      .ok (statsList.zipIdx.flatMap (fallBlock labels (statsList.headD []))) := by
  obtain ⟨hne, hall⟩ := h
  cases statsList with
  | nil => exact absurd rfl hne
  | cons s0 rest =>
    have h0 := hall s0 (List.mem_cons_self ..)
    unfold fallTable
    have hf0 : (statsTable labels s0).length = labels.length * 3 := by
      rw [(stats_table_exact labels.length labels s0 h0.2).1, h0.1]; omega
    have hany : (s0 :: rest).any (fun st => (meltPlain st).length != labels.length * 3) = false := by
      rw [List.any_eq_false]
      intro st hst
      have := hall st hst
      rw [meltPlain_length labels.length st this.2, this.1]
      simp; omega
    simp only [hf0, ne_eq, not_true_eq_false, if_false, hany]
    rfl

/-- **fall_table_exact**: the Snowfall table has exactly `Nrep · N · 3` rows, and the
row at position `i·3N + j·N + v` carries seed `i`, vial `v` with its label, the
`j`-th key of repetition `i` and exactly that repetition's value for the vial. -/
theorem fall_table_exact (labels : List String) (statsList : List (Stats V))
    (h : FallWF labels.length statsList) :
    ∃ rows, fallTable labels statsList = .ok rows ∧
      rows.length = statsList.length * (labels.length * 3) ∧
      ∀ i j v st kv x, v < labels.length → statsList[i]? = some st → st[j]? = some kv →
        kv.2[v]? = some x →
        rows[i * (labels.length * 3) + (j * labels.length + v)]? =
          some ⟨labels.getD v "", v, kv.1, x, i⟩ := by
  have hs0 : (statsList.headD []).length = 3 ∧ StatsWF labels.length (statsList.headD []) := by
    obtain ⟨hne, hall⟩ := h
    cases statsList with
    | nil => exact absurd rfl hne
    | cons s0 rest => exact hall s0 (List.mem_cons_self ..)
  have hblk : ∀ si ∈ statsList.zipIdx, (fallBlock labels (statsList.headD []) si).length = labels.length * 3 := by
    intro si hsi
    apply fallBlock_length labels _ si hs0
    have : si.1 ∈ statsList := by
      obtain ⟨k, hk⟩ := List.getElem?_of_mem hsi
      rw [List.getElem?_zipIdx] at hk
      cases hget : statsList[k]? with
      | none => simp [hget] at hk
      | some a =>
        simp [hget] at hk
        rw [← hk]; exact List.mem_of_getElem? hget
    exact h.2 _ this
  refine ⟨_, fallTable_eq labels statsList h, ?_, ?_⟩
  · rw [flatMap_length_block _ _ (labels.length * 3) hblk, List.length_zipIdx]
  · intro i j v st kv x hv hst hkv hx
    have hsti := h.2 st (List.mem_of_getElem? hst)
    have hj : j < 3 := by
      have := (List.getElem?_eq_some_iff.1 hkv).1; omega
    have hidx : j * labels.length + v < labels.length * 3 := by
      have : j * labels.length ≤ 2 * labels.length := Nat.mul_le_mul_right _ (by omega)
      omega
    rw [flatMap_getElem?_block _ _ (labels.length * 3) hblk i _ hidx, List.getElem?_zipIdx, hst]
    -- the first repetition's frame supplies vial and label
    obtain ⟨kv0, hkv0⟩ : ∃ kv0, (statsList.headD [])[j]? = some kv0 :=
      ⟨(statsList.headD [])[j]'(by omega), by simp⟩
    have hl0 := hs0.2 kv0 (List.mem_of_getElem? hkv0)
    obtain ⟨x0, hx0⟩ : ∃ x0, kv0.2[v]? = some x0 := ⟨kv0.2[v]'(by omega), by simp [hl0, hv]⟩
    have hf := (stats_table_exact labels.length labels _ hs0.2).2 j v kv0 x0 hv hkv0 hx0
    have hm := meltPlain_getElem? labels.length st hsti.2 j v hv kv x hkv hx
    simp only [List.headD_eq_head?_getD] at hf
    simp [fallBlock, List.getElem?_zipWith, hf, hm]

/-! ### the cached table -/

/-- whatever table was cached before (any history of runs and exports), after
`run()` the table is the one of the stats of THAT run … -/
theorem table_after_run (labels : List String) (f : Fall V) (newStats : List (Stats V)) :
    (Fall.toFrame labels (f.run newStats)).1 = fallTable labels newStats := by
  unfold Fall.toFrame Fall.run
  cases h : fallTable labels newStats <;> simp

/-- … and asking again returns the same table (from the cache) -/
theorem table_cached (labels : List String) (f : Fall V) (newStats : List (Stats V)) :
    (Fall.toFrame labels (Fall.toFrame labels (f.run newStats)).2).1 = fallTable labels newStats := by
  unfold Fall.toFrame Fall.run
  cases h : fallTable labels newStats <;> simp [h]

/-! ### accessors -/

/-- the rows of repetition `si.2`, written from the source data -/
def specBlock (labels : List String) (si : Stats V × Nat) : List (FallRow V) :=
  si.1.flatMap fun kv => kv.2.zipIdx.map fun xv =>
    ({ group := labels.getD xv.2 "", vial := xv.2, var := kv.1, value := xv.1, seed := si.2 } : FallRow V)

theorem specBlock_length (labels : List String) (si : Stats V × Nat)
    (hi : si.1.length = 3 ∧ StatsWF labels.length si.1) :
    (specBlock labels si).length = labels.length * 3 := by
  unfold specBlock
  rw [flatMap_length_block _ _ labels.length (by intro kv hkv; simp [hi.2 kv hkv]), hi.1]; omega

theorem fallBlock_eq_spec (labels : List String) (s0 : Stats V) (si : Stats V × Nat)
    (h0 : s0.length = 3 ∧ StatsWF labels.length s0) (hi : si.1.length = 3 ∧ StatsWF labels.length si.1) :
    fallBlock labels s0 si = specBlock labels si := by
  apply List.ext_getElem?
  intro p
  by_cases hp : p < labels.length * 3
  · have hN : 0 < labels.length := by omega
    have hv : p % labels.length < labels.length := Nat.mod_lt _ hN
    have hj : p / labels.length < 3 := by
      apply (Nat.div_lt_iff_lt_mul hN).2; omega
    have hpe : p / labels.length * labels.length + p % labels.length = p := by
      rw [Nat.mul_comm]; exact Nat.div_add_mod p _
    generalize hjd : p / labels.length = j at *
    generalize hvd : p % labels.length = v at *
    obtain ⟨kv0, hkv0⟩ : ∃ kv0, s0[j]? = some kv0 := ⟨s0[j]'(by omega), by simp⟩
    obtain ⟨x0, hx0⟩ : ∃ x0, kv0.2[v]? = some x0 :=
      ⟨kv0.2[v]'(by have := h0.2 kv0 (List.mem_of_getElem? hkv0); omega), by simp⟩
    obtain ⟨kv, hkv⟩ : ∃ kv, si.1[j]? = some kv := ⟨si.1[j]'(by omega), by simp⟩
    obtain ⟨x, hx⟩ : ∃ x, kv.2[v]? = some x :=
      ⟨kv.2[v]'(by have := hi.2 kv (List.mem_of_getElem? hkv); omega), by simp⟩
    have hf := (stats_table_exact labels.length labels s0 h0.2).2 j v kv0 x0 hv hkv0 hx0
    have hm := meltPlain_getElem? labels.length si.1 hi.2 j v hv kv x hkv hx
    rw [← hpe]
    unfold specBlock
    rw [flatMap_getElem?_block _ _ labels.length (by intro kv hkv; simp [hi.2 kv hkv]) j v hv, hkv]
    simp [fallBlock, List.getElem?_zipWith, hf, hm, List.getElem?_zipIdx, hx]
  · rw [List.getElem?_eq_none (by rw [fallBlock_length labels s0 si h0 hi]; omega),
      List.getElem?_eq_none (by rw [specBlock_length labels si hi]; omega)]

/-- the Snowfall table, written from the source data: seed-major, then key, then vial -/
theorem fallTable_eq_spec (labels : List String) (statsList : List (Stats V))
    (h : FallWF labels.length statsList) :
    fallTable labels statsList = .ok (statsList.zipIdx.flatMap (specBlock labels)) := by
  rw [fallTable_eq labels statsList h]
  have hs0 : (statsList.headD []).length = 3 ∧ StatsWF labels.length (statsList.headD []) := by
    obtain ⟨hne, hall⟩ := h
    cases statsList with
    | nil => exact absurd rfl hne
    | cons s0 rest => exact hall s0 (List.mem_cons_self ..)
  congr 1
  apply flatMap_congr'
  intro si hsi
  apply fallBlock_eq_spec labels _ si hs0
  have : si.1 ∈ statsList := by
    obtain ⟨k, hk⟩ := List.getElem?_of_mem hsi
    rw [List.getElem?_zipIdx] at hk
    cases hget : statsList[k]? with
    | none => simp [hget] at hk
    | some a =>
      simp [hget] at hk
      rw [← hk]; exact List.mem_of_getElem? hget
  exact h.2 _ this

def selOK (sel : Option (List Nat)) (v : Nat) : Bool :=
  match sel with | none => true | some vs => vs.contains v
def seedOK (seeds : Option (List Nat)) (i : Nat) : Bool :=
  match seeds with | none => true | some ss => ss.contains i
def varOK (what : String) (name : String) : Bool :=
  match whatVariable what with | none => true | some v => name == v

theorem keep_eq (what : String) (sel seeds : Option (List Nat)) (r : FallRow V) :
    keep what sel seeds r = (selOK sel r.vial && seedOK seeds r.seed && varOK what r.var) := rfl

/-- **accessors_exact**: `nucleationTimes / nucleationTemperatures /
solidificationTimes (group, seed)` return exactly the values
`stats[i][key][v]` for the requested seeds `i`, the accessor's key and the vials `v`
selected by the group argument — each once, ordered by seed, then vial. -/
theorem accessors_exact (labels : List String) (statsList : List (Stats V))
    (h : FallWF labels.length statsList) (what : String) (sel seeds : Option (List Nat))
    (rows : List (FallRow V)) (hrows : fallTable labels statsList = .ok rows) :
    returnStats what sel seeds rows =
      statsList.zipIdx.flatMap fun si =>
        if seedOK seeds si.2 then
          si.1.flatMap fun kv =>
            if varOK what kv.1 then (kv.2.zipIdx.filter fun xv => selOK sel xv.2).map (·.1) else []
        else [] := by
  rw [fallTable_eq_spec labels statsList h] at hrows
  have := Except.ok.inj hrows
  subst this
  unfold returnStats
  rw [List.filter_flatMap, List.map_flatMap]
  apply flatMap_congr'
  intro si _
  unfold specBlock
  rw [List.filter_flatMap, List.map_flatMap]
  cases hs : seedOK seeds si.2
  · simp only [Bool.false_eq_true, if_false]
    rw [List.flatMap_eq_nil_iff]
    intro kv _
    rw [List.map_eq_nil_iff, List.filter_eq_nil_iff]
    intro r hr
    obtain ⟨xv, _, rfl⟩ := List.mem_map.1 hr
    simp [keep_eq, hs]
  · simp only [if_true]
    apply flatMap_congr'
    intro kv _
    rw [List.filter_map, List.map_map]
    cases hv : varOK what kv.1
    · simp only [Bool.false_eq_true, if_false]
      rw [List.map_eq_nil_iff, List.filter_eq_nil_iff]
      intro xv _
      simp [keep_eq, hv]
    · simp only [if_true]
      have hfun : ((keep what sel seeds) ∘ fun (xv : V × Nat) =>
          ({ group := labels.getD xv.2 "", vial := xv.2, var := kv.1, value := xv.1, seed := si.2 } : FallRow V)) =
          fun xv => selOK sel xv.2 := by
        funext xv
        simp [keep_eq, hs, hv]
      rw [hfun]
      congr 1

/-! ### the code before the repairs (defects F8, F8b) -/

/-- pre-repair code: a run with fewer columns than `n − 1` has stride 0 and
`to_frame` raises (`ValueError: slice step cannot be zero`) -/
theorem old_stride_zero_raises (X : List (List V)) (t : List V) (n : Nat) (vials : List Nat)
    (tlabels : List String) (hn : 2 ≤ n) (hm : 0 < vials.length) (hc : (X.headD []).length < n - 1) :
    trajTable true X t n vials tlabels = .error "ValueError" := by
  unfold trajTable
  have h0 : ¬ vials.length = 0 := by omega
  have h1 : ¬ n = 1 := by omega
  generalize (X.headD []).length = ncols at *
  have hz : ncols / (n - 1) = 0 := Nat.div_eq_of_lt hc
  simp [h0, h1, hz]

/-- a time vector with one entry more than the state matrix has columns (what
`np.arange(0, N·dt, dt)` gave for some `dt` before fixes/F8b.diff) makes the
relabelling of the columns fail whenever the stride is 1 — with or without F8 -/
theorem long_time_vector_raises (X : List (List V)) (t : List V) (n : Nat) (vials : List Nat)
    (tlabels : List String) (hn : 2 ≤ n) (hm : 0 < vials.length)
    (ht : t.length = (X.headD []).length + 1) (hc : (X.headD []).length < 2 * (n - 1)) :
    trajTable false X t n vials tlabels = .error "ValueError" := by
  unfold trajTable
  have h0 : ¬ vials.length = 0 := by omega
  have h1 : ¬ n = 1 := by omega
  generalize (X.headD []).length = ncols at *
  have hs : max 1 (ncols / (n - 1)) = 1 := by
    have : ncols / (n - 1) < 2 := (Nat.div_lt_iff_lt_mul (by omega)).2 (by omega)
    omega
  simp [h0, h1, hs, sliceIdx, ht]

/-! ### non-vacuity -/

/-- a concrete 2-vial run with 5 stored columns and a 2-repetition Snowfall: the
hypotheses hold and the tables are what the theorems say. -/
theorem nonvacuous :
    StatsWF 2 ([("t", [1, 2]), ("T", [3, 4]), ("s", [5, 6])] : Stats Nat) ∧
    FallWF 2 ([[("t", [1, 2]), ("T", [3, 4]), ("s", [5, 6])],
               [("t", [7, 8]), ("T", [9, 10]), ("s", [11, 12])]] : List (Stats Nat)) ∧
    trajTable false ([[10, 11, 12, 13, 14], [20, 21, 22, 23, 24]] : List (List Nat)) [0, 1, 2, 3, 4] 3 [1] ["b"] =
      .ok (some [⟨"b", 1, "temperature", 0, 10⟩, ⟨"b", 1, "sigma", 0, 20⟩,
                 ⟨"b", 1, "temperature", 2, 12⟩, ⟨"b", 1, "sigma", 2, 22⟩,
                 ⟨"b", 1, "temperature", 4, 14⟩, ⟨"b", 1, "sigma", 4, 24⟩]) ∧
    trajTable false ([[10], [20]] : List (List Nat)) [0] 250 [1] ["b"] =
      .ok (some [⟨"b", 1, "temperature", 0, 10⟩, ⟨"b", 1, "sigma", 0, 20⟩]) ∧
    (fallTable ["a", "b"] ([[("t_nucleation", [1, 2]), ("T", [3, 4]), ("s", [5, 6])],
        [("t_nucleation", [7, 8]), ("T", [9, 10]), ("s", [11, 12])]] : List (Stats Nat))).map
        (returnStats "tnuc" (some [1]) (some [1])) = .ok [8] := by
  refine ⟨?_, ⟨by decide, ?_⟩, rfl, rfl, rfl⟩
  · intro kv hkv; simp at hkv; rcases hkv with rfl | rfl | rfl <;> rfl
  · intro st hst
    simp at hst
    rcases hst with rfl | rfl
    · exact ⟨rfl, by intro kv hkv; simp at hkv; rcases hkv with rfl | rfl | rfl <;> rfl⟩
    · exact ⟨rfl, by intro kv hkv; simp at hkv; rcases hkv with rfl | rfl | rfl <;> rfl⟩

end Snow.FramesProps
