/-
  The continuous piecewise-linear cooling program and the tracking lemma:
  every sample of the concatenated segments equals the program at a time that is
  within `2·dt` per hold of the sample's own time.
-/
import SnowProofs.Lemmas.OpCond

namespace Snow.OpCondLemmas
open Snow Num List

/-- The continuous program started at temperature `Ts` at time 0: ramp at `rate`
down to each hold temperature, stay for the hold's duration, continue; after the
last hold the temperature stays. Times `≤ 0` give `Ts`. -/
noncomputable def prog (rate : ℝ) : ℝ → List (Hold ℝ) → ℝ → ℝ
  | Ts, [], _ => Ts
  | Ts, h :: hs, t =>
      if t ≤ (Ts - h.temp) / rate then (if t ≤ 0 then Ts else Ts - rate * t)
      else if t ≤ (Ts - h.temp) / rate + h.duration then h.temp
      else prog rate h.temp hs (t - (Ts - h.temp) / rate - h.duration)

theorem prog_zero (rate : ℝ) (hr : 0 < rate) (Ts : ℝ) (hs : List (Hold ℝ)) (hd : Desc Ts hs) :
    prog rate Ts hs 0 = Ts := by
  cases hs with
  | nil => simp [prog]
  | cons h t =>
    have : (0 : ℝ) ≤ (Ts - h.temp) / rate := div_nonneg (by linarith [hd.1]) (le_of_lt hr)
    simp [prog, this]

theorem prog_ramp {rate Ts : ℝ} (_hr : 0 < rate) {h : Hold ℝ} {hs : List (Hold ℝ)} {t : ℝ}
    (h0 : 0 ≤ t) (h1 : t ≤ (Ts - h.temp) / rate) :
    prog rate Ts (h :: hs) t = Ts - rate * t := by
  simp only [prog, h1, if_true]
  split
  · have : t = 0 := le_antisymm ‹t ≤ 0› h0
    subst this; simp
  · rfl

theorem prog_hold {rate Ts : ℝ} (hr : 0 < rate) {h : Hold ℝ} {hs : List (Hold ℝ)} {t : ℝ}
    (hle : h.temp ≤ Ts) (h1 : (Ts - h.temp) / rate ≤ t) (h2 : t ≤ (Ts - h.temp) / rate + h.duration) :
    prog rate Ts (h :: hs) t = h.temp := by
  have hL : 0 ≤ (Ts - h.temp) / rate := div_nonneg (by linarith) (le_of_lt hr)
  by_cases he : t ≤ (Ts - h.temp) / rate
  · have ht : t = (Ts - h.temp) / rate := le_antisymm he h1
    rw [prog_ramp hr (by linarith) he, ht]
    field_simp
    ring
  · simp [prog, he, h2]

theorem prog_after {rate Ts : ℝ} {h : Hold ℝ} {hs : List (Hold ℝ)} {t : ℝ}
    (hd0 : 0 ≤ h.duration) (h2 : (Ts - h.temp) / rate + h.duration < t) :
    prog rate Ts (h :: hs) t = prog rate h.temp hs (t - (Ts - h.temp) / rate - h.duration) := by
  have h1 : ¬ t ≤ (Ts - h.temp) / rate := by intro hc; linarith
  have h2' : ¬ t ≤ (Ts - h.temp) / rate + h.duration := not_le.mpr h2
  simp [prog, h1, h2']

theorem getElem?_simpleCool {Ts Th rate dt : ℝ} {k : ℕ} (hk : k < arangeLen ((Ts - Th) / rate) dt) :
    (simpleCool Ts Th rate dt)[k]? = some (Ts - ((k : ℝ) * dt) * rate) := by
  unfold simpleCool
  simp [List.getElem?_map, List.getElem?_range hk]

theorem length_simpleCool (Ts Th rate dt : ℝ) :
    (simpleCool Ts Th rate dt).length = arangeLen ((Ts - Th) / rate) dt := by
  simp [simpleCool]

/-- ramp sample count: `L ≤ a·dt < L + dt` -/
theorem arangeLen_lt {tEnd dt : ℝ} (hdt : 0 < dt) (h0 : 0 ≤ tEnd) :
    (arangeLen tEnd dt : ℝ) * dt < tEnd + dt := by
  unfold arangeLen
  simp only [ceilInt_real]
  have hnn : (0 : ℤ) ≤ ⌈tEnd / dt⌉ := Int.ceil_nonneg (div_nonneg h0 (le_of_lt hdt))
  have hcast : ((⌈tEnd / dt⌉.toNat : ℕ) : ℝ) = (⌈tEnd / dt⌉ : ℝ) := by
    have : ((⌈tEnd / dt⌉.toNat : ℕ) : ℤ) = ⌈tEnd / dt⌉ := Int.toNat_of_nonneg hnn
    exact_mod_cast this
  rw [hcast]
  have : (⌈tEnd / dt⌉ : ℝ) < tEnd / dt + 1 := Int.ceil_lt_add_one _
  calc (⌈tEnd / dt⌉ : ℝ) * dt < (tEnd / dt + 1) * dt := by gcongr
    _ = tEnd + dt := by field_simp

/-- plateau sample count: `d - dt < c·dt < d + dt` (restated from the `pyMod` bounds) -/
theorem holdCount_bounds (Ts Th rate d dt : ℝ) (hdt : 0 < dt) (_hd : 0 ≤ d) :
    d - dt < (holdCount Ts Th rate d dt : ℝ) * dt ∧
    (holdCount Ts Th rate d dt : ℝ) * dt < d + dt := by
  unfold holdCount
  simp only [ceilInt_real]
  set r := Num.pyMod ((Ts - Th) / rate) dt with hr
  have hr0 : 0 ≤ r := pyMod_nonneg _ _ hdt
  have hr1 : r < dt := pyMod_lt _ _ hdt
  set c := ⌈(d - r) / dt⌉ with hc
  have hle : (d - r) / dt ≤ (c : ℝ) := Int.le_ceil _
  have hlt : (c : ℝ) < (d - r) / dt + 1 := Int.ceil_lt_add_one _
  have hm1 : d - r ≤ (c : ℝ) * dt := by
    calc d - r = ((d - r) / dt) * dt := by field_simp
      _ ≤ (c : ℝ) * dt := by gcongr
  have hm2 : (c : ℝ) * dt < d - r + dt := by
    calc (c : ℝ) * dt < ((d - r) / dt + 1) * dt := by gcongr
      _ = d - r + dt := by field_simp
  by_cases hcn : 0 ≤ c
  · have hcast : ((c.toNat : ℕ) : ℝ) = (c : ℝ) := by
      have : ((c.toNat : ℕ) : ℤ) = c := Int.toNat_of_nonneg hcn
      exact_mod_cast this
    rw [hcast]
    constructor <;> linarith
  · have hneg : c < 0 := not_le.mp hcn
    have h0 : c.toNat = 0 := by omega
    rw [h0]
    have hc1 : (c : ℝ) ≤ -1 := by
      have : c ≤ -1 := by omega
      exact_mod_cast this
    have : (c : ℝ) * dt ≤ -dt := by nlinarith
    simp only [Nat.cast_zero, zero_mul]
    constructor <;> linarith

/-- **tracking lemma** for the concatenated segments -/
theorem tracks_segments {rate dt : ℝ} (hdt : 0 < dt) (hr : 0 < rate) :
    ∀ (hs : List (Hold ℝ)) (Ts : ℝ), Desc Ts hs → (∀ h ∈ hs, 0 ≤ h.duration) →
      ∀ k : ℕ, k < (segments rate dt Ts hs).length →
        ∃ τ : ℝ, 0 ≤ τ ∧ |τ - (k : ℝ) * dt| ≤ 2 * dt * (hs.length : ℝ) ∧
          (segments rate dt Ts hs)[k]? = some (prog rate Ts hs τ) := by
  intro hs
  induction hs with
  | nil => intro Ts _ _ k hk; simp [segments] at hk
  | cons h t ih =>
    intro Ts hd hdur k hk
    have hle : h.temp ≤ Ts := hd.1
    have hd0 : 0 ≤ h.duration := hdur h (by simp)
    simp only [segments] at hk ⊢
    set L := (Ts - h.temp) / rate with hL
    have hL0 : 0 ≤ L := div_nonneg (by linarith) (le_of_lt hr)
    set a := arangeLen L dt with ha
    set c := holdCount Ts h.temp rate h.duration dt with hc
    have hlenS : (simpleCool Ts h.temp rate dt).length = a := length_simpleCool _ _ _ _
    have ha1 : L ≤ (a : ℝ) * dt := arangeLen_ge hdt
    have ha2 : (a : ℝ) * dt < L + dt := arangeLen_lt hdt hL0
    have hcb := holdCount_bounds Ts h.temp rate h.duration dt hdt hd0
    have hlen : ((t.length + 1 : ℕ) : ℝ) = (t.length : ℝ) + 1 := by push_cast; ring
    have hnn : (0 : ℝ) ≤ 2 * dt * (t.length : ℝ) := by positivity
    simp only [List.length_cons]
    rw [hlen]
    by_cases hk1 : k < a
    · -- inside the ramp: τ = k·dt
      refine ⟨(k : ℝ) * dt, by positivity, ?_, ?_⟩
      · simp only [sub_self, abs_zero]; nlinarith
      · rw [List.getElem?_append_left (by rw [hlenS]; exact hk1)]
        rw [getElem?_simpleCool hk1]
        have hlt := lt_arangeLen hdt hk1
        rw [prog_ramp hr (by positivity) (le_of_lt hlt)]
        congr 1; ring
    · have hk1' : a ≤ k := not_lt.mp hk1
      rw [List.getElem?_append_right (by rw [hlenS]; exact hk1')]
      rw [hlenS]
      by_cases hk2 : k - a < c
      · -- inside the plateau: τ = min (k·dt) (L + d)
        rw [List.getElem?_append_left (by simpa using hk2)]
        rw [List.getElem?_replicate, if_pos hk2]
        have hkc : (k : ℝ) + 1 ≤ (a : ℝ) + (c : ℝ) := by
          have : k + 1 ≤ a + c := by omega
          exact_mod_cast this
        have hka : (a : ℝ) ≤ (k : ℝ) := by exact_mod_cast hk1'
        have hkdt1 : L ≤ (k : ℝ) * dt := le_trans ha1 (by gcongr)
        have hkdt2 : (k : ℝ) * dt < L + h.duration + dt := by
          have : ((k : ℝ) + 1) * dt ≤ ((a : ℝ) + (c : ℝ)) * dt := by gcongr
          nlinarith [hcb.2]
        refine ⟨Min.min ((k : ℝ) * dt) (L + h.duration), le_min (by positivity) (by linarith), ?_, ?_⟩
        · rcases le_total ((k : ℝ) * dt) (L + h.duration) with hmin | hmin
          · rw [min_eq_left hmin]; simp only [sub_self, abs_zero]; nlinarith
          · rw [min_eq_right hmin, abs_sub_comm, abs_of_nonneg (by linarith)]
            nlinarith
        · congr 1
          symm
          apply prog_hold hr hle
          · exact le_min hkdt1 (by linarith)
          · exact min_le_right _ _
      · -- in the remaining segments
        have hk2' : c ≤ k - a := not_lt.mp hk2
        rw [List.getElem?_append_right (by simpa using hk2')]
        simp only [List.length_replicate]
        have hkrest : k - a - c < (segments rate dt h.temp t).length := by
          simp only [List.length_append, List.length_replicate, hlenS] at hk
          omega
        obtain ⟨τ', hτ0, hτb, hτe⟩ := ih h.temp hd.2 (fun x hx => hdur x (by simp [hx])) (k - a - c) hkrest
        have hkcast : ((k - a - c : ℕ) : ℝ) = (k : ℝ) - (a : ℝ) - (c : ℝ) := by
          have h1 : a + c ≤ k := by omega
          have : ((k - a - c : ℕ) : ℤ) = (k : ℤ) - a - c := by omega
          exact_mod_cast this
        rw [hkcast] at hτb
        -- slip of this ramp + hold
        have hslip1 : L + h.duration - dt < ((a : ℝ) + c) * dt := by nlinarith [hcb.1]
        have hslip2 : ((a : ℝ) + c) * dt < L + h.duration + 2 * dt := by nlinarith [hcb.2]
        have habs := abs_le.mp hτb
        rcases eq_or_lt_of_le hτ0 with hz | hpos
        · -- τ' = 0: the sub-program is still at its start temperature
          refine ⟨L + h.duration, by linarith, ?_, ?_⟩
          · rw [abs_le]; constructor <;> nlinarith [habs.1, habs.2]
          · rw [hτe, ← hz, prog_zero rate hr h.temp t hd.2]
            congr 1; symm
            exact prog_hold hr hle (by linarith) (le_refl _)
        · refine ⟨L + h.duration + τ', by linarith, ?_, ?_⟩
          · rw [abs_le]; constructor <;> nlinarith [habs.1, habs.2]
          · rw [hτe]
            congr 1; symm
            rw [prog_after hd0 (by linarith)]
            congr 1; ring

/-- total sample count of the segments: at least the continuous length minus one step per hold -/
theorem segments_length_ge {rate dt : ℝ} (hdt : 0 < dt) (hr : 0 < rate) :
    ∀ (hs : List (Hold ℝ)) (Ts : ℝ), Desc Ts hs → (∀ h ∈ hs, 0 ≤ h.duration) →
      (Ts - lastTemp Ts hs) / rate + ((hs.map (·.duration)).sum) - dt * (hs.length : ℝ)
        ≤ ((segments rate dt Ts hs).length : ℝ) * dt := by
  intro hs
  induction hs with
  | nil => intro Ts _ _; simp [segments, lastTemp]
  | cons h t ih =>
    intro Ts hd hdur
    have hd0 : 0 ≤ h.duration := hdur h (by simp)
    have hL0 : 0 ≤ (Ts - h.temp) / rate := div_nonneg (by linarith [hd.1]) (le_of_lt hr)
    have ha1 : (Ts - h.temp) / rate ≤ (arangeLen ((Ts - h.temp) / rate) dt : ℝ) * dt := arangeLen_ge hdt
    have hcb := holdCount_bounds Ts h.temp rate h.duration dt hdt hd0
    have := ih h.temp hd.2 (fun x hx => hdur x (by simp [hx]))
    simp only [segments, lastTemp, List.length_append, List.length_replicate, length_simpleCool,
      List.map_cons, List.sum_cons, List.length_cons]
    push_cast
    have hsplit : (Ts - lastTemp h.temp t) / rate
        = (Ts - h.temp) / rate + (h.temp - lastTemp h.temp t) / rate := by
      field_simp; ring
    rw [hsplit]
    nlinarith [hcb.1]

/-- after the program has reached its last temperature it stays there -/
theorem prog_final {rate : ℝ} (hr : 0 < rate) :
    ∀ (hs : List (Hold ℝ)) (Ts : ℝ), Desc Ts hs → (∀ h ∈ hs, 0 ≤ h.duration) → ∀ τ : ℝ,
      (Ts - lastTemp Ts hs) / rate + ((hs.dropLast.map (·.duration)).sum) ≤ τ →
      prog rate Ts hs τ = lastTemp Ts hs := by
  intro hs
  induction hs with
  | nil => intro Ts _ _ τ _; simp [prog, lastTemp]
  | cons h t ih =>
    intro Ts hd hdur τ hτ
    have hd0 : 0 ≤ h.duration := hdur h (by simp)
    have hle : h.temp ≤ Ts := hd.1
    have hL0 : 0 ≤ (Ts - h.temp) / rate := div_nonneg (by linarith) (le_of_lt hr)
    cases t with
    | nil =>
      simp only [lastTemp, List.dropLast_singleton, List.map_nil, List.sum_nil, add_zero] at hτ ⊢
      by_cases h2 : τ ≤ (Ts - h.temp) / rate + h.duration
      · exact prog_hold hr hle hτ h2
      · rw [prog_after hd0 (not_le.mp h2)]; simp [prog]
    | cons h' t' =>
      have hlast := lastTemp_le hd.2
      simp only [lastTemp, List.dropLast_cons_cons, List.map_cons, List.sum_cons] at hτ ⊢
      have hsplit : (Ts - lastTemp h'.temp t') / rate
          = (Ts - h.temp) / rate + (h.temp - lastTemp h'.temp t') / rate := by
        field_simp; ring
      rw [hsplit] at hτ
      have hrest0 : 0 ≤ (h.temp - lastTemp h'.temp t') / rate :=
        div_nonneg (by simpa [lastTemp] using sub_nonneg.mpr hlast) (le_of_lt hr)
      have hsum0 : 0 ≤ ((h' :: t').dropLast.map (·.duration)).sum := by
        apply List.sum_nonneg
        intro x hx
        rcases List.mem_map.mp hx with ⟨y, hy, rfl⟩
        exact hdur y (by simp [List.mem_of_mem_dropLast hy])
      by_cases h2 : τ ≤ (Ts - h.temp) / rate + h.duration
      · -- the rest of the program takes no time: all later temperatures equal h.temp
        have hτ' : (h.temp - lastTemp h'.temp t') / rate + ((h' :: t').dropLast.map (·.duration)).sum ≤ 0 := by
          linarith
        have hz : (h.temp - lastTemp h'.temp t') / rate = 0 := by linarith
        have heq : lastTemp h'.temp t' = h.temp := by
          have : h.temp - lastTemp h'.temp t' = 0 := by
            have := (div_eq_zero_iff.mp hz)
            rcases this with h3 | h3
            · exact h3
            · linarith
          linarith
        rw [heq]
        exact prog_hold hr hle (by linarith) h2
      · rw [prog_after hd0 (not_le.mp h2)]
        have := ih h.temp hd.2 (fun x hx => hdur x (by simp [hx]))
          (τ - (Ts - h.temp) / rate - h.duration) (by simp only [lastTemp]; linarith)
        simpa [lastTemp] using this

end Snow.OpCondLemmas
