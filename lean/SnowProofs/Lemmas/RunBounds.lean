/-
  Run-level invariants of the Snowing models' cooling loops (0D, 1D, 2D) used by C07 / C15:
  what every saved cooling-stage row contains, and bounds carried through the loop.
-/
import SnowProofs.Lemmas.Snowing2DRun
import SnowProofs.Lemmas.Snowing2D
import SnowProofs.Lemmas.Snowing
import Mathlib.Tactic.Linarith

namespace Snow.RunBounds
open Snow Num

universe u v
/-- an invariant of every step holds for the state with which `loopUntil` ends (break or not) -/
theorem loopUntil_inv {σ : Type u} {β : Type v} (step : Nat → σ → β → σ) (stop : σ → Bool) (P : σ → Prop)
    (hstep : ∀ i s x, P s → P (step i s x)) (xs : List β) :
    ∀ (i0 : Nat) (s0 : σ), P s0 → P (loopUntil step stop xs i0 s0).2 := by
  induction xs with
  | nil => intro i0 s0 h; simpa [loopUntil] using h
  | cons x xs ih =>
    intro i0 s0 h
    simp only [loopUntil]
    split
    · exact hstep _ _ _ h
    · exact ih _ _ (hstep _ _ _ h)

/-! ### no ice before nucleation: every row pushed by a cooling loop carries the zero ice field -/

/-- all entries of every saved row's ice field are 0 -/
def IceZero2D (s : S2D.CoolSt ℝ) : Prop := ∀ r ∈ s.rows.toList, ∀ x, S2D.rd1 r.ice x = 0

theorem rd1_zeros (n x : Nat) : S2D.rd1 (Array.replicate n (Num.zero : ℝ)) x = 0 := by
  simp [S2D.rd1, Array.getD]

theorem iceZero2D_step (p : S2D.Par ℝ) (f : S2D.Flags) (NtExp i : Nat) (s : S2D.CoolSt ℝ) (x : ℝ)
    (h : IceZero2D s) : IceZero2D (S2D.coolStep2D p f NtExp i s x) := by
  unfold S2D.coolStep2D S2D.coolStepSt IceZero2D
  simp only []
  split
  · intro r hr y
    simp only [Array.toList_push, List.mem_append, List.mem_singleton] at hr
    rcases hr with hr | rfl
    · exact h r hr y
    · exact rd1_zeros _ _
  · exact h

/-- **2D, loop level**: every row saved by the cooling loop — up to and including the step at
which the loop is left — stores the zero ice field -/
theorem iceZero2D_cool (p : S2D.Par ℝ) (f : S2D.Flags) (T0C : ℝ) (prof : List ℝ) (NtExp : Nat) (Frand : ℝ)
    (cn : Option ℝ) : IceZero2D (S2D.cool2D p f T0C prof NtExp Frand cn).2 := by
  unfold S2D.cool2D
  apply loopUntil_inv _ _ IceZero2D (fun i s x h => iceZero2D_step p f NtExp i s x h)
  intro r hr; simp [S2D.coolInit2D] at hr

/-- **2D, run level — no ice is reported before nucleation**: in a completed run, every reported
ice row with index below `iSaveEnd` (the rows written during the cooling stage; row `iSaveEnd`
is the post-nucleation row) is identically 0. -/
theorem no_ice_before_nucleation_2D (p : S2D.Par ℝ) (f : S2D.Flags) (T0C : ℝ) (prof : List ℝ) (NtExp : Nat)
    (Frand : ℝ) (cn : Option ℝ) (r : S2D.Result ℝ) (hr : S2D.run p f T0C prof NtExp Frand cn = .ok r)
    (k : Nat) (hk : k < r.iSaveEnd) :
    ∃ row, r.ice[k]? = some row ∧ ∀ x, S2D.rd1 row x = 0 := by
  rw [S2D.run_eq] at hr
  have hz := iceZero2D_cool p f T0C prof NtExp Frand cn
  rcases hc : S2D.cool2D p f T0C prof NtExp Frand cn with ⟨_ | iEnd, s⟩
  · rw [hc] at hr; simp at hr
  · rw [hc] at hr hz
    simp only at hr hz
    split at hr
    · simp at hr
    · split at hr
      · simp at hr
      · rename_i iSol hsol
        simp only [Except.ok.injEq] at hr
        subst hr
        simp only [S2D.mkResult] at hk ⊢
        have hlt : k < s.rows.size := hk
        refine ⟨s.rows[k].ice, ?_, ?_⟩
        · simp only [S2D.histRows, Array.getElem?_map]
          have : ((s.rows.push (S2D.nucRow (S2D.mkCtx p f) iEnd s)
              ++ (S2D.solFin2D (S2D.mkCtx p f) NtExp prof iEnd s).rows.extract 0
                  ((S2D.solFin2D (S2D.mkCtx p f) NtExp prof iEnd s).rows.size - 1)))[k]? = some s.rows[k] := by
            rw [Array.getElem?_append_left (by simp; omega), Array.getElem?_push_lt hlt]
          rw [this]; rfl
        · exact hz s.rows[k] (by simp)

/-! #### 1D -/

def IceZero1D (s : Cool1D ℝ) : Prop := ∀ r ∈ s.buf.toList, ∀ x, aget r.ice x = 0

theorem iceZero1D_step (p : SnowIn ℝ) (g : Grid1D ℝ) (stride i : Nat) (s : Cool1D ℝ) (x : ℝ)
    (h : IceZero1D s) : IceZero1D (coolStep1D p g stride i s x) := by
  unfold coolStep1D IceZero1D
  simp only []
  split
  · unfold saveRow
    simp only []
    split
    · intro r hr y
      simp only [Array.toList_push, List.mem_append, List.mem_singleton] at hr
      rcases hr with hr | rfl
      · exact h r hr y
      · by_cases hy : y < (coolField1D p g i s.T x).size
        · rw [Snow.aget_map _ _ y hy]; simp
        · simp [aget, Array.getD, hy]
    · exact h
  · exact h

/-- **1D, loop level** -/
theorem iceZero1D_cool (p : SnowIn ℝ) (g : Grid1D ℝ) (old : Bool) (shelf : List ℝ) :
    IceZero1D (cool1D p g old shelf).2 := by
  unfold cool1D
  apply loopUntil_inv _ _ IceZero1D (fun i s x h => iceZero1D_step p g _ i s x h)
  intro r hr; simp [coolInit1D] at hr

theorem saveRow_fits' {ρ : Type} (cap : Nat) (b : Array ρ) (o : Bool) (r : ρ) (h : b.size < cap) :
    saveRow cap (b, o) r = (b.push r, o) := by simp [saveRow, h]
theorem saveRow_full' {ρ : Type} (cap : Nat) (b : Array ρ) (o : Bool) (r : ρ) (h : ¬ b.size < cap) :
    saveRow cap (b, o) r = (b, true) := by simp [saveRow, h]

/-- **1D, run level — no ice is reported before nucleation**: whenever `_run_1D` publishes its
histories, every row with index below `iSaveEnd` (cooling stage) has a zero ice field -/
theorem no_ice_before_nucleation_1D (p : SnowIn ℝ) (Nz : Nat) (old : Bool) (shelf : List ℝ)
    (h : Array (Row ℝ)) (hh : (run1DOn p Nz old shelf).hist = some h)
    (k : Nat) (hk : k < (run1DOn p Nz old shelf).iSaveEnd) :
    ∃ row, h[k]? = some row ∧ ∀ x, aget row.ice x = 0 := by
  have hz := iceZero1D_cool p (grid1D p Nz) old shelf
  revert hh hk
  unfold run1DOn
  dsimp only
  rcases hc : cool1D p (grid1D p Nz) old shelf with ⟨_ | iEnd, s⟩
  · intro hh; simp at hh
  · rw [hc] at hz
    dsimp only at hz ⊢
    by_cases hfit : s.buf.size < NSave
    · rw [saveRow_fits' _ _ _ _ hfit]
      dsimp only
      split
      · intro hh; simp at hh
      · split
        · intro hh; simp at hh
        · split
          · intro hh; simp at hh
          · intro hh hk
            simp only [Option.some.injEq] at hh
            subst hh
            have hlt : k < s.buf.size := hk
            refine ⟨s.buf[k], ?_, hz s.buf[k] (by simp)⟩
            rw [Array.getElem?_append_left (by simp; omega), Array.getElem?_push_lt hlt]
    · rw [saveRow_full' _ _ _ _ hfit]
      intro hh; simp at hh

/-! #### 0D -/

/-- **0D, run level**: the reported ice fraction is 0 at every index before the nucleation step -/
theorem no_ice_before_nucleation_0D (p : SnowIn ℝ) (shelf : List ℝ) (h : Hist0D ℝ) (Nt : Nat)
    (hh : (run0DOn p shelf).hist = some h) (hN : (run0DOn p shelf).NtCoolEnd = some Nt)
    (k : Nat) (hk : k < Nt) : h.ice[k]? = some 0 := by
  revert hh hN
  unfold run0DOn
  dsimp only
  rcases hc : cool0D p shelf with ⟨_ | Nt', s⟩
  · intro hh; simp at hh
  · dsimp only
    split
    · intro hh; simp at hh
    · intro hh hN
      simp only [Option.some.injEq] at hh hN
      subst hh; subst hN
      dsimp only
      rw [Array.getElem?_append_left (by simpa using hk)]
      simp [hk, Num.zero]

/-! ### a concrete default `SnowIn` (values of snowConfig_default.yaml through `calculateDerived`) -/

/-- 10 mm cube, 5 % sucrose, `k["s0"] = 50`, shelf configuration, ramp 20 → −50 °C at 0.5 K/s -/
noncomputable def qDef : SnowIn ℝ :=
  { const := { A := 0.0001, V := 0.000001, rho_l := 1000, mass := 0.001, mass_water := 0.001 * (1 - 0.05),
               mass_solute := 0.001 * 0.05, cp_w := 4187, cp_i := 2108, cp_s := 1240,
               cp_solution := 0.05 * 1240 + (1 - 0.05) * 4187, solid_fraction := 0.05, T_eq := 0, k_f := 1.853,
               M_s := 0.3423, depression := 1.853 / 0.3423 * (0.05 / (1 - 0.05)), a := 29, b := 29.3, c := 1,
               Dh := 333550, height := 0.01, diameter := 0.01, lambda_w := 0.598, lambda_i := 2.25,
               lambda_s := 0.126, k_B := 1.38e-23 },
    visf := none, Kshelf := 50,
    oc := { t_tot := 100, start := 20, stop := -50, rate := 0.5, holds := [] },
    cnTemp := none, xi := 0, Frand := 0.5 }

end Snow.RunBounds
