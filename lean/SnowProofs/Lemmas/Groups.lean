/-
  Helper lemmas for the vial-group model (`SnowModel/Groups.lean`):
  range of the exposure count under the side condition `nx, ny ≥ 2`,
  and the group loop as a union.
-/
import SnowProofs.Lemmas.Topology
import SnowModel.Groups

namespace Snow.Groups
open Snow.Topology

theorem ite_cover {p q : Prop} [Decidable p] [Decidable q] (h : p ∨ q) :
    1 ≤ (if p then 1 else 0) + (if q then 1 else 0) := by
  rcases h with h | h
  · rw [if_pos h]; omega
  · rw [if_pos h]; omega

/-- at least one neighbour along each populated direction -/
theorem degC_ge (arr : Arr) {nx ny nz : Nat} {c : Coord} (hnx : 2 ≤ nx) (hny : 2 ≤ ny)
    (hc : InBox nx ny nz c) : 2 + (if nz = 1 then 0 else 1) ≤ degC arr nx ny nz c := by
  obtain ⟨hx, hy, hz⟩ := hc
  have ax := ite_cover (p := c.x + 1 < nx) (q := 1 ≤ c.x) (by omega)
  have ay := ite_cover (p := c.y + 1 < ny) (q := 1 ≤ c.y) (by omega)
  by_cases h1 : nz = 1
  · rw [if_pos h1]
    cases arr <;> simp only [degC] <;> omega
  · rw [if_neg h1]
    have az := ite_cover (p := c.z + 1 < nz) (q := 1 ≤ c.z) (by omega)
    cases arr <;> simp only [degC] <;> omega

/-- the largest exposure count that occurs (a corner): square 2 / 3, hexagonal 4 / 5 -/
def top (arr : Arr) (nz : Nat) : Nat :=
  (match arr with | .square => 3 | .hexagonal => 5) - flat nz

theorem ext_le_top (arr : Arr) {nx ny nz i : Nat} (hnx : 2 ≤ nx) (hny : 2 ≤ ny)
    (hi : i < nTot nx ny nz) : ext arr nx ny nz i ≤ top arr nz := by
  have hc := coords_inBox hi
  have h1 := deg_closed arr hc
  rw [idx_coords] at h1
  have h2 := degC_ge arr hnx hny hc
  unfold ext top flat maxNbr
  rw [h1]
  have hnz : 1 ≤ nz := by have := hc.2.2; omega
  by_cases hf : nz = 1
  · have : ¬ nz > 1 := by omega
    rw [if_pos hf] at h2 ⊢
    rw [if_neg this]
    cases arr <;> simp only <;> omega
  · have : nz > 1 := by omega
    rw [if_neg hf] at h2 ⊢
    rw [if_pos this]
    cases arr <;> simp only <;> omega

theorem flat_lt_two (nz : Nat) : flat nz < 2 := by unfold flat; split <;> omega

/-- the `for g in group` loop computes the union of the named classes
(`"all"` does not occur, every name is known) -/
theorem groupLoop_union (arr : Arr) (nz e : Nat) (gs : List String) (acc : Bool)
    (hk : ∀ g ∈ gs, known g = true) (hall : ∀ g ∈ gs, (g == "all") = false) :
    groupLoop arr nz e gs acc = .ok (acc || gs.any (fun g => groupTest arr nz g e)) := by
  induction gs generalizing acc with
  | nil => simp [groupLoop]
  | cons g gs ih =>
    have h1 := hall g (List.mem_cons_self)
    have h2 := hk g (List.mem_cons_self)
    unfold groupLoop
    rw [if_neg (by simp [h1]), if_pos h2]
    rw [ih _ (fun g' hg' => hk g' (List.mem_cons_of_mem _ hg')) (fun g' hg' => hall g' (List.mem_cons_of_mem _ hg'))]
    simp [Bool.or_assoc]

/-! Facts about one exposure value `e ≤ top` — finite tables over `(int(n_z = 1), e)`. -/

theorem partition_tbl : ∀ arr : Arr, ∀ f, f < 2 → ∀ e, e < 6 →
    e ≤ (match arr with | .square => 3 | .hexagonal => 5) - f →
    (groupTestF arr f "corner" e).toNat + (groupTestF arr f "edge" e).toNat
      + (if arr = .square ∧ f = 0 then (groupTestF arr f "side" e).toNat else 0)
      + (groupTestF arr f "core" e).toNat = 1 := by
  intro arr; cases arr <;> decide

theorem synonym_tbl : ∀ arr : Arr, ∀ f, f < 2 → ∀ e, e < 6 →
    (groupTestF arr f "center" e = groupTestF arr f "core" e)
    ∧ ((arr = .hexagonal ∨ f = 1) → groupTestF arr f "side" e = groupTestF arr f "edge" e) := by
  intro arr; cases arr <;> decide

theorem labels_tbl : ∀ arr : Arr, ∀ f, f < 2 → ∀ e, e < 6 →
    e ≤ (match arr with | .square => 3 | .hexagonal => 5) - f →
    statsLabelF arr f e = trajLabelF arr f e
    ∧ ∃ s ∈ ["corner", "edge", "side", "core"], statsLabelF arr f e = .name s
        ∧ groupTestF arr f s e = true
        ∧ ∀ g ∈ ["corner", "edge", "side", "core", "center"],
            (groupTestF arr f g e = true ↔ canonF arr f g = canonF arr f s) := by
  intro arr; cases arr <;> decide

theorem top_lt_six (arr : Arr) (nz e : Nat) (h : e ≤ top arr nz) : e < 6 := by
  unfold top at h; cases arr <;> simp only at h <;> omega

theorem labels_closed_small : ∀ arr : Arr, ∀ f, f < 2 → ∀ e, e < 6 →
    statsLabelF arr f e = labelClosedF arr f e ∧ trajLabelF arr f e = labelClosedF arr f e := by
  intro arr; cases arr <;> decide

theorem labels_closed_form (arr : Arr) (f : Nat) (hf : f < 2) (e : Nat) :
    statsLabelF arr f e = labelClosedF arr f e ∧ trajLabelF arr f e = labelClosedF arr f e := by
  by_cases he : e < 6
  · exact labels_closed_small arr f hf e he
  · have h1 : ∀ c, c ≤ 5 → (e == c) = false := by
      intro c hc; simp; omega
    cases arr <;>
      simp [statsLabelF, trajLabelF, statsAssignments, trajAssignments, labelClosedF, List.foldl, assign,
        h1 (3 - f) (by omega), h1 (2 - f) (by omega), h1 1 (by omega), h1 0 (by omega), h1 (5 - f) (by omega),
        h1 2 (by omega), h1 3 (by omega), h1 (4 - f) (by omega)]

theorem extVec_length (arr : Arr) (nx ny nz : Nat) : (extVec arr nx ny nz).length = nTot nx ny nz := by
  simp [extVec]

theorem extVec_getD (arr : Arr) {nx ny nz i : Nat} (hi : i < nTot nx ny nz) :
    (extVec arr nx ny nz).getD i 0 = ext arr nx ny nz i := by
  simp [extVec, List.getD_eq_getElem?_getD, hi]

theorem five_known : ∀ g ∈ ["corner", "edge", "side", "core", "center"], known g = true ∧ (g == "all") = false := by
  decide

end Snow.Groups
