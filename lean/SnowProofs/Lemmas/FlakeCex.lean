/-
  A concrete one-vial run of the loop model over ℝ, evaluated step by step: the witness of the
  C12 counter-examples (K2, K3, K4) and of the non-vacuity of the C12 hypotheses.
-/
import SnowProofs.Lemmas.FlakeStats
import Mathlib.Tactic.NormNum
import Mathlib.Tactic.Positivity
namespace Snow.FlakeCex
open Snow Num Snow.Flake Snow.FlakeLemmas Snow.FlakeRun Snow.FlakeStats Snow.FlakeStatsLemmas

/-- one vial on a shelf at −20 °C, initial temperature −10 °C, `dt = 1`, dice `0` -/
noncomputable def cexInp (ttot : ℝ) : Inputs ℝ where
  p := { c := { solid_fraction := 0, cp_s := 0, cp_w := 1, cp_i := 1, cp_solution := 1, depression := 1,
                mass := 1, alpha := -40, beta_solution := 0, T_eq := 1, T_eq_l := 0, hl := 1, b := 1, V := 1 },
         nbrs := [[]], ext := [0], kInt := 0, kExt := 0, kShelf := [1], A := 1, kb := [1], dt := 1,
         threshold := 1/4, initIce := .indirect }
  oc := ⟨ttot, -20, -20, 1, []⟩
  cnTemp := none
  T0 := -10
  nVials := 1
  dice := [[0], [0], [0]]
  mask := [true]

/-- the state after the first step: the vial has nucleated at `T = −20` -/
noncomputable def cexV1 : Vial ℝ := { T := -1, sigma := 1/2, tNuc := some 1, TNuc := some (-20), tSol := none }
noncomputable def cexS1 (d : List (List ℝ)) : State ℝ := ⟨#[cexV1], d⟩

noncomputable def cexV2 : Vial ℝ := { T := -41/3, sigma := 41/44, tNuc := some 1, TNuc := some (-20), tSol := some 0 }
noncomputable def cexS2 (d : List (List ℝ)) : State ℝ := ⟨#[cexV2], d⟩

theorem cex_profile0 : profile (cexInp 0).oc (cexInp 0).p.dt = [-20] := by
  simp [cexInp, profile, nSteps, segments, allHolds, simpleCool, arangeLen, holdCount, pyMod_real]

theorem cex_profile2 : profile (cexInp 2).oc (cexInp 2).p.dt = [-20, -20, -20] := by
  simp [cexInp, profile, nSteps, segments, allHolds, simpleCool, arangeLen, holdCount, pyMod_real]

theorem cex_step0 (ttot : ℝ) (kCN : Nat) : step (cexInp ttot).p kCN 0 (-20) (init (cexInp ttot)) = cexS1 [[0],[0]] := by
  simp [step, stepCN, cexInp, init, mids, diceOf, candidates, drawn, anyLiquid, anySolid, isLiquid, temps,
    heatFlow, qInt, hExt, hShelf, hDiag, hOff, vialMid, vialFinal, nucleates, isCand, probEntry, prob,
    liquidTemp, tSolUpdate, assignDice, timeAt, sigmaJump, sigmaIndirect, eqTemp, cexS1, cexV1]
  have : (0:ℝ) < if 0 = kCN then 1 else 20 := by split_ifs <;> norm_num
  rw [if_pos this]
  norm_num

theorem cex_step1 (ttot : ℝ) (kCN : Nat) (d : List (List ℝ)) : step (cexInp ttot).p kCN 1 (-20) (cexS1 d) = cexS2 d := by
  simp [step, stepCN, cexInp, mids, diceOf, candidates, drawn, anyLiquid, anySolid, isLiquid, temps,
    heatFlow, qInt, hExt, hShelf, hDiag, hOff, vialMid, vialFinal, nucleates, isCand, probEntry, prob,
    liquidTemp, tSolUpdate, assignDice, timeAt, solidSigma, cpSigma, eqTemp, cexS1, cexV1, cexS2, cexV2]
  norm_num


theorem cex_step2 (ttot : ℝ) (kCN : Nat) (d : List (List ℝ)) :
    (vAt (step (cexInp ttot).p kCN 2 (-20) (cexS2 d)) 0).tNuc = some 1 ∧
    (vAt (step (cexInp ttot).p kCN 2 (-20) (cexS2 d)) 0).TNuc = some (-20) ∧
    (vAt (step (cexInp ttot).p kCN 2 (-20) (cexS2 d)) 0).tSol = some 0 := by
  simp [vAt, step, stepCN, cexInp, mids, diceOf, candidates, drawn, anyLiquid, anySolid, isLiquid, temps,
    heatFlow, qInt, hExt, hShelf, hDiag, hOff, vialMid, vialFinal, nucleates, isCand, probEntry, prob,
    liquidTemp, tSolUpdate, assignDice, timeAt, solidSigma, cpSigma, eqTemp, cexS2, cexV2]

theorem cex0_traj (kCN : Nat) : (runWith (cexInp 0) kCN).traj.toList = [init (cexInp 0)] := by
  rw [runWith_traj, cex_profile0]; simp [trajList]

theorem cex0_final (kCN : Nat) : (runWith (cexInp 0) kCN).final = cexS1 [[0],[0]] := by
  rw [runWith_final, cex_profile0]; simp only [finalState]; exact cex_step0 0 kCN

theorem cex2_traj (kCN : Nat) :
    (runWith (cexInp 2) kCN).traj.toList = [init (cexInp 2), cexS1 [[0],[0]], cexS2 [[0],[0]]] := by
  rw [runWith_traj, cex_profile2]
  simp only [trajList, Nat.zero_add]
  rw [cex_step0, cex_step1]

theorem cex2_final (kCN : Nat) :
    (runWith (cexInp 2) kCN).final = step (cexInp 2).p kCN 2 (-20) (cexS2 [[0],[0]]) := by
  rw [runWith_final, cex_profile2]
  simp only [finalState, Nat.zero_add, Nat.reduceAdd]
  rw [cex_step0, cex_step1]

theorem cex_NN0 : NN (cexInp 0) = 1 := by simp [NN, cexInp, nSteps]
theorem cex_NN2 : NN (cexInp 2) = 3 := by simp [NN, cexInp, nSteps]

theorem cex0_sigmaRow (kCN : Nat) : sigmaRow (cexInp 0) kCN 0 = [0] := by
  rw [sigmaRow, cex0_traj]; simp [vAt, init, cexInp]

theorem cex2_sigmaRow (kCN : Nat) : sigmaRow (cexInp 2) kCN 0 = [0, 1/2, 41/44] := by
  rw [sigmaRow, cex2_traj]; simp [vAt, init, cexInp, cexS1, cexV1, cexS2, cexV2]

theorem cex2_tempRow (kCN : Nat) : tempRow (cexInp 2) kCN 0 = [-10, -1, -41/3] := by
  rw [tempRow, cex2_traj]; simp [vAt, init, cexInp, cexS1, cexV1, cexS2, cexV2]

/-- the final state of the 3-step run, numerically -/
theorem cex_step2_sigma (ttot : ℝ) (kCN : Nat) (d : List (List ℝ)) :
    0 < (vAt (step (cexInp ttot).p kCN 2 (-20) (cexS2 d)) 0).sigma := by
  simp [vAt, step, stepCN, cexInp, mids, diceOf, candidates, drawn, anyLiquid, anySolid, isLiquid, temps,
    heatFlow, qInt, hExt, hShelf, hDiag, hOff, vialMid, vialFinal, nucleates, isCand, probEntry, prob,
    liquidTemp, tSolUpdate, assignDice, timeAt, solidSigma, cpSigma, eqTemp, cexS2, cexV2]
  norm_num

theorem cex2_vtraj (kCN : Nat) :
    vtraj (cexInp 2) kCN 0 = [fresh (-10), cexV1, cexV2,
      vAt (step (cexInp 2).p kCN 2 (-20) (cexS2 [[0],[0]])) 0] := by
  rw [vtraj_eq, cex2_traj, cex2_final]
  simp [vAt, init, cexInp, cexS1, cexS2, fresh]

theorem cex_jumpPos (ttot : ℝ) : JumpPos (cexInp ttot).p := by
  intro T hT
  simp only [cexInp, sigmaJump, sigmaIndirect] at hT ⊢
  have : 0 < -T := by linarith
  have e : -((0 - T) * 1 * 1) / (-40 - 0) = (-T) / 40 := by ring
  rw [e]; positivity

theorem cex2_adm (kCN : Nat) : Adm (vtraj (cexInp 2) kCN 0) := by
  have h3 := cex_step2_sigma 2 kCN [[0],[0]]
  rw [cex2_vtraj]
  constructor
  · intro j m hjm hm hpos
    simp only [List.length_cons, List.length_nil] at hm
    have : m = 0 ∨ m = 1 ∨ m = 2 ∨ m = 3 := by omega
    rcases this with rfl | rfl | rfl | rfl
    · have : j = 0 := by omega
      subst this; exact hpos
    · simp [nth, cexV1]
    · simp [nth, cexV2]
    · simp only [nth, List.getD_eq_getElem?_getD]; simpa using h3

end Snow.FlakeCex
