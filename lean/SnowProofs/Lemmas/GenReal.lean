/-
  ℝ-side support for the generated model files (`SnowModel/Gen/*.lean`):
  `np.pi` over ℝ, unfolding of the `Transc` operations, and the few analytic
  facts the C20 theorems need (finite-difference bounds for `log` and `tanh`).
-/
import SnowProofs.RealInst
import SnowModel.GenSupport
import Mathlib.Analysis.SpecialFunctions.Log.Basic
import Mathlib.Analysis.SpecialFunctions.Trigonometric.DerivHyp
import Mathlib.Analysis.Calculus.Deriv.MeanValue
import Mathlib.Analysis.SpecialFunctions.Trigonometric.Basic

namespace Snow

noncomputable instance : HasPi ℝ := ⟨Real.pi⟩

namespace GenReal

@[simp] theorem pi_real : (HasPi.pi : ℝ) = Real.pi := rfl
@[simp] theorem exp_real (x : ℝ) : Transc.exp x = Real.exp x := rfl
@[simp] theorem log_real (x : ℝ) : Transc.log x = Real.log x := rfl
@[simp] theorem sqrt_real (x : ℝ) : Transc.sqrt x = Real.sqrt x := rfl
@[simp] theorem tanh_real (x : ℝ) : Transc.tanh x = Real.tanh x := rfl
@[simp] theorem pow_real (x y : ℝ) : Transc.pow x y = x ^ y := rfl

/-- `log y - log x ≤ (y - x)/x` for `0 < x`, `0 < y` -/
theorem log_sub_le {x y : ℝ} (hx : 0 < x) (hy : 0 < y) : Real.log y - Real.log x ≤ (y - x) / x := by
  have h := Real.log_le_sub_one_of_pos (div_pos hy hx)
  rw [Real.log_div hy.ne' hx.ne'] at h
  have : y / x - 1 = (y - x) / x := by field_simp
  linarith

/-- `(y - x)/y ≤ log y - log x` for `0 < x`, `0 < y` -/
theorem le_log_sub {x y : ℝ} (hx : 0 < x) (hy : 0 < y) : (y - x) / y ≤ Real.log y - Real.log x := by
  have h := log_sub_le hy hx
  have : (x - y) / y = -((y - x) / y) := by field_simp; ring
  linarith

theorem hasDerivAt_tanh (x : ℝ) : HasDerivAt Real.tanh (1 / Real.cosh x ^ 2) x := by
  have hc : Real.cosh x ≠ 0 := (Real.cosh_pos x).ne'
  have h := (Real.hasDerivAt_sinh x).div (Real.hasDerivAt_cosh x) hc
  have he : (fun y => Real.sinh y / Real.cosh y) = Real.tanh := by
    funext y; exact (Real.tanh_eq_sinh_div_cosh y).symm
  have hv : (Real.cosh x * Real.cosh x - Real.sinh x * Real.sinh x) / Real.cosh x ^ 2
      = 1 / Real.cosh x ^ 2 := by
    have := Real.cosh_sq x
    congr 1; nlinarith
  rw [← he, ← hv]; exact h

theorem differentiable_tanh : Differentiable ℝ Real.tanh := fun x => (hasDerivAt_tanh x).differentiableAt

theorem deriv_tanh (x : ℝ) : deriv Real.tanh x = 1 / Real.cosh x ^ 2 := (hasDerivAt_tanh x).deriv

theorem deriv_tanh_le_one (x : ℝ) : deriv Real.tanh x ≤ 1 := by
  rw [deriv_tanh]
  have h1 : 1 ≤ Real.cosh x := Real.one_le_cosh x
  have h2 : 1 ≤ Real.cosh x ^ 2 := by nlinarith
  rw [div_le_one (by positivity)]; exact h2

theorem deriv_tanh_nonneg (x : ℝ) : 0 ≤ deriv Real.tanh x := by
  rw [deriv_tanh]; positivity

/-- `tanh` is monotone -/
theorem tanh_mono : Monotone Real.tanh := monotone_of_deriv_nonneg differentiable_tanh deriv_tanh_nonneg

/-- `tanh` is 1-Lipschitz (one-sided form) -/
theorem tanh_sub_le {x y : ℝ} (h : x ≤ y) : Real.tanh y - Real.tanh x ≤ y - x := by
  have := image_sub_le_mul_sub_of_deriv_le differentiable_tanh deriv_tanh_le_one h
  linarith

theorem tanh_nonneg {x : ℝ} (h : 0 ≤ x) : 0 ≤ Real.tanh x := by
  have := tanh_mono h; rwa [Real.tanh_zero] at this

end GenReal
end Snow
