/-
  Bridge between the 2D model's loops (`S2D.coolLoop`, `S2D.solidLoop`, direct recursions with
  accumulators) and the generic skeletons of `SnowModel/SnowingLoop.lean` (`loopUntil`, `iterIdx`,
  `firstHit`): the 2D loops ARE these skeletons on the states `CoolSt` / `SolSt` below, whose step
  functions are assembled from the 2D model's own `coolStep`, `solidStep`, `hazardJ`,
  `volIntegral`, `sigmaOf`, … (nothing of the stencil is restated).  The states carry one ghost
  field, `steps`: the loop index at which each saved row was written.
-/
import SnowModel.Snowing2D
import SnowProofs.Lemmas.SnowingLoop

namespace Snow.S2D
open Snow Num

section
variable {α : Type} [Transc α]

/-- state of the 2D cooling loop -/
structure CoolSt (α : Type) where
  T : Array α
  E : α
  rows : Array (Row α)
  /-- ghost: loop index of every saved row -/
  steps : Array Nat
  J : Array α
  Kv : α
  Tshelf : α

/-- one iteration of `coolLoop` up to and including `E_t += K_v*dt` -/
def coolStepSt (c : Ctx α) (stride : Nat) (zeros : Array α) (i : Nat) (s : CoolSt α) (Tsh : α) : CoolSt α :=
  let time := c.dt * ofNat' i
  let T' := coolStep c c.f.inplace Tsh (qEvap c false time s.T) s.T
  let J := hazardJ c T'
  let Kv := volIntegral c J
  { T := T', E := s.E + Kv * c.dt,
    rows := if i % stride = 0 then
        s.rows.push { time := time, shelf := Tsh - kelvin, temp := T'.map (· - kelvin), ice := zeros }
      else s.rows,
    steps := if i % stride = 0 then s.steps.push i else s.steps,
    J := J, Kv := Kv, Tshelf := Tsh }

/-- the stop test of `coolLoop` -/
def coolStopSt (Frand : α) (cn : Option α) (s : CoolSt α) : Bool :=
  match cn with
  | none => decide (Frand < one - Transc.exp (-s.E))
  | some cnT => decide (minA s.T ≤ cnT + kelvin)

def coolOutOf (r : Option Nat × CoolSt α) : Option (CoolOut α) :=
  match r with
  | (some i, s) => some { iEnd := i, T := s.T, J := s.J, Kv := s.Kv, Tshelf := s.Tshelf, rows := s.rows }
  | (none, _) => none

/-- **`coolLoop` is `loopUntil`** -/
theorem coolLoop_eq (c : Ctx α) (stride : Nat) (Frand : α) (cn : Option α) (zeros : Array α)
    (xs : List α) (i : Nat) (s : CoolSt α) :
    coolLoop c stride Frand cn zeros xs i s.T s.E s.rows
      = coolOutOf (loopUntil (coolStepSt c stride zeros) (coolStopSt Frand cn) xs i s) := by
  induction xs generalizing i s with
  | nil => simp [coolLoop, loopUntil, coolOutOf]
  | cons x xs ih =>
    have key : coolLoop c stride Frand cn zeros (x :: xs) i s.T s.E s.rows =
        if coolStopSt Frand cn (coolStepSt c stride zeros i s x) = true then
          some { iEnd := i, T := (coolStepSt c stride zeros i s x).T, J := (coolStepSt c stride zeros i s x).J,
                 Kv := (coolStepSt c stride zeros i s x).Kv, Tshelf := (coolStepSt c stride zeros i s x).Tshelf,
                 rows := (coolStepSt c stride zeros i s x).rows }
        else coolLoop c stride Frand cn zeros xs (i + 1) (coolStepSt c stride zeros i s x).T
          (coolStepSt c stride zeros i s x).E (coolStepSt c stride zeros i s x).rows := by
      cases cn <;> rfl
    rw [key]
    simp only [loopUntil]
    by_cases hs : coolStopSt Frand cn (coolStepSt c stride zeros i s x) = true
    · simp only [hs, if_true, coolOutOf]
    · simp only [hs, Bool.false_eq_true, if_false]
      exact ih (i + 1) (coolStepSt c stride zeros i s x)

/-- state of the 2D solidification loop -/
structure SolSt (α : Type) where
  T : Array α
  w : Array α
  mask : Array Bool
  rows : Array (Row α)
  steps : Array Nat
  iSol : Option Nat
  /-- `sigma_new` of the last step -/
  sg : α

/-- one iteration of `solidLoop`; `iEnd` only feeds the ghost field -/
def solStepSt (c : Ctx α) (stride : Nat) (tNuc : α) (iEnd : Nat) (i : Nat) (s : SolSt α) (Tsh : α) : SolSt α :=
  let time := tNuc + c.dt * ofNat' i
  let inpl := c.f.inplace && i != 0
  let T' := solidStep c inpl Tsh (qEvap c true time s.T) s.T s.w s.mask
  let w' := iceFrac c T'
  let sigma := sigmaOf c w'
  { T := T', w := w', mask := maskOf c T',
    rows := if i % stride = 0 then
        s.rows.push { time := time, shelf := Tsh - kelvin, temp := T'.map (· - kelvin), ice := w' }
      else s.rows,
    steps := if i % stride = 0 then s.steps.push (iEnd + i) else s.steps,
    iSol := firstHit s.iSol (decide ((lit 9 1 : α) ≤ sigma)) i,
    sg := sigma }

def solOutOf (s : SolSt α) : SolidOut α := { rows := s.rows, iSol := s.iSol, T := s.T, w := s.w }

/-- **`solidLoop` is `iterIdx`** -/
theorem solidLoop_eq (c : Ctx α) (stride : Nat) (tNuc : α) (iEnd : Nat) (xs : List α) (i : Nat) (s : SolSt α) :
    solidLoop c stride tNuc xs i s.T s.w s.mask s.rows s.iSol
      = solOutOf (iterIdx (solStepSt c stride tNuc iEnd) xs i s) := by
  induction xs generalizing i s with
  | nil => simp [solidLoop, iterIdx, solOutOf]
  | cons x xs ih =>
    have hsol : (solStepSt c stride tNuc iEnd i s x).iSol =
        (match s.iSol with
        | some k => some k
        | none => if (lit 9 1 : α) ≤ sigmaOf c (iceFrac c (solidStep c (c.f.inplace && i != 0) x
            (qEvap c true (tNuc + c.dt * ofNat' i) s.T) s.T s.w s.mask)) then some i else none) := by
      simp only [solStepSt, firstHit]
      cases s.iSol <;> simp
    have key : solidLoop c stride tNuc (x :: xs) i s.T s.w s.mask s.rows s.iSol =
        solidLoop c stride tNuc xs (i + 1) (solStepSt c stride tNuc iEnd i s x).T
          (solStepSt c stride tNuc iEnd i s x).w (solStepSt c stride tNuc iEnd i s x).mask
          (solStepSt c stride tNuc iEnd i s x).rows (solStepSt c stride tNuc iEnd i s x).iSol := by
      rw [hsol]; rfl
    rw [key]
    simp only [iterIdx]
    exact ih (i + 1) (solStepSt c stride tNuc iEnd i s x)

end
end Snow.S2D
