/-
  Lemmas about the Snowing 0D / 1D models instantiated at ℝ: array minimum / maximum / mean,
  size invariants of the field updates, the stop tests as propositions.
-/
import SnowModel.Snowing0D
import SnowModel.Snowing1D
import SnowProofs.RealInst
import SnowProofs.Lemmas.SnowingLoop
import SnowProofs.Lemmas.SimpsonArr

namespace Snow
open Num

/-! ### the stop tests as propositions over ℝ -/

theorem hazardStop_real (F E : ℝ) : hazardStop F E = true ↔ F < 1 - Real.exp (-E) := by
  simp only [hazardStop, Transc.exp, one_real, decide_eq_true_eq]

theorem hazardStop_real_false (F E : ℝ) : hazardStop F E = false ↔ 1 - Real.exp (-E) ≤ F := by
  rw [← not_iff_not, Bool.not_eq_false, hazardStop_real, not_le]

/-! ### array access -/

theorem aget_lt {α : Type} [Num α] (a : Array α) (j : Nat) (h : j < a.size) : aget a j = a[j] := by
  simp [aget, Array.getD, h]

theorem aget_ofFn {α : Type} [Num α] (n : Nat) (f : Fin n → α) (j : Nat) (h : j < n) :
    aget (Array.ofFn f) j = f ⟨j, h⟩ := by
  rw [aget_lt _ _ (by simpa using h)]; simp

theorem aget_map {α : Type} [Num α] (f : α → α) (a : Array α) (j : Nat) (h : j < a.size) :
    aget (a.map f) j = f (aget a j) := by
  rw [aget_lt _ _ (by simpa using h), aget_lt _ _ h]; simp

theorem aget_zipWith {α : Type} [Num α] (f : α → α → α) (a b : Array α) (j : Nat) (ha : j < a.size)
    (hb : j < b.size) : aget (Array.zipWith f a b) j = f (aget a j) (aget b j) := by
  rw [aget_lt _ _ (by simp; omega), aget_lt _ _ ha, aget_lt _ _ hb]; simp

theorem aget_replicate {α : Type} [Num α] (n : Nat) (v : α) (j : Nat) (h : j < n) :
    aget (Array.replicate n v) j = v := by
  rw [aget_lt _ _ (by simpa using h)]; simp

/-! ### minimum, maximum, mean of a real array -/

theorem foldl_min_le_init (l : List ℝ) (m : ℝ) : l.foldl (fun m x => Num.min m x) m ≤ m := by
  induction l generalizing m with
  | nil => simp
  | cons x l ih =>
    simp only [List.foldl_cons]
    exact le_trans (ih _) (by rw [min_real]; exact min_le_left _ _)

theorem foldl_min_le_mem (l : List ℝ) (m : ℝ) (x : ℝ) (hx : x ∈ l) :
    l.foldl (fun m x => Num.min m x) m ≤ x := by
  induction l generalizing m with
  | nil => simp at hx
  | cons y l ih =>
    simp only [List.foldl_cons]
    rcases List.mem_cons.mp hx with rfl | h
    · exact le_trans (foldl_min_le_init _ _) (by rw [min_real]; exact min_le_right _ _)
    · exact ih _ h

theorem foldl_min_mem (l : List ℝ) (m : ℝ) :
    l.foldl (fun m x => Num.min m x) m = m ∨ l.foldl (fun m x => Num.min m x) m ∈ l := by
  induction l generalizing m with
  | nil => simp
  | cons y l ih =>
    simp only [List.foldl_cons]
    rcases ih (Num.min m y) with h | h
    · rw [h, min_real]
      rcases min_choice m y with h' | h'
      · left; exact h'
      · right; rw [h']; simp
    · right; exact List.mem_cons_of_mem _ h

theorem foldl_max_ge_init (l : List ℝ) (m : ℝ) : m ≤ l.foldl (fun m x => Num.max m x) m := by
  induction l generalizing m with
  | nil => simp
  | cons x l ih =>
    simp only [List.foldl_cons]
    exact le_trans (by rw [max_real]; exact le_max_left _ _) (ih _)

theorem foldl_max_ge_mem (l : List ℝ) (m : ℝ) (x : ℝ) (hx : x ∈ l) :
    x ≤ l.foldl (fun m x => Num.max m x) m := by
  induction l generalizing m with
  | nil => simp at hx
  | cons y l ih =>
    simp only [List.foldl_cons]
    rcases List.mem_cons.mp hx with rfl | h
    · exact le_trans (by rw [max_real]; exact le_max_right _ _) (foldl_max_ge_init _ _)
    · exact ih _ h

theorem aget_mem_toList (a : Array ℝ) (j : Nat) (h : j < a.size) : aget a j ∈ a.toList := by
  rw [aget_lt a j h]; simp

/-- `T.min()` is a lower bound of the field -/
theorem minA_le (a : Array ℝ) (j : Nat) (h : j < a.size) : minA a ≤ aget a j := by
  unfold minA
  rw [← Array.foldl_toList]
  exact foldl_min_le_mem _ _ _ (aget_mem_toList a j h)

/-- … attained at some node -/
theorem minA_mem (a : Array ℝ) (h : 0 < a.size) : ∃ j, j < a.size ∧ minA a = aget a j := by
  unfold minA
  rw [← Array.foldl_toList]
  rcases foldl_min_mem a.toList (aget a 0) with h' | h'
  · exact ⟨0, h, h'⟩
  · obtain ⟨j, hj, e⟩ := List.getElem_of_mem h'
    refine ⟨j, by simpa using hj, ?_⟩
    rw [aget_lt a j (by simpa using hj)]
    rw [← e]; simp

theorem le_maxA (a : Array ℝ) (j : Nat) (h : j < a.size) : aget a j ≤ maxA a := by
  unfold maxA
  rw [← Array.foldl_toList]
  exact foldl_max_ge_mem _ _ _ (aget_mem_toList a j h)

theorem sum_ge_of_forall_ge (l : List ℝ) (m : ℝ) (h : ∀ x ∈ l, m ≤ x) : (l.length : ℝ) * m ≤ l.sum := by
  induction l with
  | nil => simp
  | cons y l ih =>
    simp only [List.length_cons, List.sum_cons, Nat.cast_add, Nat.cast_one]
    have := ih (fun x hx => h x (List.mem_cons_of_mem _ hx))
    have := h y (by simp)
    nlinarith

theorem sum_le_of_forall_le (l : List ℝ) (m : ℝ) (h : ∀ x ∈ l, x ≤ m) : l.sum ≤ (l.length : ℝ) * m := by
  induction l with
  | nil => simp
  | cons y l ih =>
    simp only [List.length_cons, List.sum_cons, Nat.cast_add, Nat.cast_one]
    have := ih (fun x hx => h x (List.mem_cons_of_mem _ hx))
    have := h y (by simp)
    nlinarith

theorem mem_toList_iff_aget (a : Array ℝ) (x : ℝ) (hx : x ∈ a.toList) : ∃ j, j < a.size ∧ x = aget a j := by
  obtain ⟨j, hj, e⟩ := List.getElem_of_mem hx
  refine ⟨j, by simpa using hj, ?_⟩
  rw [aget_lt a j (by simpa using hj), ← e]; simp

theorem minA_le_meanA (a : Array ℝ) (h : 0 < a.size) : minA a ≤ meanA a := by
  unfold meanA
  rw [sumList_real, ofNat'_real, le_div_iff₀ (by exact_mod_cast h)]
  have := sum_ge_of_forall_ge a.toList (minA a) (by
    intro x hx
    obtain ⟨j, hj, e⟩ := mem_toList_iff_aget a x hx
    rw [e]; exact minA_le a j hj)
  simp only [Array.length_toList] at this
  linarith

theorem meanA_le_maxA (a : Array ℝ) (h : 0 < a.size) : meanA a ≤ maxA a := by
  unfold meanA
  rw [sumList_real, ofNat'_real, div_le_iff₀ (by exact_mod_cast h)]
  have := sum_le_of_forall_le a.toList (maxA a) (by
    intro x hx
    obtain ⟨j, hj, e⟩ := mem_toList_iff_aget a x hx
    rw [e]; exact le_maxA a j hj)
  simp only [Array.length_toList] at this
  linarith

/-! ### size invariants -/

@[simp] theorem size_coolStencil {α : Type} [Num α] (c Tb Tt : α) (T : Array α) :
    (coolStencil c Tb Tt T).size = T.size := by
  simp [coolStencil]

@[simp] theorem size_coolField1D {α : Type} [Transc α] (p : SnowIn α) (g : Grid1D α) (i : Nat)
    (T : Array α) (Ts : α) : (coolField1D p g i T Ts).size = T.size := by
  simp [coolField1D]

@[simp] theorem size_rateField {α : Type} [Transc α] (p : SnowIn α) (T : Array α) :
    (rateField p T).size = T.size := by
  simp [rateField]

end Snow
