/-
  Admissibility lemmas for the shelf-scale step (C06): bounds on the net heat flow,
  the liquid step as a convex combination, the nucleation jump, the solidifying step.
-/
import SnowProofs.Lemmas.FlakeStep

namespace Snow.FlakeLemmas
open Snow Num Snow.Flake

/-! ### heat-flow bounds -/

theorem sum_pair_bounds (h T lo hi : ℝ) (f : Nat → ℝ) (nb : List Nat) (hh : 0 ≤ h)
    (hb : ∀ j ∈ nb, lo ≤ f j ∧ f j ≤ hi) :
    (nb.length : ℝ) * h * (lo - T) ≤ (nb.map fun j => h * (f j - T)).sum ∧
    (nb.map fun j => h * (f j - T)).sum ≤ (nb.length : ℝ) * h * (hi - T) := by
  induction nb with
  | nil => simp
  | cons a t ih =>
    have ha := hb a (by simp)
    have := ih (fun j hj => hb j (by simp [hj]))
    simp only [List.map_cons, List.sum_cons, List.length_cons]
    push_cast
    constructor
    · nlinarith [this.1, mul_le_mul_of_nonneg_left ha.1 hh]
    · nlinarith [this.2, mul_le_mul_of_nonneg_left ha.2 hh]

/-- total conductance of vial `i` -/
def Hsum (p : Params ℝ) (i : Nat) : ℝ :=
  ((p.nbrs.getD i []).length : ℝ) * (p.kInt * p.A) + (p.ext.getD i 0 : ℝ) * p.kExt * p.A
    + p.kShelf.getD i 0 * p.A

/-- non-negative conductances of vial `i` -/
structure CoeffNonneg (p : Params ℝ) (i : Nat) : Prop where
  int : 0 ≤ p.kInt * p.A
  ext : 0 ≤ (p.ext.getD i 0 : ℝ) * p.kExt * p.A
  shelf : 0 ≤ p.kShelf.getD i 0 * p.A

theorem Hsum_nonneg (p : Params ℝ) (i : Nat) (h : CoeffNonneg p i) : 0 ≤ Hsum p i := by
  have := h.int; have := h.ext; have := h.shelf
  unfold Hsum; positivity

/-- the net heat flow lies between `Hsum·(lo − T_i)` and `Hsum·(hi − T_i)` when every contact
temperature lies in `[lo, hi]` -/
theorem heatFlow_bounds (p : Params ℝ) (Ts : Array ℝ) (Tsh Text lo hi : ℝ) (i : Nat)
    (hc : CoeffNonneg p i)
    (hn : ∀ j ∈ p.nbrs.getD i [], lo ≤ Ts.getD j 0 ∧ Ts.getD j 0 ≤ hi)
    (hsh : lo ≤ Tsh ∧ Tsh ≤ hi) (hext : lo ≤ Text ∧ Text ≤ hi) :
    Hsum p i * (lo - Ts.getD i 0) ≤ heatFlow p Ts Tsh Text i ∧
    heatFlow p Ts Tsh Text i ≤ Hsum p i * (hi - Ts.getD i 0) := by
  rw [heatFlow_eq]
  have hs := sum_pair_bounds (p.kInt * p.A) (Ts.getD i 0) lo hi (fun j => Ts.getD j 0)
    (p.nbrs.getD i []) hc.int hn
  unfold qPair Hsum
  have h1 := hc.ext; have h2 := hc.shelf
  constructor
  · nlinarith [hs.1, mul_le_mul_of_nonneg_left hext.1 h1, mul_le_mul_of_nonneg_left hsh.1 h2]
  · nlinarith [hs.2, mul_le_mul_of_nonneg_left hext.2 h1, mul_le_mul_of_nonneg_left hsh.2 h2]

/-! ### liquid step: convex combination -/

theorem liquid_core (hl Hs dt q T lo hi : ℝ) (hhl : 0 < hl) (hdt : 0 < dt)
    (hcfl : dt * Hs ≤ hl) (hq1 : Hs * (lo - T) ≤ q) (hq2 : q ≤ Hs * (hi - T))
    (hT : lo ≤ T ∧ T ≤ hi) : lo ≤ T + q / hl * dt ∧ T + q / hl * dt ≤ hi := by
  have e : T + q / hl * dt = (hl * T + q * dt) / hl := by field_simp
  rw [e, le_div_iff₀ hhl, div_le_iff₀ hhl]
  constructor
  · nlinarith [mul_le_mul_of_nonneg_left hq1 (le_of_lt hdt),
      mul_le_mul_of_nonneg_right hcfl (sub_nonneg.mpr hT.1)]
  · nlinarith [mul_le_mul_of_nonneg_left hq2 (le_of_lt hdt),
      mul_le_mul_of_nonneg_right hcfl (sub_nonneg.mpr hT.2)]

/-! ### nucleation jump -/

/-- on the curve with `0 < σ < 1` the temperature is at or below `T_eq_l` -/
theorem curve_le_TeqL (ph : Phys) (hv : ph.Valid) (σ : ℝ) (h0 : 0 < σ) (h1 : σ < 1) :
    ph.curve σ < ph.TeqL := by
  have hD := hv.D_pos
  unfold Phys.curve Phys.TeqL
  have ha : 0 < 1 - σ := by linarith
  have : 1 < 1 / (1 - σ) := by rw [lt_div_iff₀ ha]; linarith
  nlinarith

/-- eq. 11: a root of eq. 12 with `σ ≠ 1` satisfies `curve σ − Tn = σ γ` -/
theorem eq11_of_eq12 (ph : Phys) (Tn σ : ℝ) (h1 : σ ≠ 1) (h : ph.eq12 Tn σ = 0) :
    ph.curve σ - Tn = σ * ph.gamma := by
  have ha : 1 - σ ≠ 0 := fun hh => h1 (by linarith)
  unfold Phys.eq12 at h
  have hD : (ph.T_m - Tn - σ * ph.gamma) * (1 - σ) = ph.D := by linear_combination (-1 : ℝ) * h
  unfold Phys.curve
  rw [← hD]
  field_simp
  ring

/-- **both formulations**: for a supercooled vial whose supercooling does not exceed `γ`
the jump lands on the curve with `0 < σ < 1`, at or below `T_eq_l`, not below `T_nuc`. -/
theorem jump_core (ph : Phys) (hv : ph.Valid) (ii : InitIce) (Tn : ℝ) (hT : Tn < ph.TeqL)
    (hg : ph.TeqL - Tn ≤ ph.gamma) :
    let σ := sigmaJump ii ph.consts Tn
    0 < σ ∧ σ < 1 ∧ ph.curve σ < ph.TeqL ∧ Tn ≤ ph.curve σ := by
  intro σ
  have hD := hv.D_pos; have hγ := hv.gamma_pos
  cases ii with
  | direct =>
    have hs := (sigmaDirect_spec ph hv Tn hT).1
    have h0 : 0 < σ := hs.2.1
    have h1 : σ < 1 := hs.2.2
    refine ⟨h0, h1, curve_le_TeqL ph hv σ h0 h1, ?_⟩
    have := eq11_of_eq12 ph Tn σ (ne_of_lt h1) hs.1
    nlinarith
  | indirect =>
    have hs : σ = (ph.TeqL - Tn) / (ph.D + ph.lam / ph.cpl * (1 - ph.w_s)) :=
      sigmaIndirect_spec ph hv Tn
    have hgam : ph.lam / ph.cpl * (1 - ph.w_s) = ph.gamma := by unfold Phys.gamma; ring
    rw [hgam] at hs
    have hden : 0 < ph.D + ph.gamma := by linarith
    have h0 : 0 < σ := by rw [hs]; exact div_pos (by linarith) hden
    have h1 : σ < 1 := by rw [hs, div_lt_one hden]; linarith
    refine ⟨h0, h1, curve_le_TeqL ph hv σ h0 h1, ?_⟩
    -- curve σ − Tn = u − D σ/(1−σ) ≥ 0  ⇔  u ≤ γ
    have ha : 0 < 1 - σ := by linarith
    have hu : σ * (ph.D + ph.gamma) = ph.TeqL - Tn := by rw [hs]; field_simp
    unfold Phys.curve
    have e : ph.T_m - ph.D * (1 / (1 - σ)) - Tn = ((ph.TeqL - Tn) * (1 - σ) - ph.D * σ) / (1 - σ) := by
      unfold Phys.TeqL; field_simp; ring
    have : 0 ≤ ph.T_m - ph.D * (1 / (1 - σ)) - Tn := by
      rw [e]
      apply div_nonneg _ (le_of_lt ha)
      -- (u)(1−σ) − Dσ = u − σ(u + D) = σ(D+γ) − σ(u + D) = σ(γ − u)
      have : (ph.TeqL - Tn) * (1 - σ) - ph.D * σ = σ * (ph.gamma - (ph.TeqL - Tn)) := by
        linear_combination (-(1 : ℝ)) * hu
      rw [this]
      exact mul_nonneg (le_of_lt h0) (by linarith)
    linarith

/-! ### solidifying step -/

/-- cooling half of the solidifying step (`q ≤ 0`): `a = 1 − σ`, `Δ = σ' − σ`, `Tlo = T − lo`. -/
theorem solid_cool (m cp cmin D L dt q Hs Tlo a B Δ : ℝ)
    (hm : 0 < m) (hcmin : 0 < cmin) (hcp : cmin ≤ cp) (hD : 0 < D) (hL : 0 < L) (hdt : 0 < dt)
    (ha : 0 < a) (_ha1 : a < 1)
    (hB : B = cp * (D / a ^ 2) + L) (hΔeq : Δ * (m * B) = -(q * dt)) (hq : q ≤ 0)
    (hq1 : -q ≤ Hs * Tlo) (hT : 0 ≤ Tlo) (G : ℝ) (hHs : 0 ≤ Hs) (hG : Tlo ≤ G)
    (hX : (dt * Hs * G) ^ 2 ≤ m ^ 2 * (cmin * D * L)) (hcfl : 2 * (dt * Hs) ≤ m * cmin) :
    0 ≤ Δ ∧ Δ ≤ a / 2 ∧ D * Δ ≤ Tlo * (a * (a - Δ)) := by
  have hcp0 : 0 < cp := lt_of_lt_of_le hcmin hcp
  have ha2 : 0 < a ^ 2 := pow_pos ha 2
  have hB0 : 0 < B := by rw [hB]; positivity
  have hmB : 0 < m * B := mul_pos hm hB0
  have hqdt : 0 ≤ -(q * dt) := by
    have : q * dt ≤ 0 := mul_nonpos_of_nonpos_of_nonneg hq (le_of_lt hdt)
    linarith
  have hΔ0 : 0 ≤ Δ := by
    have h2 : 0 ≤ Δ * (m * B) := by rw [hΔeq]; exact hqdt
    exact nonneg_of_mul_nonneg_left h2 hmB
  have hBa : cp * D ≤ B * a ^ 2 := by
    have e : B * a ^ 2 = cp * D + L * a ^ 2 := by rw [hB]; field_simp
    rw [e]; have := mul_pos hL ha2; linarith
  -- Δ·m·cp·D ≤ (−q dt)·a²
  have h1 : Δ * (m * (cp * D)) ≤ -(q * dt) * a ^ 2 := by
    have : Δ * (m * (cp * D)) ≤ Δ * (m * (B * a ^ 2)) :=
      mul_le_mul_of_nonneg_left (mul_le_mul_of_nonneg_left hBa (le_of_lt hm)) hΔ0
    calc Δ * (m * (cp * D)) ≤ Δ * (m * (B * a ^ 2)) := this
      _ = (Δ * (m * B)) * a ^ 2 := by ring
      _ = -(q * dt) * a ^ 2 := by rw [hΔeq]
  have hBq : -(q * dt) ≤ dt * Hs * Tlo := by
    have := mul_le_mul_of_nonneg_left hq1 (le_of_lt hdt)
    linarith
  -- Δ ≤ a/2 :  2a·(−q dt) ≤ 2a·x ≤ m cp D + a² m L = a² m B   (AM–GM, x = dt Hs G)
  have hx0 : 0 ≤ dt * Hs * G := by
    have : 0 ≤ G := le_trans hT hG
    positivity
  have hEx : -(q * dt) ≤ dt * Hs * G := by
    have : dt * Hs * Tlo ≤ dt * Hs * G :=
      mul_le_mul_of_nonneg_left hG (mul_nonneg (le_of_lt hdt) hHs)
    linarith
  have hamgm : 2 * a * (dt * Hs * G) ≤ m * (cp * D) + a ^ 2 * (m * L) := by
    have hy0 : 0 ≤ m * (cp * D) + a ^ 2 * (m * L) := by positivity
    have hsq : (2 * a * (dt * Hs * G)) ^ 2 ≤ (m * (cp * D) + a ^ 2 * (m * L)) ^ 2 := by
      have h4 : (2 * a * (dt * Hs * G)) ^ 2 = 4 * a ^ 2 * (dt * Hs * G) ^ 2 := by ring
      have h5 : 4 * a ^ 2 * (dt * Hs * G) ^ 2 ≤ 4 * a ^ 2 * (m ^ 2 * (cmin * D * L)) :=
        mul_le_mul_of_nonneg_left hX (by positivity)
      have h6 : 4 * a ^ 2 * (m ^ 2 * (cmin * D * L)) ≤ 4 * a ^ 2 * (m ^ 2 * (cp * D * L)) := by
        apply mul_le_mul_of_nonneg_left _ (by positivity)
        apply mul_le_mul_of_nonneg_left _ (by positivity)
        exact mul_le_mul_of_nonneg_right (mul_le_mul_of_nonneg_right hcp (le_of_lt hD)) (le_of_lt hL)
      have h7 : (m * (cp * D) + a ^ 2 * (m * L)) ^ 2 - 4 * a ^ 2 * (m ^ 2 * (cp * D * L))
          = (m * (cp * D) - a ^ 2 * (m * L)) ^ 2 := by ring
      nlinarith [sq_nonneg (m * (cp * D) - a ^ 2 * (m * L))]
    exact le_of_sq_le_sq hsq hy0
  have hΔa' : Δ ≤ a / 2 := by
    have e : a ^ 2 * (m * B) = m * (cp * D) + a ^ 2 * (m * L) := by
      rw [hB]; field_simp
    have h8 : 2 * a * (Δ * (m * B)) ≤ a ^ 2 * (m * B) := by
      rw [hΔeq, e]
      have : 2 * a * -(q * dt) ≤ 2 * a * (dt * Hs * G) :=
        mul_le_mul_of_nonneg_left hEx (by positivity)
      linarith
    have h9 : (2 * Δ) * (a * (m * B)) ≤ a * (a * (m * B)) := by
      have e1 : (2 * Δ) * (a * (m * B)) = 2 * a * (Δ * (m * B)) := by ring
      have e2 : a * (a * (m * B)) = a ^ 2 * (m * B) := by ring
      rw [e1, e2]; exact h8
    have hpos : 0 < a * (m * B) := mul_pos ha hmB
    have := le_of_mul_le_mul_right h9 hpos
    linarith
  refine ⟨hΔ0, hΔa', ?_⟩
  -- D Δ m cp ≤ (−q dt) a²  and  2(−q dt) ≤ Tlo m cp
  have hcfl' : -(q * dt) * 2 ≤ Tlo * (m * cp) := by
    have hy : 2 * (dt * Hs) * Tlo ≤ m * cmin * Tlo := mul_le_mul_of_nonneg_right hcfl hT
    have hz : m * cmin * Tlo ≤ m * cp * Tlo := by
      apply mul_le_mul_of_nonneg_right _ hT
      exact mul_le_mul_of_nonneg_left hcp (le_of_lt hm)
    linarith
  have hmcp : 0 < m * cp := mul_pos hm hcp0
  have hDΔ : D * Δ ≤ Tlo * (a ^ 2 / 2) := by
    have h3 : -(q * dt) * a ^ 2 ≤ Tlo * (m * cp) * (a ^ 2 / 2) := by
      have := mul_le_mul_of_nonneg_right hcfl' (le_of_lt (half_pos ha2))
      linarith
    have : D * Δ * (m * cp) ≤ Tlo * (a ^ 2 / 2) * (m * cp) := by
      have e1 : D * Δ * (m * cp) = Δ * (m * (cp * D)) := by ring
      have e2 : Tlo * (a ^ 2 / 2) * (m * cp) = Tlo * (m * cp) * (a ^ 2 / 2) := by ring
      rw [e1, e2]; linarith
    exact le_of_mul_le_mul_right this hmcp
  have haa' : a ^ 2 / 2 ≤ a * (a - Δ) := by
    have : a * Δ ≤ a * (a / 2) := mul_le_mul_of_nonneg_left hΔa' (le_of_lt ha)
    have e : a * (a - Δ) = a ^ 2 - a * Δ := by ring
    have e2 : a * (a / 2) = a ^ 2 / 2 := by ring
    rw [e]; linarith
  calc D * Δ ≤ Tlo * (a ^ 2 / 2) := hDΔ
    _ ≤ Tlo * (a * (a - Δ)) := mul_le_mul_of_nonneg_left haa' hT

/-- warming half of the solidifying step (`q > 0`): the ice present absorbs the heat -/
theorem solid_warm (m L dt q σ B Δ : ℝ) (hm : 0 < m) (hL : 0 < L) (hdt : 0 < dt)
    (hσ0 : 0 < σ) (hBL : L < B) (hΔeq : Δ * (m * B) = -(q * dt)) (hq : 0 < q)
    (hside : q * dt ≤ σ * m * L) : Δ < 0 ∧ -Δ < σ := by
  have hB0 : 0 < B := lt_trans hL hBL
  have hmB : 0 < m * B := mul_pos hm hB0
  have hqdt : 0 < q * dt := mul_pos hq hdt
  have hΔneg : Δ < 0 := by
    by_contra hcon
    have := mul_nonneg (not_lt.mp hcon) (le_of_lt hmB)
    linarith
  refine ⟨hΔneg, ?_⟩
  have h1 : (-Δ) * (m * B) = q * dt := by linarith
  have h2 : σ * m * L < σ * (m * B) := by
    have : m * L < m * B := mul_lt_mul_of_pos_left hBL hm
    have := mul_lt_mul_of_pos_left this hσ0
    linarith
  have : (-Δ) * (m * B) < σ * (m * B) := by linarith
  exact lt_of_mul_lt_mul_right this (le_of_lt hmB)

/-- **solidifying step** (pure reals): `B` the bracket of eq. 5, `Tm − D/(1−σ)` the old
temperature; stability conditions `hX`, `hcfl`; side condition `hside` for a warmed vial. -/
theorem solid_core (m cp cmin D L dt q Hs Tm lo σ B : ℝ)
    (hm : 0 < m) (hcmin : 0 < cmin) (hcp : cmin ≤ cp) (hD : 0 < D) (hL : 0 < L) (hdt : 0 < dt)
    (hσ0 : 0 < σ) (hσ1 : σ < 1)
    (hB : B = cp * (D / (1 - σ) ^ 2) + L)
    (hlo : lo ≤ Tm - D * (1 / (1 - σ)))
    (hq1 : Hs * (lo - (Tm - D * (1 / (1 - σ)))) ≤ q)
    (hHs : 0 ≤ Hs) (G : ℝ) (hG : (Tm - D * (1 / (1 - σ))) - lo ≤ G)
    (hX : (dt * Hs * G) ^ 2 ≤ m ^ 2 * (cmin * D * L))
    (hcfl : 2 * (dt * Hs) ≤ m * cmin)
    (hside : 0 < q → q * dt ≤ σ * m * L) :
    0 < σ - q * dt / (m * B) ∧ σ - q * dt / (m * B) < 1 ∧
      lo ≤ Tm - D * (1 / (1 - (σ - q * dt / (m * B)))) := by
  have ha : 0 < 1 - σ := by linarith
  have ha1 : 1 - σ < 1 := by linarith
  have hcp0 : 0 < cp := lt_of_lt_of_le hcmin hcp
  have hB0 : 0 < B := by rw [hB]; positivity
  have hBL : L < B := by
    rw [hB]
    have : 0 < cp * (D / (1 - σ) ^ 2) := by positivity
    linarith
  have hmB : m * B ≠ 0 := ne_of_gt (mul_pos hm hB0)
  obtain ⟨Δ, hΔ⟩ : ∃ Δ, Δ = -(q * dt / (m * B)) := ⟨_, rfl⟩
  have hΔeq : Δ * (m * B) = -(q * dt) := by rw [hΔ]; field_simp
  have hσ' : σ - q * dt / (m * B) = σ + Δ := by rw [hΔ]; ring
  rw [hσ']
  rcases le_or_gt q 0 with hq | hq
  · have hc := solid_cool m cp cmin D L dt q Hs ((Tm - D * (1 / (1 - σ))) - lo) (1 - σ) B Δ
      hm hcmin hcp hD hL hdt ha ha1 hB hΔeq hq (by linarith) (by linarith) G hHs hG hX hcfl
    obtain ⟨h0, h1, h2⟩ := hc
    have ha' : 0 < 1 - σ - Δ := by linarith
    refine ⟨by linarith, by linarith, ?_⟩
    have e : 1 - (σ + Δ) = 1 - σ - Δ := by ring
    rw [e]
    have hdiff : (Tm - D * (1 / (1 - σ))) - (Tm - D * (1 / (1 - σ - Δ)))
        = D * Δ / ((1 - σ) * (1 - σ - Δ)) := by
      have h1' : 1 - σ ≠ 0 := ne_of_gt ha
      have h2' : 1 - σ - Δ ≠ 0 := ne_of_gt ha'
      field_simp
      ring
    have hfin : D * Δ / ((1 - σ) * (1 - σ - Δ)) ≤ (Tm - D * (1 / (1 - σ))) - lo := by
      rw [div_le_iff₀ (mul_pos ha ha')]
      exact h2
    linarith
  · obtain ⟨h0, h1⟩ := solid_warm m L dt q σ B Δ hm hL hdt hσ0 hBL hΔeq hq (hside hq)
    refine ⟨by linarith, by linarith, ?_⟩
    have e : 1 - (σ + Δ) = 1 - σ - Δ := by ring
    rw [e]
    have hlt : 1 - σ < 1 - σ - Δ := by linarith
    have : 1 / (1 - σ - Δ) < 1 / (1 - σ) := one_div_lt_one_div_of_lt ha hlt
    have := mul_lt_mul_of_pos_left this hD
    linarith

/-! ### the three shapes of a vial transition (model level) and plumbing -/

section
variable {α : Type} [Transc α]

/-- the new vial value is literally one of three records -/
theorem vialStep_cases (p : Params α) (tk : α) (isCN anyS : Bool) (v : Vial α) (q kb die : α) :
    let m := vialMid p tk anyS v q
    let v' := vialFinal p tk isCN m kb die
    (isLiquid v = true ∧ nucleates p isCN m kb die = false ∧
        v' = { v with T := liquidTemp p.c p.dt q v.T, tSol := tSolUpdate p tk anyS v }) ∨
    (isLiquid v = true ∧ nucleates p isCN m kb die = true ∧
        decide (liquidTemp p.c p.dt q v.T < p.c.T_eq_l) = true ∧
        v' = { v with
          T := eqTemp p.c (sigmaJump p.initIce p.c (liquidTemp p.c p.dt q v.T))
          sigma := sigmaJump p.initIce p.c (liquidTemp p.c p.dt q v.T)
          tNuc := some (tk + p.dt)
          TNuc := some (liquidTemp p.c p.dt q v.T)
          tSol := tSolUpdate p tk anyS v }) ∨
    (isLiquid v = false ∧ nucleates p isCN m kb die = false ∧
        v' = { v with
          T := eqTemp p.c (solidSigma p.c p.dt q v.sigma)
          sigma := solidSigma p.c p.dt q v.sigma
          tSol := tSolUpdate p tk anyS v }) := by
  intro m v'
  by_cases hl : isLiquid v = true
  · have hm : m = ⟨{ v with T := liquidTemp p.c p.dt q v.T, tSol := tSolUpdate p tk anyS v }, true⟩ := by
      simp only [m, vialMid, hl, if_true]
    by_cases hn : nucleates p isCN m kb die = true
    · right; left
      refine ⟨hl, hn, ?_, ?_⟩
      · have := hn
        simp only [nucleates, Bool.and_eq_true, isCand] at this
        have h2 := this.1.2
        rw [hm] at h2
        exact h2
      · simp only [v', vialFinal, hn, if_true]
        rw [hm]
    · left
      have hn' : nucleates p isCN m kb die = false := by simpa using hn
      refine ⟨hl, hn', ?_⟩
      simp only [v', vialFinal, hn']
      rw [hm]
      rfl
  · right; right
    have hl' : isLiquid v = false := by simpa using hl
    have hm : m = ⟨{ v with
        T := eqTemp p.c (solidSigma p.c p.dt q v.sigma)
        sigma := solidSigma p.c p.dt q v.sigma
        tSol := tSolUpdate p tk anyS v }, false⟩ := by
      simp only [m, vialMid, hl']
      rfl
    have hn : nucleates p isCN m kb die = false := by
      simp only [nucleates, isCand, hm, Bool.false_and]
    refine ⟨hl', hn, ?_⟩
    simp only [v', vialFinal, hn]
    rw [hm]
    rfl

omit [Transc α] in
theorem temps_getD (s : State α) (j : Nat) (v : Vial α) (d : α) (h : s.vials[j]? = some v) :
    (temps s).getD j d = v.T := by
  simp [temps, Array.getD_eq_getD_getElem?, h]

end

theorem isLiquid_real (v : Vial ℝ) : isLiquid v = decide (v.sigma = 0) := by
  simp [isLiquid]

/-- closed form of the solidifying update in terms of the bracket of eq. 5 -/
theorem solidSigma_eq (ph : Phys) (h : ph.Valid) (dt q σ : ℝ) (hσ : σ ≠ 1) (hb : ph.bracket σ ≠ 0) :
    solidSigma ph.consts dt q σ = σ - q * dt / (ph.m * ph.bracket σ) := by
  have hm := h.m_pos
  have h1 : (1 - σ) ≠ 0 := fun hh => hσ (by linarith)
  have hden : ph.consts.alpha - ph.consts.depression * ph.consts.mass * cpSigma ph.consts σ
      / ((1 - σ) * (1 - σ)) = -(ph.m * ph.bracket σ) := by
    rw [cpSigma_cp]
    simp only [Phys.consts, Phys.bracket, Phys.m, Phys.D]
    field_simp
    ring
  unfold solidSigma
  simp only [one_real]
  rw [hden]
  have hmb : ph.m * ph.bracket σ ≠ 0 := mul_ne_zero (ne_of_gt hm) hb
  field_simp
  ring

end Snow.FlakeLemmas
