/-
  A concrete four-column run of the loop model over ℝ with ice: one vial of a dyadic "solution"
  (w_s = 1/2, all c_p = 1, λ = 8, D = 1, m = 1, T_m = 0, T_eq_l = −1) on a shelf held at −5 °C
  (k_shelf·A = 1/4, Δt = 1), starting at −3 °C, controlled nucleation at step 0 (P := 1, so no
  `rpow` value is needed).  The vial nucleates in step 0 (σ = 1/2) and keeps solidifying:
  σ = 1/2, 19/32, 8933/13600.  Used for the non-vacuity of the run theorems of C06 / C01.
-/
import SnowProofs.Lemmas.FlakeAdm
import SnowProofs.Lemmas.FlakeRun
import Mathlib.Tactic.NormNum

namespace Snow.FlakeExRun
open Snow Num Snow.Flake Snow.FlakeLemmas Snow.FlakeRun

noncomputable def xPhys : Phys where
  w_s := 1 / 2
  cp_s := 1
  cp_w := 1
  cp_i := 1
  lam := 8
  T_m := 0
  k_f := 1
  M_s := 1
  rho := 1
  V := 1
  b := 1

theorem xPhys_valid : xPhys.Valid := by constructor <;> simp only [xPhys] <;> norm_num
theorem x_m : xPhys.m = 1 := by simp [Phys.m, xPhys]
theorem x_D : xPhys.D = 1 := by simp only [Phys.D, xPhys]; norm_num
theorem x_cpl : xPhys.cpl = 1 := by simp only [Phys.cpl, xPhys]; norm_num
theorem x_cp (σ : ℝ) : xPhys.cp σ = 1 := by simp only [Phys.cp, xPhys]; norm_num
theorem x_TeqL : xPhys.TeqL = -1 := by unfold Phys.TeqL; rw [x_D]; simp [xPhys]
theorem x_gamma : xPhys.gamma = 4 := by unfold Phys.gamma; rw [x_cpl]; simp only [xPhys]; norm_num
theorem x_curve (σ : ℝ) : xPhys.curve σ = -(1 / (1 - σ)) := by unfold Phys.curve; rw [x_D]; simp [xPhys]

noncomputable def xParams : Params ℝ where
  c := xPhys.consts
  nbrs := [[]]
  ext := [0]
  kInt := 0
  kExt := 0
  kShelf := [1 / 4]
  A := 1
  kb := [1]
  dt := 1
  threshold := 9 / 10
  initIce := .indirect

noncomputable def xInp : Inputs ℝ where
  p := xParams
  oc := ⟨3, -5, -5, 1, []⟩
  cnTemp := none
  T0 := -3
  nVials := 1
  dice := [[0]]
  mask := [true]

noncomputable def xV1 : Vial ℝ := { T := -2, sigma := 1 / 2, tNuc := some 1, TNuc := some (-7 / 2) }
noncomputable def xV2 : Vial ℝ := { T := -32 / 13, sigma := 19 / 32, tNuc := some 1, TNuc := some (-7 / 2) }
noncomputable def xV3 : Vial ℝ :=
  { T := -13600 / 4667, sigma := 8933 / 13600, tNuc := some 1, TNuc := some (-7 / 2) }
noncomputable def xS (v : Vial ℝ) : State ℝ := ⟨#[v], []⟩

theorem x_profile : profile xInp.oc xInp.p.dt = [-5, -5, -5, -5] := by
  simp [xInp, xParams, profile, nSteps, segments, allHolds, simpleCool, arangeLen, holdCount, pyMod_real]

theorem x_step0 : step xParams 0 0 (-5) (init xInp) = xS xV1 := by
  simp [step, stepCN, xInp, xParams, init, mids, diceOf, candidates, drawn, anyLiquid, anySolid, isLiquid,
    temps, heatFlow, qInt, hExt, hShelf, hDiag, hOff, vialMid, vialFinal, nucleates, isCand, probEntry,
    liquidTemp, tSolUpdate, assignDice, timeAt, sigmaJump, sigmaIndirect, eqTemp, xS, xV1, Phys.consts, xPhys]
  norm_num [assignDice]

theorem x_step1 : step xParams 0 1 (-5) (xS xV1) = xS xV2 := by
  simp [step, stepCN, xParams, mids, diceOf, candidates, drawn, anyLiquid, anySolid, isLiquid,
    temps, heatFlow, qInt, hExt, hShelf, hDiag, hOff, vialMid, vialFinal, nucleates, isCand, probEntry,
    liquidTemp, tSolUpdate, assignDice, timeAt, solidSigma, cpSigma, eqTemp, xS, xV1, xV2, Phys.consts, xPhys]
  norm_num

theorem x_step2 : step xParams 0 2 (-5) (xS xV2) = xS xV3 := by
  simp [step, stepCN, xParams, mids, diceOf, candidates, drawn, anyLiquid, anySolid, isLiquid,
    temps, heatFlow, qInt, hExt, hShelf, hDiag, hOff, vialMid, vialFinal, nucleates, isCand, probEntry,
    liquidTemp, tSolUpdate, assignDice, timeAt, solidSigma, cpSigma, eqTemp, xS, xV2, xV3, Phys.consts, xPhys]
  norm_num

/-- the four recorded columns of the run -/
theorem x_traj : (runWith xInp 0).traj.toList = [init xInp, xS xV1, xS xV2, xS xV3] := by
  rw [runWith_traj, x_profile]
  have hp : xInp.p = xParams := rfl
  simp only [trajList, Nat.zero_add, Nat.reduceAdd, hp]
  rw [x_step0, x_step1, x_step2]

theorem x_Tshelf : (runWith xInp 0).Tshelf = [-5, -5, -5, -5] := x_profile

end Snow.FlakeExRun
