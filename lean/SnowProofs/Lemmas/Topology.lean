/-
  The diagonals of the interaction pattern (`SnowModel/Topology.lean`) read off
  coordinates, the master identity `entry = [geomNbr]`, and the counting lemmas
  behind `deg`.
-/
import SnowProofs.Lemmas.Index
import Mathlib.Tactic.SplitIfs

namespace Snow.Topology

theorem succ_mod (i nx : Nat) (h : 0 < nx) :
    (i + 1) % nx = if i % nx + 1 = nx then 0 else i % nx + 1 := by
  have hd := Nat.div_add_mod i nx
  have hr := Nat.mod_lt i h
  split
  · next he =>
    have : i + 1 = nx * (i / nx + 1) := by rw [Nat.mul_succ]; omega
    rw [this, Nat.mul_mod_right]
  · next he =>
    have : i + 1 = (i % nx + 1) + nx * (i / nx) := by omega
    rw [this, Nat.add_mul_mod_self_left, Nat.mod_eq_of_lt]; omega

section
variable {nx ny nz : Nat} {c c' : Coord}

theorem coord_eq_iff (a b : Coord) : a = b ↔ a.x = b.x ∧ a.y = b.y ∧ a.z = b.z := by
  cases a; cases b; simp

/-- x-diagonal: right neighbour in the same row -/
theorem dX_iff (hc : InBox nx ny nz c) (hc' : InBox nx ny nz c') :
    dX nx (idx nx ny c) (idx nx ny c') = true ↔ (c'.x = c.x + 1 ∧ c'.y = c.y ∧ c'.z = c.z) := by
  obtain ⟨hx, hy, hz⟩ := hc
  have hpos : 0 < nx := by omega
  unfold dX
  simp only [Bool.and_eq_true, beq_iff_eq, bne_iff_ne, ne_eq]
  rw [succ_mod _ _ hpos, idx_mod_nx hx]
  constructor
  · rintro ⟨he, hne⟩
    have hx1 : c.x + 1 < nx := by
      by_cases h : c.x + 1 = nx
      · simp [h] at hne
      · omega
    have hin : InBox nx ny nz ⟨c.x + 1, c.y, c.z⟩ := ⟨hx1, hy, hz⟩
    have := idx_inj hc' hin (by rw [he, idx_x_succ])
    rw [this]; simp
  · rintro ⟨h1, h2, h3⟩
    have : c' = ⟨c.x + 1, c.y, c.z⟩ := by rw [coord_eq_iff]; exact ⟨h1, h2, h3⟩
    have hx1 : c.x + 1 < nx := by have := hc'.1; omega
    refine ⟨by rw [this, idx_x_succ], ?_⟩
    have : ¬ (c.x + 1 = nx) := by omega
    simp [this]

theorem layer_room {x y : Nat} (hx : x < nx) (hy : y < ny) :
    (x + nx * y + nx < nx * ny ↔ y + 1 < ny) := by
  constructor
  · intro h
    by_cases h1 : y + 1 < ny
    · exact h1
    · have : y + 1 = ny := by omega
      subst this; rw [Nat.mul_succ] at h; omega
  · intro h1
    have := xy_lt hx h1
    rw [Nat.mul_succ] at this; omega

/-- `k = n_x` diagonal: the vial in the next row of the same layer -/
theorem dYc_iff (hc : InBox nx ny nz c) (hc' : InBox nx ny nz c') :
    dYc nx ny (idx nx ny c) (idx nx ny c') = true ↔ (c'.x = c.x ∧ c'.y = c.y + 1 ∧ c'.z = c.z) := by
  obtain ⟨hx, hy, hz⟩ := hc
  unfold dYc
  simp only [Bool.and_eq_true, beq_iff_eq, decide_eq_true_eq]
  rw [idx_mod_layer hx hy, layer_room hx hy]
  constructor
  · rintro ⟨he, hy1⟩
    have hin : InBox nx ny nz ⟨c.x, c.y + 1, c.z⟩ := ⟨hx, hy1, hz⟩
    have := idx_inj hc' hin (by rw [he, idx_y_succ])
    rw [this]; simp
  · rintro ⟨h1, h2, h3⟩
    have : c' = ⟨c.x, c.y + 1, c.z⟩ := by rw [coord_eq_iff]; exact ⟨h1, h2, h3⟩
    refine ⟨by rw [this, idx_y_succ], ?_⟩
    have := hc'.2.1; omega

/-- hexagonal upper extra diagonal: odd rows see `x + 1` in the next row -/
theorem dYu_iff (hc : InBox nx ny nz c) (hc' : InBox nx ny nz c') :
    dYu nx ny (idx nx ny c) (idx nx ny c') = true ↔
      (c'.x = c.x + 1 ∧ c'.y = c.y + 1 ∧ c'.z = c.z ∧ c.y % 2 = 1) := by
  obtain ⟨hx, hy, hz⟩ := hc
  have hpos : 0 < nx := by omega
  unfold dYu
  simp only [Bool.and_eq_true, beq_iff_eq, bne_iff_ne, ne_eq, decide_eq_true_eq]
  rw [idx_mod_layer hx hy, succ_mod _ _ hpos, xy_mod hx, xy_div hx]
  constructor
  · rintro ⟨⟨⟨he, hroom⟩, hodd⟩, hne⟩
    have hx1 : c.x + 1 < nx := by
      by_cases h : c.x + 1 = nx
      · simp [h] at hne
      · omega
    have hy1 : c.y + 1 < ny := by
      by_cases h1 : c.y + 1 < ny
      · exact h1
      · have : c.y + 1 = ny := by omega
        subst this; rw [Nat.mul_succ] at hroom; omega
    have hin : InBox nx ny nz ⟨c.x + 1, c.y + 1, c.z⟩ := ⟨hx1, hy1, hz⟩
    have := idx_inj hc' hin (by rw [he, idx_xy_succ])
    rw [this]; simp [hodd]
  · rintro ⟨h1, h2, h3, h4⟩
    have : c' = ⟨c.x + 1, c.y + 1, c.z⟩ := by rw [coord_eq_iff]; exact ⟨h1, h2, h3⟩
    have hx1 : c.x + 1 < nx := by have := hc'.1; omega
    have hy1 : c.y + 1 < ny := by have := hc'.2.1; omega
    have hr := xy_lt hx1 hy1
    rw [Nat.mul_succ] at hr
    have hne : ¬ (c.x + 1 = nx) := by omega
    refine ⟨⟨⟨by rw [this, idx_xy_succ], by omega⟩, h4⟩, by simp [hne]⟩

/-- hexagonal lower extra diagonal: even rows see `x - 1` in the next row -/
theorem dYl_iff (hc : InBox nx ny nz c) (hc' : InBox nx ny nz c') :
    dYl nx ny (idx nx ny c) (idx nx ny c') = true ↔
      (c'.x + 1 = c.x ∧ c'.y = c.y + 1 ∧ c'.z = c.z ∧ c.y % 2 = 0) := by
  obtain ⟨hx, hy, hz⟩ := hc
  unfold dYl
  simp only [Bool.and_eq_true, beq_iff_eq, bne_iff_ne, ne_eq, decide_eq_true_eq]
  rw [idx_mod_layer hx hy, xy_mod hx, xy_div hx]
  constructor
  · rintro ⟨⟨⟨⟨hlt, he⟩, hroom⟩, hev⟩, hne⟩
    have hx1 : 1 ≤ c.x := by omega
    have hy1 : c.y + 1 < ny := by
      by_cases h1 : c.y + 1 < ny
      · exact h1
      · have : c.y + 1 = ny := by omega
        subst this; rw [Nat.mul_succ] at hroom; omega
    have hin : InBox nx ny nz ⟨c.x - 1, c.y + 1, c.z⟩ := ⟨by show c.x - 1 < nx; omega, hy1, hz⟩
    have h2 := idx_xpred_ysucc nx ny c hx1
    have := idx_inj hc' hin (by omega)
    rw [this]; simp [hev]; omega
  · rintro ⟨h1, h2, h3, h4⟩
    have hx1 : 1 ≤ c.x := by omega
    have : c' = ⟨c.x - 1, c.y + 1, c.z⟩ := by rw [coord_eq_iff]; exact ⟨by simp; omega, h2, h3⟩
    have hy1 : c.y + 1 < ny := by have := hc'.2.1; omega
    have hi := idx_xpred_ysucc nx ny c hx1
    rw [← this] at hi
    have hr := xy_lt hx hy1
    rw [Nat.mul_succ] at hr
    refine ⟨⟨⟨⟨by omega, by omega⟩, by omega⟩, h4⟩, by omega⟩

/-- z-diagonal: the vial directly above -/
theorem dZ_iff (hc : InBox nx ny nz c) (hc' : InBox nx ny nz c') :
    dZ nx ny nz (idx nx ny c) (idx nx ny c') = true ↔ (c'.x = c.x ∧ c'.y = c.y ∧ c'.z = c.z + 1) := by
  obtain ⟨hx, hy, hz⟩ := hc
  unfold dZ
  simp only [Bool.and_eq_true, beq_iff_eq, decide_eq_true_eq]
  constructor
  · rintro ⟨_, he⟩
    have hin : InBox nx ny (c.z + 2) ⟨c.x, c.y, c.z + 1⟩ := ⟨hx, hy, by simp⟩
    have h1 := coords_idx hc'
    rw [he, ← idx_z_succ, coords_idx hin] at h1
    rw [← h1]; simp
  · rintro ⟨h1, h2, h3⟩
    have : c' = ⟨c.x, c.y, c.z + 1⟩ := by rw [coord_eq_iff]; exact ⟨h1, h2, h3⟩
    refine ⟨by have := hc'.2.2; omega, by rw [this, idx_z_succ]⟩

/-- the "upward" geometric neighbours (larger index) -/
def upRel (arr : Arr) (c c' : Coord) : Prop :=
  match arr with
  | .square =>
    ((c'.x = c.x + 1 ∧ c'.y = c.y ∧ c'.z = c.z) ∨ (c'.x = c.x ∧ c'.y = c.y + 1 ∧ c'.z = c.z))
      ∨ (c'.x = c.x ∧ c'.y = c.y ∧ c'.z = c.z + 1)
  | .hexagonal =>
    (((c'.x = c.x + 1 ∧ c'.y = c.y ∧ c'.z = c.z) ∨ (c'.x = c.x ∧ c'.y = c.y + 1 ∧ c'.z = c.z))
      ∨ ((c'.x = c.x + 1 ∧ c'.y = c.y + 1 ∧ c'.z = c.z ∧ c.y % 2 = 1)
          ∨ (c'.x + 1 = c.x ∧ c'.y = c.y + 1 ∧ c'.z = c.z ∧ c.y % 2 = 0)))
      ∨ (c'.x = c.x ∧ c'.y = c.y ∧ c'.z = c.z + 1)

instance (arr : Arr) (c c' : Coord) : Decidable (upRel arr c c') := by
  unfold upRel; cases arr <;> infer_instance

theorem toNat_of_iff {b : Bool} {p : Prop} [Decidable p] (h : b = true ↔ p) :
    b.toNat = if p then 1 else 0 := by
  cases b
  · have : ¬ p := fun hp => by have := h.mpr hp; simp at this
    simp [this]
  · have : p := h.mp rfl
    simp [this]

theorem ite_add_excl {p q : Prop} [Decidable p] [Decidable q] (h : ¬ (p ∧ q)) :
    (if p then 1 else 0) + (if q then 1 else 0) = if p ∨ q then 1 else 0 := by
  by_cases hp : p <;> by_cases hq : q <;> simp [hp, hq]
  exact h ⟨hp, hq⟩

/-- the contributions of the diagonals at `(idx c, idx c')`, in coordinates -/
def upTerms (arr : Arr) (c c' : Coord) : Nat :=
  (if c'.x = c.x + 1 ∧ c'.y = c.y ∧ c'.z = c.z then 1 else 0)
  + (if c'.x = c.x ∧ c'.y = c.y + 1 ∧ c'.z = c.z then 1 else 0)
  + (match arr with
     | .square => 0
     | .hexagonal =>
        (if c'.x = c.x + 1 ∧ c'.y = c.y + 1 ∧ c'.z = c.z ∧ c.y % 2 = 1 then 1 else 0)
        + (if c'.x + 1 = c.x ∧ c'.y = c.y + 1 ∧ c'.z = c.z ∧ c.y % 2 = 0 then 1 else 0))
  + (if c'.x = c.x ∧ c'.y = c.y ∧ c'.z = c.z + 1 then 1 else 0)

theorem upCnt_terms (arr : Arr) (hc : InBox nx ny nz c) (hc' : InBox nx ny nz c') :
    upCnt arr nx ny nz (idx nx ny c) (idx nx ny c') = upTerms arr c c' := by
  unfold upCnt upTerms
  rw [toNat_of_iff (dX_iff hc hc'), toNat_of_iff (dYc_iff hc hc'), toNat_of_iff (dZ_iff hc hc')]
  cases arr
  · rfl
  · dsimp only
    rw [toNat_of_iff (dYu_iff hc hc'), toNat_of_iff (dYl_iff hc hc')]

theorem upCnt_eq (arr : Arr) (hc : InBox nx ny nz c) (hc' : InBox nx ny nz c') :
    upCnt arr nx ny nz (idx nx ny c) (idx nx ny c') = if upRel arr c c' then 1 else 0 := by
  rw [upCnt_terms arr hc hc']
  unfold upTerms
  cases arr
  · dsimp only [upRel]
    rw [Nat.add_zero, ite_add_excl, ite_add_excl] <;> omega
  · dsimp only [upRel]
    rw [ite_add_excl, ite_add_excl (p := _ ∧ _ ∧ _ ∧ _), ite_add_excl, ite_add_excl] <;> omega

theorem upRel_asymm (arr : Arr) (c c' : Coord) : ¬ (upRel arr c c' ∧ upRel arr c' c) := by
  cases arr <;> simp only [upRel] <;> omega

section intro
variable (arr : Arr) {c c' : Coord}

theorem upRel_x (h : c'.x = c.x + 1 ∧ c'.y = c.y ∧ c'.z = c.z) : upRel arr c c' := by
  cases arr
  · exact Or.inl (Or.inl h)
  · exact Or.inl (Or.inl (Or.inl h))

theorem upRel_y (h : c'.x = c.x ∧ c'.y = c.y + 1 ∧ c'.z = c.z) : upRel arr c c' := by
  cases arr
  · exact Or.inl (Or.inr h)
  · exact Or.inl (Or.inl (Or.inr h))

theorem upRel_z (h : c'.x = c.x ∧ c'.y = c.y ∧ c'.z = c.z + 1) : upRel arr c c' := by
  cases arr
  · exact Or.inr h
  · exact Or.inr h

theorem upRel_hu (h : c'.x = c.x + 1 ∧ c'.y = c.y + 1 ∧ c'.z = c.z ∧ c.y % 2 = 1) :
    upRel .hexagonal c c' := Or.inl (Or.inr (Or.inl h))

theorem upRel_hl (h : c'.x + 1 = c.x ∧ c'.y = c.y + 1 ∧ c'.z = c.z ∧ c.y % 2 = 0) :
    upRel .hexagonal c c' := Or.inl (Or.inr (Or.inr h))

end intro

/-- hexagonal, adjacent rows `y' = y + 1` in the same layer at half a pitch -/
theorem hex_adjacent_up {c c' : Coord} (hz : c.z = c'.z) (hy : c'.y = c.y + 1)
    (hd : dist (hexPos c) (hexPos c') = 1) : upRel .hexagonal c c' := by
  unfold dist hexPos at hd
  rcases Nat.mod_two_eq_zero_or_one c.y with hp | hp
  · have hx : c'.x = c.x ∨ c'.x + 1 = c.x := by omega
    rcases hx with hx | hx
    · exact upRel_y _ ⟨hx, hy, hz.symm⟩
    · exact upRel_hl ⟨hx, hy, hz.symm, hp⟩
  · have hx : c'.x = c.x ∨ c'.x = c.x + 1 := by omega
    rcases hx with hx | hx
    · exact upRel_y _ ⟨hx, hy, hz.symm⟩
    · exact upRel_hu ⟨hx, hy, hz.symm, hp⟩

theorem dist_comm (a b : Nat) : dist a b = dist b a := by unfold dist; omega

theorem geomNbr_of_upRel (arr : Arr) {c c' : Coord} (h : upRel arr c c') : geomNbr arr c c' = true := by
  cases arr
  · simp only [geomNbr, dist, beq_iff_eq]
    simp only [upRel] at h
    omega
  · simp only [geomNbr, dist, hexPos, beq_iff_eq, Bool.or_eq_true, Bool.and_eq_true]
    rcases h with ((⟨h1, h2, h3⟩ | ⟨h1, h2, h3⟩) | (⟨h1, h2, h3, h4⟩ | ⟨h1, h2, h3, h4⟩)) | ⟨h1, h2, h3⟩
    · exact Or.inl ⟨h3.symm, Or.inl ⟨h2.symm, by omega⟩⟩
    · exact Or.inl ⟨h3.symm, Or.inr ⟨by omega, by omega⟩⟩
    · exact Or.inl ⟨h3.symm, Or.inr ⟨by omega, by omega⟩⟩
    · exact Or.inl ⟨h3.symm, Or.inr ⟨by omega, by omega⟩⟩
    · exact Or.inr ⟨⟨h1.symm, h2.symm⟩, by omega⟩

theorem geomNbr_symm (arr : Arr) (c c' : Coord) : geomNbr arr c c' = geomNbr arr c' c := by
  cases arr
  · simp only [geomNbr, dist_comm c.x, dist_comm c.y, dist_comm c.z]
  · simp only [geomNbr, dist_comm c.y, dist_comm c.z, dist_comm (hexPos c),
      Bool.beq_comm (a := c.z), Bool.beq_comm (a := c.y), Bool.beq_comm (a := c.x)]

/-- the geometric neighbour relation is the symmetric closure of the upward one -/
theorem geomNbr_iff (arr : Arr) (c c' : Coord) :
    geomNbr arr c c' = true ↔ (upRel arr c c' ∨ upRel arr c' c) := by
  cases arr
  · simp only [geomNbr, upRel, dist, beq_iff_eq]
    omega
  constructor
  · intro h
    simp only [geomNbr, beq_iff_eq, Bool.or_eq_true, Bool.and_eq_true] at h
    rcases h with ⟨hz, ⟨hy, hd⟩ | ⟨hdy, hdp⟩⟩ | ⟨⟨hx, hy⟩, hdz⟩
    · unfold dist hexPos at hd
      have hx : c'.x = c.x + 1 ∨ c.x = c'.x + 1 := by omega
      rcases hx with hx | hx
      · exact Or.inl (upRel_x _ ⟨hx, hy.symm, hz.symm⟩)
      · exact Or.inr (upRel_x _ ⟨hx, hy, hz⟩)
    · have hy : c'.y = c.y + 1 ∨ c.y = c'.y + 1 := by unfold dist at hdy; omega
      rcases hy with hy | hy
      · exact Or.inl (hex_adjacent_up hz hy hdp)
      · exact Or.inr (hex_adjacent_up hz.symm hy (by rw [dist_comm]; exact hdp))
    · have hz : c'.z = c.z + 1 ∨ c.z = c'.z + 1 := by unfold dist at hdz; omega
      rcases hz with hz | hz
      · exact Or.inl (upRel_z _ ⟨hx.symm, hy.symm, hz⟩)
      · exact Or.inr (upRel_z _ ⟨hx, hy, hz⟩)
  · rintro (h | h)
    · exact geomNbr_of_upRel _ h
    · rw [geomNbr_symm]; exact geomNbr_of_upRel _ h

/-- **master identity**: the matrix entry at two vials is 1 if they are geometric
neighbours and 0 otherwise -/
theorem entry_eq (arr : Arr) (hc : InBox nx ny nz c) (hc' : InBox nx ny nz c') :
    entry arr nx ny nz (idx nx ny c) (idx nx ny c') = if geomNbr arr c c' = true then 1 else 0 := by
  unfold entry
  rw [upCnt_eq arr hc hc', upCnt_eq arr hc' hc, ite_add_excl (upRel_asymm arr c c')]
  by_cases h : upRel arr c c' ∨ upRel arr c' c
  · rw [if_pos h, if_pos ((geomNbr_iff arr c c').mpr h)]
  · rw [if_neg h, if_neg (fun hg => h ((geomNbr_iff arr c c').mp hg))]

end

/-! ### sums over the vial indices -/

/-- `Σ_{j < N} f j` -/
def S (N : Nat) (f : Nat → Nat) : Nat := ((List.range N).map f).sum

theorem S_succ (N : Nat) (f : Nat → Nat) : S (N + 1) f = S N f + f N := by
  simp [S, List.range_succ]

theorem S_congr {N : Nat} {f g : Nat → Nat} (h : ∀ j, j < N → f j = g j) : S N f = S N g := by
  induction N with
  | zero => rfl
  | succ n ih =>
    rw [S_succ, S_succ, ih (fun j hj => h j (Nat.lt_succ_of_lt hj)), h n (Nat.lt_succ_self n)]

theorem S_add (N : Nat) (f g : Nat → Nat) : S N (fun j => f j + g j) = S N f + S N g := by
  induction N with
  | zero => rfl
  | succ n ih => rw [S_succ, S_succ, S_succ, ih]; omega

theorem S_zero (N : Nat) : S N (fun _ => 0) = 0 := by
  induction N with
  | zero => rfl
  | succ n ih => rw [S_succ, ih]

theorem S_point (N a : Nat) : S N (fun j => if j = a then 1 else 0) = if a < N then 1 else 0 := by
  induction N with
  | zero => simp [S]
  | succ n ih =>
    rw [S_succ, ih]
    by_cases h1 : a < n
    · have : ¬ n = a := by omega
      simp [h1, this]; omega
    · by_cases h2 : n = a
      · subst h2; simp
      · have : ¬ a < n + 1 := by omega
        simp [h1, h2, this]

theorem S_le_of_le {N : Nat} {f g : Nat → Nat} (h : ∀ j, j < N → f j ≤ g j) : S N f ≤ S N g := by
  induction N with
  | zero => simp [S]
  | succ n ih =>
    rw [S_succ, S_succ]
    have := ih (fun j hj => h j (Nat.lt_succ_of_lt hj))
    have := h n (Nat.lt_succ_self n)
    omega

theorem S_indicator_eq_filter (N : Nat) (p : Nat → Bool) :
    S N (fun j => if p j = true then 1 else 0) = ((List.range N).filter p).length := by
  induction N with
  | zero => rfl
  | succ n ih =>
    rw [S_succ, ih, List.range_succ, List.filter_append, List.length_append]
    cases h : p n <;> simp [h]

section
variable {nx ny nz : Nat}

/-- a predicate on coordinates that pins the vial down to one target `t` (under a guard `G`)
is met by exactly one index if `G` holds and `t` lies in the box, by none otherwise -/
theorem S_target (t : Coord) (G : Prop) [Decidable G] (P : Coord → Prop) [DecidablePred P]
    (hP : ∀ cj, InBox nx ny nz cj → (P cj ↔ (cj.x = t.x ∧ cj.y = t.y ∧ cj.z = t.z) ∧ G)) :
    S (nTot nx ny nz) (fun j => if P (coords nx ny j) then 1 else 0)
      = if G ∧ InBox nx ny nz t then 1 else 0 := by
  by_cases hG : G ∧ InBox nx ny nz t
  · obtain ⟨hg, ht⟩ := hG
    rw [if_pos ⟨hg, ht⟩]
    have : S (nTot nx ny nz) (fun j => if P (coords nx ny j) then 1 else 0)
        = S (nTot nx ny nz) (fun j => if j = idx nx ny t then 1 else 0) := by
      apply S_congr
      intro j hj
      have hin := coords_inBox hj
      have : P (coords nx ny j) ↔ j = idx nx ny t := by
        rw [hP _ hin]
        constructor
        · rintro ⟨he, _⟩
          have : coords nx ny j = t := (coord_eq_iff _ _).mpr he
          rw [← this, idx_coords]
        · intro he
          subst he
          rw [coords_idx ht]
          exact ⟨⟨rfl, rfl, rfl⟩, hg⟩
      by_cases h : j = idx nx ny t
      · rw [if_pos (this.mpr h), if_pos h]
      · rw [if_neg (fun hp => h (this.mp hp)), if_neg h]
    rw [this, S_point, if_pos (idx_lt ht)]
  · rw [if_neg hG]
    have : S (nTot nx ny nz) (fun j => if P (coords nx ny j) then 1 else 0)
        = S (nTot nx ny nz) (fun _ => 0) := by
      apply S_congr
      intro j hj
      have hin := coords_inBox hj
      rw [if_neg]
      intro hp
      obtain ⟨he, hg⟩ := (hP _ hin).mp hp
      have : coords nx ny j = t := (coord_eq_iff _ _).mpr he
      exact hG ⟨hg, this ▸ hin⟩
    rw [this, S_zero]

/-- closed form of the number of neighbours of the vial at `c` -/
def degC (arr : Arr) (nx ny nz : Nat) (c : Coord) : Nat :=
  (if c.x + 1 < nx then 1 else 0) + (if c.y + 1 < ny then 1 else 0)
  + (match arr with
     | .square => 0
     | .hexagonal =>
        (if c.y % 2 = 1 ∧ c.x + 1 < nx ∧ c.y + 1 < ny then 1 else 0)
        + (if c.y % 2 = 0 ∧ 1 ≤ c.x ∧ c.y + 1 < ny then 1 else 0))
  + (if c.z + 1 < nz then 1 else 0)
  + ((if 1 ≤ c.x then 1 else 0) + (if 1 ≤ c.y then 1 else 0)
  + (match arr with
     | .square => 0
     | .hexagonal =>
        (if c.y % 2 = 0 ∧ 1 ≤ c.x ∧ 1 ≤ c.y then 1 else 0)
        + (if c.y % 2 = 1 ∧ c.x + 1 < nx then 1 else 0))
  + (if 1 ≤ c.z then 1 else 0))

theorem S_target' (t : Coord) (G : Prop) [Decidable G] (P : Coord → Prop) [DecidablePred P]
    (Q : Prop) [Decidable Q]
    (hP : ∀ cj, InBox nx ny nz cj → (P cj ↔ (cj.x = t.x ∧ cj.y = t.y ∧ cj.z = t.z) ∧ G))
    (hQ : Q ↔ (G ∧ InBox nx ny nz t)) :
    S (nTot nx ny nz) (fun j => if P (coords nx ny j) then 1 else 0) = if Q then 1 else 0 := by
  rw [S_target t G P hP]
  by_cases h : Q
  · rw [if_pos h, if_pos (hQ.mp h)]
  · rw [if_neg h, if_neg (fun hg => h (hQ.mpr hg))]

theorem deg_closed (arr : Arr) {c : Coord} (hc : InBox nx ny nz c) :
    deg arr nx ny nz (idx nx ny c) = degC arr nx ny nz c := by
  have h0 : deg arr nx ny nz (idx nx ny c)
      = S (nTot nx ny nz) (fun j => upTerms arr c (coords nx ny j) + upTerms arr (coords nx ny j) c) := by
    show S (nTot nx ny nz) (entry arr nx ny nz (idx nx ny c)) = _
    apply S_congr
    intro j hj
    have hin := coords_inBox hj
    unfold entry
    rw [← upCnt_terms arr hc hin, ← upCnt_terms arr hin hc, idx_coords]
  obtain ⟨hx, hy, hz⟩ := hc
  rw [h0, S_add]
  -- upward terms
  have u1 : S (nTot nx ny nz) (fun j => if (coords nx ny j).x = c.x + 1 ∧ (coords nx ny j).y = c.y
        ∧ (coords nx ny j).z = c.z then 1 else 0) = if c.x + 1 < nx then 1 else 0 :=
    S_target' ⟨c.x + 1, c.y, c.z⟩ True (fun cj => cj.x = c.x + 1 ∧ cj.y = c.y ∧ cj.z = c.z) _
      (by intro cj _; simp) (by simp only [InBox, true_and]; omega)
  have u2 : S (nTot nx ny nz) (fun j => if (coords nx ny j).x = c.x ∧ (coords nx ny j).y = c.y + 1
        ∧ (coords nx ny j).z = c.z then 1 else 0) = if c.y + 1 < ny then 1 else 0 :=
    S_target' ⟨c.x, c.y + 1, c.z⟩ True (fun cj => cj.x = c.x ∧ cj.y = c.y + 1 ∧ cj.z = c.z) _
      (by intro cj _; simp) (by simp only [InBox, true_and]; omega)
  have u5 : S (nTot nx ny nz) (fun j => if (coords nx ny j).x = c.x ∧ (coords nx ny j).y = c.y
        ∧ (coords nx ny j).z = c.z + 1 then 1 else 0) = if c.z + 1 < nz then 1 else 0 :=
    S_target' ⟨c.x, c.y, c.z + 1⟩ True (fun cj => cj.x = c.x ∧ cj.y = c.y ∧ cj.z = c.z + 1) _
      (by intro cj _; simp) (by simp only [InBox, true_and]; omega)
  have d1 : S (nTot nx ny nz) (fun j => if c.x = (coords nx ny j).x + 1 ∧ c.y = (coords nx ny j).y
        ∧ c.z = (coords nx ny j).z then 1 else 0) = if 1 ≤ c.x then 1 else 0 :=
    S_target' ⟨c.x - 1, c.y, c.z⟩ (1 ≤ c.x) (fun cj => c.x = cj.x + 1 ∧ c.y = cj.y ∧ c.z = cj.z) _
      (by intro cj _; dsimp only; omega) (by simp only [InBox]; omega)
  have d2 : S (nTot nx ny nz) (fun j => if c.x = (coords nx ny j).x ∧ c.y = (coords nx ny j).y + 1
        ∧ c.z = (coords nx ny j).z then 1 else 0) = if 1 ≤ c.y then 1 else 0 :=
    S_target' ⟨c.x, c.y - 1, c.z⟩ (1 ≤ c.y) (fun cj => c.x = cj.x ∧ c.y = cj.y + 1 ∧ c.z = cj.z) _
      (by intro cj _; dsimp only; omega) (by simp only [InBox]; omega)
  have d5 : S (nTot nx ny nz) (fun j => if c.x = (coords nx ny j).x ∧ c.y = (coords nx ny j).y
        ∧ c.z = (coords nx ny j).z + 1 then 1 else 0) = if 1 ≤ c.z then 1 else 0 :=
    S_target' ⟨c.x, c.y, c.z - 1⟩ (1 ≤ c.z) (fun cj => c.x = cj.x ∧ c.y = cj.y ∧ c.z = cj.z + 1) _
      (by intro cj _; dsimp only; omega) (by simp only [InBox]; omega)
  cases arr
  · simp only [upTerms, degC, Nat.add_zero, S_add]
    rw [u1, u2, u5, d1, d2, d5]
  · have u3 : S (nTot nx ny nz) (fun j => if (coords nx ny j).x = c.x + 1 ∧ (coords nx ny j).y = c.y + 1
          ∧ (coords nx ny j).z = c.z ∧ c.y % 2 = 1 then 1 else 0)
        = if c.y % 2 = 1 ∧ c.x + 1 < nx ∧ c.y + 1 < ny then 1 else 0 :=
      S_target' ⟨c.x + 1, c.y + 1, c.z⟩ (c.y % 2 = 1)
        (fun cj => cj.x = c.x + 1 ∧ cj.y = c.y + 1 ∧ cj.z = c.z ∧ c.y % 2 = 1) _
        (by intro cj _; dsimp only; omega) (by simp only [InBox]; omega)
    have u4 : S (nTot nx ny nz) (fun j => if (coords nx ny j).x + 1 = c.x ∧ (coords nx ny j).y = c.y + 1
          ∧ (coords nx ny j).z = c.z ∧ c.y % 2 = 0 then 1 else 0)
        = if c.y % 2 = 0 ∧ 1 ≤ c.x ∧ c.y + 1 < ny then 1 else 0 :=
      S_target' ⟨c.x - 1, c.y + 1, c.z⟩ (1 ≤ c.x ∧ c.y % 2 = 0)
        (fun cj => cj.x + 1 = c.x ∧ cj.y = c.y + 1 ∧ cj.z = c.z ∧ c.y % 2 = 0) _
        (by intro cj _; dsimp only; omega) (by simp only [InBox]; omega)
    have d3 : S (nTot nx ny nz) (fun j => if c.x = (coords nx ny j).x + 1 ∧ c.y = (coords nx ny j).y + 1
          ∧ c.z = (coords nx ny j).z ∧ (coords nx ny j).y % 2 = 1 then 1 else 0)
        = if c.y % 2 = 0 ∧ 1 ≤ c.x ∧ 1 ≤ c.y then 1 else 0 :=
      S_target' ⟨c.x - 1, c.y - 1, c.z⟩ (1 ≤ c.x ∧ 1 ≤ c.y ∧ c.y % 2 = 0)
        (fun cj => c.x = cj.x + 1 ∧ c.y = cj.y + 1 ∧ c.z = cj.z ∧ cj.y % 2 = 1) _
        (by intro cj _; dsimp only; omega) (by simp only [InBox]; omega)
    have d4 : S (nTot nx ny nz) (fun j => if c.x + 1 = (coords nx ny j).x ∧ c.y = (coords nx ny j).y + 1
          ∧ c.z = (coords nx ny j).z ∧ (coords nx ny j).y % 2 = 0 then 1 else 0)
        = if c.y % 2 = 1 ∧ c.x + 1 < nx then 1 else 0 :=
      S_target' ⟨c.x + 1, c.y - 1, c.z⟩ (1 ≤ c.y ∧ c.y % 2 = 1)
        (fun cj => c.x + 1 = cj.x ∧ c.y = cj.y + 1 ∧ c.z = cj.z ∧ cj.y % 2 = 0) _
        (by intro cj _; dsimp only; omega) (by simp only [InBox]; omega)
    simp only [upTerms, degC, S_add]
    rw [u1, u2, u3, u4, u5, d1, d2, d3, d4, d5]

theorem ite_le_one (p : Prop) [Decidable p] : (if p then 1 else 0) ≤ 1 := by split <;> omega

theorem ite_excl_le {p q : Prop} [Decidable p] [Decidable q] (h : ¬ (p ∧ q)) :
    (if p then 1 else 0) + (if q then 1 else 0) ≤ 1 := by
  rw [ite_add_excl h]; exact ite_le_one _

/-- never more neighbours than the arrangement's maximum -/
theorem degC_le_maxNbr (arr : Arr) {c : Coord} (hc : InBox nx ny nz c) :
    degC arr nx ny nz c ≤ maxNbr arr nz := by
  obtain ⟨hx, hy, hz⟩ := hc
  have a1 := ite_le_one (c.x + 1 < nx)
  have a2 := ite_le_one (c.y + 1 < ny)
  have b1 := ite_le_one (1 ≤ c.x)
  have b2 := ite_le_one (1 ≤ c.y)
  have a5 := ite_le_one (c.z + 1 < nz)
  have b5 := ite_le_one (1 ≤ c.z)
  have hz5 : ¬ nz > 1 → (if c.z + 1 < nz then 1 else 0) = 0 ∧ (if 1 ≤ c.z then 1 else 0) = 0 := by
    intro h
    exact ⟨if_neg (by omega), if_neg (by omega)⟩
  cases arr
  · simp only [degC, maxNbr]
    by_cases hnz : nz > 1
    · rw [if_pos hnz]; omega
    · rw [if_neg hnz]; have := hz5 hnz; omega
  · have a34 := ite_excl_le (p := c.y % 2 = 1 ∧ c.x + 1 < nx ∧ c.y + 1 < ny)
      (q := c.y % 2 = 0 ∧ 1 ≤ c.x ∧ c.y + 1 < ny) (by omega)
    have b34 := ite_excl_le (p := c.y % 2 = 0 ∧ 1 ≤ c.x ∧ 1 ≤ c.y)
      (q := c.y % 2 = 1 ∧ c.x + 1 < nx) (by omega)
    simp only [degC, maxNbr]
    by_cases hnz : nz > 1
    · rw [if_pos hnz]; omega
    · rw [if_neg hnz]; have := hz5 hnz; omega

end
end Snow.Topology
