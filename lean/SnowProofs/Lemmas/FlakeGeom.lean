/-
  The interaction structure of a declared shape (`SnowModel/FlakeGeom.lean`) is symmetric and
  is the geometric neighbour relation (from the C09 theorems about `SnowModel/Topology.lean`).
-/
import SnowProofs.Lemmas.FlakeStep
import SnowProofs.Props.C09
import SnowModel.FlakeGeom

namespace Snow.FlakeLemmas
open Snow Num Snow.Flake Snow.Topology

theorem count_flatMap_replicate (e : Nat → Nat) (n j : Nat) :
    List.count j ((List.range n).flatMap fun j' => List.replicate (e j') j')
      = if j < n then e j else 0 := by
  induction n with
  | zero => simp
  | succ n ih =>
    rw [List.range_succ, List.flatMap_append, List.count_append, ih]
    simp only [List.flatMap_cons, List.flatMap_nil, List.append_nil, List.count_replicate]
    by_cases h1 : j < n
    · have : ¬ (n == j) = true := by simp; omega
      simp [h1, this]; omega
    · by_cases h2 : j = n
      · subst h2; simp
      · have : ¬ (n == j) = true := by simp; omega
        have h3 : ¬ j < n + 1 := by omega
        simp [h1, this, h3]

theorem count_nbrRow (arr : Arr) (nx ny nz i j : Nat) :
    (nbrRow arr nx ny nz i).count j = if j < nTot nx ny nz then entry arr nx ny nz i j else 0 :=
  count_flatMap_replicate _ _ _

theorem nbrsOf_getD (arr : Arr) (nx ny nz i : Nat) (hi : i < nTot nx ny nz) :
    (nbrsOf arr nx ny nz).getD i [] = nbrRow arr nx ny nz i := by
  simp [nbrsOf, List.getD_eq_getElem?_getD, hi]

theorem extOf_getD (arr : Arr) (nx ny nz i : Nat) (hi : i < nTot nx ny nz) :
    (extOf arr nx ny nz).getD i 0 = (maxNbr arr nz : Int) - (deg arr nx ny nz i : Int) := by
  simp [extOf, List.getD_eq_getElem?_getD, hi]

theorem mem_nbrRow (arr : Arr) (nx ny nz i j : Nat) :
    j ∈ nbrRow arr nx ny nz i ↔ j < nTot nx ny nz ∧ entry arr nx ny nz i j ≠ 0 := by
  rw [← List.count_pos_iff, count_nbrRow]
  by_cases h : j < nTot nx ny nz <;> simp [h]; omega

/-- **the neighbour structure of every declared shape is symmetric** -/
theorem symNbrs_shape (arr : Arr) (nx ny nz : Nat) :
    SymNbrs (nbrsOf arr nx ny nz) (nTot nx ny nz) := by
  constructor
  · intro i hi j hj
    rw [nbrsOf_getD arr nx ny nz i hi] at hj
    exact ((mem_nbrRow arr nx ny nz i j).mp hj).1
  · intro i j hi hj
    rw [nbrsOf_getD arr nx ny nz i hi, nbrsOf_getD arr nx ny nz j hj, count_nbrRow, count_nbrRow]
    simp only [hi, hj, if_true]
    unfold entry; omega

/-- **membership in the neighbour list = geometric neighbourhood** -/
theorem mem_nbrsOf_iff_geom (arr : Arr) (nx ny nz i j : Nat) (hi : i < nTot nx ny nz)
    (hj : j < nTot nx ny nz) :
    j ∈ (nbrsOf arr nx ny nz).getD i [] ↔ geomNbr arr (coords nx ny i) (coords nx ny j) = true := by
  rw [nbrsOf_getD arr nx ny nz i hi, mem_nbrRow, ← Snow.C09.adj_iff_geom arr hi hj]
  simp [adj, hj]

end Snow.FlakeLemmas
