/-
  The concrete default inputs used by the non-vacuity witnesses (`RunBounds.qDef`, `S2D.pDef`, C15's
  `yDef`) ARE the packaged default configuration: the GENERATED model of `constants.calculateDerived`
  (`Gen.calculateDerived`, rewritten from constants.py on every run of C19) is evaluated on the GENERATED
  tree of snowConfig_default.yaml (`Gen.defaultCfg`) over ℚ (computable, exact), and its constants are
  compared with the hand-written records.  ℚ-level statement: the real-valued records are the casts.
-/
import SnowModel.Gen.Derived
import SnowModel.Gen.DefaultCfg
import SnowProofs.Lemmas.RunBounds
import Mathlib.Tactic.NormNum

namespace Snow.DefaultLink
open Snow Snow.Gen

/-- numeric value of a constant returned by `calculateDerived` -/
def numOf (v : Val Rat) : Option Rat :=
  match v with
  | .num x => some x
  | .nstr x _ => some x
  | _ => none

/-- constant `k` of `calculateDerived(defaultConfig)`, evaluated exactly -/
def genField (k : String) : Option Rat :=
  match Gen.calculateDerived (Gen.defaultCfg : Cfg Rat) with
  | .ok l => (l.lookup k).bind numOf
  | .error _ => none

/-- the constants the generated `calculateDerived` returns for the packaged YAML (exact rationals) -/
theorem gen_default_constants :
    genField "A" = some (1 / 10000) ∧ genField "V" = some (1 / 1000000) ∧ genField "rho_l" = some 1000
    ∧ genField "mass" = some (1 / 1000) ∧ genField "mass_water" = some (19 / 20000)
    ∧ genField "mass_solute" = some (1 / 20000) ∧ genField "cp_w" = some 4187 ∧ genField "cp_i" = some 2108
    ∧ genField "cp_s" = some 1240 ∧ genField "cp_solution" = some (80793 / 20)
    ∧ genField "solid_fraction" = some (1 / 20) ∧ genField "T_eq" = some 0
    ∧ genField "k_f" = some (1853 / 1000) ∧ genField "M_s" = some (3423 / 10000)
    ∧ genField "depression" = some (18530 / 65037) ∧ genField "Dh" = some 333550
    ∧ genField "height" = some (1 / 100) ∧ genField "diameter" = some (1 / 100)
    ∧ genField "lambda_w" = some (299 / 500) ∧ genField "lambda_i" = some (9 / 4)
    ∧ genField "lambda_s" = some (63 / 500) ∧ genField "b" = some (293 / 10)
    ∧ genField "a" = some 29 ∧ genField "c" = some 1 := by
  decide +kernel

/-- constant `k` of the generated default as a real number (`0` if absent) -/
noncomputable def gR (k : String) : ℝ := (((genField k).getD 0 : ℚ) : ℝ)

/-- **stated against the generated values directly**: every constant of `RunBounds.qDef` read by a hypothesis
of the registered theorems IS the value `calculateDerived(defaultConfig)[k]` (`Kshelf = 50` is not a
configuration constant: it is the default argument `k["s0"]` of `Snowing.__init__`) -/
theorem qDef_eq_generated :
    RunBounds.qDef.const.A = gR "A" ∧ RunBounds.qDef.const.V = gR "V" ∧ RunBounds.qDef.const.rho_l = gR "rho_l"
    ∧ RunBounds.qDef.const.mass = gR "mass" ∧ RunBounds.qDef.const.mass_water = gR "mass_water"
    ∧ RunBounds.qDef.const.mass_solute = gR "mass_solute" ∧ RunBounds.qDef.const.cp_w = gR "cp_w"
    ∧ RunBounds.qDef.const.cp_i = gR "cp_i" ∧ RunBounds.qDef.const.cp_s = gR "cp_s"
    ∧ RunBounds.qDef.const.cp_solution = gR "cp_solution" ∧ RunBounds.qDef.const.solid_fraction = gR "solid_fraction"
    ∧ RunBounds.qDef.const.T_eq = gR "T_eq" ∧ RunBounds.qDef.const.k_f = gR "k_f" ∧ RunBounds.qDef.const.M_s = gR "M_s"
    ∧ RunBounds.qDef.const.depression = gR "depression" ∧ RunBounds.qDef.const.Dh = gR "Dh"
    ∧ RunBounds.qDef.const.height = gR "height" ∧ RunBounds.qDef.const.diameter = gR "diameter"
    ∧ RunBounds.qDef.const.lambda_w = gR "lambda_w" ∧ RunBounds.qDef.const.lambda_i = gR "lambda_i"
    ∧ RunBounds.qDef.const.lambda_s = gR "lambda_s" ∧ RunBounds.qDef.const.b = gR "b"
    ∧ RunBounds.qDef.const.a = gR "a" ∧ RunBounds.qDef.const.c = gR "c" := by
  obtain ⟨h1, h2, h3, h4, h5, h6, h7, h8, h9, h10, h11, h12, h13, h14, h15, h16, h17, h18, h19, h20, h21, h22,
    h23, h24⟩ := gen_default_constants
  simp only [gR, h1, h2, h3, h4, h5, h6, h7, h8, h9, h10, h11, h12, h13, h14, h15, h16, h17, h18, h19, h20, h21,
    h22, h23, h24, Option.getD_some, RunBounds.qDef]
  norm_num

/-- **the default `SnowIn` of the non-vacuity witnesses is the generated default**: every constant of
`RunBounds.qDef` used by a hypothesis equals (as a real number) the constant the generated
`calculateDerived` computes from the generated default YAML tree -/
theorem qDef_is_generated_default :
    (RunBounds.qDef.const.A = ((1 / 10000 : ℚ) : ℝ)) ∧ (RunBounds.qDef.const.V = ((1 / 1000000 : ℚ) : ℝ))
    ∧ (RunBounds.qDef.const.rho_l = ((1000 : ℚ) : ℝ)) ∧ (RunBounds.qDef.const.mass = ((1 / 1000 : ℚ) : ℝ))
    ∧ (RunBounds.qDef.const.mass_water = ((19 / 20000 : ℚ) : ℝ))
    ∧ (RunBounds.qDef.const.mass_solute = ((1 / 20000 : ℚ) : ℝ))
    ∧ (RunBounds.qDef.const.cp_w = ((4187 : ℚ) : ℝ)) ∧ (RunBounds.qDef.const.cp_i = ((2108 : ℚ) : ℝ))
    ∧ (RunBounds.qDef.const.cp_s = ((1240 : ℚ) : ℝ)) ∧ (RunBounds.qDef.const.cp_solution = ((80793 / 20 : ℚ) : ℝ))
    ∧ (RunBounds.qDef.const.solid_fraction = ((1 / 20 : ℚ) : ℝ)) ∧ (RunBounds.qDef.const.T_eq = ((0 : ℚ) : ℝ))
    ∧ (RunBounds.qDef.const.k_f = ((1853 / 1000 : ℚ) : ℝ)) ∧ (RunBounds.qDef.const.M_s = ((3423 / 10000 : ℚ) : ℝ))
    ∧ (RunBounds.qDef.const.depression = ((18530 / 65037 : ℚ) : ℝ)) ∧ (RunBounds.qDef.const.Dh = ((333550 : ℚ) : ℝ))
    ∧ (RunBounds.qDef.const.height = ((1 / 100 : ℚ) : ℝ)) ∧ (RunBounds.qDef.const.diameter = ((1 / 100 : ℚ) : ℝ))
    ∧ (RunBounds.qDef.const.lambda_w = ((299 / 500 : ℚ) : ℝ)) ∧ (RunBounds.qDef.const.lambda_i = ((9 / 4 : ℚ) : ℝ))
    ∧ (RunBounds.qDef.const.lambda_s = ((63 / 500 : ℚ) : ℝ)) ∧ (RunBounds.qDef.const.b = ((293 / 10 : ℚ) : ℝ)) := by
  refine ⟨?_, ?_, ?_, ?_, ?_, ?_, ?_, ?_, ?_, ?_, ?_, ?_, ?_, ?_, ?_, ?_, ?_, ?_, ?_, ?_, ?_, ?_⟩ <;>
    simp only [RunBounds.qDef] <;> norm_num

/-- the same for the 2D default `S2D.pDef` (geometry, solution and water constants; its `configuration`
is set to jacket with the YAML's jacket block) -/
theorem pDef_is_generated_default :
    (S2D.pDef.height = ((1 / 100 : ℚ) : ℝ)) ∧ (S2D.pDef.diameter = ((1 / 100 : ℚ) : ℝ))
    ∧ (S2D.pDef.mass = ((1 / 1000 : ℚ) : ℝ)) ∧ (S2D.pDef.mass_water = ((19 / 20000 : ℚ) : ℝ))
    ∧ (S2D.pDef.mass_solute = ((1 / 20000 : ℚ) : ℝ)) ∧ (S2D.pDef.cp_solution = ((80793 / 20 : ℚ) : ℝ))
    ∧ (S2D.pDef.solid_fraction = ((1 / 20 : ℚ) : ℝ)) ∧ (S2D.pDef.depression = ((18530 / 65037 : ℚ) : ℝ))
    ∧ (S2D.pDef.k_f = ((1853 / 1000 : ℚ) : ℝ)) ∧ (S2D.pDef.M_s = ((3423 / 10000 : ℚ) : ℝ))
    ∧ (S2D.pDef.lambda_w = ((299 / 500 : ℚ) : ℝ)) ∧ (S2D.pDef.lambda_i = ((9 / 4 : ℚ) : ℝ))
    ∧ (S2D.pDef.lambda_s = ((63 / 500 : ℚ) : ℝ)) ∧ (S2D.pDef.cp_i = ((2108 : ℚ) : ℝ))
    ∧ (S2D.pDef.rho_l = ((1000 : ℚ) : ℝ)) ∧ (S2D.pDef.Dh = ((333550 : ℚ) : ℝ)) := by
  refine ⟨?_, ?_, ?_, ?_, ?_, ?_, ?_, ?_, ?_, ?_, ?_, ?_, ?_, ?_, ?_, ?_⟩ <;>
    simp only [S2D.pDef] <;> norm_num

end Snow.DefaultLink
