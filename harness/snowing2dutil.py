"""Real `Snowing` runs (spatial_2D, and spatial_1D / homogeneous siblings for the paired
checks) and the matching requests for the Lean model `SnowModel/Snowing2D.lean`.

A *case* is a JSON-able dict

  dim      "spatial_2D" | "spatial_1D" | "homogeneous"
  config   "shelf" | "VISF" | "jacket"
  height, diameter            vial geometry [m]   (length/width optional: the 1D/0D area)
  K_shelf                     k["s0"]
  start, stop, rate, holds, t_tot    cooling program (holds = [[temp, duration], ...] | None)
  cn       None | controlled-nucleation temperature [degC]
  Frand    None (real generator, `seed`) | scripted value of np.random.random()
  seed     seed handed to _run_xD
  jacket   {air_gap, lambda_air}       (optional)
  visf     {t_vac_start [h], t_vac_duration [h], p_vac, kappa}   (optional)
  solution {solid_fraction, ...}       (optional overrides of the YAML `solution` block)
  outStride   decimation of the compared fields (1 = every recorded row)

`import shim` must come first (scipy `simps`, SNOW_REPO).
"""
from __future__ import annotations

import math
import os
import tempfile

import shim  # noqa: F401
import numpy as np
import yaml

import core
from core import f2b, b2f

FLAGS_CURRENT = dict(inplace=True, jacketDz=True, coolingSolidPvap=True)
FLAGS_REPAIRED = dict(inplace=False, jacketDz=False, coolingSolidPvap=False)


# ---------------------------------------------------------------------------
# which of the three 2D oddities does the source tree under test still have?
# ---------------------------------------------------------------------------
_FLAGS = None


def source_flags():
    """Flags of the model that correspond to the source tree the harness runs
    (detected from the text of `_run_2D`, so that the same check works before and
    after each of the repairs F9/F10/F11)."""
    global _FLAGS
    if _FLAGS is not None:
        return dict(_FLAGS)
    import inspect
    from ethz_snow.snowing import Snowing

    src = inspect.getsource(Snowing._run_2D)
    cool, _, solid = src.partition("# check if nucleation occured")
    fl = dict(
        inplace=("T_k.copy()" not in src and "T_new.copy()" not in src and "np.copy(" not in src),
        jacketDz=("q_jacket * dz" in src),
        coolingSolidPvap=("vapour_pressure_solid" in cool),
    )
    _FLAGS = fl
    return dict(fl)


# ---------------------------------------------------------------------------
# building the real object
# ---------------------------------------------------------------------------
def _yaml_for(case):
    cfg = {
        "snowing_parameters": {"dimensionality": case.get("dim", "spatial_2D"),
                               "configuration": case.get("config", "shelf")},
        "vial": {"geometry": {"height": float(case["height"]), "diameter": float(case["diameter"])}},
    }
    if case.get("length") is not None:
        cfg["vial"]["geometry"]["length"] = float(case["length"])
        cfg["vial"]["geometry"]["width"] = float(case.get("width", case["length"]))
    if case.get("jacket"):
        cfg["jacket"] = {k: float(v) for k, v in case["jacket"].items()}
    if case.get("visf"):
        cfg["VISF"] = {k: float(v) for k, v in case["visf"].items()}
    if case.get("solution"):
        cfg["solution"] = {k: float(v) for k, v in case["solution"].items()}
    if case.get("kinetics"):
        cfg["kinetics"] = {k: float(v) for k, v in case["kinetics"].items()}
    return cfg


def make_opcond(case):
    from ethz_snow.operatingConditions import OperatingConditions

    cooling = {"rate": case["rate"], "start": case["start"], "end": case["stop"]}
    holds = case.get("holds")
    holding = None if not holds else [dict(temp=h[0], duration=h[1]) for h in holds]
    kw = dict(t_tot=case["t_tot"], cooling=cooling, holding=holding)
    if case.get("cn") is not None:
        kw["cnTemp"] = case["cn"]
    return OperatingConditions(**kw)


def make_snowing(case):
    from ethz_snow.snowing import Snowing

    fd, path = tempfile.mkstemp(suffix=".yaml", prefix="snow2d_")
    try:
        with os.fdopen(fd, "w") as f:
            yaml.safe_dump(_yaml_for(case), f)
        S = Snowing(k={"int": 0, "ext": 0, "s0": case["K_shelf"]}, opcond=make_opcond(case), configPath=path)
    finally:
        os.unlink(path)
    return S


def kb_of(const):
    """`kb = 10 ** (-(a + xi_v*c))` with the code's fixed kinetic seed 2024"""
    from scipy.stats import norm

    st = np.random.get_state()
    np.random.seed(2024)
    xi_v = norm.ppf(np.random.rand())
    np.random.set_state(st)
    return float(10 ** (-(const["a"] + xi_v * const["c"])))


def frand_of(seed):
    st = np.random.get_state()
    np.random.seed(seed)
    x = float(np.random.random())
    np.random.set_state(st)
    return x


def keep_rows(n, i_save_end, out_stride):
    return [k for k in range(n) if k % out_stride == 0 or k == i_save_end or k + 1 == n]


def run_real(case):
    """Run the real model; returns a JSON-able observation."""
    try:
        S = make_snowing(case)
    except Exception as e:
        return {"raise": core.exc_class(e), "stage": "init"}
    seed = int(case.get("seed", 0))
    orig = np.random.random
    if case.get("Frand") is not None:
        val = float(case["Frand"])
        np.random.random = lambda *a, **k: val
    try:
        dim = S.const["dimensionality"]
        fn = {"spatial_2D": S._run_2D, "spatial_1D": S._run_1D, "homogeneous": S._run_0D}[dim]
        res = fn(seed=seed)
    except Exception as e:
        return {"raise": core.exc_class(e), "stage": "run"}
    finally:
        np.random.random = orig
    time = np.asarray(S._time, dtype=float)
    temp = np.asarray(S._temp, dtype=float)
    ice = np.asarray(S._iceMassFraction, dtype=float)
    shelf = np.asarray(S._shelfTemp, dtype=float)
    n = len(time)
    obs = {"raise": None, "stats": [None if x is None else float(x) for x in res], "n": n,
           "time": time.tolist(), "shelf": shelf.tolist()}
    if dim != "homogeneous":
        # the post-nucleation row is the last one with zero ice everywhere before it
        stride = int(case.get("outStride", 1))
        # index of the post-nucleation row: first row with any ice
        has_ice = np.nonzero(ice.reshape(n, -1).max(axis=1) > 0)[0]
        i_save_end = int(has_ice[0]) if len(has_ice) else n - 1
        rows = keep_rows(n, i_save_end, stride)
        obs["iSaveEnd"] = i_save_end
        obs["rows"] = rows
        obs["temp"] = [temp[k].reshape(-1).tolist() for k in rows]
        obs["ice"] = [ice[k].reshape(-1).tolist() for k in rows]
    else:
        obs["temp"] = temp.tolist()
        obs["ice"] = ice.tolist()
    return obs


def run_real_full(case):
    """Real run returning numpy arrays (for the predicates): dict or {'raise':..}."""
    try:
        S = make_snowing(case)
    except Exception as e:
        return {"raise": core.exc_class(e), "stage": "init"}
    seed = int(case.get("seed", 0))
    orig = np.random.random
    if case.get("Frand") is not None:
        val = float(case["Frand"])
        np.random.random = lambda *a, **k: val
    try:
        dim = S.const["dimensionality"]
        fn = {"spatial_2D": S._run_2D, "spatial_1D": S._run_1D, "homogeneous": S._run_0D}[dim]
        res = fn(seed=seed)
    except Exception as e:
        return {"raise": core.exc_class(e), "stage": "run", "S": None}
    finally:
        np.random.random = orig
    return {"raise": None, "S": S, "stats": res, "time": np.asarray(S._time, float),
            "temp": np.asarray(S._temp, float), "ice": np.asarray(S._iceMassFraction, float),
            "shelf": np.asarray(S._shelfTemp, float), "const": dict(S.const)}


# ---------------------------------------------------------------------------
# the model request
# ---------------------------------------------------------------------------
_CONST_KEYS = ["height", "diameter", "V", "rho_l", "mass", "mass_water", "mass_solute", "lambda_w", "lambda_i",
               "lambda_s", "cp_w", "cp_i", "cp_s", "cp_solution", "solid_fraction", "T_eq", "k_f", "M_s",
               "depression", "b", "k_B", "Dh"]
_OPT_KEYS = ["p_vac", "kappa", "Dh_evaporation", "m_water", "t_vac_start", "t_vac_duration", "air_gap",
             "lambda_air"]


def const_block(const, K_shelf, enc=f2b):
    c = {k: enc(const[k]) for k in _CONST_KEYS}
    for k in _OPT_KEYS:
        if k in const:
            c[k] = enc(const[k])
    c["pi"] = enc(math.pi)
    c["kb"] = enc(kb_of(const))
    c["K_shelf"] = enc(K_shelf)
    c["configuration"] = const["configuration"]
    return c


def model_request(case, flags=None, const=None):
    """Request for op `snowing2D`. `const` defaults to the real object's constants
    (config constants are inputs of the model)."""
    if const is None:
        const = make_snowing(case).const
    fl = dict(source_flags() if flags is None else flags)
    req = {"op": "snowing2D", "const": const_block(const, case["K_shelf"]),
           "t_tot": f2b(case["t_tot"]), "start": f2b(case["start"]), "stop": f2b(case["stop"]),
           "rate": f2b(case["rate"]), "isList": True,
           "Frand": f2b(case["Frand"] if case.get("Frand") is not None else frand_of(int(case.get("seed", 0)))),
           "outStride": int(case.get("outStride", 1))}
    req.update(fl)
    if case.get("holds"):
        req["holds"] = [[f2b(h[0]), f2b(h[1])] for h in case["holds"]]
    if case.get("cn") is not None:
        req["cn"] = f2b(case["cn"])
    return req


def run_model(drv, case, flags=None, const=None):
    r = drv.call(model_request(case, flags, const))
    if "error" in r:
        raise RuntimeError(r["error"])
    if "raise" in r:
        return {"raise": r["raise"], "dt": b2f(r["dt"]) if "dt" in r else None}
    out = {"raise": None, "dt": b2f(r["dt"]), "NtExp": r["NtExp"], "iCool": r["iCool"], "iSol": r["iSol"],
           "iSaveEnd": r["iSaveEnd"], "n": r["n"], "stats": [b2f(x) for x in r["stats"]],
           "time": [b2f(x) for x in r["time"]], "shelf": [b2f(x) for x in r["shelf"]], "rows": r["rows"],
           "temp": [[b2f(x) for x in row] for row in r["temp"]],
           "ice": [[b2f(x) for x in row] for row in r["ice"]]}
    return out


def compare_runs(impl, model, rtol=1e-9, what="2D"):
    """Discrete outputs exactly, fields with rtol. A difference of the two step
    indices by one with a sub-tolerance margin is reported as TIE by the caller."""
    dis = []
    if impl.get("raise") or model.get("raise"):
        if impl.get("raise") != model.get("raise"):
            dis.append(f"{what} exception: impl {impl.get('raise')} ({impl.get('stage')}) vs model {model.get('raise')}")
        return dis
    if impl["n"] != model["n"]:
        dis.append(f"{what} number of reported times: impl {impl['n']} vs model {model['n']}")
        return dis
    if impl["iSaveEnd"] != model["iSaveEnd"]:
        dis.append(f"{what} nucleation row: impl {impl['iSaveEnd']} vs model {model['iSaveEnd']}")
    for k, (a, b) in enumerate(zip(impl["stats"], model["stats"])):
        if not core.close(a, b, rtol):
            dis.append(f"{what} stats[{k}]: impl {a!r} vs model {b!r}")
    for name in ("time", "shelf"):
        a, b = np.asarray(impl[name]), np.asarray(model[name])
        bad = np.nonzero(np.abs(a - b) > rtol * np.maximum(1.0, np.maximum(np.abs(a), np.abs(b))))[0]
        if len(bad):
            dis.append(f"{what} {name}[{int(bad[0])}]: impl {a[bad[0]]!r} vs model {b[bad[0]]!r}")
    if impl["rows"] != model["rows"]:
        dis.append(f"{what} compared rows differ")
        return dis
    for name in ("temp", "ice"):
        a, b = np.asarray(impl[name], float), np.asarray(model[name], float)
        if a.shape != b.shape:
            dis.append(f"{what} {name} shape: impl {a.shape} vs model {b.shape}")
            continue
        err = np.abs(a - b) - rtol * np.maximum(1.0, np.maximum(np.abs(a), np.abs(b)))
        bad = np.argwhere(~(err <= 0))
        if len(bad):
            r, x = bad[0]
            dis.append(f"{what} {name}[row {impl['rows'][int(r)]}, node {int(x)}]: impl {a[r, x]!r} vs model "
                       f"{b[r, x]!r} ({len(bad)} entries differ, max abs {float(np.nanmax(np.abs(a - b))):.3e})")
    return dis
