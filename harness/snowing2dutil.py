"""Real `Snowing` runs (spatial_2D, and spatial_1D / homogeneous siblings for the paired
checks) and the matching requests for the Lean model `SnowModel/Snowing2D.lean`.

A *case* is a JSON-able dict

  dim      "spatial_2D" | "spatial_1D" | "homogeneous"
  config   "shelf" | "VISF" | "jacket"
  height, diameter            vial geometry [m]   (length/width optional: the 1D/0D area)
  K_shelf                     k["s0"]
  start, stop, rate, holds, t_tot    cooling program (holds = [[temp, duration], ...] | None)
  cn       None | controlled-nucleation temperature [degC]
  Frand    None (real generator, `seed`) | scripted value of np.random.random()
  seed     seed handed to _run_xD
  jacket   {air_gap, lambda_air}       (optional)
  visf     {t_vac_start [h], t_vac_duration [h], p_vac, kappa}   (optional)
  solution {solid_fraction, ...}       (optional overrides of the YAML `solution` block)
  outStride   decimation of the compared fields (1 = every recorded row)

`import shim` must come first (scipy `simps`, SNOW_REPO).
"""
from __future__ import annotations

import math
import os
import tempfile

import shim  # noqa: F401
import numpy as np
import yaml

import core
from core import f2b, b2f

FLAGS_CURRENT = dict(inplace=True, jacketDz=True, coolingSolidPvap=True)
FLAGS_REPAIRED = dict(inplace=False, jacketDz=False, coolingSolidPvap=False)


# ---------------------------------------------------------------------------
# which of the three 2D oddities does the source tree under test still have?
# ---------------------------------------------------------------------------
_FLAGS = None


def source_flags():
    """Flags of the model that correspond to the source tree the harness runs
    (detected from the text of `_run_2D`, so that the same check works before and
    after each of the repairs F9/F10/F11)."""
    global _FLAGS
    if _FLAGS is not None:
        return dict(_FLAGS)
    import inspect
    from ethz_snow.snowing import Snowing

    src = inspect.getsource(Snowing._run_2D)
    cool, _, solid = src.partition("# check if nucleation occured")
    fl = dict(
        inplace=("T_k.copy()" not in src and "T_new.copy()" not in src and "np.copy(" not in src),
        jacketDz=("q_jacket * dz" in src),
        coolingSolidPvap=("vapour_pressure_solid" in cool),
    )
    _FLAGS = fl
    return dict(fl)


# ---------------------------------------------------------------------------
# building the real object
# ---------------------------------------------------------------------------
def _yaml_for(case):
    cfg = {
        "snowing_parameters": {"dimensionality": case.get("dim", "spatial_2D"),
                               "configuration": case.get("config", "shelf")},
        "vial": {"geometry": {"height": float(case["height"]), "diameter": float(case["diameter"])}},
    }
    if case.get("length") is not None:
        cfg["vial"]["geometry"]["length"] = float(case["length"])
        cfg["vial"]["geometry"]["width"] = float(case.get("width", case["length"]))
    if case.get("jacket"):
        cfg["jacket"] = {k: float(v) for k, v in case["jacket"].items()}
    if case.get("visf"):
        cfg["VISF"] = {k: float(v) for k, v in case["visf"].items()}
    if case.get("solution"):
        cfg["solution"] = {k: float(v) for k, v in case["solution"].items()}
    if case.get("kinetics"):
        cfg["kinetics"] = {k: float(v) for k, v in case["kinetics"].items()}
    return cfg


def make_opcond(case):
    from ethz_snow.operatingConditions import OperatingConditions

    cooling = {"rate": case["rate"], "start": case["start"], "end": case["stop"]}
    holds = case.get("holds")
    holding = None if not holds else [dict(temp=h[0], duration=h[1]) for h in holds]
    kw = dict(t_tot=case["t_tot"], cooling=cooling, holding=holding)
    if case.get("cn") is not None:
        kw["cnTemp"] = case["cn"]
    return OperatingConditions(**kw)


def make_snowing(case):
    from ethz_snow.snowing import Snowing

    fd, path = tempfile.mkstemp(suffix=".yaml", prefix="snow2d_")
    try:
        with os.fdopen(fd, "w") as f:
            yaml.safe_dump(_yaml_for(case), f)
        S = Snowing(k={"int": 0, "ext": 0, "s0": case["K_shelf"]}, opcond=make_opcond(case), configPath=path)
    finally:
        os.unlink(path)
    return S


def kb_of(const):
    """`kb = 10 ** (-(a + xi_v*c))` with the code's fixed kinetic seed 2024"""
    from scipy.stats import norm

    st = np.random.get_state()
    np.random.seed(2024)
    xi_v = norm.ppf(np.random.rand())
    np.random.set_state(st)
    return float(10 ** (-(const["a"] + xi_v * const["c"])))


def frand_of(seed):
    st = np.random.get_state()
    np.random.seed(seed)
    x = float(np.random.random())
    np.random.set_state(st)
    return x


def keep_rows(n, i_save_end, out_stride):
    return [k for k in range(n) if k % out_stride == 0 or k == i_save_end or k + 1 == n]


def run_real(case):
    """Run the real model; returns a JSON-able observation."""
    try:
        S = make_snowing(case)
    except Exception as e:
        return {"raise": core.exc_class(e), "stage": "init"}
    seed = int(case.get("seed", 0))
    orig = np.random.random
    if case.get("Frand") is not None:
        val = float(case["Frand"])
        np.random.random = lambda *a, **k: val
    try:
        dim = S.const["dimensionality"]
        fn = {"spatial_2D": S._run_2D, "spatial_1D": S._run_1D, "homogeneous": S._run_0D}[dim]
        res = fn(seed=seed)
    except Exception as e:
        return {"raise": core.exc_class(e), "stage": "run"}
    finally:
        np.random.random = orig
    time = np.asarray(S._time, dtype=float)
    temp = np.asarray(S._temp, dtype=float)
    ice = np.asarray(S._iceMassFraction, dtype=float)
    shelf = np.asarray(S._shelfTemp, dtype=float)
    n = len(time)
    obs = {"raise": None, "stats": [None if x is None else float(x) for x in res], "n": n,
           "time": time.tolist(), "shelf": shelf.tolist()}
    if dim != "homogeneous":
        # the post-nucleation row is the last one with zero ice everywhere before it
        stride = int(case.get("outStride", 1))
        # index of the post-nucleation row: first row with any ice
        has_ice = np.nonzero(ice.reshape(n, -1).max(axis=1) > 0)[0]
        i_save_end = int(has_ice[0]) if len(has_ice) else n - 1
        rows = keep_rows(n, i_save_end, stride)
        obs["iSaveEnd"] = i_save_end
        obs["rows"] = rows
        obs["temp"] = [temp[k].reshape(-1).tolist() for k in rows]
        obs["ice"] = [ice[k].reshape(-1).tolist() for k in rows]
    else:
        obs["temp"] = temp.tolist()
        obs["ice"] = ice.tolist()
    return obs


def run_real_full(case):
    """Real run returning numpy arrays (for the predicates): dict or {'raise':..}."""
    try:
        S = make_snowing(case)
    except Exception as e:
        return {"raise": core.exc_class(e), "stage": "init"}
    seed = int(case.get("seed", 0))
    orig = np.random.random
    if case.get("Frand") is not None:
        val = float(case["Frand"])
        np.random.random = lambda *a, **k: val
    try:
        dim = S.const["dimensionality"]
        fn = {"spatial_2D": S._run_2D, "spatial_1D": S._run_1D, "homogeneous": S._run_0D}[dim]
        res = fn(seed=seed)
    except Exception as e:
        return {"raise": core.exc_class(e), "stage": "run", "S": None}
    finally:
        np.random.random = orig
    return {"raise": None, "S": S, "stats": res, "time": np.asarray(S._time, float),
            "temp": np.asarray(S._temp, float), "ice": np.asarray(S._iceMassFraction, float),
            "shelf": np.asarray(S._shelfTemp, float), "const": dict(S.const)}


# ---------------------------------------------------------------------------
# the model request
# ---------------------------------------------------------------------------
_CONST_KEYS = ["height", "diameter", "V", "rho_l", "mass", "mass_water", "mass_solute", "lambda_w", "lambda_i",
               "lambda_s", "cp_w", "cp_i", "cp_s", "cp_solution", "solid_fraction", "T_eq", "k_f", "M_s",
               "depression", "b", "k_B", "Dh"]
_OPT_KEYS = ["p_vac", "kappa", "Dh_evaporation", "m_water", "t_vac_start", "t_vac_duration", "air_gap",
             "lambda_air"]


def const_block(const, K_shelf, enc=f2b):
    c = {k: enc(const[k]) for k in _CONST_KEYS}
    for k in _OPT_KEYS:
        if k in const:
            c[k] = enc(const[k])
    c["pi"] = enc(math.pi)
    c["kb"] = enc(kb_of(const))
    c["K_shelf"] = enc(K_shelf)
    c["configuration"] = const["configuration"]
    return c


def model_request(case, flags=None, const=None):
    """Request for op `snowing2D`. `const` defaults to the real object's constants
    (config constants are inputs of the model)."""
    if const is None:
        const = make_snowing(case).const
    fl = dict(source_flags() if flags is None else flags)
    req = {"op": "snowing2D", "const": const_block(const, case["K_shelf"]),
           "t_tot": f2b(case["t_tot"]), "start": f2b(case["start"]), "stop": f2b(case["stop"]),
           "rate": f2b(case["rate"]), "isList": True,
           "Frand": f2b(case["Frand"] if case.get("Frand") is not None else frand_of(int(case.get("seed", 0)))),
           "outStride": int(case.get("outStride", 1))}
    req.update(fl)
    if case.get("holds"):
        req["holds"] = [[f2b(h[0]), f2b(h[1])] for h in case["holds"]]
    if case.get("cn") is not None:
        req["cn"] = f2b(case["cn"])
    return req


def run_model(drv, case, flags=None, const=None):
    r = drv.call(model_request(case, flags, const))
    if "error" in r:
        raise RuntimeError(r["error"])
    if "raise" in r:
        return {"raise": r["raise"], "dt": b2f(r["dt"]) if "dt" in r else None}
    out = {"raise": None, "dt": b2f(r["dt"]), "NtExp": r["NtExp"], "iCool": r["iCool"], "iSol": r["iSol"],
           "iSaveEnd": r["iSaveEnd"], "n": r["n"], "stats": [b2f(x) for x in r["stats"]],
           "time": [b2f(x) for x in r["time"]], "shelf": [b2f(x) for x in r["shelf"]], "rows": r["rows"],
           "temp": [[b2f(x) for x in row] for row in r["temp"]],
           "ice": [[b2f(x) for x in row] for row in r["ice"]]}
    return out


def compare_runs(impl, model, rtol=1e-9, what="2D"):
    """Discrete outputs exactly, fields with rtol. A difference of the two step
    indices by one with a sub-tolerance margin is reported as TIE by the caller."""
    dis = []
    if impl.get("raise") or model.get("raise"):
        if impl.get("raise") != model.get("raise"):
            dis.append(f"{what} exception: impl {impl.get('raise')} ({impl.get('stage')}) vs model {model.get('raise')}")
        return dis
    if impl["n"] != model["n"]:
        dis.append(f"{what} number of reported times: impl {impl['n']} vs model {model['n']}")
        return dis
    if impl["iSaveEnd"] != model["iSaveEnd"]:
        dis.append(f"{what} nucleation row: impl {impl['iSaveEnd']} vs model {model['iSaveEnd']}")
    for k, (a, b) in enumerate(zip(impl["stats"], model["stats"])):
        if not core.close(a, b, rtol):
            dis.append(f"{what} stats[{k}]: impl {a!r} vs model {b!r}")
    for name in ("time", "shelf"):
        a, b = np.asarray(impl[name]), np.asarray(model[name])
        bad = np.nonzero(np.abs(a - b) > rtol * np.maximum(1.0, np.maximum(np.abs(a), np.abs(b))))[0]
        if len(bad):
            dis.append(f"{what} {name}[{int(bad[0])}]: impl {a[bad[0]]!r} vs model {b[bad[0]]!r}")
    if impl["rows"] != model["rows"]:
        dis.append(f"{what} compared rows differ")
        return dis
    for name in ("temp", "ice"):
        a, b = np.asarray(impl[name], float), np.asarray(model[name], float)
        if a.shape != b.shape:
            dis.append(f"{what} {name} shape: impl {a.shape} vs model {b.shape}")
            continue
        err = np.abs(a - b) - rtol * np.maximum(1.0, np.maximum(np.abs(a), np.abs(b)))
        bad = np.argwhere(~(err <= 0))
        if len(bad):
            r, x = bad[0]
            dis.append(f"{what} {name}[row {impl['rows'][int(r)]}, node {int(x)}]: impl {a[r, x]!r} vs model "
                       f"{b[r, x]!r} ({len(bad)} entries differ, max abs {float(np.nanmax(np.abs(a - b))):.3e})")
    return dis


# ---------------------------------------------------------------------------
# independent enthalpy accounting on the REPORTED fields (C02) -- written from the
# published balance (constant latent heat, mixture heat capacity), not from the
# code's update formulas
# ---------------------------------------------------------------------------
def _p_liquid(T):
    return np.exp(54.842763 - 6763.22 / T - 4.210 * np.log(T) + 0.000367 * T
                  + np.tanh(0.0415 * (T - 218.8)) * (53.878 - 1331.22 / T - 9.44523 * np.log(T) + 0.014025 * T))


def _p_ice(T):
    return np.exp(9.550426 - 5723.265 / T + 3.53068 * np.log(T) - 0.00728332 * T)


def _evap_flux(const, T, frozen):
    """evaporative heat flux into the product [W/m2] (negative: heat leaves)"""
    p = _p_ice(T) if frozen else _p_liquid(T)
    kap, mw, kB = const["kappa"], const["m_water"], const["k_B"]
    Nw = (2 / (2 - kap)) * np.sqrt(mw * kap ** 2 / (2 * np.pi * kB)) * (p / np.sqrt(T) - const["p_vac"] / np.sqrt(T))
    return -Nw * const["Dh_evaporation"]


def cell_geometry(const, dim, Nz=30, Nr=15):
    """volumes / boundary areas of the cells of the REPORTED grid
    (z = linspace(0,H,Nz), r = linspace(0,R,Nr); half cells at the ends)"""
    H = const["height"]
    hz = H / (Nz - 1)
    dzc = np.full(Nz, hz)
    dzc[0] = dzc[-1] = hz / 2
    if dim == "spatial_1D":
        A = const["A"]
        return {"vol": A * dzc, "bottom": A, "top": A, "wall": np.zeros(Nz)}
    R = const["diameter"] / 2
    hr = R / (Nr - 1)
    r = np.linspace(0, R, Nr)
    ro = np.minimum(r + hr / 2, R)
    ri = np.maximum(r - hr / 2, 0)
    ann = np.pi * (ro ** 2 - ri ** 2)
    return {"vol": np.outer(dzc, ann), "bottom": ann, "top": ann, "wall": 2 * np.pi * R * dzc}


def energy_series(case, res, dt):
    """Cumulative enthalpy change of the product and cumulative boundary heat at
    every reported time (every step must have been recorded: stride 1).
    Returns dict(dH, Q, Qabs, inuc) of arrays over the reported rows."""
    const = res["const"]
    dim = const["dimensionality"]
    T = res["temp"] + 273.15
    w = res["ice"]
    shelf = res["shelf"] + 273.15
    n = T.shape[0]
    geo = cell_geometry(const, dim)
    rho = const["rho_l"]
    ws = const["solid_fraction"]
    cps, cpi, cpw, Dh = const["cp_s"], const["cp_i"], const["cp_w"], const["Dh"]
    lam_w, lam_i = const["lambda_w"], const["lambda_i"]
    K = case["K_shelf"]
    cfg = const["configuration"]
    flat_ice = w.reshape(n, -1).max(axis=1)
    has = np.nonzero(flat_ice > 0)[0]
    inuc = int(has[0]) if len(has) else n  # row index of the post-nucleation field
    if cfg == "jacket":
        Kw = 1.0 / (1.0 / K + const["air_gap"] / const["lambda_air"])
    dH = np.zeros(n)
    Q = np.zeros(n)
    Qabs = np.zeros(n)
    time_s = res["time"] * 3600.0
    for k in range(1, n):
        T0, T1, w0, w1 = T[k - 1], T[k], w[k - 1], w[k]
        wbar = 0.5 * (w0 + w1)
        if k == inuc:
            cp = ws * cps + (1 - ws) * cpw  # the jump starts from the liquid solution
        else:
            cp = ws * cps + wbar * cpi + (1 - ws - wbar) * cpw
        dh = rho * (cp * (T1 - T0) - Dh * (w1 - w0))
        dH[k] = dH[k - 1] + float(np.sum(dh * geo["vol"]))
        if k == inuc:
            q = 0.0
            qa = 0.0
        else:
            Tsh = shelf[k]
            frozen = k > inuc
            # time at which the step k-1 -> k was taken
            t_old = time_s[k] if k < inuc else time_s[k]
            if dim == "spatial_1D":
                qs = K * (Tsh - T0[0]) * geo["bottom"]
                q = qs
                qa = abs(qs)
                if cfg == "VISF" and _in_window(const, t_old):
                    qe = float(_evap_flux(const, T0[-1], frozen)) * geo["top"]
                    q += qe
                    qa += abs(qe)
            else:
                qs = np.sum(K * (Tsh - T0[0, :]) * geo["bottom"])
                q = float(qs)
                qa = abs(float(qs))
                if cfg == "VISF" and _in_window(const, t_old):
                    qe = float(np.sum(_evap_flux(const, T0[-1, :], frozen) * geo["top"]))
                    q += qe
                    qa += abs(qe)
                if cfg == "jacket":
                    qj = float(np.sum(Kw * (Tsh - T0[:, -1]) * geo["wall"]))
                    q += qj
                    qa += abs(qj)
            # number of time steps between the two reported rows (1 when every step is recorded)
            steps = 1 if k == inuc + 1 else max(1, int(round((time_s[k] - time_s[k - 1]) / dt)))
            q *= dt * steps
            qa *= dt * steps
        Q[k] = Q[k - 1] + q
        Qabs[k] = Qabs[k - 1] + qa
    # grid term: enthalpy of ONE grid layer (1/Nz of the product) changed by the largest
    # change seen so far -- the quadrature uncertainty of a 30-point profile
    Vtot = float(np.sum(geo["vol"]))
    cp0 = ws * cps + (1 - ws) * cpw
    dTmax = np.maximum.accumulate(np.abs(T - T[0]).reshape(n, -1).max(axis=1))
    wmax = np.maximum.accumulate(flat_ice)
    grid = (1.0 / 30) * rho * Vtot * (cp0 * dTmax + Dh * wmax)
    return {"dH": dH, "Q": Q, "Qabs": Qabs, "inuc": inuc, "grid": grid}


def energy_verdict(es, rel=0.03):
    """worst violation of |dH - Q| <= rel*Qabs + grid over the reported rows:
    returns (worst_excess_ratio, row) where ratio = |dH-Q| / tolerance (> 1: violated)"""
    tol = rel * es["Qabs"] + es["grid"]
    err = np.abs(es["dH"] - es["Q"])
    ratio = np.where(tol > 0, err / np.where(tol > 0, tol, 1), 0.0)
    k = int(np.argmax(ratio))
    return float(ratio[k]), k


def _in_window(const, t):
    a = const["t_vac_start"] * 3600
    b = (const["t_vac_start"] + const["t_vac_duration"]) * 3600
    return a < t < b


def code_dt(const):
    """the time step the code derives from the constants (same expression)"""
    Nz, Nr = 30, 15
    dz = const["height"] / Nz
    alpha_max = const["lambda_i"] / (const["cp_i"] * const["rho_l"])
    if const["dimensionality"] == "spatial_2D":
        dr = (const["diameter"] / 2) / Nr
        return (0.4 / alpha_max) * (dz ** 2 * dr ** 2) / (dr ** 2 + dz ** 2)
    if const["dimensionality"] == "spatial_1D":
        return 0.4 * dz ** 2 / alpha_max
    return 0.1
