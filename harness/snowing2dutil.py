"""Real `Snowing` runs (spatial_2D, and spatial_1D / homogeneous siblings for the paired
checks) and the matching requests for the Lean model `SnowModel/Snowing2D.lean`.

A *case* is a JSON-able dict

  dim      "spatial_2D" | "spatial_1D" | "homogeneous"
  config   "shelf" | "VISF" | "jacket"
  height, diameter            vial geometry [m]   (length/width optional: the 1D/0D area)
  K_shelf                     k["s0"]
  start, stop, rate, holds, t_tot    cooling program (holds = [[temp, duration], ...] | None)
  cn       None | controlled-nucleation temperature [degC]
  Frand    None (real generator, `seed`) | scripted value of np.random.random()
  seed     seed handed to _run_xD
  jacket   {air_gap, lambda_air}       (optional)
  visf     {t_vac_start [h], t_vac_duration [h], p_vac, kappa}   (optional)
  solution {solid_fraction, ...}       (optional overrides of the YAML `solution` block)
  outStride   decimation of the compared fields (1 = every recorded row)

`import shim` must come first (scipy `simps`, SNOW_REPO).
"""
from __future__ import annotations

import math
import os
import tempfile

import shim  # noqa: F401
import numpy as np
import yaml

import core
from core import f2b, b2f

# flags of the code BEFORE the repairs F9/F10/F11 (kept for replaying the old behaviour in the model by hand)
FLAGS_BEFORE_REPAIRS = dict(inplace=True, jacketDz=True, coolingSolidPvap=True)
FLAGS_REPAIRED = dict(inplace=False, jacketDz=False, coolingSolidPvap=False)


# ---------------------------------------------------------------------------
# which of the three 2D oddities does the source tree under test still have?
# ---------------------------------------------------------------------------
def source_flags():
    """Flags of the Lean model the real code is compared with: ALWAYS the repaired model (F9, F10, F11 are committed
    in /repo).  The flags are not read off the source any more: a change that re-introduces one of the three defects
    must show up as a disagreement, not make the model follow it."""
    return dict(FLAGS_REPAIRED)


# ---------------------------------------------------------------------------
# building the real object
# ---------------------------------------------------------------------------
def _yaml_for(case):
    cfg = {
        "snowing_parameters": {"dimensionality": case.get("dim", "spatial_2D"),
                               "configuration": case.get("config", "shelf")},
        "vial": {"geometry": {"height": float(case["height"]), "diameter": float(case["diameter"])}},
    }
    if case.get("length") is not None:
        cfg["vial"]["geometry"]["length"] = float(case["length"])
        cfg["vial"]["geometry"]["width"] = float(case.get("width", case["length"]))
    if case.get("jacket"):
        cfg["jacket"] = {k: float(v) for k, v in case["jacket"].items()}
    if case.get("visf"):
        cfg["VISF"] = {k: float(v) for k, v in case["visf"].items()}
    if case.get("solution"):
        cfg["solution"] = {k: float(v) for k, v in case["solution"].items()}
    if case.get("kinetics"):
        cfg["kinetics"] = {k: float(v) for k, v in case["kinetics"].items()}
    if case.get("water"):
        cfg["water"] = {k: float(v) for k, v in case["water"].items()}
    return cfg


def make_opcond(case):
    from ethz_snow.operatingConditions import OperatingConditions

    cooling = {"rate": case["rate"], "start": case["start"], "end": case["stop"]}
    holds = case.get("holds")
    holding = None if not holds else [dict(temp=h[0], duration=h[1]) for h in holds]
    kw = dict(t_tot=case["t_tot"], cooling=cooling, holding=holding)
    if case.get("cn") is not None:
        kw["cnTemp"] = case["cn"]
    return OperatingConditions(**kw)


def make_snowing(case, k=None, opcond=None):
    """`k`: a heat-transfer dict supplied (and possibly shared) by the caller; its "s0" is set from the case"""
    from ethz_snow.snowing import Snowing

    fd, path = tempfile.mkstemp(suffix=".yaml", prefix="snow2d_")
    try:
        with os.fdopen(fd, "w") as f:
            yaml.safe_dump(_yaml_for(case), f)
        if k is None:
            k = {"int": 0, "ext": 0, "s0": case["K_shelf"]}
        else:
            k["s0"] = case["K_shelf"]
        S = Snowing(k=k, opcond=(opcond if opcond is not None else make_opcond(case)), configPath=path)
    finally:
        os.unlink(path)
    return S


def run_history(case, programs):
    """successive `run()` calls on ONE object; returns the arrays published after the last one"""
    S = make_snowing(case)
    last = dict(case)
    try:
        S.run()
        for prog in programs:
            last = dict(case, **prog)
            S.opcond = make_opcond(last)
            S.run()
    except Exception as e:
        return {"raise": core.exc_class(e), "stage": "run"}, last
    return {"raise": None, "S": S, "stats": list(S._stats.values()), "time": np.asarray(S._time, float),
            "temp": np.asarray(S._temp, float), "ice": np.asarray(S._iceMassFraction, float),
            "shelf": np.asarray(S._shelfTemp, float), "const": dict(S.const)}, last


def kb_of(const):
    """`kb = 10 ** (-(a + xi_v*c))` with the code's fixed kinetic seed 2024"""
    from scipy.stats import norm

    st = np.random.get_state()
    np.random.seed(2024)
    xi_v = norm.ppf(np.random.rand())
    np.random.set_state(st)
    return float(10 ** (-(const["a"] + xi_v * const["c"])))


def frand_of(seed):
    st = np.random.get_state()
    np.random.seed(seed)
    x = float(np.random.random())
    np.random.set_state(st)
    return x


def keep_rows(n, i_save_end, out_stride):
    return [k for k in range(n) if k % out_stride == 0 or k == i_save_end or k + 1 == n]


def run_real(case):
    """Run the real model; returns a JSON-able observation."""
    try:
        S = make_snowing(case)
    except Exception as e:
        return {"raise": core.exc_class(e), "stage": "init"}
    seed = int(case.get("seed", 0))
    orig = np.random.random
    if case.get("Frand") is not None:
        val = float(case["Frand"])
        np.random.random = lambda *a, **k: val
    try:
        dim = S.const["dimensionality"]
        fn = {"spatial_2D": S._run_2D, "spatial_1D": S._run_1D, "homogeneous": S._run_0D}[dim]
        res = fn(seed=seed)
    except Exception as e:
        return {"raise": core.exc_class(e), "stage": "run"}
    finally:
        np.random.random = orig
    time = np.asarray(S._time, dtype=float)
    temp = np.asarray(S._temp, dtype=float)
    ice = np.asarray(S._iceMassFraction, dtype=float)
    shelf = np.asarray(S._shelfTemp, dtype=float)
    n = len(time)
    obs = {"raise": None, "stats": [None if x is None else float(x) for x in res], "n": n,
           "time": time.tolist(), "shelf": shelf.tolist()}
    if dim != "homogeneous":
        # the post-nucleation row is the last one with zero ice everywhere before it
        stride = int(case.get("outStride", 1))
        # index of the post-nucleation row: first row with any ice
        has_ice = np.nonzero(ice.reshape(n, -1).max(axis=1) > 0)[0]
        i_save_end = int(has_ice[0]) if len(has_ice) else n - 1
        rows = keep_rows(n, i_save_end, stride)
        obs["iSaveEnd"] = i_save_end
        obs["rows"] = rows
        obs["temp"] = [temp[k].reshape(-1).tolist() for k in rows]
        obs["ice"] = [ice[k].reshape(-1).tolist() for k in rows]
    else:
        obs["temp"] = temp.tolist()
        obs["ice"] = ice.tolist()
    return obs


def run_real_full(case, k=None, opcond=None):
    """Real run returning numpy arrays (for the predicates): dict or {'raise':..}."""
    try:
        S = make_snowing(case, k, opcond)
    except Exception as e:
        return {"raise": core.exc_class(e), "stage": "init"}
    seed = int(case.get("seed", 0))
    orig = np.random.random
    if case.get("Frand") is not None:
        val = float(case["Frand"])
        np.random.random = lambda *a, **k: val
    try:
        dim = S.const["dimensionality"]
        fn = {"spatial_2D": S._run_2D, "spatial_1D": S._run_1D, "homogeneous": S._run_0D}[dim]
        res = fn(seed=seed)
    except Exception as e:
        return {"raise": core.exc_class(e), "stage": "run", "S": None}
    finally:
        np.random.random = orig
    return {"raise": None, "S": S, "stats": res, "time": np.asarray(S._time, float),
            "temp": np.asarray(S._temp, float), "ice": np.asarray(S._iceMassFraction, float),
            "shelf": np.asarray(S._shelfTemp, float), "const": dict(S.const)}


# ---------------------------------------------------------------------------
# the model request
# ---------------------------------------------------------------------------
_CONST_KEYS = ["height", "diameter", "V", "rho_l", "mass", "mass_water", "mass_solute", "lambda_w", "lambda_i",
               "lambda_s", "cp_w", "cp_i", "cp_s", "cp_solution", "solid_fraction", "T_eq", "k_f", "M_s",
               "depression", "b", "k_B", "Dh"]
_OPT_KEYS = ["p_vac", "kappa", "Dh_evaporation", "m_water", "t_vac_start", "t_vac_duration", "air_gap",
             "lambda_air"]


def const_block(const, K_shelf, enc=f2b):
    c = {k: enc(const[k]) for k in _CONST_KEYS}
    for k in _OPT_KEYS:
        if k in const:
            c[k] = enc(const[k])
    c["pi"] = enc(math.pi)
    c["kb"] = enc(kb_of(const))
    c["K_shelf"] = enc(K_shelf)
    c["configuration"] = const["configuration"]
    return c


def model_request(case, flags=None, const=None):
    """Request for op `snowing2D`. `const` defaults to the real object's constants
    (config constants are inputs of the model)."""
    if const is None:
        const = make_snowing(case).const
    fl = dict(source_flags() if flags is None else flags)
    req = {"op": "snowing2D", "const": const_block(const, case["K_shelf"]),
           "t_tot": f2b(case["t_tot"]), "start": f2b(case["start"]), "stop": f2b(case["stop"]),
           "rate": f2b(case["rate"]), "isList": True,
           "Frand": f2b(case["Frand"] if case.get("Frand") is not None else frand_of(int(case.get("seed", 0)))),
           "outStride": int(case.get("outStride", 1))}
    req.update(fl)
    if case.get("holds"):
        req["holds"] = [[f2b(h[0]), f2b(h[1])] for h in case["holds"]]
    if case.get("cn") is not None:
        req["cn"] = f2b(case["cn"])
    return req


def run_model(drv, case, flags=None, const=None):
    r = drv.call(model_request(case, flags, const))
    if "error" in r:
        raise RuntimeError(r["error"])
    if "raise" in r:
        return {"raise": r["raise"], "dt": b2f(r["dt"]) if "dt" in r else None}
    out = {"raise": None, "dt": b2f(r["dt"]), "NtExp": r["NtExp"], "iCool": r["iCool"], "iSol": r["iSol"],
           "iSaveEnd": r["iSaveEnd"], "n": r["n"], "stats": [b2f(x) for x in r["stats"]],
           "time": [b2f(x) for x in r["time"]], "shelf": [b2f(x) for x in r["shelf"]], "rows": r["rows"],
           "temp": [[b2f(x) for x in row] for row in r["temp"]],
           "ice": [[b2f(x) for x in row] for row in r["ice"]]}
    return out


def compare_runs(impl, model, rtol=1e-9, what="2D"):
    """Discrete outputs exactly, fields with rtol. A difference of the two step
    indices by one with a sub-tolerance margin is reported as TIE by the caller."""
    dis = []
    if impl.get("raise") or model.get("raise"):
        if impl.get("raise") != model.get("raise"):
            dis.append(f"{what} exception: impl {impl.get('raise')} ({impl.get('stage')}) vs model {model.get('raise')}")
        return dis
    if impl["n"] != model["n"]:
        dis.append(f"{what} number of reported times: impl {impl['n']} vs model {model['n']}")
        return dis
    if impl["iSaveEnd"] != model["iSaveEnd"]:
        dis.append(f"{what} nucleation row: impl {impl['iSaveEnd']} vs model {model['iSaveEnd']}")
    for k, (a, b) in enumerate(zip(impl["stats"], model["stats"])):
        if not core.close(a, b, rtol):
            dis.append(f"{what} stats[{k}]: impl {a!r} vs model {b!r}")
    for name in ("time", "shelf"):
        a, b = np.asarray(impl[name]), np.asarray(model[name])
        bad = np.nonzero(np.abs(a - b) > rtol * np.maximum(1.0, np.maximum(np.abs(a), np.abs(b))))[0]
        if len(bad):
            dis.append(f"{what} {name}[{int(bad[0])}]: impl {a[bad[0]]!r} vs model {b[bad[0]]!r}")
    if impl["rows"] != model["rows"]:
        dis.append(f"{what} compared rows differ")
        return dis
    for name in ("temp", "ice"):
        a, b = np.asarray(impl[name], float), np.asarray(model[name], float)
        if a.shape != b.shape:
            dis.append(f"{what} {name} shape: impl {a.shape} vs model {b.shape}")
            continue
        err = np.abs(a - b) - rtol * np.maximum(1.0, np.maximum(np.abs(a), np.abs(b)))
        bad = np.argwhere(~(err <= 0))
        if len(bad):
            r, x = bad[0]
            dis.append(f"{what} {name}[row {impl['rows'][int(r)]}, node {int(x)}]: impl {a[r, x]!r} vs model "
                       f"{b[r, x]!r} ({len(bad)} entries differ, max abs {float(np.nanmax(np.abs(a - b))):.3e})")
    return dis


# ---------------------------------------------------------------------------
# independent enthalpy accounting on the REPORTED fields (C02) -- written from the
# published balance (constant latent heat, mixture heat capacity), not from the
# code's update formulas
# ---------------------------------------------------------------------------
def _p_liquid(T):
    return np.exp(54.842763 - 6763.22 / T - 4.210 * np.log(T) + 0.000367 * T
                  + np.tanh(0.0415 * (T - 218.8)) * (53.878 - 1331.22 / T - 9.44523 * np.log(T) + 0.014025 * T))


def _p_ice(T):
    return np.exp(9.550426 - 5723.265 / T + 3.53068 * np.log(T) - 0.00728332 * T)


def _evap_flux(const, T, frozen):
    """evaporative heat flux into the product [W/m2] (negative: heat leaves)"""
    p = _p_ice(T) if frozen else _p_liquid(T)
    kap, mw, kB = const["kappa"], const["m_water"], const["k_B"]
    Nw = (2 / (2 - kap)) * np.sqrt(mw * kap ** 2 / (2 * np.pi * kB)) * (p / np.sqrt(T) - const["p_vac"] / np.sqrt(T))
    return -Nw * const["Dh_evaporation"]


def cell_geometry(const, dim, Nz=30, Nr=15):
    """volumes / boundary areas of the cells of the REPORTED grid
    (z = linspace(0,H,Nz), r = linspace(0,R,Nr); half cells at the ends)"""
    H = const["height"]
    hz = H / (Nz - 1)
    dzc = np.full(Nz, hz)
    dzc[0] = dzc[-1] = hz / 2
    if dim == "spatial_1D":
        A = const["A"]
        return {"vol": A * dzc, "bottom": A, "top": A, "wall": np.zeros(Nz)}
    R = const["diameter"] / 2
    hr = R / (Nr - 1)
    r = np.linspace(0, R, Nr)
    ro = np.minimum(r + hr / 2, R)
    ri = np.maximum(r - hr / 2, 0)
    ann = np.pi * (ro ** 2 - ri ** 2)
    return {"vol": np.outer(dzc, ann), "bottom": ann, "top": ann, "wall": 2 * np.pi * R * dzc}


def energy_series(case, res, dt):
    """Cumulative enthalpy change of the product and cumulative boundary heat at
    every reported time (every step must have been recorded: stride 1).
    Returns dict(dH, Q, Qabs, inuc) of arrays over the reported rows."""
    const = res["const"]
    dim = const["dimensionality"]
    T = res["temp"] + 273.15
    w = res["ice"]
    shelf = res["shelf"] + 273.15
    n = T.shape[0]
    geo = cell_geometry(const, dim)
    rho = const["rho_l"]
    ws = const["solid_fraction"]
    cps, cpi, cpw, Dh = const["cp_s"], const["cp_i"], const["cp_w"], const["Dh"]
    lam_w, lam_i = const["lambda_w"], const["lambda_i"]
    K = case["K_shelf"]
    cfg = const["configuration"]
    flat_ice = w.reshape(n, -1).max(axis=1)
    inuc = nuc_row(res)  # row index of the post-nucleation field, from the REPORTED nucleation time
    Teql = const["T_eq"] + 273.15 - const["depression"]
    cross = np.zeros(n)
    ncross = np.zeros(n, dtype=int)
    if cfg == "jacket":
        Kw = 1.0 / (1.0 / K + const["air_gap"] / const["lambda_air"])
    dH = np.zeros(n)
    Q = np.zeros(n)
    Qabs = np.zeros(n)
    time_s = res["time"] * 3600.0
    for k in range(1, n):
        T0, T1, w0, w1 = T[k - 1], T[k], w[k - 1], w[k]
        wbar = 0.5 * (w0 + w1)
        if k == inuc:
            cp = ws * cps + (1 - ws) * cpw  # the jump starts from the liquid solution
        else:
            cp = ws * cps + wbar * cpi + (1 - ws - wbar) * cpw
        dh = rho * (cp * (T1 - T0) - Dh * (w1 - w0))
        dH[k] = dH[k - 1] + float(np.sum(dh * geo["vol"]))
        cross[k] = cross[k - 1]
        ncross[k] = ncross[k - 1]
        if k > inuc:
            # nodes that cross the liquidus within this step: the explicit apparent-heat-capacity scheme takes
            # the step with the capacity of the OLD state (no latent term, BETA = 1), yet the node is then given
            # the equilibrium ice of its new temperature: enthalpy rho*Dh*w_i disappears without crossing a boundary
            cr = (T0 >= Teql) & (T1 < Teql)
            if cr.any():
                cp_old = ws * cps + w0 * cpi + (1 - ws - w0) * cpw
                free = dh - rho * cp_old * (T1 - T0)
                cross[k] += float(np.sum((free * geo["vol"])[cr]))
                ncross[k] += int(cr.sum())
        if k == inuc:
            q = 0.0
            qa = 0.0
        else:
            Tsh = shelf[k]
            frozen = k > inuc
            # time at which the step k-1 -> k was taken
            t_old = time_s[k] if k < inuc else time_s[k]
            if dim == "spatial_1D":
                qs = K * (Tsh - T0[0]) * geo["bottom"]
                q = qs
                qa = abs(qs)
                if cfg == "VISF" and _in_window(const, t_old):
                    qe = float(_evap_flux(const, T0[-1], frozen)) * geo["top"]
                    q += qe
                    qa += abs(qe)
            else:
                qs = np.sum(K * (Tsh - T0[0, :]) * geo["bottom"])
                q = float(qs)
                qa = abs(float(qs))
                if cfg == "VISF" and _in_window(const, t_old):
                    qe = float(np.sum(_evap_flux(const, T0[-1, :], frozen) * geo["top"]))
                    q += qe
                    qa += abs(qe)
                if cfg == "jacket":
                    qj = float(np.sum(Kw * (Tsh - T0[:, -1]) * geo["wall"]))
                    q += qj
                    qa += abs(qj)
            # number of time steps between the two reported rows (1 when every step is recorded)
            steps = 1 if k == inuc + 1 else max(1, int(round((time_s[k] - time_s[k - 1]) / dt)))
            q *= dt * steps
            qa *= dt * steps
        Q[k] = Q[k - 1] + q
        Qabs[k] = Qabs[k - 1] + qa
    # grid term: enthalpy of ONE grid layer (1/Nz of the product) changed by the largest
    # change seen so far -- the quadrature uncertainty of a 30-point profile
    Vtot = float(np.sum(geo["vol"]))
    cp0 = ws * cps + (1 - ws) * cpw
    dTmax = np.maximum.accumulate(np.abs(T - T[0]).reshape(n, -1).max(axis=1))
    wmax = np.maximum.accumulate(flat_ice)
    # (with a cooled side wall the outermost radial layer, 1/Nr of the radius, adds its own)
    layers = 1.0 / 30 + (1.0 / 15 if (dim == "spatial_2D" and cfg == "jacket") else 0.0)
    grid = layers * rho * Vtot * (cp0 * dTmax + Dh * wmax)
    return {"dH": dH, "Q": Q, "Qabs": Qabs, "inuc": inuc, "grid": grid, "cross": cross, "ncross": ncross}


def nuc_row(res):
    """index of the post-nucleation row, located from the REPORTED nucleation time (stats) on the reported
    time axis -- not from where ice first shows up.  1D/2D: the rows stamped t_nuc are [cooling row of the
    nucleation step if it was saved], the post-nucleation row, the first solidification row."""
    time_s = np.asarray(res["time"], float) * 3600.0
    n = len(time_s)
    st = res["stats"]
    dim = res["const"]["dimensionality"]
    t_nuc = float(st[1] if dim == "homogeneous" else st[4]) * 60.0
    tol = 1e-9 * max(1.0, abs(t_nuc))
    if dim == "homogeneous":
        ge = np.nonzero(time_s >= t_nuc - tol)[0]
        return int(ge[0]) if len(ge) else n
    eq = np.nonzero(np.abs(time_s - t_nuc) <= tol)[0]
    if len(eq) >= 2:
        return int(eq[-1]) - 1
    ge = np.nonzero(time_s >= t_nuc - tol)[0]
    return int(ge[0]) if len(ge) else n


def energy_verdict(es, rel=0.03):
    """worst violation of |dH - Q| <= rel*Qabs + grid over the reported rows:
    returns (worst_excess_ratio, row) where ratio = |dH-Q| / tolerance (> 1: violated)"""
    tol = rel * es["Qabs"] + es["grid"]
    err = np.abs(es["dH"] - es["Q"])
    ratio = np.where(tol > 0, err / np.where(tol > 0, tol, 1), 0.0)
    k = int(np.argmax(ratio))
    return float(ratio[k]), k


def energy_verdict_without_crossing(es, rel=0.03):
    """the same with the enthalpy that disappeared at liquidus-crossing nodes taken out (known finding K8):
    what is left must still balance"""
    tol = rel * es["Qabs"] + es["grid"]
    err = np.abs(es["dH"] - es["cross"] - es["Q"])
    ratio = np.where(tol > 0, err / np.where(tol > 0, tol, 1), 0.0)
    k = int(np.argmax(ratio))
    return float(ratio[k]), k


def _in_window(const, t):
    a = const["t_vac_start"] * 3600
    b = (const["t_vac_start"] + const["t_vac_duration"]) * 3600
    return a < t < b


def code_dt(const):
    """the time step the code derives from the constants (same expression)"""
    if const["dimensionality"] == "homogeneous":
        return 0.1
    Nz, Nr = 30, 15
    dz = const["height"] / Nz
    alpha_max = const["lambda_i"] / (const["cp_i"] * const["rho_l"])
    if const["dimensionality"] == "spatial_2D":
        dr = (const["diameter"] / 2) / Nr
        return (0.4 / alpha_max) * (dz ** 2 * dr ** 2) / (dr ** 2 + dz ** 2)
    return 0.4 * dz ** 2 / alpha_max


# ---------------------------------------------------------------------------
# one shared observation per real run (C02, C07, C15 use the same runs; cached on disk
# per source state under .cache/s2d so that the three checks do not repeat them)
# ---------------------------------------------------------------------------
import gzip
import hashlib
import json


def _cache_path(case):
    h = hashlib.sha256()
    h.update(core.repo_fingerprint().encode())
    h.update(json.dumps(case, sort_keys=True, default=str).encode())
    h.update(b"obs-v10")
    d = core.VERIF / ".cache" / "s2d"
    d.mkdir(parents=True, exist_ok=True)
    return d / (h.hexdigest()[:24] + ".json.gz")


def source_has_cn_fix():
    import inspect
    from ethz_snow.snowing import Snowing

    return "T_k.min()" in inspect.getsource(Snowing._run_2D)


def _bounds_summary(case, res, inuc):
    """every bound of C07 on every reported node/time"""
    const = res["const"]
    T = res["temp"]  # degC
    w = res["ice"]
    shelf = res["shelf"]
    n = T.shape[0]
    Tf = T.reshape(n, -1)
    wf = w.reshape(n, -1)
    T_eq_l = const["T_eq"] - const["depression"]  # degC
    ws = const["solid_fraction"]
    out = {"finite": bool(np.isfinite(Tf).all() and np.isfinite(wf).all())}
    upper = max(case["start"], T_eq_l)
    ex = Tf.max(axis=1) - upper
    k = int(np.argmax(ex))
    out["upper_excess"] = float(ex[k])
    out["upper_row"] = k
    runmin = np.minimum.accumulate(shelf)
    runmin = np.minimum(runmin, case["start"])
    de = runmin - Tf.min(axis=1)
    k = int(np.argmax(de))
    out["lower_deficit"] = float(de[k])
    out["lower_row"] = k
    out["ice_min"] = float(wf.min())
    out["ice_max_excess"] = float((wf.max(axis=1) - (1 - ws)).max())
    out["ice_before_nuc"] = float(wf[:inuc].max()) if inuc > 0 else 0.0
    warm = (Tf >= T_eq_l + 1e-9) & (wf > 0)
    out["ice_at_warm_nodes"] = int(warm.sum())
    cold_noice = (Tf < T_eq_l - 1e-9) & (wf == 0)
    cold_noice[:inuc] = False
    out["cold_nodes_without_ice_after_nuc"] = int(cold_noice.sum())
    # liquidus relation wherever ice is present:  w (mw+ms) = mw - ms (kf/Ms)/(Tm - T)
    mw, ms = const["mass_water"], const["mass_solute"]
    kap = const["k_f"] / const["M_s"]
    m = wf > 0
    if m.any():
        rhs = (mw - ms * kap / (const["T_eq"] - Tf[m])) / (mw + ms)
        out["liquidus_residual"] = float(np.max(np.abs(wf[m] - rhs)))
    else:
        out["liquidus_residual"] = 0.0
    return out


def _radial_summary(res, inuc):
    T = res["temp"]
    if T.ndim != 3:
        return None
    spread = T.max(axis=2) - T.min(axis=2)  # (rows, Nz)
    per_row = spread.max(axis=1)
    k = int(np.argmax(per_row))
    cool = per_row[:max(inuc, 1)]
    kc = int(np.argmax(cool))
    first = int(np.argmax(per_row > 0)) if (per_row > 0).any() else -1
    return {"max": float(per_row[k]), "row": k, "max_cooling": float(cool[kc]), "row_cooling": kc,
            "first_row_with_spread": first,
            "spread_at_first": float(per_row[first]) if first >= 0 else 0.0}


def _evap_inferred(case, res, dt, inuc):
    """VISF, 2D, cooling stage: the evaporative flux the code actually applied at the top
    centre node, inferred from two consecutive recorded fields (every step recorded), vs the
    flux of the LIQUID vapour-pressure law at the old top temperature (what the 1D model and
    the published model use).  The top-centre stencil only reads old values also in the
    aliased code."""
    const = res["const"]
    if const["configuration"] != "VISF" or res["temp"].ndim != 3:
        return None
    T = res["temp"] + 273.15
    time_s = res["time"] * 3600.0
    Nz, Nr = 30, 15
    dz = const["height"] / Nz
    dr = (const["diameter"] / 2) / Nr
    k0 = const["solid_fraction"] * const["lambda_s"] + (1 - const["solid_fraction"]) * const["lambda_w"]
    a = k0 / (const["cp_solution"] * const["rho_l"]) * dt
    worst = 0.0
    wk = -1
    nwin = 0
    vals = None
    for k in range(1, min(inuc, T.shape[0])):
        if abs((time_s[k] - time_s[k - 1]) - dt) > 1e-6 * dt:
            continue
        if not _in_window(const, time_s[k]):
            continue
        T0, T1 = T[k - 1], T[k]
        c = T0[Nz - 1, 0]
        rad = 2 * ((T0[Nz - 1, 1] - 2 * c) + c) / dr ** 2
        # T1 = c + a*(rad + (Ttop - 2c + below)/dz^2)
        Ttop = ((T1[Nz - 1, 0] - c) / a - rad) * dz ** 2 + 2 * c - T0[Nz - 2, 0]
        q_applied = (Ttop - c) * k0 / dz
        q_liquid = float(_evap_flux(const, c, False))
        q_ice = float(_evap_flux(const, c, True))
        nwin += 1
        rel = abs(q_applied - q_liquid) / max(abs(q_liquid), 1e-30)
        if rel > worst:
            worst, wk, vals = rel, k, (float(q_applied), q_liquid, q_ice, float(c))
    return {"n": nwin, "worst_rel": float(worst), "row": wk, "vals": vals}



def _top_flux(case, res, dt, inuc):
    """Heat flux the code actually applied at the top surface, inferred from two consecutive
    recorded fields (one time step apart) by inverting the update of the top(-centre) node, in
    both stages, 1D and 2D -- against the published boundary condition: the evaporative flux
    law inside the vacuum window of a VISF run (liquid law before, ice law after nucleation,
    either sign), zero otherwise (shelf / jacket, or outside the window)."""
    const = res["const"]
    dim = const["dimensionality"]
    if dim == "homogeneous":
        return None
    T = res["temp"] + 273.15
    w = res["ice"]
    n = T.shape[0]
    time_s = res["time"] * 3600.0
    Nz, Nr = 30, 15
    dz = const["height"] / Nz
    sf = const["solid_fraction"]
    k0 = sf * const["lambda_s"] + (1 - sf) * const["lambda_w"]
    rho = const["rho_l"]
    a = k0 / (const["cp_solution"] * rho) * dt
    Tm = const["T_eq"] + 273.15
    Teql = Tm - const["depression"]
    visf = const["configuration"] == "VISF"
    two_d = dim == "spatial_2D"
    if two_d:
        dr = (const["diameter"] / 2) / Nr
        top = lambda F: F[:, Nz - 1, 0]
        below = lambda F: F[:, Nz - 2, 0]
        side = lambda F: F[:, Nz - 1, 1]
    else:
        top = lambda F: F[:, Nz - 1]
        below = lambda F: F[:, Nz - 2]
    c, l = top(T)[:-1], below(T)[:-1]
    c1 = top(T)[1:]
    wc, wl = top(w)[:-1], below(w)[:-1]
    ks = np.arange(1, n)
    # which transitions are exactly one time step?  (row k-1 -> k)
    one = np.abs((time_s[1:] - time_s[:-1]) - dt) <= 1e-6 * dt
    if inuc < n:
        one[inuc - 1] = False          # the nucleation jump itself
        if inuc < n - 1:
            one[inuc] = True           # first solidification step (same time label)
    solid = ks > inuc
    # cooling stage
    rad_c = (2 * ((side(T)[:-1] - 2 * c) + c) / dr ** 2) if two_d else 0.0
    u_cool = ((c1 - c) / a - rad_c) * dz ** 2 + 2 * c - l
    q_cool = (u_cool - c) * k0 / dz
    # solidification stage
    cp = const["cp_s"] * sf + const["cp_i"] * wc + const["cp_w"] * (1 - sf - wc)
    kc = const["lambda_i"] * wc + const["lambda_w"] * (1 - wc)
    kl = const["lambda_i"] * wl + const["lambda_w"] * (1 - wl)
    beta = const["Dh"] * const["k_f"] * const["mass_solute"] / (const["M_s"] * rho * const["V"] * cp)
    with np.errstate(divide="ignore", invalid="ignore"):
        B = np.where(c < Teql, 1 + beta / (c - Tm) ** 2, 1.0)
        pre = dt / (cp * rho)
        ssum = (c1 - c) * B / pre
        if two_d:
            o = side(T)[:-1]
            ko = const["lambda_i"] * side(w)[:-1] + const["lambda_w"] * (1 - side(w)[:-1])
            ssum = ssum - (2 * kc * ((o - 2 * c) + c) / dr ** 2 + (ko - kc) * (o - c) / (4 * dr ** 2))
        cu = (kc - kl) / (4 * dz ** 2) + kc / dz ** 2
        rest = -(kc - kl) * l / (4 * dz ** 2) + kc * (-2 * c + l) / dz ** 2
        u_sol = (ssum - rest) / cu
        q_sol = (u_sol - c) * kc / dz
    q_app = np.where(solid, q_sol, q_cool)
    # the published boundary condition
    q_exp = np.zeros(n - 1)
    if visf:
        # time at which the step was taken: dt*i (cooling) / t_nuc + dt*i (solidification) = label of row k
        tt = time_s[1:]
        inw = (tt > const["t_vac_start"] * 3600) & (tt < (const["t_vac_start"] + const["t_vac_duration"]) * 3600)
        with np.errstate(all="ignore"):
            ql = _evap_flux(const, c, False)
            qi = _evap_flux(const, c, True)
        q_exp = np.where(inw, np.where(solid, qi, ql), 0.0)
    ok = one & np.isfinite(q_app)
    if not ok.any():
        return {"n": 0}
    dev = np.where(ok, np.abs(q_app - q_exp), 0.0)
    tol = 1e-2 + 1e-6 * np.abs(q_exp)
    score = dev / tol
    j = int(np.argmax(score))
    out = {"n": int(ok.sum()), "worst_dev": float(dev[j]), "score": float(score[j]), "row": int(ks[j]),
           "stage": "solidification" if solid[j] else "cooling", "q_applied": float(q_app[j]),
           "q_expected": float(q_exp[j]), "T_top": float(c[j]),
           "n_window": int((ok & (q_exp != 0)).sum()), "n_negative_expected": int((ok & (q_exp > 0)).sum())}
    if visf:
        with np.errstate(all="ignore"):
            out["q_liquid"] = float(_evap_flux(const, c[j], False))
            out["q_ice"] = float(_evap_flux(const, c[j], True))
    return out


def _bottom_flux(case, res, dt, inuc):
    """Heat flux applied at the bottom surface, inferred from two consecutive recorded fields by
    inverting the update of the bottom(-centre) node (both stages, 1D and 2D), against the
    boundary condition of the model: K_shelf*(T_shelf - T_bottom) with the shelf value of the step."""
    const = res["const"]
    dim = const["dimensionality"]
    if dim == "homogeneous":
        return None
    T = res["temp"] + 273.15
    w = res["ice"]
    shelf = res["shelf"] + 273.15
    n = T.shape[0]
    time_s = res["time"] * 3600.0
    Nz, Nr = 30, 15
    dz = const["height"] / Nz
    sf = const["solid_fraction"]
    k0 = sf * const["lambda_s"] + (1 - sf) * const["lambda_w"]
    rho = const["rho_l"]
    a = k0 / (const["cp_solution"] * rho) * dt
    Tm = const["T_eq"] + 273.15
    Teql = Tm - const["depression"]
    two_d = dim == "spatial_2D"
    if two_d:
        dr = (const["diameter"] / 2) / Nr
        bot = lambda F: F[:, 0, 0]
        above = lambda F: F[:, 1, 0]
        side = lambda F: F[:, 0, 1]
    else:
        bot = lambda F: F[:, 0]
        above = lambda F: F[:, 1]
    c, u = bot(T)[:-1], above(T)[:-1]
    c1 = bot(T)[1:]
    wc, wu = bot(w)[:-1], above(w)[:-1]
    ks = np.arange(1, n)
    one = np.abs((time_s[1:] - time_s[:-1]) - dt) <= 1e-6 * dt
    if inuc < n:
        one[inuc - 1] = False
        if inuc < n - 1:
            one[inuc] = True
    solid = ks > inuc
    rad_c = (2 * ((side(T)[:-1] - 2 * c) + c) / dr ** 2) if two_d else 0.0
    b_cool = ((c1 - c) / a - rad_c) * dz ** 2 + 2 * c - u
    q_cool = (b_cool - c) * k0 / dz
    cp = const["cp_s"] * sf + const["cp_i"] * wc + const["cp_w"] * (1 - sf - wc)
    kc = const["lambda_i"] * wc + const["lambda_w"] * (1 - wc)
    ku = const["lambda_i"] * wu + const["lambda_w"] * (1 - wu)
    beta = const["Dh"] * const["k_f"] * const["mass_solute"] / (const["M_s"] * rho * const["V"] * cp)
    with np.errstate(divide="ignore", invalid="ignore"):
        B = np.where(c < Teql, 1 + beta / (c - Tm) ** 2, 1.0)
        pre = dt / (cp * rho)
        ssum = (c1 - c) * B / pre
        if two_d:
            o = side(T)[:-1]
            ko = const["lambda_i"] * side(w)[:-1] + const["lambda_w"] * (1 - side(w)[:-1])
            ssum = ssum - (2 * kc * ((o - 2 * c) + c) / dr ** 2 + (ko - kc) * (o - c) / (4 * dr ** 2))
        cb = -(ku - kc) / (4 * dz ** 2) + kc / dz ** 2
        rest = (ku - kc) * u / (4 * dz ** 2) + kc * (u - 2 * c) / dz ** 2
        b_sol = (ssum - rest) / cb
        q_sol = (b_sol - c) * kc / dz
    q_app = np.where(solid, q_sol, q_cool)
    q_exp = case["K_shelf"] * (shelf[1:] - c)
    ok = one & np.isfinite(q_app)
    if not ok.any():
        return {"n": 0}
    dev = np.where(ok, np.abs(q_app - q_exp), 0.0)
    tol = 1e-2 + 1e-6 * np.abs(q_exp)
    score = dev / tol
    j = int(np.argmax(score))
    return {"n": int(ok.sum()), "worst_dev": float(dev[j]), "score": float(score[j]), "row": int(ks[j]),
            "stage": "solidification" if solid[j] else "cooling", "q_applied": float(q_app[j]),
            "q_expected": float(q_exp[j]), "T_bottom": float(c[j]), "T_shelf": float(shelf[1:][j])}


def _wall_flux(case, res, dt, inuc):
    """2D jacket: heat flux applied at the side wall (mid-height node of the outermost column), inferred from two
    consecutive recorded fields by inverting that node's update, against K_wall*(T_shelf - T_wall) with the run's OWN
    K_wall = 1/(1/K_shelf + air_gap/lambda_air)."""
    const = res["const"]
    if const["dimensionality"] != "spatial_2D" or const["configuration"] != "jacket":
        return None
    T = res["temp"] + 273.15
    w = res["ice"]
    shelf = res["shelf"] + 273.15
    n = T.shape[0]
    time_s = res["time"] * 3600.0
    Nz, Nr = 30, 15
    i = Nz // 2
    dz = const["height"] / Nz
    R = const["diameter"] / 2
    dr = R / Nr
    sf = const["solid_fraction"]
    k0 = sf * const["lambda_s"] + (1 - sf) * const["lambda_w"]
    rho = const["rho_l"]
    a = k0 / (const["cp_solution"] * rho) * dt
    Tm = const["T_eq"] + 273.15
    Teql = Tm - const["depression"]
    Kw = 1.0 / (1.0 / case["K_shelf"] + const["air_gap"] / const["lambda_air"])
    c, nn = T[:-1, i, Nr - 1], T[:-1, i, Nr - 2]
    up, lo = T[:-1, i + 1, Nr - 1], T[:-1, i - 1, Nr - 1]
    c1 = T[1:, i, Nr - 1]
    lam = lambda ww: const["lambda_i"] * ww + const["lambda_w"] * (1 - ww)
    wc = w[:-1, i, Nr - 1]
    kc, kI = lam(wc), lam(w[:-1, i, Nr - 2])
    kU, kL = lam(w[:-1, i + 1, Nr - 1]), lam(w[:-1, i - 1, Nr - 1])
    ks = np.arange(1, n)
    one = np.abs((time_s[1:] - time_s[:-1]) - dt) <= 1e-6 * dt
    if inuc < n:
        one[inuc - 1] = False
        if inuc < n - 1:
            one[inuc] = True
    solid = ks > inuc
    # cooling: T1 = c + a*((1/R)(Te-n)/(2dr) + (Te-2c+n)/dr^2 + (u-2c+l)/dz^2)
    ax = (up - 2 * c + lo) / dz ** 2
    coef = 1 / (R * 2 * dr) + 1 / dr ** 2
    rest = -nn / (R * 2 * dr) + (-2 * c + nn) / dr ** 2
    e_cool = ((c1 - c) / a - ax - rest) / coef
    q_cool = (e_cool - c) * k0 / dr
    cp = const["cp_s"] * sf + const["cp_i"] * wc + const["cp_w"] * (1 - sf - wc)
    beta = const["Dh"] * const["k_f"] * const["mass_solute"] / (const["M_s"] * rho * const["V"] * cp)
    with np.errstate(divide="ignore", invalid="ignore"):
        B = np.where(c < Teql, 1 + beta / (c - Tm) ** 2, 1.0)
        ssum = (c1 - c) * B / (dt / (cp * rho))
        dKz = (kU - kL) * (up - lo) / (4 * dz ** 2)
        Z2 = kc * (up - 2 * c + lo) / dz ** 2
        coef_s = (kc / R) / (2 * dr) + (kc - kI) / (4 * dr ** 2) + kc / dr ** 2
        rest_s = -(kc / R) * nn / (2 * dr) - (kc - kI) * nn / (4 * dr ** 2) + kc * (-2 * c + nn) / dr ** 2
        e_sol = (ssum - dKz - Z2 - rest_s) / coef_s
        q_sol = (e_sol - c) * kc / dr
    q_app = np.where(solid, q_sol, q_cool)
    q_exp = Kw * (shelf[1:] - c)
    ok = one & np.isfinite(q_app)
    if not ok.any():
        return {"n": 0}
    dev = np.where(ok, np.abs(q_app - q_exp), 0.0)
    tol = 1e-2 + 1e-6 * np.abs(q_exp)
    score = dev / tol
    j = int(np.argmax(score))
    return {"n": int(ok.sum()), "worst_dev": float(dev[j]), "score": float(score[j]), "row": int(ks[j]),
            "stage": "solidification" if solid[j] else "cooling", "q_applied": float(q_app[j]),
            "q_expected": float(q_exp[j]), "T_wall": float(c[j]), "T_shelf": float(shelf[1:][j]), "K_wall": Kw}


def observe(case, use_cache=True):
    """the shared observation of one real run"""
    p = _cache_path(case)
    if use_cache and p.exists():
        try:
            with gzip.open(p, "rt") as f:
                return json.load(f)
        except Exception:
            pass
    res = run_real_full(case)
    obs = summarize(case, res)
    if use_cache:
        try:
            tmp = p.with_suffix(".tmp%d" % os.getpid())
            with gzip.open(tmp, "wt") as f:
                json.dump(obs, f)
            os.replace(tmp, p)
        except Exception:
            pass
    return obs


def summarize(case, res):
    """the observation (energy accounting, boundary fluxes, bounds, decimated fields) of the arrays a run published;
    `case` must describe THAT run (its own programme, coefficients, geometry)"""
    if res["raise"]:
        obs = {"raise": res["raise"], "stage": res.get("stage")}
    else:
        const = res["const"]
        dim = const["dimensionality"]
        dt = code_dt(const)
        n = len(res["time"])
        obs = {"raise": None, "stats": [None if x is None else float(x) for x in res["stats"]], "n": n,
               "time": res["time"].tolist(), "shelf": res["shelf"].tolist(), "dt": dt, "dim": dim}
        nbad = int((~np.isfinite(res["temp"])).sum() + (~np.isfinite(res["ice"])).sum())
        obs["t_tot"] = float(case["t_tot"])
        if nbad:
            # whatever a run REPORTS must be finite; nothing else can be evaluated on such fields
            bad_rows = np.nonzero(~np.isfinite(res["temp"].reshape(n, -1)).all(axis=1))[0]
            obs["nonfinite"] = {"count": nbad, "first_row": int(bad_rows[0]) if len(bad_rows) else None}
            obs["bounds"] = {"finite": False}
            obs["iSaveEnd"] = 0
            obs["rows"] = []
            obs["temp"] = []
            obs["ice"] = []
            return obs
        if dim != "homogeneous":
            es = energy_series(case, res, dt)
            inuc = es["inuc"]
            ratio, k = energy_verdict(es)
            ratio_nc, k_nc = energy_verdict_without_crossing(es)
            time_s = res["time"] * 3600.0
            strided = bool(n > 2 and (time_s[1] - time_s[0]) > 1.5 * dt)
            obs["energy"] = {"ratio": ratio, "row": k, "dH": float(es["dH"][k]), "Q": float(es["Q"][k]),
                             "Qabs": float(es["Qabs"][k]), "grid": float(es["grid"][k]),
                             "final_dH_over_Q": float(es["dH"][-1] / es["Q"][-1]) if es["Q"][-1] != 0 else None,
                             # the row before the post-nucleation row is the field AT nucleation only if that step was saved
                             # (same time stamp); with thinned-out cooling rows it may be an earlier step
                             "jump_dH": (float(es["dH"][inuc] - es["dH"][inuc - 1])
                                         if 0 < inuc < n and abs(time_s[inuc] - time_s[inuc - 1]) <= 1e-9 * max(1.0, time_s[inuc])
                                         else 0.0),
                             "jump_scale": float(es["Qabs"][-1]),
                             "strided": strided,
                             "ratio_without_crossing": ratio_nc, "row_without_crossing": k_nc,
                             "cross": float(es["cross"][k]), "cross_final": float(es["cross"][-1]),
                             "crossings": int(es["ncross"][-1]),
                             "unsupercooled_at_nucleation": (float((res["temp"][inuc - 1] + 273.15 >= const["T_eq"] + 273.15 - const["depression"]).mean())
                                                              if 0 < inuc < n else None)}
            obs["inuc"] = inuc
            obs["bounds"] = _bounds_summary(case, res, inuc)
            obs["radial"] = _radial_summary(res, inuc)
            obs["evap"] = _evap_inferred(case, res, dt, inuc)
            obs["topflux"] = None if strided else _top_flux(case, res, dt, inuc)
            obs["botflux"] = None if strided else _bottom_flux(case, res, dt, inuc)
            obs["wallflux"] = None if strided else _wall_flux(case, res, dt, inuc)
            # the time step used by this harness (code_dt repeats the code's formula) must be the one the run used:
            # the reported stamps are multiples of it.  Otherwise the flux clauses would silently evaluate nothing.
            dts = np.diff(time_s)
            pos = dts[dts > 1e-12]
            mult = pos.min() / dt if len(pos) else 0.0
            obs["dt_consistent"] = bool(len(pos) and abs(mult - round(mult)) <= 1e-6 * max(1.0, mult) and round(mult) >= 1)
            for nm in ("topflux", "botflux"):
                if not strided and n > 3 and not (obs[nm] or {}).get("n"):
                    obs["dt_consistent"] = False
            stride = int(case.get("outStride", 1))
            rows = keep_rows(n, min(inuc, n - 1), stride)
            obs["iSaveEnd"] = min(inuc, n - 1)
            obs["rows"] = rows
            obs["temp"] = [res["temp"][k].reshape(-1).tolist() for k in rows]
            obs["ice"] = [res["ice"][k].reshape(-1).tolist() for k in rows]
            obs["T_eq_l"] = const["T_eq"] - const["depression"]
        else:
            inuc = nuc_row(res)
            obs["inuc"] = inuc
            obs["bounds"] = _bounds_summary(case, res, inuc)
            obs["temp"] = res["temp"].tolist()
            obs["ice"] = res["ice"].tolist()
    return obs


def published(S, stats=None):
    """arrays an object currently publishes, in the format of run_real_full"""
    return {"raise": None, "S": S, "stats": stats if stats is not None else list(S._stats.values()),
            "time": np.asarray(S._time, float), "temp": np.asarray(S._temp, float),
            "ice": np.asarray(S._iceMassFraction, float), "shelf": np.asarray(S._shelfTemp, float),
            "const": dict(S.const)}


def run_shared_k(cases):
    """one run per case, every object built from ONE shared heat-transfer dict (fresh objects, own YAML each);
    returns the published arrays of the LAST run"""
    k = {"int": 0, "ext": 0, "s0": cases[0]["K_shelf"]}
    res = None
    for c in cases:
        res = run_real_full(c, k=k)
        if res["raise"]:
            return res
    return res


def run_repoint(case, second):
    """one object: run, re-point `configPath` to the YAML of `second` (and set its programme), run again"""
    S = make_snowing(case)
    try:
        S.run()
        fd, path = tempfile.mkstemp(suffix=".yaml", prefix="snow2d_")
        try:
            with os.fdopen(fd, "w") as f:
                yaml.safe_dump(_yaml_for(second), f)
            S.configPath = path
        finally:
            os.unlink(path)
        S.opcond = make_opcond(second)
        S.k["s0"] = second["K_shelf"]
        S.run()
    except Exception as e:
        return {"raise": core.exc_class(e), "stage": "run"}
    return published(S)


# ---------------------------------------------------------------------------
# the standard set of runs (shared by C02 and C07, partly by C15)
# ---------------------------------------------------------------------------
def _base(cfg, H, D, K, t_tot, dim="spatial_2D", **kw):
    c = dict(dim=dim, config=cfg, height=H, diameter=D, K_shelf=K, start=5, stop=-80, rate=1, holds=None,
             t_tot=t_tot, cn=None, seed=0, outStride=40)
    if dim == "spatial_1D":
        c["length"] = c["width"] = float(math.sqrt(math.pi) * D / 2)  # equal cross-section
    if cfg == "VISF":
        c["visf"] = dict(t_vac_start=20 / 3600, t_vac_duration=100 / 3600)
    if cfg == "jacket":
        c["jacket"] = dict(air_gap=1e-4, lambda_air=0.025)
    c.update(kw)
    return c


def _est_steps(c):
    """rough number of time steps of a case (to keep every step recorded: < 10 000)"""
    const = dict(height=c["height"], diameter=c["diameter"], lambda_i=2.25, cp_i=2108.0, rho_l=1000.0,
                 dimensionality=c["dim"])
    return c["t_tot"] / code_dt(const)


def standard_cases(tier, seed=0):
    """the 2D / 1D runs on which C02 and C07 evaluate their clauses (geometries OFF the
    default aspect ratio, three configurations, every step recorded)"""
    import random

    rng = random.Random(f"S2D:{seed}")
    cs = [
        _base("shelf", 0.01, 0.04, 1000, 200),
        _base("VISF", 0.01, 0.04, 1000, 200),
        _base("jacket", 0.01, 0.04, 1000, 200),
        _base("jacket", 0.015, 0.03, 1000, 350, jacket=dict(air_gap=1e-5, lambda_air=0.025)),
        _base("jacket", 0.02, 0.02, 1000, 500),
        _base("shelf", 0.02, 0.06, 2000, 600),
        _base("shelf", 0.01, 0.04, 1000, 200, dim="spatial_1D"),
        _base("VISF", 0.01, 0.04, 1000, 200, dim="spatial_1D"),
        # vacuum windows relative to nucleation (t_nuc ~ 30 s here): the two above straddle it,
        # these open after it / close before it
        _base("VISF", 0.01, 0.04, 1000, 200, visf=dict(t_vac_start=60 / 3600, t_vac_duration=60 / 3600)),
        _base("VISF", 0.01, 0.04, 1000, 200, dim="spatial_1D",
              visf=dict(t_vac_start=60 / 3600, t_vac_duration=60 / 3600)),
        _base("VISF", 0.01, 0.04, 1000, 200, visf=dict(t_vac_start=2 / 3600, t_vac_duration=15 / 3600)),
        # solvents whose melting point is not 0 C (both signs): T_m enters the latent-heat term
        _base("shelf", 0.01, 0.04, 1000, 200, solution={"T_eq": -1.0}),
        _base("jacket", 0.015, 0.03, 1000, 350, solution={"T_eq": 0.8}),
        # configured SOLUTIONS (the model takes its constants from the configured object): dilute (depression 0.055 K),
        # concentrated with other cryoscopic constant / molar mass / melting point, other heat capacities
        _base("shelf", 0.01, 0.04, 1000, 200, solution={"solid_fraction": 0.01}),
        _base("shelf", 0.01, 0.04, 1000, 200, dim="spatial_1D", solution={"solid_fraction": 0.01}),
        _base("jacket", 0.015, 0.03, 1000, 400, start=8,
              solution={"solid_fraction": 0.2, "k_f": 1.2, "M_s": 0.18, "T_eq": 3.82, "cp_s": 1500},
              water={"cp_w": 4000, "cp_i": 2000}),
        _base("VISF", 0.01, 0.04, 1000, 200, dim="spatial_1D",
              solution={"solid_fraction": 0.2, "k_f": 1.2, "M_s": 0.18}),
        # coarse-grid Biot number K_shelf*dz/lambda > 1 in 1D (the 2D sibling is the 20 x 60 mm case above)
        _base("shelf", 0.02, 0.06, 2000, 600, dim="spatial_1D"),
        # long processes: > 10 000 steps in total (cooling rows thinned out), < 10 000 after nucleation
        _base("shelf", 0.01, 0.04, 1000, 542, dim="spatial_1D", rate=0.1, stop=-50),
        _base("shelf", 0.01, 0.04, 1000, 600, rate=0.1, stop=-50),
        # melt-back: an early short vacuum freezes the top of a warm tall fill, the ice melts again
        _base("VISF", 0.03, 0.06, 300, 3000, dim="spatial_1D", start=20, stop=-60, rate=0.5,
              visf=dict(t_vac_start=0.01, t_vac_duration=0.06)),
    ]
    n_rand = 3 if tier == "quick" else 14
    if tier != "quick":
        cs += [
            _base("jacket", 0.02, 0.012, 1000, 300, jacket=dict(air_gap=1e-5, lambda_air=0.025)),
            _base("VISF", 0.03, 0.03, 2000, 900),
            _base("jacket", 0.01, 0.04, 1000, 200, jacket=dict(air_gap=1e-5, lambda_air=0.025)),
            _base("VISF", 0.01, 0.04, 1000, 200, solution={"T_eq": -1.5}),
            _base("shelf", 0.01, 0.04, 1000, 200, dim="spatial_1D", solution={"T_eq": -1.0}),
        ]
    if source_has_cn_fix():
        # controlled nucleation (the model has the repaired test `T_k.min() <= cnTemp`, F4)
        cs.append(_base("shelf", 0.01, 0.04, 1000, 200, cn=-8.0))
        if tier != "quick":
            cs.append(_base("jacket", 0.015, 0.03, 1000, 350, cn=-5.0))
            cs.append(_base("shelf", 0.01, 0.04, 1000, 200, dim="spatial_1D", cn=-8.0))
    tries = 0
    while n_rand > 0 and tries < 200:
        tries += 1
        cfg = rng.choice(["shelf", "VISF", "jacket"])
        H = rng.choice([0.008, 0.01, 0.012, 0.015])
        D = H * rng.choice([2, 2.5, 3, 4])
        K = rng.choice([500, 800, 1000, 1500, 2000])
        stop = rng.choice([-80, -70, -60])
        rate = rng.choice([0.5, 1, 2])
        start = rng.choice([5, 10, 2])
        # freezing time estimate: conduction through ice + shelf resistance
        dT = -stop - 5
        tf = 1000 * 333550 * 0.95 * (H ** 2 / (2 * 2.25 * dT) + H / (K * dT))
        tcool = (start + 15) / rate
        c = _base(cfg, H, D, K, round(1.5 * (tf + tcool)), start=start, stop=stop, rate=rate)
        if cfg == "jacket":
            c["jacket"] = dict(air_gap=rng.choice([1e-5, 1e-4, 1e-3]), lambda_air=0.025)
        if cfg == "VISF":
            a = rng.choice([5, 20, 40])
            c["visf"] = dict(t_vac_start=a / 3600, t_vac_duration=rng.choice([30, 100]) / 3600,
                             p_vac=rng.choice([50, 100, 200]), kappa=rng.choice([0.005, 0.01, 0.02]))
        if rng.random() < 0.3:
            c["holds"] = [[rng.choice([-5, -10]), rng.choice([5, 10])]]
            c["t_tot"] += c["holds"][0][1]
        c["seed"] = rng.choice([0, 1, 2, 3])
        if _est_steps(c) > 9000:
            continue
        cs.append(c)
        n_rand -= 1
    return cs
