#!/bin/sh
# harness/seedtest.sh <Cxx> <patch.diff> [tier]  — run a check against a scratch worktree of /repo
# with the patch applied (the registered checks themselves always run against /repo).
# Exit code is the check's exit code. The worktree is removed afterwards.
id=$1; patch=$(readlink -f "$2"); tier=${3:-quick}
wt=/tmp/seedwt-$$-$id
git -C /repo worktree add -q "$wt" HEAD || exit 2
if ! git -C "$wt" apply "$patch"; then echo "patch does not apply"; git -C /repo worktree remove --force "$wt"; exit 2; fi
cd "$(dirname "$0")/.." || exit 2
SNOW_REPO="$wt" ./check "$id" "$tier"; rc=$?
git -C /repo worktree remove --force "$wt"
exit $rc
