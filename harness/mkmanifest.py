"""Regenerate /verif/MANIFEST.json from the property modules (harness/props/cXX.py)."""
import importlib
import json
import sys
from pathlib import Path

sys.path.insert(0, str(Path(__file__).resolve().parent))
VERIF = Path(__file__).resolve().parent.parent

ALL = [f"C{i:02d}" for i in range(1, 21)]
PYTEST = ("cd /repo && env -u SPL_ETHZ_SNOW_VERIF /venv/bin/python -m pytest -ra -q -p no:cacheprovider "
          "--timeout=900 --continue-on-collection-errors")


def main():
    checks = []
    na = []
    for pid in ALL:
        f = VERIF / "harness" / "props" / f"{pid.lower()}.py"
        if not f.exists():
            na.append({"property_id": pid,
                       "reason": "not claimed yet: the model, theorems and correspondence check for this property "
                                 "are not built (see DESIGN.md section 6 for the plan); no other technique is substituted"})
            continue
        mod = importlib.import_module(f"props.{pid.lower()}")
        if getattr(mod, "NOT_APPLICABLE", None):
            na.append({"property_id": pid, "reason": mod.NOT_APPLICABLE})
            continue
        def _cat(t):
            st = t.get("strength", "full")
            if st == "full":
                return "full"
            if st.startswith("partial") or st.startswith("conditional") or "monitored-hypothesis" in st:
                return "partial"
            return st
        full = [t["clause"] for t in mod.THEOREMS if _cat(t) == "full"]
        part = [t["clause"] for t in mod.THEOREMS if _cat(t) == "partial"]
        byc = [t["clause"] for t in mod.THEOREMS if _cat(t) == "by-construction"]
        mon = [t["clause"] for t in mod.THEOREMS if _cat(t) == "monitored"]
        nties = sum(1 for t in mod.THEOREMS if _cat(t) == "tie")
        text = getattr(mod, "LEVEL_TEXT", None) or (
            "Lean 4 theorems about an executable model of the anchored code, for all inputs the property "
            "quantifies over (exact real arithmetic); the model is tied to /repo on every run by a differential "
            "correspondence check, and the property's clauses are additionally evaluated on the real code's "
            "outputs to produce a concrete failing input when the tie breaks. Proved in full: "
            + "; ".join(full) + ("." if full else "")
            + (" Partial or conditional on a stated/monitored hypothesis: " + "; ".join(part) + "." if part else "")
            + (" True by construction of the model (the fact about the code rests on the correspondence): "
               + "; ".join(byc) + "." if byc else "")
            + (" NOT proved, decided by evaluation on real runs only: " + "; ".join(mon) + "." if mon else "")
            + (f" {nties} regeneration-tie theorems equate formulas re-extracted from /repo on every run with the "
               "hand model." if nties else ""))
        if getattr(mod, "LEVEL_TEXT", None):
            # a hand-written text can lag behind the registered strengths: append the generated list of
            # everything that is NOT a full theorem (names; clauses are in the evidence file)
            names = lambda c: ", ".join(t["name"] for t in mod.THEOREMS if _cat(t) == c)
            extra = []
            if part: extra.append("partial/conditional: " + names("partial"))
            if byc: extra.append("by construction of the model: " + names("by-construction"))
            if mon: extra.append("not proved, evaluated on real runs only: " + names("monitored"))
            if nties: extra.append(f"{nties} regeneration-tie theorems")
            if extra:
                text = text.rstrip() + " [Registered non-full entries, generated from THEOREMS: " + "; ".join(extra) + ".]"
        checks.append({
            "property_id": pid,
            "quick_cmd": f"./check {pid} quick",
            "thorough_cmd": f"./check {pid} thorough",
            "evidence_file": f"/verif/evidence/{pid}.json",
            "replay_cmd_template": f"./check {pid} --replay {{path}}",
            "engine": "lean4-model+correspondence",
            "level_claimed": {"category": "proof", "text": text,
                              "design_ref": getattr(mod, "DESIGN_REF", f"DESIGN.md section 6, {pid}")},
            "level_note": "Trusted: " + "; ".join(getattr(mod, "TRUSTED", [])),
            "technique": getattr(mod, "TECHNIQUE", "Lean 4 proof over a hand-written model + differential correspondence check against the Python implementation"),
        })
    man = {
        "version": 1,
        "setup_cmd": "cd lean && lake build",
        "hooks": {
            "guard": "SPL_ETHZ_SNOW_VERIF",
            "enable": "no source hooks: the harness observes the package from outside (in-process import of /repo/src, "
                      "monkey-patched random generators, scipy.integrate.simps shim); the guard name is reserved",
            "baseline_off_cmd": PYTEST,
            "source_commits": [],
            "add_only": True,
        },
        "engines": [{
            "name": "lean4-model+correspondence",
            "path": "lean/ (model SnowModel, proofs SnowProofs, driver snowdrv) + harness/ (runcheck.py, props/)",
            "serves_properties": [c["property_id"] for c in checks],
            "kind_free_text": "machine-checked proof in Lean 4 about an executable model; differential correspondence "
                              "check model vs implementation; property predicates on the real code as failing-input search",
        }],
        "checks": checks,
        "not_applicable": na,
        "notes": "Entry point ./check <id> <quick|thorough>; ./check <id> --replay <file>. known_findings.json lists "
                 "repaired (fixed) and recorded (open) defects. Evidence files are rewritten by every run.",
    }
    (VERIF / "MANIFEST.json").write_text(json.dumps(man, indent=1) + "\n")
    print(f"MANIFEST.json: {len(checks)} checks, {len(na)} not claimed")


if __name__ == "__main__":
    main()
