"""C17 Tabular exports reproduce the simulated numbers exactly.

Model: lean/SnowModel/Frames.lean (pandas melt order, Snowflake.to_frame's two
tables, Snowfall.to_frame's block overwrite, the accessors as row filters).
Theorems: lean/SnowProofs/Props/C17.lean.

Tie to the code: real `Snowflake.to_frame(n)`, `Snowfall.to_frame()` and the
Snowfall accessors are executed on real (short) runs; the numbers held by the run
(`stats`, `_X`, `_t`, storage mask) are sent to the model as opaque bit patterns
and the model's tables are compared with the pandas objects as multisets of row
tuples, values bit for bit (they are copied, never computed).  Group labels are
input of the model (read off the first block of the real table; their correctness
is C16, their consistency across blocks is checked here).
"""
from __future__ import annotations

import math
import os
from collections import Counter

import shim  # noqa: F401
import numpy as np

import core
from core import Failure, f2b

ID = "C17"
TITLE = "Tabular exports reproduce the simulated numbers exactly"
LEAN_MODULE = "SnowProofs.Props.C17"
THEOREMS = [
    dict(name="Snow.C17.stats_table_exact", clause="statistics table: row j*N+v is (label v, v, key j, stats[key j][v]); K*N rows", strength="full"),
    dict(name="Snow.C17.stats_table_once", clause="each (vial, variable) occurs exactly once (distinct keys)", strength="full"),
    dict(name="Snow.C17.traj_table_exact", clause="trajectory table, any run length and n >= 2: row c*2m+r is (label, vial, state, t[c*s], X[r][c*s]); all sampled columns exist", strength="full"),
    dict(name="Snow.C17.traj_table_total", clause="trajectory table never raises for n >= 2 when the time vector has one entry per column; at least min(ncols, n-1) samples, the first at t[0]", strength="full"),
    dict(name="Snow.C17.fall_table_exact", clause="Snowfall table: Nrep*N*3 rows; row i*3N+j*N+v is (label v, v, key_i j, stats[i][key][v], seed i)", strength="full"),
    dict(name="Snow.C17.table_after_run", clause="model: after run() the table is built from that run's stats (definitional in the model - run drops the cache; that the CODE does so rests on the correspondence: Snowfall re-run histories)", strength="by-construction"),
    dict(name="Snow.C17.table_cached", clause="model: a second to_frame() returns the same table (definitional; code-level fact rests on the correspondence)", strength="by-construction"),
    dict(name="Snow.C17.stats_table_class", clause="statistics table built with the code's label function: every row carries the name of the class its vial belongs to (label in corner/edge/side/core, group test true, same class as any query name up to synonyms)", strength="full"),
    dict(name="Snow.C17.traj_table_class", clause="trajectory table built with the code's label function: every row carries the class name of its vial, equal to that vial's label in the statistics table", strength="full"),
    dict(name="Snow.C17.accessors_exact", clause="accessors = values of the rows with matching group, seed and variable, in (seed, variable, vial) order, expressed in the source data", strength="full"),
    dict(name="Snow.C17.old_stride_zero_raises", clause="pre-repair code: fewer columns than n-1 -> ValueError", strength="refutation-of-old-code"),
    dict(name="Snow.C17.long_time_vector_raises", clause="a time vector longer than the state matrix (np.arange rounding) -> ValueError", strength="refutation-of-old-code"),
    dict(name="Snow.C17.nonvacuous", clause="concrete 2-vial / 5-column / 2-repetition instance", strength="nonvacuity"),
]
TRUSTED = [
    "Lean 4.33 kernel; axioms per theorem listed under coverage.axioms",
    "pandas DataFrame / melt / concat / iloc block assignment / isin: modelled (own melt and overwrite semantics), compared with pandas on every run, not proved",
    "numpy slicing `[::s]`",
    "group labels are input to the model (C16)",
    "hand-written model SnowModel/Frames.lean tied to snowflake.py / snowfall.py by this differential check",
]
ASSUMPTIONS = [
    "n_timeSteps >= 2 for the property clauses (n_timeSteps = 1 divides by zero in the code and in the model)",
    "tables are compared as multisets of rows (the property does not fix a row order); values and times bit for bit",
    "a case counts as non-trivial only with enough distinct finite numbers in its tables to pin vial/block alignment; "
    "the vials a group argument selects are taken from the group model (Groups.lean / C16), and the code's own getVialGroup is cross-checked against it",
]
RULE = ("shapes up to 3x3x1 and 2x2x2, run lengths ncols in {1, 2, n-2, n-1, n, 10n} for n_timeSteps in {2,3,4,250}, "
        "dt in {1, 2.0, 0.5} and dt = 0.1 (arange rounding), recorded subsets (all / group / index lists / none); "
        "Snowfall Nrep {1,2,5} x {sequential, async, sync} x group and seed filters incl. unknown groups and seeds; a "
        "case is non-trivial when a table with at least one non-NaN value was produced")
EXPLANATION = ("Lean theorems about the table model + differential check against the pandas objects returned by the real "
               "to_frame()/accessors")
PARALLEL = True

NAN = 0x7FF8000000000000


def _b(x):
    x = float(x)
    return NAN if math.isnan(x) else f2b(x)


def _opcond(t_tot):
    from ethz_snow.operatingConditions import OperatingConditions

    return OperatingConditions(t_tot=t_tot, cooling={"rate": 1, "start": -14, "end": -40})


K = {"int": 20, "ext": 20, "s0": 20, "s_sigma_rel": 0.1}


def _stats_obs(stats):
    return [[k, [_b(x) for x in v]] for k, v in stats.items()]


def _store(s):
    return tuple(s) if isinstance(s, list) and all(isinstance(x, int) for x in s) else s


def _flake(case):
    from ethz_snow.snowflake import Snowflake

    dt = case["dt"]
    t_tot = case["t_tot"] if "t_tot" in case else (case["ncols"] - 1) * dt
    S = Snowflake(k=dict(K), N_vials=tuple(case["nv"]), dt=dt, seed=case.get("seed", 3), opcond=_opcond(t_tot),
                  storeStates=_store(case["store"]))
    obs = {}
    if case.get("norun"):
        try:
            S.to_frame()
            obs["frame"] = "ok"
        except Exception as e:
            obs["frame"] = {"raise": core.exc_class(e)}
        return obs
    S.run()
    obs["N"] = S.N_vials_total
    obs["stats"] = _stats_obs(S.stats)
    obs["X"] = [[_b(x) for x in row] for row in S._X]
    obs["t"] = [_b(x) for x in S._t]
    obs["vials"] = [int(i) for i in np.where(S._storageMask)[0]]
    if isinstance(case["store"], list) and all(isinstance(x, int) for x in case["store"]):
        # the same run recording every vial: the recorded subset must be rows of it
        A = Snowflake(k=dict(K), N_vials=tuple(case["nv"]), dt=dt, seed=case.get("seed", 3), opcond=_opcond(t_tot),
                      storeStates="all")
        A.run()
        want = sorted(set(case["store"]))
        obs["requested"] = want
        obs["X_from_all"] = [[_b(x) for x in A._X[v]] for v in want] + \
                            [[_b(x) for x in A._X[A.N_vials_total + v]] for v in want]
    try:
        sdf, tdf = S.to_frame(n_timeSteps=case["n"])
    except Exception as e:
        obs["frame"] = {"raise": core.exc_class(e)}
        return obs
    obs["frame"] = "ok"
    obs["stats_cols"] = [str(c) for c in sdf.columns]
    obs["stats_rows"] = [[str(g), int(v), str(var), _b(val)]
                         for g, v, var, val in zip(sdf["group"], sdf["vial"], sdf["variable"], sdf["value"])]
    if tdf is None:
        obs["traj_rows"] = None
    else:
        obs["traj_cols"] = [str(c) for c in tdf.columns]
        obs["traj_rows"] = _traj_obs(tdf)
    # further exports on the SAME object with other arguments (the table is a function of the arguments only)
    obs["more"] = []
    for step in case.get("more", []):
        try:
            if "plot" in step:
                import matplotlib.pyplot as plt

                try:
                    S.plot(**step["plot"])
                    obs["more"].append({"plot": "ok"})
                except Exception as e:
                    # plotting is not the property's subject (e.g. "No data for ..." when no recorded vial is in the
                    # requested group); the step only matters as something that happened before the next export
                    obs["more"].append({"plot": "raised " + core.exc_class(e)})
                plt.close("all")
            elif step.get("rerun"):
                S.run()
                obs["more"].append({"rerun": "ok", "same_X": [[_b(x) for x in row] for row in S._X] == obs["X"]})
            else:
                sdf2, tdf2 = S.to_frame(n_timeSteps=step["n"])
                obs["more"].append({"n": step["n"], "traj_rows": None if tdf2 is None else _traj_obs(tdf2),
                                    "stats_rows": [[str(g), int(v), str(var), _b(val)] for g, v, var, val in
                                                   zip(sdf2["group"], sdf2["vial"], sdf2["variable"], sdf2["value"])]})
        except Exception as e:
            obs["more"].append({"raise": core.exc_class(e)})
    return obs


def _traj_obs(tdf):
    return [[str(g), int(v), str(s), _b(tm), _b(val)]
            for g, v, s, tm, val in zip(tdf["group"], tdf["vial"], tdf["state"], tdf["Time"], tdf["value"])]


ACCESSORS = {"tnuc": "nucleationTimes", "Tnuc": "nucleationTemperatures", "tsol": "solidificationTimes"}


def _arr_config(arr):
    """custom YAML selecting the vial arrangement (written under .cache/, git-ignored)"""
    if not arr:
        return None
    d = core.VERIF / ".cache" / "c17"
    d.mkdir(parents=True, exist_ok=True)
    p = d / f"{arr}.yaml"
    text = f"snowfall_parameters:\n  vial_arrangement: {arr}\n"
    if not p.exists() or p.read_text() != text:
        tmp = d / f"{arr}.{os.getpid()}.tmp"
        tmp.write_text(text)
        os.replace(tmp, p)
    return str(p)


_sync_patched = [False]


def _slow_seed0():
    """schedule control for `sync` runs: the task with seed 0 is delayed, so that with more than one worker the
    repetitions complete OUT OF SEED ORDER (the shared dict is then filled in completion order).  Harness process
    only; inherited by the forked workers."""
    if _sync_patched[0]:
        return
    _sync_patched[0] = True
    import time
    from ethz_snow.snowfall import Snowfall

    orig = Snowfall._uniqueFlake_sync.__func__

    def slow(cls, S, seed, return_dict):
        if seed == 0:
            time.sleep(0.25)
        return orig(cls, S, seed, return_dict)

    slow.__name__ = slow.__qualname__ = "_uniqueFlake_sync"
    Snowfall._uniqueFlake_sync = classmethod(slow)


def _mk_fall(case, arr):
    from ethz_snow.snowfall import Snowfall

    _slow_seed0()

    kw = {"configPath": _arr_config(arr)} if arr else {}
    return Snowfall(Nrep=case["nrep"], pool_size=case["pool"], k=dict(K), N_vials=tuple(case["nv"]), dt=case["dt"],
                    opcond=_opcond((case["ncols"] - 1) * case["dt"]), **kw)


_DRV = [None]


def _model_groups(arr, nv, groups):
    """vials selected by each group argument according to the GROUP MODEL (Groups.lean, property C16) - the
    expectation for the accessors does not come from the code's own `getVialGroup`"""
    if _DRV[0] is None:
        _DRV[0] = core.Driver()
    qs = [[g] if isinstance(g, str) else list(g) for g in groups]
    r = _DRV[0].call({"op": "groups", "arr": arr or "square", "nx": nv[0], "ny": nv[1], "nz": nv[2], "queries": qs})
    return r["masks"]


def _ask(F, queries):
    ans, sels = [], []
    for q in queries:
        kw = {}
        tup = (lambda x: tuple(x) if q.get("tuple") and isinstance(x, list) else x)
        if q["groups"] != "all":
            kw["group"] = tup(q["groups"])
        if q["seeds"] is not None:
            kw["seed"] = tup(q["seeds"])
        # the vials the group argument selects: input of the model (its meaning is C16)
        try:
            sels.append(None if q["groups"] == "all" else
                        [int(i) for i in np.where(F.Sf_template.getVialGroup(kw["group"]))[0]])
        except Exception as e:
            sels.append({"raise": core.exc_class(e)})
        try:
            ans.append([_b(x) for x in getattr(F, ACCESSORS[q["what"]])(**kw)])
        except Exception as e:
            ans.append({"raise": core.exc_class(e)})
    return ans, sels


def _fall(case):
    if case.get("decoy_arr") and not case.get("norun"):
        # ANOTHER Snowfall of this process: same shape, other vial arrangement, asked the same questions before
        D = _mk_fall(case, case["decoy_arr"])
        D.run(how="sequential")
        _ask(D, case["queries"])
    F = _mk_fall(case, case.get("arr"))
    obs = {}
    if case.get("norun"):
        try:
            F.to_frame()
            obs["frame"] = "ok"
        except Exception as e:
            obs["frame"] = {"raise": core.exc_class(e)}
        return obs
    F.run(how=case["how"])
    obs["N"] = F.Sf_template.N_vials_total
    obs["key_order"] = [int(i) for i in F.stats]
    obs["statsList"] = [_stats_obs(F.stats[i]) for i in range(case["nrep"])]
    try:
        df = F.to_frame()
    except Exception as e:
        obs["frame"] = {"raise": core.exc_class(e)}
        return obs
    obs["frame"] = "ok"
    obs["cols"] = [str(c) for c in df.columns]
    obs["rows"] = [[str(g), int(v), str(var), _b(val), int(s)]
                   for g, v, var, val, s in zip(df["group"], df["vial"], df["variable"], df["value"], df["seed"])]
    obs["answers"], obs["vialsel_code"] = _ask(F, case["queries"])
    obs["vialsel"] = _sel_model(case, case.get("arr"))
    obs["template_clean"] = (F.Sf_template.stats == dict()) and F.Sf_template._simulationStatus == 0
    if case.get("repoint"):
        # the template is pointed to another arrangement: the same questions now select other vials
        F.Sf_template.configPath = _arr_config(case["repoint"])
        obs["answers2"], obs["vialsel2_code"] = _ask(F, case["queries"])
        obs["vialsel2"] = _sel_model(case, case["repoint"])
    return obs


def _sel_model(case, arr):
    gs = [q["groups"] for q in case["queries"] if q["groups"] != "all"]
    masks = iter(_model_groups(arr, case["nv"], gs)) if gs else iter([])
    return [None if q["groups"] == "all" else next(masks) for q in case["queries"]]


def _table_obs(df):
    return [[str(g), int(v), str(var), _b(val), int(s)]
            for g, v, var, val, s in zip(df["group"], df["vial"], df["variable"], df["value"], df["seed"])]


def _fallhist(case):
    """one Snowfall object: run, export, modify (Nrep / template dt / process time), run, export ..."""
    from ethz_snow.snowfall import Snowfall

    _slow_seed0()
    F = Snowfall(Nrep=case["nrep"], pool_size=case["pool"], k=dict(K), N_vials=tuple(case["nv"]), dt=case["dt"],
                 opcond=_opcond((case["ncols"] - 1) * case["dt"]))
    obs = {"N": F.Sf_template.N_vials_total, "out": []}
    nrep = case["nrep"]
    for st in case["steps"]:
        if st[0] == "run":
            F.run(how=st[1])
            obs["out"].append({"nrep": nrep, "statsList": [_stats_obs(F.stats[i]) for i in range(nrep)],
                               "keys": sorted(int(i) for i in F.stats)})
        elif st[0] == "set":
            if st[1] == "Nrep":
                F.Nrep = nrep = st[2]
            elif st[1] == "dt":
                F.Sf_template.dt = st[2]
            elif st[1] == "t_tot":
                F.Sf_template.opcond = _opcond(st[2])
            obs["out"].append({})
        else:
            o = {}
            try:
                if st[0] == "table":
                    o["rows"] = _table_obs(F.to_frame())
                else:   # an accessor as the first consumer of the table
                    o["values"] = [_b(x) for x in getattr(F, ACCESSORS[st[1]])()]
                    o["rows"] = _table_obs(F.to_frame())
            except Exception as e:
                o = {"raise": core.exc_class(e)}
            obs["out"].append(o)
    return obs


def run_impl(case):
    try:
        o = {"flake": _flake, "fall": _fall, "fallhist": _fallhist}[case["kind"]](case)
        o["raise"] = None
        return o
    except Exception as e:
        import traceback

        return {"raise": core.exc_class(e), "tb": traceback.format_exc()[-800:]}


# ---------------------------------------------------------------------------
def _labels_from_rows(rows, N):
    """the label vector as given input: group of vial v in the first block"""
    lab = [""] * N
    for g, v, *_ in rows[:N]:
        if 0 <= v < N:
            lab[v] = g
    return lab


def run_model(drv, case):
    return {"_drv": drv}


def _ms(rows):
    return Counter(tuple(r) for r in rows)


def _diff(a, b, what):
    ca, cb = _ms(a), _ms(b)
    if ca == cb:
        return None
    only_a = list((ca - cb).elements())[:3]
    only_b = list((cb - ca).elements())[:3]
    return f"{what}: {len(a)} impl rows vs {len(b)} model rows; only impl {only_a}; only model {only_b}"


def _live(drv):
    """the runner's driver, or a fresh one when it has been closed (replay path)"""
    try:
        if drv.p.poll() is None and not drv.p.stdin.closed:
            return drv
    except Exception:
        pass
    return core.Driver()


def compare(case, impl, model):
    dis = []
    drv = _live(model["_drv"])
    if impl.get("raise"):
        dis.append(f"implementation raised outside to_frame: {impl['raise']} {impl.get('tb', '')[-300:]}")
        return dis
    if case.get("norun"):
        if impl["frame"] != {"raise": "ValueError"}:
            dis.append(f"to_frame before run: impl {impl['frame']} vs model ValueError")
        return dis
    if case["kind"] == "fallhist":
        first = next((o["rows"] for o in impl["out"] if "rows" in o), [])
        labels = _labels_from_rows(first, impl["N"])
        steps = []
        for st, o in zip(case["steps"], impl["out"]):
            if st[0] == "run":
                steps.append(["run", o["statsList"]])
            elif st[0] != "set":
                steps.append(["table"])
        r = drv.call({"op": "c17_fallhist", "labels": labels, "steps": steps})
        if "error" in r:
            raise RuntimeError(r["error"])
        mo = iter(r["out"])
        for i, (st, o) in enumerate(zip(case["steps"], impl["out"])):
            if st[0] == "set":
                continue
            b = next(mo)
            if st[0] == "run":
                if o["keys"] != list(range(o["nrep"])):
                    dis.append(f"step {i} run: stats keys {o['keys']} != 0..{o['nrep'] - 1}")
                continue
            if ("raise" in o) != ("raise" in b):
                dis.append(f"step {i} {st}: impl {o.get('raise', 'table')} vs model {b.get('raise', 'table')}")
                continue
            if "raise" in o:
                continue
            d = _diff(o["rows"], b["rows"], f"step {i} Snowfall table after {case['steps'][:i]}")
            if d:
                dis.append(d)
        return dis
    if case["kind"] == "flake":
        N = impl["N"]
        if impl["frame"] == "ok":
            labels = _labels_from_rows(impl["stats_rows"], N)
            m = len(impl["vials"])
            tl = {}
            for g, v, *_ in (impl["traj_rows"] or [])[:2 * m]:
                tl.setdefault(v, g)
            tlabels = [tl.get(v, "") for v in impl["vials"]]
        else:
            labels, tlabels = ["?"] * N, ["?"] * len(impl["vials"])
        r = drv.call({"op": "c17_flake", "labels": labels, "stats": impl["stats"], "X": impl["X"], "t": impl["t"],
                      "n": case["n"], "vials": impl["vials"], "tlabels": tlabels})
        if "error" in r:
            raise RuntimeError(r["error"])
        mraise = r["traj"]["raise"] if isinstance(r["traj"], dict) else None
        iraise = impl["frame"]["raise"] if isinstance(impl["frame"], dict) else None
        if mraise != iraise:
            dis.append(f"to_frame(n_timeSteps={case['n']}) with {len(impl['X'][0]) if impl['X'] else '?'} columns, "
                       f"len(t)={len(impl['t'])}: impl {iraise or 'tables'} vs model {mraise or 'tables'}")
            return dis
        if iraise:
            return dis
        d = _diff(impl["stats_rows"], r["stats"], "stats table")
        if d:
            dis.append(d)
        nv = case["nv"]
        if nv[0] >= 2 and nv[1] >= 2:
            # the label input of the table model = the label functions of Groups.lean (C16), square arrangement
            lab = drv.call({"op": "c17_labels", "nx": nv[0], "ny": nv[1], "nz": nv[2], "vials": impl["vials"]})
            if lab["stats"] != labels:
                dis.append(f"group column of the stats table {labels} vs label function {lab['stats']}")
            if impl["traj_rows"] and lab["traj"] != tlabels:
                dis.append(f"group column of the trajectory table {tlabels} vs label function {lab['traj']}")
        if (impl["traj_rows"] is None) != (r["traj"] is None):
            dis.append(f"trajectory table: impl {'None' if impl['traj_rows'] is None else 'table'} vs model "
                       f"{'None' if r['traj'] is None else 'table'}")
        elif r["traj"] is not None:
            d = _diff(impl["traj_rows"], r["traj"], "trajectory table")
            if d:
                dis.append(d)
            if impl["traj_cols"] != ["group", "vial", "state", "Time", "value"]:
                dis.append(f"trajectory table columns {impl['traj_cols']}")
        if impl["stats_cols"] != ["group", "vial", "variable", "value"]:
            dis.append(f"stats table columns {impl['stats_cols']}")
        for mi, mo in enumerate(impl.get("more", [])):
            if "n" not in mo:
                if mo.get("same_X") is False:
                    dis.append(f"export history step {mi}: a re-run of the same object changed the stored states")
                continue
            r2 = drv.call({"op": "c17_flake", "labels": labels, "stats": impl["stats"], "X": impl["X"], "t": impl["t"],
                           "n": mo["n"], "vials": impl["vials"], "tlabels": tlabels})
            if isinstance(r2["traj"], dict) or (r2["traj"] is None) != (mo["traj_rows"] is None):
                dis.append(f"export {mi + 2} on the same object (n_timeSteps={mo['n']}): impl table vs model {r2['traj'] if isinstance(r2['traj'], dict) else 'None-ness differs'}")
                continue
            d = None if r2["traj"] is None else _diff(mo["traj_rows"], r2["traj"],
                                                      f"trajectory table of export {mi + 2} on the same object (n_timeSteps={mo['n']}, after {case['more'][:mi]})")
            d = d or _diff(mo["stats_rows"], r2["stats"], f"stats table of export {mi + 2}")
            if d:
                dis.append(d)
    else:
        if impl["frame"] != "ok":
            dis.append(f"Snowfall.to_frame raised {impl['frame']}")
            return dis
        labels = _labels_from_rows(impl["rows"], impl["N"])
        qs = [{"what": q["what"], **({} if not isinstance(sel, list) else {"vials": sel}),
               **({} if q["seeds"] is None else {"seeds": q["seeds"] if isinstance(q["seeds"], list) else [q["seeds"]]})}
              for q, sel in zip(case["queries"], impl["vialsel"])]
        r = drv.call({"op": "c17_fall", "labels": labels, "statsList": impl["statsList"], "queries": qs})
        if "error" in r:
            raise RuntimeError(r["error"])
        if "raise" in r:
            dis.append(f"Snowfall.to_frame: impl table vs model {r['raise']}")
            return dis
        d = _diff(impl["rows"], r["rows"], "Snowfall table")
        if d:
            dis.append(d)
        if impl["cols"] != ["group", "vial", "variable", "value", "seed"]:
            dis.append(f"Snowfall table columns {impl['cols']}")
        for q, sm, sc in zip(case["queries"], impl["vialsel"], impl["vialsel_code"]):
            if sm != sc:
                dis.append(f"group {q['groups']}: getVialGroup selects {sc}, the group model (C16) {sm}")
        for q, a, b, sel in zip(case["queries"], impl["answers"], r["answers"], impl["vialsel"]):
            if isinstance(sel, dict):
                # the group argument is rejected by getVialGroup: the accessor must raise the same class
                if a != sel:
                    dis.append(f"accessor {q}: getVialGroup raises {sel['raise']} but the accessor gives {a if isinstance(a, dict) else 'values'}")
            elif isinstance(a, dict):
                dis.append(f"accessor {q}: impl raised {a['raise']}")
            elif sorted(a) != sorted(b):
                dis.append(f"accessor {q}: impl {len(a)} values vs model {len(b)} values")
        if not impl["template_clean"]:
            dis.append("Snowfall.to_frame left the template's stats / status modified")
        if "answers2" in impl:
            qs2 = [{"what": q["what"], **({} if not isinstance(sel, list) else {"vials": sel}),
                    **({} if q["seeds"] is None else {"seeds": q["seeds"] if isinstance(q["seeds"], list) else [q["seeds"]]})}
                   for q, sel in zip(case["queries"], impl["vialsel2"])]
            r2 = drv.call({"op": "c17_fall", "labels": labels, "statsList": impl["statsList"], "queries": qs2})
            for q, a, b, sel in zip(case["queries"], impl["answers2"], r2["answers"], impl["vialsel2"]):
                if isinstance(sel, dict):
                    if a != sel:
                        dis.append(f"accessor {q} after re-pointing the template: getVialGroup raises {sel['raise']}, accessor does not")
                elif isinstance(a, dict):
                    dis.append(f"accessor {q} after re-pointing the template: impl raised {a['raise']}")
                elif sorted(a) != sorted(b):
                    dis.append(f"accessor {q} after re-pointing the template to {case['repoint']}: impl {len(a)} values vs model {len(b)} values")
    return dis


# ---------------------------------------------------------------------------
# the property on the real tables
# ---------------------------------------------------------------------------
def _check_stats_rows(rows, stats, N, site, out, seed=None):
    """each (vial, variable) exactly once, with the run's value and one label per vial"""
    want = Counter()
    for k, vals in stats:
        for v, x in enumerate(vals):
            want[(v, k, x)] += 1
    got = Counter((r[1], r[2], r[3]) for r in rows)
    if got != want:
        miss = list((want - got).elements())[:3]
        extra = list((got - want).elements())[:3]
        out.append(Failure(clause="stats_table_exact" if seed is None else "fall_table_exact",
                           key=f"table_exact|{site}|values",
                           detail=f"{site}{'' if seed is None else f' seed {seed}'}: missing (vial, variable, value) {miss}, "
                                  f"unexpected {extra}"))
        return False
    return True


def predicates(case, impl):
    out = []
    if impl.get("raise"):
        out.append(Failure(clause="total", key=f"raises|{case['kind']}|{impl['raise']}",
                           detail=f"{case['kind']} case raises {impl['raise']}: {impl.get('tb', '')[-300:]}"))
        return out
    if case.get("norun"):
        return out
    if case["kind"] == "fallhist":
        cur = None
        for i, (st, o) in enumerate(zip(case["steps"], impl["out"])):
            if st[0] == "run":
                cur = o
            elif st[0] != "set" and cur is not None:
                hist = "-".join(s[0] if s[0] != "set" else f"set{s[1]}" for s in case["steps"][:i])
                if "raise" in o:
                    out.append(Failure(clause="fall_table_exact", key=f"fall_table_exact|Snowfall.to_frame|raises:{o['raise']}|history",
                                       detail=f"after {case['steps'][:i]}: raises {o['raise']}"))
                    continue
                N, nrep = impl["N"], cur["nrep"]
                ok = len(o["rows"]) == nrep * N * 3
                sub = []
                for sd in range(nrep):
                    ok = _check_stats_rows([r for r in o["rows"] if r[4] == sd], cur["statsList"][sd], N,
                                           "Snowfall.to_frame", sub, seed=sd) and ok
                if "values" in o and ok:
                    var = {"tnuc": "t_nucleation", "Tnuc": "T_nucleation", "tsol": "t_solidification"}[st[1]]
                    want = [x for sd in range(nrep) for x in dict(cur["statsList"][sd])[var]]
                    ok = sorted(want) == sorted(o["values"])
                if not ok:
                    out.append(Failure(
                        clause="fall_table_exact", key="fall_table_exact|Snowfall.to_frame|stale-after-rerun",
                        detail=f"after {hist}: the table/accessor ({len(o['rows'])} rows) does not describe the run the "
                               f"object holds (Nrep={nrep}, N={N}); " + (sub[0]["detail"] if sub else "")))
                    break
        return out
    if case["kind"] == "flake":
        n = case["n"]
        if n < 2:
            return out
        N = impl["N"]
        X, t, vials = impl["X"], impl["t"], impl["vials"]
        ncols = len(X[0]) if X else None
        m = len(vials)
        if isinstance(impl["frame"], dict):
            if m and len(t) != ncols:
                cls = "len(t)!=ncols"
            elif m and ncols < n - 1:
                cls = "ncols<n-1"
            else:
                cls = "other"
            out.append(Failure(
                clause="traj_table_exact", key=f"traj_table_exact|Snowflake.to_frame|raises:{impl['frame']['raise']}|{cls}",
                detail=f"to_frame(n_timeSteps={n}) raises {impl['frame']['raise']} for a run with {ncols} stored columns, "
                       f"len(_t)={len(t)}, {m} recorded vials (dt={case['dt']}, t_tot={case.get('t_tot', (case.get('ncols', 1) - 1) * case['dt'])})"))
            return out
        _check_stats_rows(impl["stats_rows"], impl["stats"], N, "Snowflake.to_frame", out)
        lab = {}
        for g, v, *_ in impl["stats_rows"]:
            if lab.setdefault(v, g) != g:
                out.append(Failure(clause="stats_table_exact", key="table_exact|Snowflake.to_frame|labels",
                                   detail=f"vial {v} carries two labels"))
                break
        if "X_from_all" in impl:
            if vials != impl["requested"] or X != impl["X_from_all"]:
                out.append(Failure(clause="traj_table_exact", key="traj_table_exact|Snowflake.run|subset-of-full-recording",
                                   detail=f"storeStates={case['store']}: stored vials {vials} / states differ from the "
                                          f"rows of the same run recorded with storeStates='all'"))
        exports = [(n, impl["traj_rows"], "first export")]
        for mi, mo in enumerate(impl.get("more", [])):
            if "raise" in mo:
                out.append(Failure(clause="traj_table_exact", key=f"traj_table_exact|Snowflake.to_frame|raises:{mo['raise']}|repeated-export",
                                   detail=f"export {mi + 2} on the same object ({case['more'][mi]}) raises {mo['raise']}"))
            elif "traj_rows" in mo:
                exports.append((mo["n"], mo["traj_rows"], f"export {mi + 2} on the same object after {case['more'][:mi]}"))
        for n, tr, which in exports:
            if m == 0:
                if tr is not None:
                    out.append(Failure(clause="traj_table_exact", key="traj_table_exact|Snowflake.to_frame|not-none",
                                       detail="nothing recorded but a trajectory table is returned"))
                continue
            if tr is None:
                out.append(Failure(clause="traj_table_exact", key="traj_table_exact|Snowflake.to_frame|none",
                                   detail="vials recorded but no trajectory table"))
                continue
            # sampled times: a strided subset of the columns, starting at column 0
            col_of = {}
            for c, tv in enumerate(t[:ncols]):
                col_of.setdefault(tv, c)
            times = sorted({r[3] for r in tr}, key=lambda b: col_of.get(b, 1 << 60))
            cols = [col_of.get(b) for b in times]
            bad = None
            if None in cols:
                bad = "a Time value is not a time of the run"
            elif cols[0] != 0:
                bad = "the first sample is not the first time"
            elif len(cols) > 1 and any(cols[i + 1] - cols[i] != cols[1] - cols[0] for i in range(len(cols) - 1)):
                bad = "samples are not evenly strided"
            elif len(cols) < min(ncols, n - 1):
                bad = f"{len(cols)} samples for {ncols} columns and n_timeSteps={n}"
            if bad:
                out.append(Failure(clause="traj_table_exact", key="traj_table_exact|Snowflake.to_frame|sampling" + ("" if which == "first export" else "|repeated-export"),
                                   detail=f"{which} (n_timeSteps={n}): {bad}"))
                continue
            want = Counter()
            for j, v in enumerate(vials):
                for c in cols:
                    want[(v, "temperature", t[c], X[j][c])] += 1
                    want[(v, "sigma", t[c], X[m + j][c])] += 1
            got = Counter((r[1], r[2], r[3], r[4]) for r in tr)
            if got != want:
                out.append(Failure(clause="traj_table_exact", key="traj_table_exact|Snowflake.to_frame|values" + ("" if which == "first export" else "|repeated-export"),
                                   detail=f"missing {list((want - got).elements())[:3]}, unexpected {list((got - want).elements())[:3]}"))
    else:
        if impl["frame"] != "ok":
            out.append(Failure(clause="fall_table_exact", key=f"fall_table_exact|Snowfall.to_frame|raises:{impl['frame']['raise']}",
                               detail=f"Snowfall.to_frame raises {impl['frame']['raise']}"))
            return out
        N, nrep = impl["N"], case["nrep"]
        rows = impl["rows"]
        keys = Counter((r[4], r[1], r[2]) for r in rows)
        dup = [k for k, c in keys.items() if c > 1][:3]
        if dup or {r[1] for r in rows} != set(range(N)):
            out.append(Failure(clause="fall_table_exact", key="fall_table_exact|Snowfall.to_frame|keys",
                               detail=f"(seed, vial, variable) keys occurring more than once: {dup}; vial indices in the "
                                      f"table: {len({r[1] for r in rows})} distinct, max {max(r[1] for r in rows)}, batch has {N}"))
        if len(rows) != nrep * N * 3:
            out.append(Failure(clause="fall_table_exact", key="fall_table_exact|Snowfall.to_frame|row-count",
                               detail=f"{len(rows)} rows, expected {nrep}*{N}*3"))
        ok = True
        for i in range(nrep):
            ok = ok and _check_stats_rows([r for r in rows if r[4] == i], impl["statsList"][i], N,
                                          "Snowfall.to_frame", out, seed=i)
        lab = {}
        for g, v, *_ in rows:
            if lab.setdefault(v, g) != g:
                out.append(Failure(clause="fall_table_exact", key="table_exact|Snowfall.to_frame|labels",
                                   detail=f"vial {v} carries two labels"))
                break
        if ok:
            var = {"tnuc": "t_nucleation", "Tnuc": "T_nucleation", "tsol": "t_solidification"}
            rounds = list(zip(case["queries"], impl["answers"], impl["vialsel"], ["" for _ in case["queries"]]))
            if "answers2" in impl:
                rounds += list(zip(case["queries"], impl["answers2"], impl["vialsel2"],
                                   [f" (template re-pointed to {case['repoint']})" for _ in case["queries"]]))
            for q, a, sel, when in rounds:
                if isinstance(sel, dict):
                    continue  # unknown group name: rejected by getVialGroup (C16's subject)
                if isinstance(a, dict):
                    out.append(Failure(clause="accessors_exact", key=f"accessors_exact|Snowfall.{ACCESSORS[q['what']]}|raises:{a['raise']}",
                                       detail=f"{q} raises {a['raise']}"))
                    continue
                ss = None if q["seeds"] is None else (q["seeds"] if isinstance(q["seeds"], list) else [q["seeds"]])
                want = []
                for i in range(nrep):
                    if ss is not None and i not in ss:
                        continue
                    vals = dict(impl["statsList"][i])[var[q["what"]]]
                    want += [x for v, x in enumerate(vals) if sel is None or v in sel]
                if sorted(want) != sorted(a):
                    out.append(Failure(clause="accessors_exact", key=f"accessors_exact|Snowfall.{ACCESSORS[q['what']]}|values",
                                       detail=f"{q}{when}: {len(a)} values returned, {len(want)} rows match the vials "
                                              f"getVialGroup selects (arrangement {case.get('arr') or 'square'}, decoy {case.get('decoy_arr')})"))
    return out


def classify(case, impl):
    tags = [f"kind={case['kind']}", "nv=" + "x".join(map(str, case["nv"]))]
    if case.get("norun"):
        return tags + ["before run"]
    if case["kind"] == "fallhist":
        return tags + ["steps=" + "-".join(s[0] if s[0] != "set" else f"set{s[1]}" for s in case["steps"])]
    if case["kind"] == "flake":
        n, nc = case["n"], case.get("ncols")
        tags.append(f"n={n}")
        if nc is not None:
            rel = "ncols<n-1" if nc < n - 1 else "ncols=n-1" if nc == n - 1 else "ncols=n" if nc == n else "ncols>n"
            tags.append(rel)
        tags.append(f"dt={case['dt']}")
        tags.append(f"store={case['store']}")
        if case.get("more"):
            tags.append("export history: " + "-".join("plot" if "plot" in m else "rerun" if m.get("rerun") else "frame" for m in case["more"]))
        if isinstance(impl.get("frame"), dict):
            tags.append("to_frame raises " + impl["frame"]["raise"])
    else:
        tags += [f"nrep={case['nrep']}", f"how={case['how']}", f"arr={case.get('arr') or 'square'}"]
        if impl.get("key_order") and impl["key_order"] != sorted(impl["key_order"]):
            tags.append("repetitions completed out of seed order")
        if case.get("decoy_arr"):
            tags.append(f"after a {case['decoy_arr']} Snowfall of the same shape")
        if case.get("repoint"):
            tags.append("template re-pointed")
    return tags


def _finite(rows, col=3):
    return {r[col] for r in rows if r[col] != NAN}


def nontrivial(case, impl):
    """a case counts only if its tables hold enough DISTINCT finite numbers to pin the alignment of vials and
    blocks (all-NaN statistics of a run too short to nucleate would hide any permutation)"""
    if impl.get("raise") or case.get("norun"):
        return False
    if case["kind"] == "fall":
        return impl.get("frame") == "ok" and len(_finite(impl["rows"])) >= max(2, impl["N"] // 2)
    if case["kind"] == "flake":
        if impl.get("frame") != "ok":
            return False
        tr = impl.get("traj_rows") or []
        temps = {(r[1], r[4]) for r in tr if r[2] == "temperature"}
        return len(_finite(impl["stats_rows"])) >= 2 or len({t for _, t in temps}) >= 2
    return _nontrivial_old(case, impl)


def _nontrivial_old(case, impl):
    if case["kind"] == "fallhist":
        return not impl.get("raise") and any(o.get("rows") for o in impl["out"])
    if impl.get("raise") or case.get("norun") or impl.get("frame") != "ok":
        return False
    rows = impl.get("stats_rows") or impl.get("rows") or []
    return any(r[3] != NAN for r in rows) or bool(impl.get("traj_rows"))


# ---------------------------------------------------------------------------
SHAPES = [[1, 1, 1], [2, 1, 1], [1, 3, 1], [2, 2, 1], [3, 3, 1], [3, 2, 1], [2, 2, 2]]


def _stores(rng, nv):
    N = nv[0] * nv[1] * nv[2]
    opts = ["all", None, [0], sorted(rng.sample(range(N), min(N, 2)))]
    if N >= 3:
        perm = rng.sample(range(N), min(N, 3))
        opts += [sorted(perm, reverse=True), perm, [perm[0], perm[1], perm[0]], [N - 1, 0]]
    if nv[0] >= 2 and nv[1] >= 2:
        opts += ["corner", "edge", "uniform_2", ["corner", "core"]]
    return opts


def _ncols_for(n):
    return sorted({max(1, x) for x in (1, 2, n - 2, n - 1, n, 10 * n)})


def _queries(rng, nrep, k=6):
    groups = ["all", "corner", "edge", "core", "side", ["corner", "edge"], ["core"], "nonsense", ["all"], []]
    seeds = [None, 0, nrep - 1, [0, 1], [nrep - 1], 99, [], [0, 99]]
    qs = []
    for _ in range(k):
        qs.append(dict(what=rng.choice(["tnuc", "Tnuc", "tsol"]), groups=rng.choice(groups), seeds=rng.choice(seeds),
                       tuple=rng.random() < 0.3))
    return qs


def cases(rng, tier):
    quick = tier == "quick"
    # Snowflake tables: run length x requested samples
    for n in (2, 3, 4, 250):
        for ncols in _ncols_for(n):
            reps = 6 if quick else 20
            if ncols >= 1000:
                reps = 2 if quick else 6
            for _ in range(reps):
                nv = rng.choice(SHAPES)
                yield dict(kind="flake", nv=nv, store=rng.choice(_stores(rng, nv)), ncols=ncols, n=n,
                           dt=rng.choice([1, 2.0, 0.5]), seed=rng.randrange(50))
    # export histories on ONE object: other n_timeSteps, plots in between, a re-run, the first argument again
    for _ in range(24 if quick else 200):
        nv = rng.choice([[2, 2, 1], [3, 3, 1], [3, 2, 1]])
        n = rng.choice([2, 3, 4, 7, 250])
        more = []
        for _ in range(rng.randint(1, 4)):
            k = rng.random()
            if k < 0.6:
                more.append({"n": rng.choice([x for x in (2, 3, 4, 5, 9, 250) if x != n])})
            elif k < 0.75:
                more.append({"plot": rng.choice([dict(kind="trajectories", what="temperature"),
                                                 dict(kind="trajectories", what="sigma", group="corner"),
                                                 dict(kind="box", what="t_nucleation")])})
            elif k < 0.85:
                more.append({"rerun": True})
            else:
                more.append({"n": n})
        if not any("n" in m and m["n"] != n for m in more):
            more.append({"n": 3 if n != 3 else 5})
        yield dict(kind="flake", nv=nv, store=rng.choice(["all", "corner", [0, 2], [3, 1]]), ncols=rng.choice([12, 40, 90]),
                   n=n, dt=rng.choice([1, 2.0]), seed=rng.randrange(50), more=more)
    # default n_timeSteps on the kind of run the tests use, and a short one
    yield dict(kind="flake", nv=[3, 3, 1], store="all", ncols=16, n=250, dt=2.0, seed=1)
    # np.arange rounding: len(_t) = N + 1
    for t_tot, dt in ((0.2, 0.1), (10, 0.1), (0.7, 0.1), (30, 0.3), (4.1, 0.1), (1.5, 0.3)):
        for n in (2, 3, 250):
            yield dict(kind="flake", nv=[2, 2, 1], store="all", t_tot=t_tot, n=n, dt=dt, seed=2)
    for _ in range(80 if quick else 600):
        nv = rng.choice(SHAPES)
        dt = rng.choice([0.1, 0.3, 0.7, 1.1, 0.05])
        yield dict(kind="flake", nv=nv, store=rng.choice(_stores(rng, nv)), t_tot=dt * rng.randint(1, 120) * rng.choice([1, 1.0000001]),
                   n=rng.choice([2, 3, 5, 250]), dt=dt, seed=rng.randrange(50))
    # malformed / boundary
    yield dict(kind="flake", nv=[2, 2, 1], store="all", ncols=5, n=1, dt=1, seed=1)
    yield dict(kind="flake", nv=[2, 2, 1], store=None, ncols=5, n=1, dt=1, seed=1)
    yield dict(kind="flake", nv=[2, 2, 1], store="all", ncols=5, n=3, dt=1, norun=True)
    yield dict(kind="fall", nv=[2, 2, 1], nrep=2, pool=1, ncols=5, dt=1, how="sequential", queries=[], norun=True)
    yield from _fallhists(rng, quick)
    # two Snowfall objects of one process with the same shape and different vial arrangements, asked the same
    # questions; a template re-pointed to the other arrangement
    gq = [dict(what=w, groups=g, seeds=None) for w, g in (("tnuc", "corner"), ("Tnuc", "edge"), ("tsol", "core"),
                                                        ("tnuc", ["corner", "edge"]), ("tnuc", "side"))]
    for nv in ([3, 3, 1], [4, 3, 1]) if quick else ([3, 3, 1], [4, 3, 1], [3, 4, 1], [5, 5, 1], [3, 3, 2]):
        for arr, decoy in (("hexagonal", "square"), (None, "hexagonal"), ("hexagonal", None)):
            yield dict(kind="fall", nv=nv, nrep=2, pool=2, ncols=60, dt=1, how=rng.choice(["sequential", "async"]),
                       queries=gq, arr=arr, decoy_arr=decoy)
        yield dict(kind="fall", nv=nv, nrep=2, pool=2, ncols=60, dt=1, how="sequential", queries=gq, arr=None,
                   repoint="hexagonal")
        yield dict(kind="fall", nv=nv, nrep=2, pool=2, ncols=60, dt=1, how="sequential", queries=gq, arr="hexagonal",
                   repoint="square")
    # a LARGE batch (> 256 vials): every (seed, vial, variable) key once, vial indices up to N-1 whatever the dtype
    yield dict(kind="fall", nv=[20, 15, 1], nrep=2, pool=2, ncols=40, dt=1, how="async",
               queries=[dict(what="tnuc", groups="corner", seeds=None), dict(what="Tnuc", groups="edge", seeds=[1]),
                        dict(what="tsol", groups="core", seeds=None), dict(what="tnuc", groups="all", seeds=[0])])
    # sync runs with several workers (the repetitions complete out of seed order, see `_slow_seed0`)
    for nrep, pool in ((2, 2), (3, 3), (5, 2), (4, 4)):
        yield dict(kind="fall", nv=rng.choice([[2, 2, 1], [3, 3, 1]]), nrep=nrep, pool=pool, ncols=60, dt=1, how="sync",
                   queries=_queries(rng, nrep, 4))
    # Snowfall tables and accessors
    for nrep in (1, 2, 5):
        for how in ("sequential", "async", "sync"):
            for _ in range(4 if quick else 16):
                nv = rng.choice([[2, 2, 1], [3, 3, 1], [1, 3, 1], [3, 2, 1], [2, 2, 2], [1, 1, 1]])
                yield dict(kind="fall", nv=nv, nrep=nrep, pool=rng.choice([1, 2, 3]), ncols=rng.choice([40, 60, 120]),
                           dt=1, how=how, queries=_queries(rng, nrep, 6 if quick else 12))


def _fallhists(rng, quick):
    T = ["table"]
    for how in ("sequential", "async", "sync"):
        for mod in (["set", "Nrep", 4], ["set", "Nrep", 1], ["set", "dt", 0.5], ["set", "t_tot", 40.0]):
            if quick and how == "sync" and mod[1] != "Nrep":
                continue
            first = rng.choice([T, ["accessor", rng.choice(["tnuc", "Tnuc", "tsol"])]])
            yield dict(kind="fallhist", nv=rng.choice([[2, 2, 1], [3, 3, 1], [1, 3, 1]]), nrep=2, pool=rng.choice([1, 2]),
                       ncols=rng.choice([30, 60]), dt=1,
                       steps=[["run", how], first, mod, ["run", how], T, T])
    # re-run without modification, table asked twice, export only at the end
    yield dict(kind="fallhist", nv=[2, 2, 1], nrep=3, pool=2, ncols=40, dt=1,
               steps=[["run", "sequential"], T, ["run", "async"], T, ["set", "Nrep", 2], ["run", "sequential"], T])
    yield dict(kind="fallhist", nv=[2, 2, 1], nrep=2, pool=2, ncols=40, dt=1,
               steps=[["run", "async"], ["set", "Nrep", 5], ["run", "async"], T, T])


def widen(rng, tier):
    for _ in range(100):
        nv = rng.choice(SHAPES)
        n = rng.choice([2, 3, 4, 10, 250])
        yield dict(kind="flake", nv=nv, store=rng.choice(_stores(rng, nv)), ncols=rng.randint(1, 3 * n), n=n,
                   dt=rng.choice([1, 2.0, 0.5]), seed=rng.randrange(50))
