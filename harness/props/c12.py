"""C12 Reported statistics and counters agree with the trajectories.

Streams
  real      a real Snowflake run (fast cooling so that vials nucleate and solidify within
            a few hundred steps; also runs that stop before / between), every accessor
            called on it; the stored states, the time vector and the stats of THAT run are
            sent to the Lean model (`flakeStats`) and every accessor output is compared;
            the property's clauses are evaluated per vial on the run (`predicates`).
            With `rerun`: run, query every fromStates accessor, re-seed, run again, query again - the answers
            must describe the current run.
            With `mutate`: query every accessor, post-process every RETURNED array in place (scale, NaN, sort,
            invert masks), query again - answers and recorded statistics must be unchanged.
  laststep  two-pass real run: the second pass stops in the step in which the last vial
            of the first pass nucleates (same seeds) - nucleation in the LAST step (K3).
  fake      accessor code on hand-made `_X/_t/stats` (as tests/test_snowflake.py::fakeS
            does) - reaches the branches a real run never shows (ice in column 0, ties);
            dyadic values, compared with the model at Float AND at Rat (exact stream).
  notrun    accessors of an object that has not been run (ValueError branches).
  loop      the statistics written INSIDE the loop: a real run with recorded dice against the Lean loop
            model `Flake.run` (t_nucleation, T_nucleation, t_solidification and every column) - the
            tie of the theorems about `finalV` / `sigmaRow` (shared with C01/C03).
"""
from __future__ import annotations

import json
import math
from fractions import Fraction

import shim  # noqa: F401
import numpy as np

import core
from core import Failure, f2b, b2f, f2q, q2frac, close

ID = "C12"
TITLE = "Reported statistics and counters agree with the trajectories"
LEAN_MODULE = "SnowProofs.Props.C12"
_T = lambda n, c, s="full": dict(name="Snow.C12." + n, clause=c, strength=s)  # noqa: E731
pref = ("for a vial whose stored ice fraction, once positive, stays positive (the ONLY trajectory hypothesis, on the vial's own row; MONITORED on every run; follows from C06's conditional run invariant; sigma = 0 before the first ice is proved from the model): ")
THEOREMS = [
    _T("tnuc_first_ice", "for a vial whose stored ice fraction, once positive, stays positive (the ONLY trajectory hypothesis, on the vial's own row; MONITORED on every run; follows from C06's conditional run invariant; sigma = 0 before the first ice is proved from the model): ice first appears at the reported nucleation time: t_nuc = t[first column with sigma>0]",
       "full-under-monitored-hypothesis"),
    _T("tnuc_at_least_first_ice", "no trajectory hypothesis (needs only JumpPos, positive initial ice - a condition on the constants, "
       "discharged for every physically valid set by hyp_jump_of_valid): if a stored column shows ice the vial HAS a recorded "
       "t_nuc and it is >= t[first column with sigma>0] (equal when the vial keeps its ice; a record never moves backwards)"),
    _T("tnuc_grid", "nucleation times lie on the grid: t_nuc = (k+1)*dt for an executed step k"),
    _T("tnuc_last_step_counterexample", "REFUTED 'times lie within the process': a vial nucleating in the last step gets "
       "t_nuc = N*dt beyond the last grid time, no column shows its ice (K3)", "counterexample"),
    _T("Tnuc_supercooled", "the nucleation temperature is below T_eq_l"),
    _T("Tnuc_step_temperature", "for a vial whose stored ice fraction, once positive, stays positive (the ONLY trajectory hypothesis, on the vial's own row; MONITORED on every run; follows from C06's conditional run invariant; sigma = 0 before the first ice is proved from the model): T_nuc = X_T[i,k0-1] + q/hl*dt with q the vial's ACTUAL net heat flow (Flake.heatFlow of the batch state stored in column k0-1 and T_shelf[k0-1]) - the temperature after the liquid update of the nucleating step",
       "full-under-monitored-hypothesis"),
    _T("tsol_def", "for a vial whose stored ice fraction, once positive, stays positive (the ONLY trajectory hypothesis, on the vial's own row; MONITORED on every run; follows from C06's conditional run invariant; sigma = 0 before the first ice is proved from the model): t_sol = t[first column with sigma>threshold] - t_nuc; none if no column is above the threshold",
       "full-under-monitored-hypothesis"),
    _T("tsol_nonneg", "for a vial whose stored ice fraction, once positive, stays positive (the ONLY trajectory hypothesis, on the vial's own row; MONITORED on every run; follows from C06's conditional run invariant; sigma = 0 before the first ice is proved from the model): a solidification time is non-negative",
       "full-under-monitored-hypothesis"),
    _T("tsol_only_if_nucleated", "a solidification time exists only for nucleated vials"),
    _T("fromStates_times_eq", "for a vial whose stored ice fraction, once positive, stays positive (the ONLY trajectory hypothesis, on the vial's own row; MONITORED on every run; follows from C06's conditional run invariant; sigma = 0 before the first ice is proved from the model): nucleationTimes/solidificationTimes(fromStates=True) equal the recorded ones for every stored "
       "vial whose ice is visible in a stored column (per stored vial; the scatter into the storage mask and the "
       "group selection are executable model code compared on every run, not re-proved)",
       "full-under-monitored-hypothesis"),
    _T("fromStates_times_eq_all", "for a vial whose stored ice fraction, once positive, stays positive (the ONLY trajectory hypothesis, on the vial's own row; MONITORED on every run; follows from C06's conditional run invariant; sigma = 0 before the first ice is proved from the model): full recording: the accessor model applied to the run's state matrix returns the run's "
       "t_nucleation / t_solidification arrays (whole vectors)",
       "full-under-monitored-hypothesis"),
    _T("fromStates_Tnuc_within_one_step", "for admissible trajectories (monitored): nucleationTemperatures(fromStates=True) = X_T[i,k0-1] and the recorded "
       "T_nuc = that + q/hl*dt with q the ACTUAL heat flow of step k0-1 (equality is false)", "partial"),
    _T("fromStates_Tnuc_counterexample", "REFUTED 'states-derived nucleation temperature equals the recorded one' (K2)", "counterexample"),
    _T("counter_states", "sigmaCounter(t,thr,fromStates=True) = #{stored vials with sigma(first grid time >= t) > thr}; beyond the last stored time: in the LAST stored column"),
    _T("counter_states_beyond_end_counterexample", "refutation of the OLD code (before /repo 9deb6c8, K9): beyond the last stored "
       "time the old states path read column 0 (argmax of an all-False array); the repaired accessor reads the last column",
       "refutation-of-old-code"),
    _T("counter_nuc_stats_beyond_end", pref + "for t[N-1] < t < N*dt the states path counts the last stored column, the stats "
       "path #{t_nuc <= t}, and the two agree", "full-under-monitored-hypothesis"),
    _T("counter_nuc_stats", "for a vial whose stored ice fraction, once positive, stays positive (the ONLY trajectory hypothesis, on the vial's own row; MONITORED on every run; follows from C06's conditional run invariant; sigma = 0 before the first ice is proved from the model): on-grid t: sigmaCounter(t,0) on the stats path = #{t_nuc <= t} = the states count",
       "full-under-monitored-hypothesis"),
    _T("counter_sol_stats_counterexample", "REFUTED 'sigmaCounter(t) counts the vials solidified at t' on the stats path: it "
       "compares the solidification DURATION with clock time (K4)", "counterexample"),
    _T("hyp_adm_of_row", "the trajectory hypothesis is a condition on the vial's own stored row X_sigma[i,:] (StaysIce)"),
    _T("tnuc_within_process_weak", "K3, what does hold: 0 < t_nuc <= N*dt, and t_nuc <= t[N-1] unless t_nuc = N*dt (no trajectory hypothesis)"),
    _T("fromStates_Tnuc_eq_minus_update", "K2, what does hold, as an EQUATION: states value = recorded value - q/hl*dt with q the "
       "actual heat flow of the nucleating step (same hypothesis as above)", "partial"),
    _T("counter_sol_stats_is_duration_count", "K4, what does hold (1): the stats counter at the solidification threshold is "
       "#{t_solidification <= t} (duration vs clock) - unfolds one branch of the accessor model's definition", "by-construction"),
    _T("counter_sol_stats_overcounts", "K4, what does hold (2): that count is >= #{t_nucleation + t_solidification <= t}: it "
       "over-counts, never under-counts (no trajectory hypothesis)"),
    _T("tnuc_plus_tsol_is_crossing_time", pref + "t_nucleation + t_solidification = the grid time of the first column above the threshold",
       "full-under-monitored-hypothesis"),
    _T("rows_are_stored_matrix", "the rows sigmaRow/tempRow the theorems speak about are the rows of the model's stored matrix "
       "Result.X (full recording): what X_T[i,k] / X_sigma[i,k] read"),
    _T("adm_of_trajAdm", "the monitored trajectory hypothesis follows from C06's run invariant TrajAdm (itself conditional on the "
       "stability condition and the monitored per-step side condition)"),
    _T("adm_uncoupled", "the monitored trajectory hypothesis is a THEOREM for thermally uncoupled vials (k_int·A = 0, any start "
       "temperature inside C06's stability range; C06.trajAdm_uncoupled): for these runs every theorem above marked "
       "full-under-monitored-hypothesis holds with nothing monitored"),
    _T("adm_below_liquidus", "the monitored trajectory hypothesis is a THEOREM for a process that starts at or below the liquidus "
       "(C06.Stable with hi = T_eq_l, static inequality StaticSide; C06.trajAdm_below_liquidus)"),
    _T("nonvacuous_adm_uncoupled", "adm_uncoupled applied to the concrete run with ice of Lemmas/FlakeExRun.lean (one vial, "
       "k_int = 0): its hypotheses are satisfiable", "nonvacuity"),
    _T("hyp_jump_of_valid", "the hypothesis 'positive initial ice' holds for every physically valid constant set (both formulations)"),
    _T("nonvacuous", "hypotheses are satisfiable (a concrete run that nucleates and crosses the threshold)", "nonvacuity"),
]
LEVEL_TEXT = ("Lean 4 theorems about the executable loop model (Flake.run) and accessor model (FlakeStats), exact real arithmetic, tied "
              "to /repo on every run by differential checks; the property's clauses are also evaluated per vial on real runs. "
              "Proved without trajectory hypothesis: "
              + "; ".join(t["clause"] for t in THEOREMS if t["strength"] == "full")
              + ". Proved for vials whose stored ice fraction stays positive once positive (the single MONITORED trajectory "
              "hypothesis, a condition on the vial's own row; it cannot be dropped - C06 side_condition_needed; runs outside it "
              "are counted as outside_hypothesis): "
              + "; ".join(t["name"].split(".")[-1] for t in THEOREMS if "monitored-hypothesis" in t["strength"])
              + ". Partial: " + "; ".join(t["clause"] for t in THEOREMS if t["strength"] == "partial")
              + ". Three clauses are refuted on the model and on the real code (K2, K3, K4, known findings).")
TRUSTED = [
    "Lean 4.33 kernel; axioms per theorem listed under coverage.axioms",
    "theorems are over the reals: IEEE rounding is not modelled (t[k] = k*dt exactly)",
    "hand-written models SnowModel/FlakeStats.lean (accessors, counters) and SnowModel/Flake.lean (time loop) tied to "
    "snowflake.py by differential checks on real runs (this module; C01/C03 for the loop)",
    "numpy argmax / boolean-mask assignment / negative index semantics as transcribed in the model",
    "getVialGroup is taken as a given mask (C16 is about it)",
]
ASSUMPTIONS = [
    "theorem hypotheses (structure Hyp): dt > 0, threshold >= 0, positive initial ice for a supercooled vial (constants; proved "
    "for every physically valid set), and ONE trajectory hypothesis on the vial's own stored row: its ice fraction, once "
    "positive, stays positive (sigma = 0 before the first ice is proved from the model) - this one is monitored on "
    "every real run: the clauses of the theorems that assume it are evaluated only on trajectories that satisfy it; runs "
    "that leave it are counted under the distribution tag 'outside_hypothesis=adm…' (never a violation); generators keep "
    "dt*Hsum <= 0.85*m*c_p_min except for a small stream tagged 'unstable-stream'",
    "query times: every real t is evaluated. t < 0 -> both paths must give the initial state (0 nucleated). t beyond the "
    "last stored time: the states path must report the LAST stored column (repaired in /repo 9deb6c8, finding K9 - the old "
    "code read column 0; theorem counter_states_beyond_end_counterexample refutes the old code) and, for t < N*dt, agree "
    "with the stats path",
    "between grid times the states path of sigmaCounter reads the NEXT grid column (theorem counter_states says exactly "
    "that); agreement of the stats path and the states path is claimed for on-grid times only",
    "stored states are finite (no vial reaches sigma = 1 exactly)",
    "continuous comparisons use rtol 1e-9; indices, masks, counts and exception classes are compared exactly",
]
RULE = ("real Snowflake runs drawn from a structured generator (shapes 1x1x1 .. 7x7x1 and 2x2x2, K_shelf 20-2000, "
        "dt 0.5-10 s, 0-2 holds, with and without controlled nucleation, storeStates all / index subsets / group "
        "strings, thresholds {None,0,0.3,0.9,0.99}, on- and off-grid query times, groups all/edge/core/corner); "
        "a case is non-trivial when at least one stored vial nucleates; distinct by JSON form")
EXPLANATION = ("Lean theorems over the reals about the loop model + accessor model; differential check of the accessor "
               "model against the real accessors on real runs; the property's clauses evaluated per vial on real runs")
PARALLEL = True

THRESHOLDS = [None, 0, 0.3, 0.9, 0.99]


# ---------------------------------------------------------------------------
# building the real objects
# ---------------------------------------------------------------------------
def _mk_opcond(case, t_tot=None):
    from ethz_snow.operatingConditions import OperatingConditions

    cooling = {"rate": case["rate"], "start": case["start"], "end": case["stop"]}
    holds = case.get("holds")
    holding = [dict(temp=h[0], duration=h[1]) for h in holds] if holds else None
    return OperatingConditions(t_tot=case["t_tot"] if t_tot is None else t_tot, cooling=cooling,
                               holding=holding, cnTemp=case.get("cn"))


def _mk_flake(case, t_tot=None):
    from ethz_snow.snowflake import Snowflake

    store = case.get("store", "all")
    if isinstance(store, list):
        store = tuple(store)
    cfg_path = None
    if case.get("config"):
        import os
        import tempfile

        import yaml

        fd, cfg_path = tempfile.mkstemp(suffix=".yaml", prefix="verif_c12_")
        with os.fdopen(fd, "w") as f:
            yaml.safe_dump(case["config"], f)
    try:
        return Snowflake(k=dict(case["k"]), N_vials=tuple(case["shape"]), dt=case["dt"],
                         opcond=_mk_opcond(case, t_tot), storeStates=store,
                         solidificationThreshold=case.get("solThr", 0.9), seed=case.get("seed", 2021),
                         seed_v=case.get("seed_v", 2024), initIce=case.get("initIce", "indirect"),
                         configPath=cfg_path)
    finally:
        if cfg_path:
            os.unlink(cfg_path)


def _nan2none(a):
    return [None if (x is None or (isinstance(x, float) and math.isnan(x))) else float(x) for x in
            (a.tolist() if hasattr(a, "tolist") else a)]


def _call(f):
    try:
        r = f()
        return _nan2none(np.asarray(r, dtype=float))
    except Exception as e:
        return {"raise": core.exc_class(e)}


def _call_counts(f):
    try:
        r = f()
        return [int(x) for x in np.asarray(r).tolist()]
    except Exception as e:
        return {"raise": core.exc_class(e)}


def _query_times(case, t, S):
    """on-grid, off-grid, negative, at the statistics, one beyond the end"""
    n = len(t)
    dt = case["dt"]
    out = []
    for f in case.get("qfrac", [0, 0.25, 0.5, 0.75, 1]):
        i = min(n - 1, max(0, int(round(f * (n - 1)))))
        out.append(float(t[i]))
        if case.get("offgrid", True):
            out.append(float(t[i]) + 0.37 * dt)
    st = S.stats
    if "t_nucleation" in st:
        tn = np.asarray(st["t_nucleation"], dtype=float)
        ts = np.asarray(st["t_solidification"], dtype=float)
        ok = ~np.isnan(tn)
        if ok.any():
            out += [float(np.nanmin(tn)), float(np.nanmedian(tn)), float(np.nanmax(tn))]
        ok2 = ~np.isnan(ts)
        if ok2.any():
            tt = tn + ts
            out += [float(np.nanmin(tt)), float(np.nanmedian(tt)), float(np.nanmin(ts))]
    # on-grid times around every crossing of every threshold (the column before and the column of the crossing)
    Xs = np.asarray(S.X_sigma)
    extra = []
    for thr in case.get("thresholds", THRESHOLDS):
        th = S.solidificationThreshold if thr is None else thr
        for row in Xs:
            pos = np.nonzero(row > th)[0]
            if len(pos) and pos[0] > 0:
                extra += [int(pos[0]) - 1, int(pos[0])]
    extra = sorted(set(extra))
    if len(extra) > 48:
        extra = extra[:: max(1, len(extra) // 48)][:48]
    out += [float(t[i]) for i in extra]
    out += [-1.0]
    # keep the query times inside the process except for one explicit probe beyond the end
    tend = float(t[-1])
    out = [q for q in out if q <= tend]
    out.append(tend + 0.5 * dt)
    out.append(tend + 2.5 * dt)
    return out


def _observe_once(S, case, ran=True):
    """call every accessor of the statistics on S"""
    obs = {"raise": None, "ran": ran}
    obs["mask"] = [bool(b) for b in S._storageMask]
    group = case.get("group", "all")
    obs["grp"] = [bool(b) for b in S.getVialGroup(group)]
    obs["solThr"] = float(S.solidificationThreshold)
    if ran:
        obs["t"] = [float(x) for x in S._t]
        obs["Xs"] = [[float(x) for x in row] for row in S.X_sigma]
        obs["XT"] = [[float(x) for x in row] for row in S.X_T]
        obs["ncols"] = int(S._X.shape[1])
        for key, name in (("tnuc", "t_nucleation"), ("Tnuc", "T_nucleation"), ("tsol", "t_solidification")):
            obs[key] = _nan2none(np.asarray(S.stats[name], dtype=float))
        times = case.get("times")
        if times is None:
            times = _query_times(case, S._t, S)
    else:
        n = int(S.N_vials_total)
        obs.update(t=[], Xs=[], XT=[], ncols=0, tnuc=[None] * n, Tnuc=[None] * n, tsol=[None] * n)
        times = case.get("times", [0.0, 1.0])
    obs["times"] = [float(q) for q in times]
    obs["tnuc_states"] = _call(lambda: S.nucleationTimes(group=group, fromStates=True))
    obs["Tnuc_states"] = _call(lambda: S.nucleationTemperatures(group=group, fromStates=True))
    if ran:
        obs["tnuc_stats"] = _call(lambda: S.nucleationTimes(group=group))
        obs["Tnuc_stats"] = _call(lambda: S.nucleationTemperatures(group=group))
    per = []
    for thr in case.get("thresholds", THRESHOLDS):
        d = {"thr": thr}
        try:
            idx, nev = S._sigmaCrossingIndices(threshold=thr)
            d["idx"] = [int(i) for i in idx]
            d["never"] = [bool(b) for b in nev]
        except Exception as e:
            d["idx"] = {"raise": core.exc_class(e)}
        d["tsol_states"] = _call(lambda: S.solidificationTimes(group=group, threshold=thr, fromStates=True))
        if ran:
            d["tsol_stats"] = _call(lambda: S.solidificationTimes(group=group, threshold=thr))
        d["count_states"] = _call_counts(lambda: S.sigmaCounter(obs["times"], threshold=thr, fromStates=True))
        d["count_stats"] = _call_counts(lambda: S.sigmaCounter(obs["times"], threshold=thr, fromStates=False))
        per.append(d)
    obs["perThr"] = per
    return obs


def _spoil(a):
    """what a caller may do with a RETURNED array: post-process it in place"""
    if not isinstance(a, np.ndarray) or a.size == 0:
        return
    try:
        if a.dtype == bool:
            a[:] = ~a
        else:
            a /= 60.0
            a[0] = np.nan
            a.sort()
    except (ValueError, TypeError):  # read-only result: nothing a caller could spoil
        pass


def _spoil_returned(S, case, times):
    """call every array-returning accessor and mutate what it returned (never the object's own attributes).
    `X_T` / `X_sigma` are documented views of the state matrix ("This is just a slice of _X!") and are left alone."""
    group = case.get("group", "all")
    calls = [lambda: S.getVialGroup(group), lambda: S.getVialGroup("all")]
    for fs in (False, True):
        calls += [lambda fs=fs: S.nucleationTimes(group=group, fromStates=fs),
                  lambda fs=fs: S.nucleationTemperatures(group=group, fromStates=fs),
                  lambda fs=fs: S.nucleationTimes(fromStates=fs),
                  lambda fs=fs: S.nucleationTemperatures(fromStates=fs),
                  lambda fs=fs: S.solidificationTimes(fromStates=fs),
                  lambda fs=fs: S.solidificationTimes(group=group, fromStates=fs),
                  lambda fs=fs: S.sigmaCounter(times, fromStates=fs),
                  lambda fs=fs: S.sigmaCounter(times, threshold=0, fromStates=fs)]
    calls += [lambda: S._sigmaCrossingIndices(threshold=0), lambda: S._sigmaCrossingIndices()]
    for f in calls:
        try:
            r = f()
        except Exception:
            continue
        for a in (r if isinstance(r, tuple) else (r,)):
            _spoil(a)


_REQUERY_KEYS = ("grp", "tnuc", "Tnuc", "tsol", "tnuc_states", "Tnuc_states", "tnuc_stats", "Tnuc_stats", "perThr", "Xs", "XT")


def _observe(S, case, ran=True):
    """every accessor; with `mutate`: query, spoil every RETURNED array in place, query again - the second
    observation is the one reported (so every comparison and predicate is about the object AFTER the caller's
    post-processing), together with the list of answers that changed."""
    obs = _observe_once(S, case, ran)
    if case.get("mutate") and ran:
        _spoil_returned(S, case, obs["times"])
        c2 = dict(case, times=obs["times"])
        obs2 = _observe_once(S, c2, ran)
        obs2["requery_changed"] = [k for k in _REQUERY_KEYS if k in obs and json.dumps(obs[k], default=str) != json.dumps(obs2.get(k), default=str)]
        return obs2
    return obs


def _physics(S, obs):
    """expected T_nucleation of every vial from the full state matrix (needs storeStates='all'):
    T(k0-1) + q(k0-1)/hl*dt with q from the real heat-flow matrices and shelf profile."""
    if not all(obs["mask"]):
        return None
    X_T = S.X_T
    X_s = S.X_sigma
    T_shelf = S.opcond.tempProfile(S.dt)
    hl = S.const["hl"]
    exp = []
    for i in range(X_T.shape[0]):
        pos = np.nonzero(X_s[i] > 0)[0]
        if len(pos) == 0 or pos[0] == 0:
            exp.append(None)
            continue
        k = pos[0] - 1
        Tk = X_T[:, k]
        q = S.H_int @ Tk + S.H_ext * (T_shelf[k] - Tk) + S.H_shelf * (T_shelf[k] - Tk)
        exp.append(float(Tk[i] + q[i] / hl * S.dt))
    return exp


def _loop_impl(case):
    import flakeutil as fu

    try:
        return fu.run_real(case)
    except Exception as e:
        return {"raise": core.exc_class(e), "stage": "run"}


def run_impl(case):
    if case["kind"] == "loop":
        return _loop_impl(case)
    import contextlib
    import io

    with contextlib.redirect_stdout(io.StringIO()):
        return _run_impl(case)


def _run_impl(case):
    kind = case["kind"]
    try:
        if kind in ("real", "laststep"):
            S = _mk_flake(case)
            S.run()
            eff_t_tot = case["t_tot"]
            if kind == "laststep":
                tn = np.asarray(S.stats["t_nucleation"], dtype=float)
                if not np.all(np.isnan(tn)):
                    # the latest nucleation of pass 1 happened in step k (t_nuc = (k+1) dt); stop there
                    kmax = int(round(np.nanmax(tn) / case["dt"])) - 1
                    if kmax >= 1:
                        eff_t_tot = float(kmax * case["dt"])
                        S = _mk_flake(case, t_tot=eff_t_tot)
                        S.run()
            if case.get("rerun"):
                # object history: query every accessor, re-seed, run again, query again - the second set of answers
                # must describe the CURRENT run (the model is stateless: it only sees the current X, t, stats)
                _observe(S, case)
                S.seed = case["rerun"]["seed"]
                if case["rerun"].get("seed_v") is not None:
                    S.seed_v = case["rerun"]["seed_v"]
                S.run()
            obs = _observe(S, case)
            obs["t_tot_eff"] = eff_t_tot
            obs["N"] = int(np.ceil(eff_t_tot / case["dt"])) + 1
            obs["T_eq_l"] = float(S.const["T_eq_l"])
            obs["Tnuc_expected"] = _physics(S, obs)
            obs["k_CN"] = None
            if case.get("cn") is not None:
                cnt = S.opcond.cnt
                t = S._t
                obs["k_CN"] = int(np.argmax(t >= cnt)) if np.any(t >= cnt) else None
            return obs
        if kind == "fake":
            S = _mk_flake(case)
            n = int(np.sum(S._storageMask))
            S._t = np.array(case["t"], dtype=float)
            XT = np.array(case["XT"], dtype=float).reshape(n, len(case["t"]))
            Xs = np.array(case["Xs"], dtype=float).reshape(n, len(case["t"]))
            S._X = np.concatenate([XT, Xs], axis=0)
            S.stats["t_nucleation"] = np.array([np.nan if x is None else x for x in case["tnuc"]], dtype=float)
            S.stats["T_nucleation"] = np.array([np.nan if x is None else x for x in case["Tnuc"]], dtype=float)
            S.stats["t_solidification"] = np.array([np.nan if x is None else x for x in case["tsol"]], dtype=float)
            return _observe(S, case)
        if kind == "notrun":
            S = _mk_flake(case)
            return _observe(S, case, ran=False)
    except Exception as e:
        return {"raise": core.exc_class(e), "stage": "run"}
    raise ValueError("unknown case kind " + str(kind))


# ---------------------------------------------------------------------------
# model side
# ---------------------------------------------------------------------------
def _req(obs, case, mode):
    enc = f2b if mode == "float" else f2q

    def eo(xs):
        return [None if x is None else enc(x) for x in xs]

    return {
        "op": "flakeStats", "num": mode, "ran": obs["ran"],
        "Xs": [[enc(x) for x in r] for r in obs["Xs"]],
        "XT": [[enc(x) for x in r] for r in obs["XT"]],
        "t": [enc(x) for x in obs["t"]],
        "mask": obs["mask"], "grp": obs["grp"],
        "tnuc": eo(obs["tnuc"]), "Tnuc": eo(obs["Tnuc"]), "tsol": eo(obs["tsol"]),
        "solThr": enc(obs["solThr"]),
        "thresholds": eo(case.get("thresholds", THRESHOLDS)),
        "times": [enc(x) for x in obs["times"]],
    }


def _dec(v, mode):
    if isinstance(v, dict):
        return v
    if mode == "float":
        return [None if x is None else b2f(x) for x in v]
    return [None if x is None else q2frac(x) for x in v]


def _model_call(drv, obs, case, mode):
    r = drv.call(_req(obs, case, mode))
    if "error" in r:
        raise RuntimeError(r["error"])
    out = {}
    for key in ("tnuc_states", "tnuc_stats", "Tnuc_states", "Tnuc_stats"):
        out[key] = _dec(r[key], mode)
    out["timeIdx"] = r["timeIdx"]
    per = []
    for d in r["perThr"]:
        per.append({"idx": d["idx"], "never": d["never"],
                    "tsol_states": _dec(d["tsol_states"], mode), "tsol_stats": _dec(d["tsol_stats"], mode),
                    "count_states": d["count_states"], "count_stats": d["count_stats"]})
    out["perThr"] = per
    return out


# run_model needs the implementation's observation (the stored states of the REAL run are the
# model's input).  runcheck calls predicates(case, impl) and then run_model(drv, case) for the
# same case in the same process, so the observation is handed over through `_LAST`.
_LAST = {"key": None, "obs": None}


def _key(case):
    return id(case)


def run_model(drv, case):
    obs = _LAST["obs"] if _LAST["key"] == _key(case) else None
    if obs is None:
        obs = run_impl(case)
    if obs.get("raise"):
        return {"raise": obs["raise"]}
    if case["kind"] == "loop":
        import flakeutil as fu

        return fu.run_model(drv, case, obs)
    out = {"float": _model_call(drv, obs, case, "float")}
    if case.get("exact"):
        out["rat"] = _model_call(drv, obs, case, "rat")
    return out


def _cmp_vals(name, a, b, dis, exact=False):
    if isinstance(a, dict) or isinstance(b, dict):
        if a != b:
            dis.append(f"{name}: impl {a} vs model {b}")
        return
    if len(a) != len(b):
        dis.append(f"{name}: length impl {len(a)} vs model {len(b)}")
        return
    for i, (x, y) in enumerate(zip(a, b)):
        if (x is None) != (y is None):
            dis.append(f"{name}[{i}]: impl {x} vs model {y}")
            return
        if x is None:
            continue
        if exact:
            if Fraction(x) != y:
                dis.append(f"{name}[{i}] (exact): impl {x!r} vs Rat model {y}")
                return
        elif not close(x, y):
            dis.append(f"{name}[{i}]: impl {x!r} vs model {y!r}")
            return


def _cmp_exact(name, a, b, dis):
    if a != b:
        dis.append(f"{name}: impl {str(a)[:200]} vs model {str(b)[:200]}")


def compare(case, impl, model):
    dis = []
    if case["kind"] == "loop" and not (impl.get("raise") or model.get("raise")):
        import flakeutil as fu

        # the statistics written inside the loop (and the columns they are read off) vs the loop model
        return fu.compare_run(case, impl, model)
    if impl.get("raise") or model.get("raise"):
        if impl.get("raise") != model.get("raise"):
            dis.append(f"exception: impl {impl.get('raise')} vs model {model.get('raise')}")
        return dis
    ran = impl["ran"]
    for mode in ("float", "rat"):
        if mode not in model:
            continue
        m = model[mode]
        ex = mode == "rat"
        tag = "" if not ex else "rat:"
        if not ran:
            # an object that has not been run: every states accessor and both counters raise ValueError
            for key in ("tnuc_states", "Tnuc_states"):
                if impl[key] != {"raise": "ValueError"}:
                    dis.append(f"{key} on an object not run: impl {impl[key]}, model raises ValueError")
            for d in impl["perThr"]:
                for key in ("idx", "tsol_states", "count_states", "count_stats"):
                    if d[key] != {"raise": "ValueError"}:
                        dis.append(f"{key} on an object not run: impl {d[key]}, model raises ValueError")
            for dm in m["perThr"]:
                for key in ("count_states", "count_stats"):
                    if dm[key] != {"raise": "ValueError"}:
                        dis.append(f"model {key} on an object not run: {dm[key]}")
            continue
        for key in ("tnuc_states", "tnuc_stats", "Tnuc_states", "Tnuc_stats"):
            _cmp_vals(tag + key, impl[key], m[key], dis, ex)
        for di, dm in zip(impl["perThr"], m["perThr"]):
            th = di["thr"]
            _cmp_exact(f"{tag}crossing indices thr={th}", di["idx"], dm["idx"], dis)
            _cmp_exact(f"{tag}neverReached thr={th}", di["never"], dm["never"], dis)
            _cmp_vals(f"{tag}tsol_states thr={th}", di["tsol_states"], dm["tsol_states"], dis, ex)
            _cmp_vals(f"{tag}tsol_stats thr={th}", di["tsol_stats"], dm["tsol_stats"], dis, ex)
            _cmp_exact(f"{tag}sigmaCounter(fromStates) thr={th}", di["count_states"], dm["count_states"], dis)
            _cmp_exact(f"{tag}sigmaCounter(stats) thr={th}", di["count_stats"], dm["count_stats"], dis)
    return dis


# ---------------------------------------------------------------------------
# the property itself, evaluated on the real run
# ---------------------------------------------------------------------------
def _adm_row(row):
    """monitored trajectory condition on one stored row: sigma never negative (proved from the model before the first ice,
    monitored after it) and - the hypothesis `Adm` of the C12 theorems - a vial
    that contains ice keeps some"""
    seen = False
    for x in row:
        if x < 0 or (seen and not x > 0):
            return False
        seen = seen or x > 0
    return True


_LIMIT = {}


def stable_dt_limit(k, shape):
    """largest dt with dt * Hsum <= 0.85 * m * c_p_min (explicit scheme of the loop stays monotone in the liquid AND the frozen state): Hsum is the
    largest total conductance of a vial (neighbours + surroundings + shelf incl. its scatter)."""
    if not _LIMIT:
        from ethz_snow.constants import calculateDerived

        c = calculateDerived(None)
        # m*c_p_min: the smallest heat capacity a vial can have is that of the fully frozen product
        # (c_p,ice < c_p,water), about half of the liquid one
        cp_min = float(c["solid_fraction"]) * float(c["cp_s"]) + (1 - float(c["solid_fraction"])) * min(float(c["cp_i"]), float(c["cp_w"]))
        _LIMIT["A"], _LIMIT["hl"] = float(c["A"]), min(float(c["hl"]), float(c["mass"]) * cp_min)
    nb = 6 if shape[2] > 1 else 4
    hsum = (nb * k.get("int", 0) + 4 * k.get("ext", 0) + k.get("s0", 0) * (1 + 3 * k.get("s_sigma_rel", 0.0))) * _LIMIT["A"]
    return math.inf if hsum <= 0 else 0.85 * _LIMIT["hl"] / hsum


def _inside_c06_stable(case):
    """The run lies inside the range in which C06's theorems guarantee an admissible trajectory
    (Snow.C06.Stable: 2*dt*Hsum <= m*c_p_min and (dt*Hsum*(hi-lo))^2 <= m^2*c_p_min*D*lambda*(1-w_s)), evaluated
    conservatively for the packaged default solution only (a configured solution: not claimed here, C06 owns it).
    The generators of this module use the wider range dt*Hsum <= 0.85*m*c_p_min, in which sigma CAN leave [0,1)
    (explicit step near sigma -> 1): that is outside C06's quantifier, not a violation."""
    if case.get("config"):
        return False
    try:
        from ethz_snow.constants import calculateDerived

        c = calculateDerived(None)
        ws = float(c["solid_fraction"])
        cp_min = ws * float(c["cp_s"]) + (1 - ws) * min(float(c["cp_i"]), float(c["cp_w"]))
        m = float(c["mass"])
        k = case["k"]
        shape = case["shape"]
        nb = 6 if shape[2] > 1 else 4
        if str(case.get("arr", "")).startswith("hex"):
            nb += 2
        hsum = (nb * k.get("int", 0) + (nb + 2) * k.get("ext", 0)
                + k.get("s0", 0) * (1 + 4 * k.get("s_sigma_rel", 0.0))) * float(c["A"])
        dt = float(case["dt"])
        hi = max(float(case["start"]), float(c["T_eq"]))
        lo = min(float(case["stop"]), float(case["start"]))
        D = float(c["depression"])
        lam = float(c["Dh"]) if "Dh" in c else float(c["alpha"]) / (m * (1 - ws))
        cfl = 2 * dt * hsum <= m * cp_min
        xcond = (dt * hsum * (hi - lo)) ** 2 <= m ** 2 * cp_min * D * lam * (1 - ws)
        return bool(cfl and xcond)
    except Exception:
        return False


def _first(row, thr):
    for k, x in enumerate(row):
        if x > thr:
            return k
    return None


def predicates(case, impl):
    out = []
    _LAST["key"], _LAST["obs"] = _key(case), impl
    if case["kind"] not in ("real", "laststep"):
        # fake / notrun / loop: every generated case is a valid configuration; an exception of the real constructor,
        # of run() or of the observation itself is a failure (decided here, independently of the implementation - the
        # model side only echoes it so that `compare` has nothing to say)
        if impl.get("raise"):
            out.append(Failure(clause="total", key=f"raises|{case['kind']}|{impl['raise']}",
                               detail=f"valid {case['kind']} case raises {impl['raise']} ({impl.get('stage')})"))
        return out
    if impl.get("raise"):
        out.append(Failure(clause="total", key=f"raises|run|{impl['raise']}",
                           detail=f"a valid configuration raises {impl['raise']}"))
        return out
    t, Xs, XT = impl["t"], impl["Xs"], impl["XT"]
    dt = case["dt"]
    N = impl["N"]
    solThr = impl["solThr"]
    stored = [i for i, b in enumerate(impl["mask"]) if b]
    tnuc, Tnuc, tsol = impl["tnuc"], impl["Tnuc"], impl["tsol"]
    full = all(impl["mask"])
    tend = t[impl["ncols"] - 1]

    def F(clause, site, cls, detail):
        out.append(Failure(clause=clause, key=f"{clause}|{site}|{cls}", detail=detail))

    # The theorems tnuc_first_ice, Tnuc_step_temperature, tsol_def, tsol_nonneg, fromStates_times_eq and
    # counter_nuc_stats assume an admissible trajectory (`Hyp.adm`).  Their clauses are evaluated only where that
    # monitored hypothesis holds: per vial for the per-vial clauses, for the whole run for the counters.  Runs that
    # leave it (numerically unstable explicit steps) are counted as `outside_hypothesis` in the evidence.
    adm = [_adm_row(row) for row in Xs]
    adm_all = all(adm)
    if not adm_all and not case.get("unstable") and _inside_c06_stable(case):
        # (C06's clause - but C12 must not go silent: inside the stable range of the generators an inadmissible
        # trajectory is itself reported)
        bad = [stored[r] for r, ok in enumerate(adm) if not ok]
        F("outside_adm_in_stable_range", "run", "sigma<0-or-ice-lost",
          f"vials {bad[:5]}: sigma negative or ice lost in a run INSIDE C06's stable range "
          "(2*dt*Hsum <= m*c_p_min and (dt*Hsum*(hi-lo))^2 <= m^2*c_p_min*D*lambda*(1-w_s), default solution)")

    if impl.get("requery_changed"):
        F("accessor_pure", "+".join(impl["requery_changed"][:4]), "in-place-mutation-of-returned-array",
          f"after mutating the arrays RETURNED by the accessors in place, these answers / recorded statistics of the same "
          f"object changed: {impl['requery_changed']}")
    # the time vector has one entry per stored column
    if len(t) != impl["ncols"] or impl["ncols"] != N:
        F("time_grid", "run", "length", f"len(_t)={len(t)}, columns={impl['ncols']}, N_timeSteps={N} (dt={dt})")

    # --- per vial: nucleation time / temperature / solidification time vs trajectory
    for r, i in enumerate(stored):
        k0 = _first(Xs[r], 0.0)
        k1 = _first(Xs[r], solThr)
        if not adm[r]:
            # hypothesis-free clauses only
            if tnuc[i] is not None:
                kk = tnuc[i] / dt
                if abs(kk - round(kk)) > 1e-9 * max(1.0, abs(kk)):
                    F("tnuc_grid", "run", "off-grid", f"vial {i}: t_nuc={tnuc[i]} is not a multiple of dt={dt}")
                if Tnuc[i] is not None and not Tnuc[i] < impl["T_eq_l"]:
                    F("Tnuc_supercooled", "run", "not-supercooled", f"vial {i}: T_nuc={Tnuc[i]} >= T_eq_l")
            if tsol[i] is not None and tnuc[i] is None:
                F("tsol_only_if_nucleated", "run", "", f"vial {i}: t_sol={tsol[i]} without t_nuc")
            continue
        if tnuc[i] is not None:
            kk = tnuc[i] / dt
            on_grid = abs(kk - round(kk)) <= 1e-9 * max(1.0, abs(kk))
            if not on_grid:
                F("tnuc_grid", "run", "off-grid", f"vial {i}: t_nuc={tnuc[i]} is not a multiple of dt={dt}")
            if tnuc[i] > tend * (1 + 1e-12) + 1e-12:
                # the known mechanism (K3): nucleation in the LAST step, t_nuc = N*dt exactly, no column shows ice
                if k0 is None and close(tnuc[i], N * dt):
                    F("tnuc_within_process", "run", "last-step",
                      f"vial {i}: t_nucleation={tnuc[i]} lies beyond the last grid time {tend} (N={N}, dt={dt}); "
                      f"no stored column shows its ice")
                else:
                    F("tnuc_within_process", "run", "beyond-end",
                      f"vial {i}: t_nucleation={tnuc[i]} beyond the last grid time {tend} but "
                      f"{'column %d shows ice' % k0 if k0 is not None else 'it is not N*dt=%r' % (N * dt)}")
                    if k0 is not None:
                        F("tnuc_first_ice", "run", "mismatch",
                          f"vial {i}: t_nuc={tnuc[i]} but ice first appears in column {k0} (t={t[k0]})")
            elif k0 is None:
                F("tnuc_first_ice", "run", "no-ice-column", f"vial {i}: t_nuc={tnuc[i]} but sigma stays 0")
            elif not close(tnuc[i], t[k0]):
                F("tnuc_first_ice", "run", "mismatch",
                  f"vial {i}: t_nuc={tnuc[i]} but ice first appears in column {k0} (t={t[k0]})")
            if Tnuc[i] is None:
                F("Tnuc_supercooled", "run", "missing", f"vial {i} has t_nuc but no T_nuc")
            elif not Tnuc[i] < impl["T_eq_l"]:
                F("Tnuc_supercooled", "run", "not-supercooled", f"vial {i}: T_nuc={Tnuc[i]} >= T_eq_l={impl['T_eq_l']}")
            if impl.get("Tnuc_expected") is not None and k0 is not None and impl["Tnuc_expected"][r] is not None:
                e = impl["Tnuc_expected"][r]
                if Tnuc[i] is not None and abs(e - Tnuc[i]) > 1e-7 * max(1.0, abs(e)):
                    F("Tnuc_supercooled", "run", "not-the-step-temperature",
                      f"vial {i}: T_nuc={Tnuc[i]} but the liquid update of step {k0-1} gives {e}")
        else:
            if k0 is not None:
                F("tnuc_first_ice", "run", "unreported", f"vial {i}: ice in column {k0} but t_nuc is NaN")
            if Tnuc[i] is not None:
                F("Tnuc_supercooled", "run", "orphan", f"vial {i}: T_nuc without t_nuc")
        if tsol[i] is not None:
            if tnuc[i] is None:
                F("tsol_only_if_nucleated", "run", "", f"vial {i}: t_sol={tsol[i]} without t_nuc")
            elif tsol[i] < -1e-9 * max(1.0, abs(tnuc[i])):  # (t[k]+dt vs t[k+1]: rounding only)
                F("tsol_nonneg", "run", "", f"vial {i}: t_sol={tsol[i]} < 0")
            if k1 is None:
                F("tsol_def", "run", "no-column", f"vial {i}: t_sol={tsol[i]} but sigma never exceeds {solThr}")
            elif tnuc[i] is not None and not close(tsol[i], t[k1] - tnuc[i]):
                F("tsol_def", "run", "mismatch",
                  f"vial {i}: t_sol={tsol[i]} but first column above threshold {k1}: t-t_nuc={t[k1]-tnuc[i]}")
        elif k1 is not None and k1 < impl["ncols"] - 1:
            # (a crossing first visible in the last column is recorded only by a step that does not exist)
            F("tsol_def", "run", "unreported", f"vial {i}: sigma>{solThr} in column {k1} but t_sol is NaN")

    # --- values derived from the states equal the recorded ones (group 'all' only: per vial)
    if case.get("group", "all") == "all":
        ts_s = impl["tnuc_states"]
        Ts_s = impl["Tnuc_states"]
        if not isinstance(ts_s, dict):
            for r_, i in enumerate(stored):
                if not adm[r_]:
                    continue
                a, b = ts_s[i], tnuc[i]
                if (a is None) != (b is None) or (a is not None and not close(a, b)):
                    # known (K3) only for a true last-step vial: recorded N*dt, states NaN, no column with ice
                    k3 = (a is None and b is not None and b > tend and close(b, N * dt) and _first(Xs[r_], 0.0) is None)
                    F("fromStates_times_eq", "nucleationTimes", "last-step" if k3 else "mismatch",
                      f"vial {i}: fromStates {a} vs recorded {b}")
        else:
            F("fromStates_times_eq", "nucleationTimes", "raises", str(ts_s))
        if not isinstance(Ts_s, dict):
            known_worst, known_n = 0.0, 0
            exp = impl.get("Tnuc_expected")
            for r_, i in enumerate(stored):
                if not adm[r_]:
                    continue
                a, b = Ts_s[i], Tnuc[i]
                k0_ = _first(Xs[r_], 0.0)
                if (a is None) != (b is None):
                    last = (a is None and tnuc[i] is not None and tnuc[i] > tend and k0_ is None)
                    if not last:
                        F("fromStates_Tnuc_eq", "nucleationTemperatures", "nan-mismatch", f"vial {i}: {a} vs {b}")
                elif a is not None and abs(a - b) > 1e-9:
                    # the KNOWN mechanism (K2) and nothing else: the states value IS the stored temperature of the
                    # column before the first ice, and (full recording) the recorded one is that plus q/hl*dt
                    mech = k0_ is not None and k0_ >= 1 and a == XT[r_][k0_ - 1]
                    if mech and exp is not None and exp[r_] is not None:
                        mech = abs(exp[r_] - b) <= 1e-7 * max(1.0, abs(b))
                    if mech:
                        known_worst, known_n = max(known_worst, abs(a - b)), known_n + 1
                    else:
                        F("fromStates_Tnuc_eq", "nucleationTemperatures", "mismatch",
                          f"vial {i}: fromStates {a} vs recorded {b}: NOT the stored temperature of column "
                          f"{None if k0_ is None else k0_ - 1} / not one sensible update away")
            if known_n:
                F("fromStates_Tnuc_eq", "nucleationTemperatures", "pre-step-temperature",
                  f"nucleationTemperatures(fromStates=True) returns X_T[i, k0-1] (checked for {known_n} vials), which differs "
                  f"from the recorded T_nucleation by the nucleating step's update q/hl*dt, up to {known_worst:.6g} K")
        for d in impl["perThr"]:
            if d["thr"] is None or d["thr"] == solThr:
                a_all = d["tsol_states"]
                if isinstance(a_all, dict):
                    F("fromStates_times_eq", "solidificationTimes", "raises", str(a_all))
                    continue
                for r_, i in enumerate(stored):
                    if not adm[r_]:
                        continue
                    a, b = a_all[i], tsol[i]
                    if (a is None) != (b is None) or (a is not None and not close(a, b)):
                        # (a true last-step vial has NaN on both paths: any mismatch is new)
                        F("fromStates_times_eq", "solidificationTimes", "mismatch",
                          f"vial {i}: fromStates {a} vs recorded {b}")

    # --- counters
    first0 = [_first(row, 0.0) for row in Xs]
    firstS = [_first(row, solThr) for row in Xs]
    for d in impl["perThr"]:
        thr = solThr if d["thr"] is None else d["thr"]
        cs = d["count_states"]
        if isinstance(cs, dict):
            F("counter_states", "sigmaCounter", "raises", str(cs))
            continue
        for q, c in zip(impl["times"], cs):
            if q > tend:
                # beyond the last grid time the trajectory's last known state is its last column
                truth = sum(1 for row in Xs if row[-1] > thr)
                if c != truth:
                    col0 = sum(1 for row in Xs if row[0] > thr)
                    F("counter_states", "sigmaCounter", "states-beyond-end",
                      f"t={q} > last grid time {tend}, thr={thr}: counter {c} (column 0 holds {col0}) but {truth} stored "
                      f"trajectories are above the threshold in the last column")
                continue
            I = next(k for k, x in enumerate(t) if x >= q)
            truth = sum(1 for row in Xs if row[I] > thr)
            if c != truth:
                F("counter_states", "sigmaCounter", "states", f"t={q}, thr={thr}: counter {c} vs trajectory {truth}")
        cst = d["count_stats"]
        if isinstance(cst, dict):
            if thr == 0 or thr == solThr:
                F("counter_stats", "sigmaCounter", "raises", f"thr={thr}: {cst}")
            continue
        if not full or not adm_all:
            continue
        for q, c in zip(impl["times"], cst):
            if q > tend:
                # stats path beyond the end: everything recorded counts (no trajectory to compare with)
                want = sum(1 for x in (tnuc if thr == 0 else []) if x is not None and x <= q)
                if thr == 0 and c != want:
                    F("counter_nuc_stats", "sigmaCounter", "beyond-end", f"t={q}: {c} vs #{{t_nuc <= t}} = {want}")
                if thr == 0 and full and adm_all and q < N * dt * (1 - 1e-9) and c != cs[impl["times"].index(q)]:
                    F("counter_nuc_stats", "sigmaCounter", "stats-vs-states-beyond-end",
                      f"t={q} in (t_end, N*dt): stats path {c} vs states path {cs[impl['times'].index(q)]}")
                continue
            on_grid = any(x == q for x in t)
            tolq = 1e-9 * max(1.0, abs(q))
            # the recorded time is t[k]+dt, the grid time (k+1)*dt: for a dt that is not a binary fraction the two
            # differ by rounding, and `t_nuc <= q` at q = t[k+1] is a float TIE (not evaluated, per CONTRIBUTING.md)
            near = [x for x in tnuc if x is not None] + [t[k_] for k_ in first0 + firstS if k_ is not None]
            if any(0 < abs(x - q) <= tolq for x in near):
                continue
            if thr == 0:
                # nucleated at q: ice has appeared at a grid time <= q
                truth = sum(1 for k0_ in first0 if (k0_ is not None and t[k0_] <= q))
                if c != truth:
                    F("counter_nuc_stats", "sigmaCounter", "stats-vs-trajectory",
                      f"t={q}: sigmaCounter(t,0)={c} but {truth} trajectories show ice by then")
                if on_grid and c != cs[impl["times"].index(q)]:
                    F("counter_nuc_stats", "sigmaCounter", "stats-vs-states",
                      f"t={q}: stats path {c} vs states path {cs[impl['times'].index(q)]}")
            elif thr == solThr and thr > 0:
                truth = sum(1 for k1_ in firstS if (k1_ is not None and t[k1_] <= q))
                if c != truth:
                    # the KNOWN mechanism (K4) and nothing else: the counter is #{t_solidification <= q}, the
                    # solidification DURATION compared with clock time
                    dur = sum(1 for x in tsol if x is not None and x <= q)
                    F("counter_sol_stats", "sigmaCounter", "duration-vs-clock" if c == dur else "mismatch",
                      f"t={q}: sigmaCounter(t)={c} (#{{t_solidification <= t}} = {dur}, a duration) but {truth} "
                      f"trajectories are above the threshold {thr} at that time")
    return out


def classify(case, impl):
    tags = [f"kind={case['kind']}"]
    if impl.get("raise"):
        return tags + [f"raise={impl['raise']}"]
    if case["kind"] == "loop":
        return tags
    if case["kind"] in ("real", "laststep"):
        n = len(impl["tnuc"])
        nn = sum(1 for x in impl["tnuc"] if x is not None)
        ns = sum(1 for x in impl["tsol"] if x is not None)
        tags.append("nucleated=" + ("all" if nn == n else "none" if nn == 0 else "some"))
        tags.append("solidified=" + ("all" if ns == n else "none" if ns == 0 else "some"))
        st = case.get("store", "all")
        tags.append("store=" + ("all" if st == "all" else "indices" if isinstance(st, list) else "string"))
        tags.append("cn" if case.get("cn") is not None else "no-cn")
        if case.get("long"):
            tags.append("long-run(>=60000 steps)")
        if case.get("config"):
            tags.append("configured-solution(T_eq!=0) x " + case.get("initIce", "indirect"))
        if case.get("rerun"):
            tags.append("history=run,query,reseed,run,query")
        if case.get("mutate"):
            tags.append("history=query,mutate-returned-arrays,query")
        tags.append(f"group={case.get('group', 'all')}")
        tend = impl["t"][impl["ncols"] - 1]
        if any(x is not None and x > tend for x in impl["tnuc"]):
            tags.append("nucleation-in-last-step")
        if not all(_adm_row(row) for row in impl["Xs"]):
            tags.append("outside_hypothesis=adm(sigma<0 or ice lost)")
        tags.append("unstable-stream" if case.get("unstable") else "stable-stream")
    return tags


def nontrivial(case, impl):
    if impl.get("raise"):
        return False
    if case["kind"] in ("real", "laststep"):
        return any(x is not None for x in impl["tnuc"])
    if case["kind"] == "loop":
        return any(not math.isnan(x) for x in impl["tNuc"])
    return case["kind"] == "fake"


# ---------------------------------------------------------------------------
# generators
# ---------------------------------------------------------------------------
SHAPES = [[1, 1, 1], [2, 2, 1], [3, 3, 1], [3, 3, 1], [4, 3, 1], [1, 5, 1], [5, 1, 1], [5, 5, 1], [7, 7, 1], [2, 2, 2]]


def _real(rng, big=False):
    shape = rng.choice(SHAPES if big else SHAPES[:7] + [[2, 2, 2]])
    K = rng.choice([20, 100, 200, 500, 1000, 2000])
    k = {"int": rng.choice([0, K / 10, K / 2, 20]), "ext": rng.choice([0, K / 10, 20]), "s0": K}
    if rng.random() < 0.6:
        k["s_sigma_rel"] = rng.choice([0, 0.1, 0.2])
    dt = rng.choice([1, 2, 5, 10, 0.5, 2.5] if K >= 100 else [5, 10])
    rate = rng.choice([0.05, 0.1, 0.2, 0.5, 1.0]) * (1 if K >= 200 else 0.2)
    start = rng.choice([20, 5, 0, 10.5])
    if rng.random() < 0.25:
        # a time step that is not a binary fraction (on-grid times are k*dt with rounding); fast process
        dt = rng.choice([0.1, 0.3, 0.7, 1.1])
        K = rng.choice([1000, 2000])
        k["s0"] = K
        rate = rng.choice([0.5, 1.0])
        start = rng.choice([0, 5])
    stop = rng.choice([-50, -40, -25, -25, -5])
    holds = []
    for _ in range(rng.choice([0, 0, 1, 1, 2])):
        holds.append([rng.choice([-5, -8, -10, -12, 0]), rng.choice([0, 30, 60, 120, 7.5 * dt])])
    holds = [h for h in holds if stop <= h[0] <= start]
    unstable = False
    if rng.random() < 0.03:
        # explicitly unstable: strong vial-vial coupling with a long step
        k.update(int=rng.choice([500, 1000]), s0=2000)
        dt = 10
    lim = stable_dt_limit(k, shape)
    if dt > lim:
        if dt == 10 and k.get("int", 0) >= 500 or rng.random() < 0.25:
            unstable = True  # small, explicitly tagged stream outside the stable range of the explicit scheme
        else:
            ok = [d for d in [10, 5, 2.5, 2, 1.1, 1, 0.7, 0.5, 0.3, 0.1] if d <= lim]
            if ok and (dt in (0.1, 0.3, 0.7, 1.1)):
                dt = max(d for d in ok if d in (0.1, 0.3, 0.7, 1.1)) if any(d in (0.1, 0.3, 0.7, 1.1) for d in ok) else ok[0]
            elif ok:
                dt = ok[0]
            else:
                f = 0.1 / lim
                k = {kk: (v / (1.2 * f) if kk in ("int", "ext", "s0") else v) for kk, v in k.items()}
                dt = 0.1
    ramp = (start - stop) / rate + sum(h[1] for h in holds)
    # time for the vials to follow the shelf ~ a few hundred seconds * 1000/K
    need = ramp + 300 * 1000 / K
    t_tot = need * rng.choice([0.25, 0.5, 0.65, 0.8, 0.9, 1.0, 1.2, 1.5, 2.5])
    nmax = 3000 if big else 1500
    t_tot = min(t_tot, nmax * dt)
    if rng.random() < 0.3:
        t_tot = dt * int(t_tot / dt)  # on the grid
    n = shape[0] * shape[1] * shape[2]
    st = rng.random()
    if st < 0.55 or n == 1:
        store = "all"
    elif st < 0.8:
        # integer sequences in ascending, REVERSED and arbitrary order (rows must still belong to their vial)
        store = rng.sample(range(n), rng.randint(1, max(1, n - 1)))
        order = rng.random()
        if order < 0.3:
            store = sorted(store)
        elif order < 0.55:
            store = sorted(store, reverse=True)
    else:
        store = rng.choice(["edge", "corner", "core", "uniform_3", "random_2", "all"]) if n >= 9 and shape[2] == 1 else "all"
    case = dict(kind="real", shape=shape, k=k, dt=dt, rate=rate, start=start, stop=stop, t_tot=t_tot,
                holds=holds or None, cn=None, store=store, solThr=rng.choice([0.9, 0.9, 0.9, 0.5, 0.99, 0.3, 0.05, 0.12, 0.0]),
                seed=rng.randint(0, 10 ** 6), seed_v=rng.randint(0, 10 ** 6),
                initIce=rng.choice(["indirect", "direct"]),
                group=rng.choice(["all", "all", "all", "edge", "corner", "core"]) if n >= 9 and shape[2] == 1 else "all",
                qfrac=sorted(rng.random() for _ in range(4)) + [0, 1], offgrid=True)
    if unstable:
        case["unstable"] = True
    if rng.random() < 0.3:
        # a configured solution: melting temperature != 0, other solid fraction (both initIce methods are drawn above)
        case["config"] = {"solution": {"T_eq": rng.choice([2.0, -1.5, 0.5, 3.25]),
                                       "solid_fraction": rng.choice([0.05, 0.1, 0.2])}}
    if rng.random() < 0.35:
        case["mutate"] = True
    if rng.random() < 0.15:
        case["rerun"] = {"seed": rng.randint(0, 10 ** 6), "seed_v": rng.choice([None, rng.randint(0, 10 ** 6)])}
    if holds and rng.random() < 0.5:
        case["cn"] = rng.choice([h[0] for h in holds])
    elif rng.random() < 0.1:
        case["cn"] = rng.choice([-6.5, -9, stop, start])
    return case


def _long(rng):
    """a LONG process (>= 60000 steps) on a small batch with few stored vials: one column per step must still be
    stored, and the statistics must still be those visible in the stored trajectory"""
    shape = rng.choice([[1, 1, 1], [2, 2, 1]])
    n = shape[0] * shape[1] * shape[2]
    dt = rng.choice([0.25, 0.2, 0.125])
    steps = rng.choice([60000, 64000, 72000])
    t_tot = steps * dt
    start, stop = rng.choice([20, 5]), -40
    rate = (start - stop) / (t_tot * rng.choice([0.3, 0.5]))
    K = rng.choice([20, 50, 100])
    store = "all" if n == 1 else rng.choice([[0], [3, 1], [2]])
    return dict(kind="real", long=True, shape=shape, k={"int": 20, "ext": 20, "s0": K}, dt=dt, rate=rate, start=start,
                stop=stop, t_tot=t_tot, holds=None, cn=None, store=store, solThr=0.9, seed=rng.randint(0, 10 ** 6),
                seed_v=rng.randint(0, 10 ** 6), initIce=rng.choice(["indirect", "direct"]), group="all",
                thresholds=[None, 0], qfrac=[0, 0.3, 0.6, 1], offgrid=True)


def _laststep(rng):
    c = _real(rng)
    c["kind"] = "laststep"
    c["store"] = "all"
    c["group"] = "all"
    c["stop"] = min(c["stop"], -40)
    c["t_tot"] = max(c["t_tot"], ((c["start"] - c["stop"]) / c["rate"]) * 1.2)
    c["t_tot"] = min(c["t_tot"], 3000 * c["dt"])
    return c


def _fake(rng):
    shape = rng.choice([[2, 2, 1], [3, 1, 1], [1, 1, 1], [3, 2, 1]])
    n = shape[0] * shape[1] * shape[2]
    store = "all" if rng.random() < 0.6 or n == 1 else sorted(rng.sample(range(n), rng.randint(1, n - 1)))
    ns = n if store == "all" else len(store)
    m = rng.randint(1, 6)
    dt = rng.choice([1, 0.5, 2])
    t = [k * dt for k in range(m)]
    vals = [0, 0, 0, 0.25, 0.5, 0.75, 0.9375, 1, 0.3125, -0.5]
    Xs = []
    for _ in range(ns):
        style = rng.random()
        if style < 0.5:  # monotone trajectory starting liquid
            row, cur = [], 0.0
            for _k in range(m):
                row.append(cur)
                if rng.random() < 0.5:
                    cur = min(1.0, cur + rng.choice([0, 0.25, 0.5, 0.0625]))
            Xs.append(row)
        else:
            Xs.append([rng.choice(vals) for _ in range(m)])
    XT = [[rng.choice([-20, -10.5, 0, 3.25, 20]) for _ in range(m)] for _ in range(ns)]

    def stat(pool):
        return [rng.choice(pool) for _ in range(n)]

    solThr = rng.choice([0.9, 0.5, 0.9375, 0.25, 0])
    return dict(kind="fake", exact=True, shape=shape, k={"int": 20, "ext": 20, "s0": 20}, dt=dt, rate=0.5, start=20,
                stop=-40, t_tot=100, holds=None, cn=None, store=store, solThr=solThr, seed=1, seed_v=2,
                t=t, Xs=Xs, XT=XT, tnuc=stat([None, 0, 1, 2, 1.5, 3]), Tnuc=stat([None, -10, -12.5]),
                tsol=stat([None, 0, 1, 3, 2.5]),
                thresholds=[None, 0, 0.25, 0.5, 0.9375, rng.choice([1, -0.25, 0.3125])],
                times=[rng.choice([-1, 0, 0.25, 0.5, 1, 1.5, 2, 3, 4, 100]) for _ in range(rng.randint(0, 4))],
                group="all")


def _notrun(rng):
    return dict(kind="notrun", shape=[2, 2, 1], k={"int": 20, "ext": 20, "s0": 20}, dt=2, rate=0.5, start=20, stop=-40,
                t_tot=100, holds=None, cn=None, store=rng.choice(["all", [0, 2]]), solThr=0.9, seed=1, seed_v=2,
                thresholds=[None, 0, 0.3], times=[rng.choice([0, 1.5, 7])])


def cases(rng, tier):
    n_real, n_last, n_fake, n_not, n_loop = (260, 40, 400, 6, 24) if tier == "quick" else (2500, 300, 6000, 20, 300)
    for _ in range(n_real):
        yield _real(rng, big=(tier != "quick"))
    for _ in range(n_last):
        yield _laststep(rng)
    for _ in range(n_fake):
        yield _fake(rng)
    for _ in range(n_not):
        yield _notrun(rng)
    for _ in range(1 if tier == "quick" else 8):
        yield _long(rng)
    from props import c10

    for _ in range(n_loop):
        c = c10._pair(rng)
        c["kind"] = "loop"
        yield c


def widen(rng, tier):
    for _ in range(200 if tier == "quick" else 2000):
        yield _real(rng)
