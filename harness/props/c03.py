"""C03 Vial nucleation follows the stated stochastic rate law."""
from __future__ import annotations

import json
import math
import random

import shim  # noqa: F401
import numpy as np

import core
import flakeutil as fu
from core import Failure
from props import c01

ID = "C03"
TITLE = "Vial nucleation follows the stated stochastic rate law"
LEAN_MODULE = "SnowProofs.Props.C03"
THEOREMS = [
    dict(name="Snow.C03.nuc_iff", clause="nucleates <-> liquid at start of step, T < T_eq_l after the sensible update, "
         "and draw < k_v·V·(T_eq_l − T)^b·dt (1 at the controlled-nucleation step)", strength="full"),
    dict(name="Snow.C03.nuc_iff_vial", clause="the temperature entering the law is the one after this step's sensible "
         "update", strength="full"),
    dict(name="Snow.C03.nuc_certain", clause="certain once the probability reaches 1", strength="full"),
    dict(name="Snow.C03.nuc_at_CN", clause="every candidate nucleates at the controlled-nucleation step", strength="full"),
    dict(name="Snow.C03.not_candidate_never", clause="not supercooled or not liquid: never nucleates, unchanged by the "
         "nucleation branch, also at the CN step", strength="full"),
    dict(name="Snow.C03.solid_never", clause="a vial containing ice never nucleates again", strength="full"),
    dict(name="Snow.C03.Tnuc_recorded", clause="recorded T_nucleation = temperature that entered the probability; "
         "t_nucleation = end of the step", strength="full"),
    dict(name="Snow.C03.stats_kept", clause="no nucleation: recorded statistics unchanged", strength="full"),
    dict(name="Snow.C03.kb_per_vial", clause="k_v = 10^-(a + c·xi_v) > 0, and vial i uses only its own k_v",
         strength="full"),
    dict(name="Snow.C03.kb_from_xi", clause="the run's parameters are built by Params.withXi a c xi (driver), so "
         "k_v of vial i = 10^-(a + c·xi_i) of its own standard normal", strength="full"),
    dict(name="Snow.C03.dice_routing", clause="its uniform random draw: the r-th number of the generator call goes to the "
         "r-th candidate in vial-index order; non-candidates get no draw", strength="full"),
    dict(name="Snow.C03.step_dice", clause="the per-vial dice of a step are that routing applied to the step's candidate "
         "mask and the numbers delivered to the step", strength="full"),
    dict(name="Snow.C03.P_pos", clause="P > 0 on candidates", strength="full"),
    dict(name="Snow.C03.P_mono_supercooling", clause="P strictly increasing in the supercooling (b > 0)", strength="full"),
    dict(name="Snow.C03.step_probability", clause="Lebesgue measure of {u in [0,1) | u < P} = min(max(P,0),1)",
         strength="full"),
    dict(name="Snow.C03.nonvacuous", clause="hypotheses satisfiable (default kinetics)", strength="nonvacuity"),
]
TRUSTED = [
    "Lean 4.33 kernel; axioms per theorem listed under coverage.axioms",
    "theorems are over the reals: IEEE rounding is not modelled",
    "hand-written model SnowModel/Flake.lean tied to Snowflake.run by this differential check with SCRIPTED and "
    "recorded dice",
    "numpy Generator.random delivers independent uniform variates on [0,1) (step_probability is the measure of the "
    "event under that assumption); legacy np.random.seed/rand + scipy norm.ppf produce xi_v (recomputed by the same calls)",
    "that xi_v depends on seed_v only is the draw-schedule statement of C04",
]
ASSUMPTIONS = [
    "scripted draws are placed at P·(1±1e-3), 0, 1−2^-53 and uniformly at random (away from ties); a decision whose "
    "float margin is < 1e-9 is a TIE",
    "the scripted proxy reads P and the candidate mask from the caller's frame when available (harness-side only); "
    "without them it falls back to random draws",
    "the chi-square frequency test is support only, not part of the proof",
]
RULE = ("real Snowflake runs with a scripted generator assigned to S._rng (draws at P·(1±1e-3), 0, just below 1, random) "
        "and with recorded real draws, over kinetic parameters a,b,c, vial volumes, dt, shapes and programs; every "
        "(vial, step) nucleation decision is compared with the Lean model and evaluated against the stated law; "
        "plus a frequency test of a held supercooled vial over many real seeds")
EXPLANATION = ("Lean theorems over the reals about the nucleation decision of SnowModel/Flake.lean + differential check "
               "with scripted and recorded dice")
PARALLEL = True

# --- regeneration tie (harness/gentie.py): the formulas of the hand model SnowModel/Flake.lean are re-derived
# from /repo's source on every run and proved equal to the generated text (lean/SnowProofs/Props/GenTie/)
import gentie  # noqa: E402
THEOREMS = THEOREMS + gentie.theorems("Flake")
extra_lean_targets = list(globals().get("extra_lean_targets", [])) + [gentie.module("Flake")]
TRUSTED = TRUSTED + ["harness/translate.py formula extraction (single assignments of the run loop -> Lean definitions; "
                     "anything outside its tiny language is a TranslatorError)"]


def regenerate():
    gentie.regenerate("Flake")


_STASH = {}
_TOTALS = {"decisions": 0, "nucleated": 0, "placed_below_P": 0, "placed_above_P": 0, "placed_zero": 0,
           "placed_top": 0, "placed_random": 0}


def _key(case):
    return json.dumps(case, sort_keys=True, default=str)


# ---------------------------------------------------------------------------
TOP = 1.0 - 2.0 ** -53


def make_script(case, log):
    rng = random.Random(case.get("dice_seed", 0))
    mode = case.get("dice_mode", "mixed")
    w = {"mixed": (0.02, 0.25, 0.01, 0.1), "eager": (0.3, 0.3, 0.1, 0.1), "late": (0.003, 0.5, 0.0, 0.2)}[mode]

    def script(ctx):
        n = ctx["n"]
        P = ctx["P"]
        out = []
        for j in range(n):
            r = rng.random()
            p = None if P is None else P[j]
            if p is None or not (0 < p < 1e300):
                kind, v = "random", rng.random()
            elif r < w[0]:
                kind, v = "below", p * (1 - 1e-3)
            elif r < w[0] + w[1]:
                kind, v = "above", p * (1 + 1e-3)
            elif r < w[0] + w[1] + w[2]:
                kind, v = "zero", 0.0
            elif r < w[0] + w[1] + w[2] + w[3]:
                kind, v = "top", TOP
            else:
                kind, v = "random", rng.random()
            if not (0 <= v < 1):
                kind, v = "top", TOP
            log.append(kind)
            out.append(v)
        return out

    return script


def run_impl(case):
    if case.get("kind") == "frequency":
        return _frequency(case)
    try:
        if case.get("dice") == "recorded":
            obs = fu.run_real(case)
            obs["placed"] = []
        else:
            log = []
            obs = fu.run_real(case, script=make_script(case, log))
            obs["placed"] = log
        return obs
    except fu.ObservationError:
        raise          # the harness cannot observe the object: infrastructure error, not a verdict
    except Exception as e:
        return {"raise": core.exc_class(e), "msg": str(e)[:200]}


def run_model(drv, case, impl=None):
    if impl is None:
        impl = _STASH.get(_key(case))
    if impl is None:
        impl = run_impl(case)
    if impl.get("raise") or case.get("kind") == "frequency":
        return {"raise": impl.get("raise"), "skipped": True}
    return fu.run_model(drv, case, impl)


def compare(case, impl, model):
    if impl.get("raise") or case.get("kind") == "frequency":
        return []
    return fu.compare_run(case, impl, model)


# ---------------------------------------------------------------------------
def _frequency(case):
    """held supercooled 1x1 vial over many real seeds: step of nucleation"""
    n_seeds = case["n_seeds"]
    steps = []
    c = dict(case)
    c["kind"] = "structured"
    P = None
    for s in range(n_seeds):
        c["seed"] = case["seed0"] + s
        obs = fu.run_real(c)
        ph = fu.physical(case.get("config"))
        if obs["T0_obj"] != obs["T0"]:
            return {"raise": None, "freq_steps": [], "P": 0.0, "N": obs["N"],
                    "T0_bad": [obs["T0_obj"], obs["T0"]]}
        if P is None:
            T = obs["XT"][0][0]
            P = float(fu.spec_P(ph, obs["kb"][0], T, obs["dt"])) if T < ph["T_eq_l"] else 0.0
        tn = obs["tNuc"][0]
        steps.append(None if math.isnan(tn) else int(round(tn / obs["dt"])) - 1)
    return {"raise": None, "freq_steps": steps, "P": P, "N": obs["N"]}


def _chi2_sf(x, k):
    from scipy.stats import chi2

    return float(chi2.sf(x, k))


def predicates(case, impl):
    _STASH.clear()
    _STASH[_key(case)] = impl
    out = []
    site = "Snowflake.run"

    def fail(clause, detail, cls=""):
        out.append(Failure(clause=clause, key=f"{clause}|{site}|{cls}", detail=detail))

    if impl.get("raise"):
        fail("total", f"valid configuration raises {impl['raise']}: {impl.get('msg')}")
        return out
    if case.get("kind") == "frequency":
        if impl.get("T0_bad"):
            fail("initial_temperature", f"T_k_0 of the object is {impl['T0_bad'][0]!r} but the configuration implies "
                 f"{impl['T0_bad'][1]!r}")
            return out
        P, N = impl["P"], impl["N"]
        steps = impl["freq_steps"]
        n = len(steps)
        # bins: nucleation at step 0..K-1, and "later or never"
        K = min(N, max(1, int(math.ceil(math.log(0.05) / math.log(1 - P))))) if 0 < P < 1 else 1
        exp = [n * P * (1 - P) ** k for k in range(K)] + [n * (1 - P) ** K]
        obs = [sum(1 for s in steps if s == k) for k in range(K)] + [sum(1 for s in steps if s is None or s >= K)]
        # merge small bins
        e2, o2, ae, ao = [], [], 0.0, 0
        for e, o in zip(exp, obs):
            ae += e
            ao += o
            if ae >= 5:
                e2.append(ae); o2.append(ao); ae, ao = 0.0, 0
        if ae > 0 and e2:
            e2[-1] += ae; o2[-1] += ao
        if len(e2) >= 2:
            x = sum((o - e) ** 2 / e for e, o in zip(e2, o2))
            pval = _chi2_sf(x, len(e2) - 1)
            impl["chi2_p"] = pval
            if pval < 1e-6:
                fail("frequency", f"nucleation step frequencies over {n} seeds inconsistent with geometric law "
                     f"P={P:.4g}: chi2={x:.1f}, p={pval:.2g}", "frequency")
        return out

    for clause, detail in fu.stateless_failures(case, impl):
        fail(clause, detail)
    if out:
        return out
    if case.get("dice") == "scripted" and impl.get("ctx_missing"):
        fail("observation", f"{impl['ctx_missing']} scripted generator calls could not read P / the candidate mask "
             "from the caller's frame: the draws were NOT placed at P·(1±1e-3)", "frame-locals-missing")
        return out
    ph = fu.physical(case.get("config"))
    n, N, dt = impl["n"], impl["N"], impl["dt"]
    XT = np.asarray(impl["XT"])
    Xs = np.asarray(impl["Xsigma"])
    Tsh = np.asarray(impl["Tshelf"])
    # liquid temperature after the sensible update of every step (independent statement, as in C01)
    W = np.zeros((n, n))
    for i, r in enumerate(impl["nbrs"]):
        for j in r:
            W[i, j] += 1
    deg = W.sum(axis=1)
    A = ph["A"]
    q = (impl["kInt"] * A * (XT @ W.T - XT * deg)
         + np.asarray(impl["ext"]) * impl["kExt"] * A * (Tsh[:, None] - XT)
         + fu.spec_kshelf(case, impl) * A * (Tsh[:, None] - XT))
    Tl = fu.spec_liquid(ph, XT, q, dt)
    # per-vial pre-exponential factor from the vial seed
    xi = fu.xi_of(case.get("seed_v", 2024), n)
    kb = 10.0 ** (-(ph["a"] + ph["c"] * xi))
    nuc_step = fu.impl_nuc_steps(impl)
    t = np.asarray(impl["t"])
    cnt = impl.get("cnt")
    kcn = int(np.argmax(t >= cnt)) if (cnt is not None and np.any(t >= cnt)) else N + 1
    # generator calls: exactly one per step with a liquid vial, one value per candidate
    calls = impl["calls"]
    liquid_steps = [k for k in range(N) if np.any(Xs[k] == 0)]
    ks = [c[0] if c[0] is not None else liquid_steps[j] if j < len(liquid_steps) else None
          for j, c in enumerate(calls)]
    if len(calls) != len(liquid_steps) or ks != liquid_steps:
        fail("draw_schedule", f"{len(calls)} generator calls for {len(liquid_steps)} steps with a liquid vial")
        return out
    decisions = 0
    nucleated = 0
    by_step = {}
    for i, k in enumerate(nuc_step):
        if k is not None:
            by_step.setdefault(k, []).append(i)
    for (k_rec, vals), k in zip(calls, ks):
        liq = Xs[k] == 0
        cand = np.where(liq & (Tl[k] < ph["T_eq_l"]))[0]
        # a liquid vial within the float margin of T_eq_l is ambiguous: only THAT vial is skipped; the
        # number of draws tells whether the ambiguous vials were candidates (all or none, else skip)
        amb = liq & (np.abs(Tl[k] - ph["T_eq_l"]) <= 1e-9 * max(1.0, abs(ph["T_eq_l"])))
        skip = set()
        if np.any(amb):
            definite = np.where(liq & ~amb & (Tl[k] < ph["T_eq_l"]))[0]
            if len(vals) == len(definite) + int(amb.sum()):
                cand = np.where(liq & (amb | (Tl[k] < ph["T_eq_l"])))[0]
            elif len(vals) == len(definite):
                cand = definite
            else:
                continue
            skip = set(np.where(amb)[0].tolist())
        if len(vals) != len(cand):
            fail("candidates", f"step {k}: {len(vals)} draws for {len(cand)} liquid supercooled vials")
            break
        for d, i in zip(vals, cand):
            if i in skip:
                continue
            P = 1.0 if k == kcn else fu.spec_P(ph, kb[i], Tl[k, i], dt)
            if k != kcn and abs(d - P) <= 1e-9 * max(abs(P), 1e-300):
                continue
            decisions += 1
            should = d < P
            did = nuc_step[i] == k
            nucleated += did
            if should != did:
                fail("nuc_iff", f"vial {i} step {k}: draw {d!r}, P {P!r} -> should "
                     f"{'nucleate' if should else 'not nucleate'} but did {'' if did else 'not '}nucleate",
                     "cn" if k == kcn else "law")
                break
            if did and not (abs(impl["TNuc"][i] - Tl[k, i]) <= 1e-9 * max(1, abs(Tl[k, i]))):
                fail("Tnuc_recorded", f"vial {i}: T_nucleation {impl['TNuc'][i]!r} vs temperature in the law {Tl[k, i]!r}")
        if out:
            break
        # nobody else nucleates in this step
        cs = set(cand.tolist())
        others = [i for i in by_step.get(k, []) if i not in cs]
        if others:
            fail("not_candidate_never", f"step {k}: vials {others[:5]} nucleate without being liquid and supercooled")
            break
    # a vial nucleates at most once and only in a step with a generator call
    for i, k in enumerate(nuc_step):
        if k is not None and k not in set(ks):
            fail("not_candidate_never", f"vial {i} nucleates at step {k} without a generator call")
            break
    # kb from the frame's P (when exposed): k_v belongs to vial v
    impl["_decisions"] = decisions
    impl["_nucleated"] = int(nucleated)
    return out


def classify(case, impl):
    _STASH.clear()
    _STASH[_key(case)] = impl
    tags = [f"kind={case.get('kind')}"]
    if case.get("kind") == "frequency":
        return tags + [f"frequency seeds={case['n_seeds']}"]
    tags += [f"dice={case.get('dice', 'scripted')}:{case.get('dice_mode', '')}",
             f"initIce={case.get('initIce', 'indirect').lower()}",
             "kinetics=" + json.dumps((case.get("config") or {}).get("kinetics", "default"), sort_keys=True)]
    if impl.get("raise"):
        return tags + [f"raise={impl['raise']}"]
    for kind in impl.get("placed", []):
        _TOTALS["placed_" + {"below": "below_P", "above": "above_P", "zero": "zero", "top": "top",
                             "random": "random"}[kind]] += 1
    n_dec = sum(len(c[1]) for c in impl["calls"])
    _TOTALS["decisions"] += n_dec
    _TOTALS["nucleated"] += sum(1 for x in impl["tNuc"] if not math.isnan(x))
    tags.append("frame exposes P" if impl.get("ctx_seen") else "frame does not expose P")
    tags.append("some nucleation" if any(not math.isnan(x) for x in impl["tNuc"]) else "no nucleation")
    if case["opcond"].get("cnTemp") is not None:
        tags.append("controlled nucleation")
    global EXPLANATION
    EXPLANATION = (EXPLANATION.split(" || ")[0] + " || vial-step nucleation decisions in this run: "
                   + json.dumps(_TOTALS))
    return tags


def nontrivial(case, impl):
    if case.get("kind") == "frequency":
        return True
    return not impl.get("raise") and any(not math.isnan(x) for x in impl["tNuc"])


# ---------------------------------------------------------------------------
KIN = [{"a": 12.0, "b": 12.0, "c": 0.5}, {"a": 8, "b": 6.5, "c": 1.0}, {"a": 29.0, "b": 29.3, "c": 0.0},
       {"a": 20.5, "b": 18.0, "c": 2.0}, {"b": 28.0}, {"c": 0.3}, {"a": 5.0, "b": 2.0, "c": 0.2},
       {"a": 3.0, "b": 0.5, "c": 0.1}, {"a": 15.25, "b": 14.0, "c": 1.5}]


def _case(rng, tier, recorded=False):
    c = c01._structured(rng, tier)
    c["kind"] = "recorded" if recorded else "scripted"
    cfg = c.get("config") or {}
    if rng.random() < 0.7:
        cfg["kinetics"] = rng.choice(KIN)
    if rng.random() < 0.4:
        cfg["vial"] = {"geometry": rng.choice([{"height": 0.02}, {"height": 0.005},
                                               {"length": 0.02, "width": 0.01, "height": 0.01}])}
    c["config"] = cfg or None
    if c01.stability(c) > 0.9:
        c["config"].pop("vial", None)
    if recorded:
        c["dice"] = "recorded"
    else:
        c["dice"] = "scripted"
        c["dice_seed"] = rng.randint(0, 10**9)
        c["dice_mode"] = rng.choice(["mixed", "mixed", "eager", "late"])
    return c


def _rerun_case(rng, tier):
    """the observed run is the SECOND run of the object, after the kinetics were changed through
    configPath: k_v must use the a and c in force for that run"""
    c = _case(rng, tier, recorded=True)
    c["kind"] = "rerun"
    cfg = dict(c.get("config") or {})
    kin = rng.choice(KIN[:4])
    cfg["kinetics"] = dict(kin)
    c["config"] = cfg
    pre = json.loads(json.dumps(cfg))
    pre["kinetics"] = {"a": kin["a"] + rng.choice([2.0, -1.5, 4.0]), "b": kin["b"],
                       "c": kin["c"] + rng.choice([0.5, 1.0])}
    c["pre_config"] = pre
    c["opcond"]["t_tot"] = min(c["opcond"]["t_tot"], c["dt"] * 600)
    return c


def _freq_case(rng, tier):
    T = rng.choice([-10.0, -12.0, -8.0])
    kin = rng.choice([{"a": 1.6, "b": 6.0, "c": 0.0}, {"a": 2.0, "b": 6.5, "c": 0.5}])
    return dict(kind="frequency", N_vials=[1, 1, 1], k={"int": 0, "ext": 0, "s0": 20}, dt=2.0,
                seed0=rng.randint(0, 10**6), seed_v=rng.randint(0, 10**4), n_seeds=300 if tier == "quick" else 2000,
                opcond=dict(t_tot=80.0, start=T, stop=T, rate=0, holds=None, cnTemp=None), T0=None,
                config={"kinetics": kin}, initIce="indirect", threshold=0.9)


def _late(rng, tier):
    c = c01._late_cn(rng, tier)
    c["dice"] = "recorded"
    return c


def cases(rng, tier):
    for j in range(4 if tier == "quick" else 40):
        c = _late(rng, tier)
        if j < 3:     # seed_v = 0 / True and seed = 0: k_v must still be 10^-(a + c·xi_v) of the seeded xi_v
            c["seed_v"], c["seed"] = [(0, 11), (True, 0), (0, 0)][j]
        yield c
    ns, nr, nf = (40, 16, 2) if tier == "quick" else (900, 300, 6)
    for _ in range(ns):
        yield _case(rng, tier)
    for _ in range(nr):
        yield _case(rng, tier, recorded=True)
    for _ in range(6 if tier == "quick" else 60):
        yield _rerun_case(rng, tier)
    for _ in range(nf):
        yield _freq_case(rng, tier)


def widen(rng, tier):
    for _ in range(40 if tier == "quick" else 300):
        yield _case(rng, tier)
