"""C14 Spatial repetitions are reproducible in every execution mode.

Model: lean/SnowModel/SnowingObj.lean (`Snowing.run(how)` dispatch, `_stats`,
`_statsMultiple`, `_keys`, `results`; one simulation is abstract:
`sim (2024, 0) (seed, 0)`).  Theorems: lean/SnowProofs/Props/C14.lean.

Tie to the code: sequences of `run(how)` / `results` are executed on REAL Snowing
objects (homogeneous model by default; a few 1D runs in thorough).  The model's
symbolic row `sim (2024,0) (i,0)` is interpreted as the real single run
`Snowing(Nrep=1)._run_xD(seed=i)` on a fresh object, and the tables are compared
bit for bit; the calls on the global legacy generator (`np.random.seed / rand /
random`, recorded by a wrapper installed in the harness process) are compared with
the model's events; `mp.cpu_count` is patched to vary the pool size.
"""
from __future__ import annotations

import json
import os
import sys

import shim  # noqa: F401
import numpy as np

import core
from core import Failure, f2b

ID = "C14"
TITLE = "Spatial repetitions are reproducible in every execution mode"
LEAN_MODULE = "SnowProofs.Props.C14"
THEOREMS = [
    dict(name="Snow.C14.rep_is_seeded_run", clause="any object state, mode, pool batching, global-generator state: results = one row per repetition in seed order, row i = the single run with seed i", strength="full"),
    dict(name="Snow.C14.rep_after_resize", clause="after S.Nrep = n on an object in any state (e.g. after a larger study) a run gives exactly the n seeded rows", strength="full"),
    dict(name="Snow.C14.single_eq_rep0", clause="a single run (Nrep = 1) equals repetition 0", strength="full"),
    dict(name="Snow.C14.repeat_same", clause="any sequence of earlier runs, then a run: same table (Nrep > 1) - proved for the table bookkeeping (`_statsMultiple` is rebuilt, keys, status); the row VALUES are history-independent by definition of `runXD` (code-level: correspondence)", strength="full"),
    dict(name="Snow.C14.repeat_same_single", clause="model: any sequence of earlier runs, then a run: same row (Nrep = 1) - holds because one simulation `runXD` does not read the incoming object or generator state BY DEFINITION; that `_run_xD` of the CODE depends on configuration and seed only rests on the correspondence (used-object and perturbed-generator reruns bit-identical, generator calls observed)", strength="by-construction"),
    dict(name="Snow.C14.modes_equal", clause="sequential = async for every pool batching and worker count", strength="full"),
    dict(name="Snow.C14.poolChunks_valid", clause="the batches multiprocessing.Pool makes cover the tasks in order", strength="full"),
    dict(name="Snow.C14.old_sequential_raises", clause="pre-repair code: sequential Nrep>1 stores nothing, results raises ValueError", strength="refutation-of-old-code"),
    dict(name="Snow.C14.old_sequential_stale", clause="pre-repair code: sequential after async shows the earlier table", strength="refutation-of-old-code"),
    dict(name="Snow.C14.nonvacuous", clause="concrete instance (Nrep = 3, two batchings)", strength="nonvacuity"),
]
TRUSTED = [
    "Lean 4.33 kernel; axioms per theorem listed under coverage.axioms",
    "one simulation `_run_xD(seed)` is a function of configuration and of the two legacy-generator streams it seeds itself "
    "(checked here: the same call on used objects and with a perturbed global generator is bit-identical)",
    "multiprocessing.Pool.starmap_async returns results in task order; workers run on forked copies",
    "pandas DataFrame.from_dict(orient='index') keeps dict order",
    "hand-written model SnowModel/SnowingObj.lean tied to snowing.py by this differential check",
]
ASSUMPTIONS = [
    "processes long enough for nucleation and solidification to complete (a failing run is C13's subject)",
    "the reference row for repetition i is the code's own single run `_run_xD(seed=i)` on a fresh object: this check "
    "ties the STRUCTURE (row i = single run i, modes, histories); the VALUES of a single run are tied to the Lean "
    "models by C08/C13 (0D/1D/2D loops), not here",
    "the calls on the global generator are used to check WHICH stream a draw comes from (kinetic seed 2024, then the "
    "repetition number) - the property's anchor; their exact form/number and the pool's batching are diagnostics only; "
    "the pool size is verified to follow the patched cpu_count (otherwise exit 2, broken observation)",
    "Nrep >= 1; how in {sequential, async} (other strings silently do nothing - modelled, not part of the property)",
]
RULE = ("two 1D vacuum-induced-surface-freezing histories on a tall vial (run twice / raise Nrep on the used object); "
        "Nrep in {1,2,3,7} x how in {sequential, async} x patched mp.cpu_count in {1,2,16} x four programs of the "
        "homogeneous model, plus two- and three-run histories on one object (mode changes, repeats); thorough adds "
        "1D runs; a case is non-trivial when a results table with >= 1 row was obtained")
EXPLANATION = ("Lean theorems about the object/mode model + differential check of the results tables of real Snowing "
               "objects against single seeded runs, bit for bit")
PARALLEL = True

KEYS = {"homogeneous": ["T_nuc", "t_nuc", "t_sol", "t_fr"],
        "spatial_1D": ["T_nuc_min", "T_nuc_kin", "T_nuc_mean", "T_nuc_max", "t_nuc", "t_sol", "t_fr"],
        "spatial_2D": ["T_nuc_min", "T_nuc_kin", "T_nuc_mean", "T_nuc_max", "t_nuc", "t_sol", "t_fr"]}

# configuration variants (custom YAML on top of the defaults)
VARIANTS = {
    None: "",
    # vacuum-induced surface freezing on a tall vial (a 1D run takes ~2 s): the vacuum window
    # (30-36 min) is what triggers nucleation with program "V"
    # wide, tall vial: the explicit 2D scheme runs at dt ~ 2 s, one run takes a few seconds
    "wide": "vial:\n  geometry:\n    height: 0.08\n    diameter: 0.16\n",
    "visf": "vial:\n  geometry:\n    height: 0.08\nVISF:\n  t_vac_start: 0.5\n  t_vac_duration: 0.1\n",
}

PROGRAMS = {
    "W": (dict(t_tot=1.1e4, cooling={"rate": 5 / 60, "start": 5, "end": -60}), 500),
    "V": (dict(t_tot=1.4e4, cooling={"rate": 1.0 / 60, "start": 20, "end": -50}), 400),
    "A": (dict(t_tot=3 * 3600, cooling={"rate": 0.5 / 60, "start": 20, "end": -50}), 50),
    "B": (dict(t_tot=2400, cooling={"rate": 3 / 60, "start": 10, "end": -50}), 200),
    "C": (dict(t_tot=1500, cooling={"rate": 6 / 60, "start": 5, "end": -45},
               holding=[dict(duration=120, temp=-5)]), 400),
    "D": (dict(t_tot=1500, cooling={"rate": 6 / 60, "start": 5, "end": -45},
               holding=[dict(duration=120, temp=-8)], cnTemp=-8), 400),
}

# ---------------------------------------------------------------------------
# recorder on the global legacy generator
# ---------------------------------------------------------------------------
EVENTS = []
_installed = [False]
_PID = [None]     # the process that executes the case
_WLOG = [None]    # file the forked pool workers log their generator calls to


def _install():
    if _installed[0]:
        return
    _installed[0] = True
    import ethz_snow.snowing  # noqa: F401  (import before patching)

    def wrap(name, ev):
        real = getattr(np.random, name)

        def f(*a, **kw):
            if str(sys._getframe(1).f_globals.get("__name__", "")).startswith("ethz_snow"):
                if os.getpid() == _PID[0]:
                    EVENTS.append(ev(a))
                elif _WLOG[0]:
                    # a pool worker (forked from this process): log to the case's file
                    with open(_WLOG[0], "a") as fh:
                        fh.write(json.dumps({"pid": os.getpid(), "ev": ev(a)}) + "\n")
            return real(*a, **kw)

        setattr(np.random, name, f)

    # the ARGUMENT given to np.random.seed is observed as it is (an int, or the repr of anything else)
    wrap("seed", lambda a: ["seed", int(a[0]) if isinstance(a[0], (int, np.integer)) and not isinstance(a[0], bool)
                            else repr(a[0])])
    wrap("rand", lambda a: ["draw"])
    wrap("random", lambda a: ["draw"])


def _config(dim, variant=None):
    """custom YAML selecting the model dimensionality / configuration (written under .cache/, git-ignored)"""
    d = core.VERIF / ".cache" / "c14"
    d.mkdir(parents=True, exist_ok=True)
    p = d / f"{dim}_{variant or 'shelf'}.yaml"
    text = (f"snowing_parameters:\n  dimensionality: {dim}\n  configuration: {'VISF' if variant == 'visf' else 'shelf'}\n"
            + VARIANTS[variant])
    if not p.exists() or p.read_text() != text:
        tmp = d / f"{p.name}.{os.getpid()}.tmp"
        tmp.write_text(text)
        os.replace(tmp, p)
    return str(p)


def _private_config(case):
    """a scratch YAML file of this process only (it is rewritten after the object has been built)"""
    d = core.VERIF / ".cache" / "c14"
    d.mkdir(parents=True, exist_ok=True)
    p = d / f"scratch_{os.getpid()}.yaml"
    with open(_config(case["dim"], case.get("cfg"))) as fh:
        p.write_text(fh.read())
    return str(p)


def _programme(case, k=0):
    """programme number k of the case as a complete argument dict of OperatingConditions (0 = as constructed)"""
    oc = dict(PROGRAMS[case["prog"]][0])
    oc["cooling"] = dict(oc["cooling"])
    if k:
        e = case["edits"][k]
        oc["cooling"].update(e.get("cooling", {}))
        for key in ("t_tot", "holding"):
            if key in e:
                oc[key] = e[key]
    return oc


def _edit_in_place(opcond, oc):
    """edit the ATTACHED OperatingConditions object (same identity) to programme `oc`"""
    for key, val in oc["cooling"].items():
        opcond.cooling[key] = val
    opcond.holding = oc.get("holding")
    opcond.t_tot = oc["t_tot"]


def _mk(case, nrep, path=None, prog=0, t_tot=None):
    from ethz_snow.snowing import Snowing
    from ethz_snow.operatingConditions import OperatingConditions

    oc, s0 = _programme(case, prog), PROGRAMS[case["prog"]][1]
    if t_tot is not None:
        oc["t_tot"] = t_tot
    S = Snowing(k={"int": 0, "ext": 0, "s0": s0, "s_sigma_rel": 0}, opcond=OperatingConditions(**oc),
                Nrep=nrep, configPath=path or _config(case["dim"], case.get("cfg")))
    # constants adjusted directly on the object after construction belong to the object
    for key, val in ((case.get("tamper") or {}).get("const") or {}).items():
        S.const[key] = val
    return S


def _single(S, case, seed):
    f = {"homogeneous": S._run_0D, "spatial_1D": S._run_1D, "spatial_2D": S._run_2D}[case["dim"]]
    r = f(seed=seed)
    if isinstance(r, dict):   # a row may be returned positionally or by name
        r = [r[k] for k in KEYS[case["dim"]]]
    return [_bits(x) for x in r]


def _bits(x):
    if x is None:
        return None
    return f2b(float(x))


def _world(w0, nrep):
    st = np.random.get_state()
    if st[2] == w0[2] and np.array_equal(st[1], w0[1]):
        return [None, 0]
    for s in range(max(nrep, 1)):
        r = np.random.RandomState(s)
        r.random_sample()
        rs = r.get_state()
        if rs[2] == st[2] and np.array_equal(rs[1], st[1]):
            return [s, 1]
    return "unknown"


def _worker_tasks():
    """generator calls made in pool workers during the last run, as one group of calls per task
    (a worker runs its tasks one after the other; every task starts with a call of np.random.seed)"""
    path, _WLOG[0] = _WLOG[0], None
    if not path or not os.path.exists(path):
        return []
    per = {}
    with open(path) as fh:
        for line in fh:
            r = json.loads(line)
            per.setdefault(r["pid"], []).append(r["ev"])
    os.remove(path)
    groups = []
    for evs in per.values():
        cur, nseed = None, 0
        for e in evs:
            # a task draws from two streams (kinetic, then its own): a new task begins at every other re-seeding
            # (the repetition with seed 2024 seeds 2024 twice - the value cannot be used as the boundary)
            if cur is None or (e[0] == "seed" and nseed % 2 == 0):
                cur = []
                groups.append(cur)
            if e[0] == "seed":
                nseed += 1
            cur.append(e)
    return sorted(groups, key=json.dumps)


def run_impl(case):
    _install()
    _PID[0] = os.getpid()
    import ethz_snow.snowing as sn

    real_cpu, real_pool = sn.mp.cpu_count, sn.mp.Pool
    sn.mp.cpu_count = lambda: case["cpu"]
    pool_sizes = []

    def pool(*a, **kw):
        pool_sizes.append(a[0] if a else kw.get("processes"))
        return real_pool(*a, **kw)

    sn.mp.Pool = pool
    try:
        nrep = case["nrep"]
        nmax = max([nrep] + [op[1] for op in case["ops"] if op[0] == "setNrep"])
        # reference: the single run with seed i on a fresh object each
        ref, ref_evs = [], []
        rows_checked = case.get("check_rows")      # a large study: only these rows are compared with single runs
        for i in range(nmax):
            if rows_checked is not None and i not in rows_checked:
                ref.append(None)
                continue
            mark = len(EVENTS)
            ref.append(_single(_mk(case, 1), case, i))
            ref_evs.append([i, EVENTS[mark:]])
        t_cut = None
        if case.get("partial"):
            # a process time BETWEEN the completion times of the repetitions: some complete, the others cannot
            done = sorted(core.b2f(r[-1]) * 60 for r in ref)
            k = case["partial"]["complete"]
            t_cut = (done[k - 1] + done[k]) / 2
        # ... and for every programme the attached operating conditions are edited to (fresh objects, fresh opcond)
        refs = {"0": ref}
        for op in case["ops"]:
            if op[0] == "editOp" and str(op[1]) not in refs:
                refs[str(op[1])] = [_single(_mk(case, 1, prog=op[1]), case, i) for i in range(nmax)]
        cur = 0
        # arbitrary state of the global generator before the object is used.  The seed is taken far outside the
        # range of repetition seeds: with gstate = Nrep-1 and one draw the initial state would be IDENTICAL to the
        # state a sequential run leaves behind, and "unchanged" could not be told from "seeded Nrep-1, one draw"
        np.random.seed(10**6 + case.get("gstate", 99))
        np.random.random_sample(case.get("gdraws", 3))
        w0 = np.random.get_state()
        tamper = case.get("tamper") or {}
        scratch = _private_config(case) if tamper.get("file") else None
        S = _mk(case, nrep, scratch, t_tot=t_cut)
        if scratch:
            # the scratch file is rewritten for "the next sweep point": the object keeps ITS constants
            with open(scratch, "a") as fh:
                fh.write(tamper["file"])
        out = []
        for op in case["ops"]:
            mark = len(EVENTS)
            if op[0] == "setNrep":
                S.Nrep = op[1]
                out.append({})
            elif op[0] == "editOp":
                cur = op[1]
                _edit_in_place(S.opcond, _programme(case, cur))
                out.append({})
            elif op[0] == "run":
                try:
                    d = core.VERIF / ".cache" / "c14"
                    d.mkdir(parents=True, exist_ok=True)
                    _WLOG[0] = str(d / f"wlog_{os.getpid()}.jsonl")
                    if os.path.exists(_WLOG[0]):
                        os.remove(_WLOG[0])
                    S.run(how=op[1])
                    out.append({"evs": EVENTS[mark:], "worker_tasks": _worker_tasks()})
                except Exception as e:
                    out.append({"raise": core.exc_class(e)})
            else:
                try:
                    df = S.results
                    out.append({"index": [int(i) for i in df.index], "columns": [str(c) for c in df.columns],
                                "rows": [[_bits(x) for x in r] for r in df.to_numpy().tolist()], "prog": cur})
                except Exception as e:
                    out.append({"raise": core.exc_class(e)})
        obs = {"raise": None, "out": out, "ref": ref, "refs": refs, "used_prog": cur, "ref_evs": ref_evs,
               "world": _world(w0, min(nmax, 64)), "pool_sizes": pool_sizes}
        if t_cut is not None:
            obs["partial"] = {"t_tot": t_cut, "complete": [i for i, r in enumerate(ref) if core.b2f(r[-1]) * 60 < t_cut]}
            return obs
        # the single run on the USED object, global generator perturbed: must equal the reference
        np.random.seed(4242)
        obs["used"] = [_single(S, case, i) for i in range(min(nmax, 2 if case["dim"] == "homogeneous" else 1))
                       if ref[i] is not None]
        if scratch and os.path.exists(scratch):
            os.remove(scratch)
        return obs
    except Exception as e:
        import traceback

        return {"raise": core.exc_class(e), "tb": traceback.format_exc()[-800:]}
    finally:
        sn.mp.cpu_count, sn.mp.Pool = real_cpu, real_pool
        if any(n != case["cpu"] for n in pool_sizes):
            # not a verdict about the code: the worker count is no longer steered by the patched mp.cpu_count, so
            # this case does not vary the pool size as it claims (infrastructure error, exit 2)
            raise RuntimeError(f"broken observation: pools of {pool_sizes} workers although mp.cpu_count was patched to "
                               f"{case['cpu']}; adapt the harness to how the code chooses its pool size")


# ---------------------------------------------------------------------------
def _model_ops(drv, case):
    ops = []
    nrep = case["nrep"]
    for op in case["ops"]:
        if op[0] == "editOp":
            continue          # the programme is configuration: the model's `sim` of the following runs
        if op[0] == "setNrep":
            nrep = op[1]
        if op[0] == "run" and op[1] == "async":
            ch = drv.call({"op": "c14_poolChunks", "nrep": nrep, "pool": case["cpu"]})["chunks"]
            ops.append(["run", "async", ch])
        else:
            ops.append(op)
    return ops


def run_model(drv, case):
    r = drv.call({"op": "c14_run", "nrep": case["nrep"], "ops": _model_ops(drv, case)})
    if "error" in r:
        raise RuntimeError(r["error"])
    return r


def _interp(rows, ref):
    """model rows [[seed, xiPos, frandPos]] -> (index, bit rows) through the reference single runs"""
    idx, vals = [], []
    for seed, xi, fr in rows:
        idx.append(seed)
        if xi != [2024, 0] or fr[1] != 0 or fr[0] >= len(ref):
            vals.append("unmapped")
        else:
            vals.append(ref[fr[0]])
    return idx, vals


def compare(case, impl, model):
    dis = []
    if impl.get("raise"):
        dis.append(f"implementation raised outside run/results: {impl['raise']} {impl.get('tb', '')[-300:]}")
        return dis
    if case.get("partial"):
        return dis      # a failing repetition is outside the model (its `runXD` is total); see predicates
    mout = iter(model["out"])
    for i, (op, a) in enumerate(zip(case["ops"], impl["out"])):
        if op[0] == "editOp":
            continue
        b = next(mout)
        if op[0] == "setNrep":
            continue
        if op[0] == "run":
            if "raise" in a:
                dis.append(f"op {i} {op}: implementation raised {a['raise']}")
            elif _streams(a["evs"]) != _streams(b["evs"]):
                # the exact call pattern is a diagnostic, not part of the property (results are compared below)
                dis.append(f"TIE: [diagnostic, not a verdict] op {i} {op}: streams used in this process: impl "
                           f"{_streams(a['evs'])[:8]} vs model {_streams(b['evs'])[:8]}")
        else:
            if ("raise" in a) != ("raise" in b) or ("raise" in a and a["raise"] != b["raise"]):
                dis.append(f"op {i} results: impl {a.get('raise', 'table')} vs model {b.get('raise', 'table')}")
                continue
            if "raise" in a:
                continue
            idx, vals = _interp(b["rows"], impl["refs"][str(a.get("prog", 0))])
            if a["index"] != idx:
                dis.append(f"op {i} results: index impl {a['index']} vs model {idx}")
            elif [x for x, y in zip(a["rows"], vals) if y is not None] != [y for y in vals if y is not None] \
                    or len(a["rows"]) != len(vals):
                bad = [j for j, (x, y) in enumerate(zip(a["rows"], vals)) if y is not None and x != y]
                dis.append(f"op {i} results: rows {bad} differ from the single runs the model names")
            if a["columns"] != KEYS[case["dim"]]:
                dis.append(f"op {i} results: columns {a['columns']}")
    if impl["world"] != model["world"]:
        dis.append(f"TIE: [diagnostic, not a verdict] global generator afterwards: impl {impl['world']} vs model {model['world']}")
    return dis


def _streams(evs):
    """the seeds given to the global generator, each with the number of draws taken before the next re-seeding:
    what matters is WHICH stream a draw comes from, not the form or number of the calls"""
    out = []
    for e in evs:
        if e[0] == "seed":
            out.append([e[1], 0])
        elif out:
            out[-1][1] += 1
    return out


def _seeded_ok(evs, i):
    st = _streams(evs)
    return [x[0] for x in st] == [2024, i] and all(x[1] >= 1 for x in st)


def predicates(case, impl):
    out = []
    if impl.get("raise"):
        out.append(Failure(clause="total", key=f"raises|Snowing|{impl['raise']}",
                           detail=f"case raises {impl['raise']}: {impl.get('tb', '')[-300:]}"))
        return out
    nrep = case["nrep"]
    ref = impl["ref"]
    last_how = None
    tables = []
    if case.get("partial"):
        # some repetitions cannot complete within t_tot: the study must fail as a whole IN EVERY MODE (what the
        # sequential loop does) - never a table with fewer rows than repetitions or rows shifted away from their seeds
        for op, a in zip(case["ops"], impl["out"]):
            if op[0] == "run" and "raise" not in a:
                out.append(Failure(
                    clause="modes_equal", key=f"partial_study|Snowing.run|{op[1]}|no-error",
                    detail=f"Nrep={nrep}, t_tot={impl['partial']['t_tot']:.2f} s: only repetitions "
                           f"{impl['partial']['complete']} can complete, yet run(how={op[1]!r}) does not raise"))
            if op[0] == "results" and "rows" in a and (len(a["rows"]) != nrep or a["index"] != list(range(nrep))):
                out.append(Failure(clause="rep_is_seeded_run", key="partial_study|Snowing.results|row-count",
                                   detail=f"results has {len(a['rows'])} rows for Nrep={nrep}"))
        return out
    for i, (op, a) in enumerate(zip(case["ops"], impl["out"])):
        if op[0] == "setNrep" or op[0] == "editOp":
            if op[0] == "setNrep":
                nrep = op[1]
            last_how = None          # the table is only defined again after the next run
            tables = []
            continue
        if op[0] == "run":
            last_how = op[1]
            if "raise" not in a and op[1] == "async" and nrep > 1:
                from collections import Counter

                def second(g):
                    st = _streams(g)
                    ok = len(st) == 2 and st[0][0] == 2024 and all(x[1] >= 1 for x in st) and isinstance(st[1][0], int)
                    return st[1][0] if ok else None

                got = Counter(second(g) for g in a["worker_tasks"])
                okall = got == Counter(range(nrep))
                if not okall:
                    odd = [g for g in a["worker_tasks"] if second(g) is None or got[second(g)] > 1
                           or not 0 <= second(g) < nrep][:2]
                    out.append(Failure(clause="rep_is_seeded_run", key="seeding|Snowing.run|async",
                                       detail=f"parallel run of Nrep={nrep}: the tasks do not seed the generator with "
                                              f"2024 and with their repetition number i (an int): {odd}"))
            if "raise" in a:
                out.append(Failure(clause="total", key=f"raises|Snowing.run|{last_how}|{a['raise']}",
                                   detail=f"run(how={last_how!r}) raises {a['raise']}"))
            continue
        if last_how is None or last_how not in ("sequential", "async"):
            continue
        hist = [(o[1] if o[0] == "run" else "edit-opcond-in-place" if o[0] == "editOp" else f"Nrep={o[1]}")
                for o in case["ops"][:i] if o[0] in ("run", "setNrep", "editOp")]
        resized = any(o[0] == "setNrep" for o in case["ops"][:i])
        cls = "first-run" if len(hist) == 1 else ("after-resize" if resized else "after-" + "-".join(hist[:-1]))
        ref = impl["refs"][str(a.get("prog", 0))] if "raise" not in a else ref
        if any(o[0] == "editOp" for o in case["ops"][:i]):
            cls = "after-in-place-edit"
        if "raise" in a:
            out.append(Failure(
                clause="rep_is_seeded_run", key=f"rep_is_seeded_run|Snowing.results|{last_how}|raises:{a['raise']}|{cls}",
                detail=f"Snowing(Nrep={nrep}) after run(how) for how in {hist}: results raises {a['raise']}"))
            continue
        if a["index"] != list(range(nrep)) or len(a["rows"]) != nrep or \
                any(r is not None and a["rows"][j] != r for j, r in enumerate(ref[:nrep])):
            bad = [j for j in range(min(len(a["rows"]), nrep)) if ref[j] is not None and a["rows"][j] != ref[j]]
            out.append(Failure(
                clause="rep_is_seeded_run" if nrep > 1 else "single_eq_rep0",
                key=f"rep_is_seeded_run|Snowing.results|{last_how}|differs|{cls}",
                detail=f"Snowing(Nrep={nrep}) after {hist}: index {a['index']}, rows {bad} differ bit-wise from "
                       f"the single runs _run_xD(seed=i)"))
        tables.append((hist, a))
    for (h1, t1), (h2, t2) in zip(tables, tables[1:]):
        if t1 != t2:
            clause = "repeat_same" if h1[-1] == h2[-1] else "modes_equal"
            out.append(Failure(clause=clause, key=f"{clause}|Snowing.results|{h1[-1]}-{h2[-1]}",
                               detail=f"tables after {h1} and after {h2} differ"))
    for i, ev in impl["ref_evs"]:
        if not _seeded_ok(ev, i):
            out.append(Failure(clause="rep_is_seeded_run", key="seeding|Snowing._run_xD|",
                               detail=f"_run_xD(seed={i}) uses the global generator as {ev}; expected kinetic draw from "
                                      f"seed 2024 and F_rand as the first draw after np.random.seed({i})"))
            break
    ref = impl["refs"][str(impl.get("used_prog", 0))]
    if impl["used"] != [r for r in ref if r is not None][:len(impl["used"])]:
        out.append(Failure(clause="rep_is_seeded_run", key="seeded_run_history_dependent|Snowing._run_xD|",
                           detail="_run_xD(seed=i) on the used object / with another global-generator state differs "
                                  "from the run on a fresh object"))
    return out


def classify(case, impl):
    hows = "+".join((o[1] if o[0] == "run" else "edit" if o[0] == "editOp" else f"Nrep={o[1]}")
                    for o in case["ops"] if o[0] in ("run", "setNrep", "editOp"))
    if case.get("partial"):
        hows += " [t_tot between the completion times: study must fail]"
    if case.get("tamper"):
        hows += " [config file rewritten / const adjusted after construction]"
    return [f"dim={case['dim']}" + (f"/{case['cfg']}" if case.get("cfg") else ""), f"nrep={case['nrep']}", f"cpu={case['cpu']}", f"prog={case['prog']}",
            f"hows={hows}"]


def nontrivial(case, impl):
    return not impl.get("raise") and any("rows" in o and len(o["rows"]) >= 1 for o in impl["out"])


# ---------------------------------------------------------------------------
def cases(rng, tier):
    quick = tier == "quick"
    R = ["results"]
    progs = ["B", "C", "D"]
    # a LARGE study crossing the special seed values (2021 = Snowflake's default seed, 2024 = the kinetic seed):
    # row i = the single run with seed i for the rows checked, one row per repetition, seeds 0..Nrep-1 each once
    yield dict(dim="homogeneous", nrep=2030, cpu=16, prog="C", ops=[["run", "async"], R],
               check_rows=[0, 1, 2021, 2023, 2024, 2025, 2029], gstate=11, gdraws=2)
    # partially failing studies: t_tot between the completion times of the repetitions
    for how, k in (("sequential", 3), ("async", 3), ("async", 6), ("sequential", 7)):
        yield dict(dim="homogeneous", nrep=8, cpu=rng.choice([2, 16]), prog="C", ops=[["run", how], R],
                   partial={"complete": k}, gstate=rng.randrange(1000), gdraws=2)
    # 2D model, parallel: row i = _run_2D(seed=i) on a fresh object (and = the sequential table in thorough)
    yield dict(dim="spatial_2D", cfg="wide", nrep=2, cpu=2, prog="W", ops=[["run", "async"], R], gstate=6, gdraws=1)
    if not quick:
        yield dict(dim="spatial_2D", cfg="wide", nrep=2, cpu=2, prog="W",
                   ops=[["run", "sequential"], R, ["run", "async"], R], gstate=6, gdraws=1)
    # 1D model with vacuum-induced surface freezing: repeating a run on one object gives the same numbers, a
    # single run equals repetition 0 (fresh-object reference runs), also after raising Nrep on the used object
    yield dict(dim="spatial_1D", cfg="visf", nrep=1, cpu=2, prog="V", ops=[["run", "async"], R, ["run", "async"], R],
               gstate=3, gdraws=2)
    yield dict(dim="spatial_1D", cfg="visf", nrep=1, cpu=2, prog="V",
               ops=[["run", "sequential"], R, ["setNrep", 2], ["run", "sequential"], R], gstate=4, gdraws=1)
    for nrep in (1, 2, 3, 7):
        for cpu in (1, 2, 16):
            for how in ("sequential", "async"):
                for prog in progs:
                    if quick and prog != "C" and (nrep, cpu) not in ((3, 2), (7, 16), (1, 1), (2, 1)):
                        continue
                    yield dict(dim="homogeneous", nrep=nrep, cpu=cpu, prog=prog, ops=[["run", how], R],
                               gstate=rng.randrange(1000), gdraws=rng.randrange(1, 5))
    # histories on one object
    hists = [["sequential", "sequential"], ["async", "async"], ["sequential", "async"], ["async", "sequential"],
             ["async", "sequential", "async"], ["bogus", "sequential"], ["sequential", "bogus"]]
    for nrep in (1, 2, 3, 7):
        for h in hists:
            ops = [["results"]]
            for how in h:
                ops += [["run", how], R]
            yield dict(dim="homogeneous", nrep=nrep, cpu=rng.choice([1, 2, 16]), prog=rng.choice(progs), ops=ops,
                       gstate=rng.randrange(1000), gdraws=rng.randrange(1, 5))
    # a larger study followed by a smaller one on the same object (and the reverse), both modes, both orders
    for n1, n2 in ((4, 2), (7, 3), (3, 1), (2, 5), (1, 3), (5, 2)):
        for h1 in ("sequential", "async"):
            for h2 in ("sequential", "async"):
                yield dict(dim="homogeneous", nrep=n1, cpu=rng.choice([1, 2, 16]), prog=rng.choice(progs),
                           ops=[["run", h1], R, ["setNrep", n2], ["run", h2], R], gstate=rng.randrange(1000),
                           gdraws=rng.randrange(1, 5))
    # the attached OperatingConditions object is edited IN PLACE between runs: later single runs, sequential and
    # parallel studies must all use the current programme
    EDITS = [{}, {"cooling": {"rate": 4 / 60}}, {"holding": [dict(duration=200, temp=-8)]},
             {"t_tot": 1800, "cooling": {"rate": 5 / 60, "end": -50}}]
    for nrep, h in ((1, ["async", "async"]), (3, ["sequential", "sequential"]), (3, ["sequential", "async"]),
                    (3, ["async", "sequential"]), (2, ["async", "async"]), (3, ["sequential", "sequential", "async"])):
        ops = [["run", h[0]], R]
        for j, how in enumerate(h[1:]):
            ops += [["editOp", rng.choice([1, 2, 3]) if j == 0 else 0], ["run", how], R]
        yield dict(dim="homogeneous", nrep=nrep, cpu=rng.choice([1, 2, 16]), prog="C", ops=ops, edits=EDITS,
                   gstate=rng.randrange(1000), gdraws=rng.randrange(1, 5))
    # the configuration file is rewritten / constants are adjusted AFTER construction: sequential and parallel rows
    # must both be the single runs on the object's OWN constants
    for tamper in ({"file": "kinetics:\n  b: 31.0\n"}, {"const": {"b": 30.5}},
                   {"file": "kinetics:\n  a: 27.5\n", "const": {"b": 30.0}}):
        for hows in (["async"], ["sequential", "async"], ["async", "sequential"]):
            ops = []
            for how in hows:
                ops += [["run", how], R]
            yield dict(dim="homogeneous", nrep=3, cpu=rng.choice([1, 2, 16]), prog=rng.choice(progs), ops=ops,
                       tamper=tamper, gstate=rng.randrange(1000), gdraws=rng.randrange(1, 5))
    # the program of the package's documentation (3 h process)
    for how in ("sequential", "async"):
        yield dict(dim="homogeneous", nrep=3, cpu=2, prog="A", ops=[["run", how], R], gstate=5, gdraws=2)
    if not quick:
        for nrep in (1, 2, 3):
            for how in ("sequential", "async"):
                yield dict(dim="spatial_1D", nrep=nrep, cpu=2, prog="C", ops=[["run", how], R], gstate=7, gdraws=1)
        yield dict(dim="spatial_1D", nrep=2, cpu=16, prog="C",
                   ops=[["run", "async"], R, ["run", "sequential"], R], gstate=7, gdraws=1)
        for _ in range(60):
            nrep = rng.choice([1, 2, 3, 5, 7, 11])
            ops = []
            for _ in range(rng.randint(1, 3)):
                ops += [["run", rng.choice(["sequential", "async"])], R]
            yield dict(dim="homogeneous", nrep=nrep, cpu=rng.choice([1, 2, 3, 16]), prog=rng.choice(progs + ["A"]),
                       ops=ops, gstate=rng.randrange(1000), gdraws=rng.randrange(1, 5))


def widen(rng, tier):
    return []
