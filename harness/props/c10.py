"""C10 Controlled nucleation fires once, at the end of the chosen hold.

Streams
  cnt    `OperatingConditions.cnt` and the trigger step `k_CN` for programs with 0-4 holds x trigger
         temperatures (on a hold / between holds / equal to end or start / above start / below end)
         x dt; compared with the Lean model (`cnt`, `kCN`; dyadic programs also with the model at Rat),
         and the three trigger-time clauses evaluated on the real profile.
  hist   object history: cnt (or a run), IN-PLACE edits of the program (hold duration, rate, end, cnTemp, t_tot,
         holding setter), cnt (a run) again - compared with a fresh object of the current program and with the
         (stateless) model.
  pair   PAIRED real Snowflake runs, with `cnTemp` and without it (same seeds), full recording, the
         generator's draws recorded: columns <= k_CN bit-identical, at k_CN every liquid supercooled
         vial nucleates, no nucleation without its die being below the rate-law probability at any
         other step; both runs are compared column by column with the Lean loop model run on the
         recorded dice.
"""
from __future__ import annotations

import copy
import math
import sys
from fractions import Fraction

import shim  # noqa: F401
import numpy as np

import core
import flakeutil as fu
from core import Failure, f2b, f2q, close
from props import c05

ID = "C10"
TITLE = "Controlled nucleation fires once, at the end of the chosen hold"
LEAN_MODULE = "SnowProofs.Props.C10"
_T = lambda n, c, s="full": dict(name="Snow.C10." + n, clause=c, strength=s)  # noqa: E731
THEOREMS = [
    _T("cnt_is_last", "trigger time = the greatest second with shelf temperature >= cnTemp; the shelf is >= cnTemp at every "
       "earlier second and below it afterwards"),
    _T("cnt_no_sample", "explicit other branch: cnTemp above the start temperature (no sample reaches it) or at/below the end "
       "temperature gives the LAST second of the process"),
    _T("cnt_end_of_hold", "cnt = M + floor((Ts'-cn)/rate) and |cnt - E| < (number of program segments passed), E = continuous "
       "end of the hold at cnTemp / ramp crossing"),
    _T("cnt_end_of_hold_exact", "hold case: E - |pre| < cnt < E + 2|pre| (within the number of program segments, in seconds)"),
    _T("cnt_end_of_hold_all", "for EVERY cnTemp with end < cnTemp <= start (well-formed program, durations >= 0) the split exists, "
       "so the end-of-hold / ramp-crossing estimate applies whenever the trigger lies within t_tot (hin explicit)"),
    _T("kCN_first_step", "k_CN = first step with k*dt >= cnt (= ceil(cnt/dt)), (k_CN-1)*dt < cnt; N+1 (never reached) if no step reaches cnt"),
    _T("kCN_none", "without cnTemp the trigger index is N+1"),
    _T("cn_prefix_identical", "runs with different trigger indices have the same state (all vials, all statistics, remaining "
       "dice stream) at the start of every step <= both indices - for every numeric instance, also Float"),
    _T("cn_prefix_identical_run", "the run with cnTemp and the same run without agree on every stored column <= k_CN"),
    _T("cn_all_eligible_fire", "at k = k_CN every vial with sigma = 0 and T < T_eq_l after the sensible update nucleates for "
       "every dice value in [0,1)"),
    _T("cn_only_then", "for k != k_CN the step is literally the stochastic step (isCN = false)"),
    _T("cn_only_then_law", "... in which a vial nucleates only if its draw is below k_v*V*(T_eq_l-T)^b*dt"),
    _T("cn_every_repetition", "packaging: composition of C04.snowfall_rep_standalone (every repetition of a Snowfall, any mode / "
       "chunking, has the draw schedule of the fresh standalone run) with the universally quantified C10 run theorems "
       "(prefix identity up to k_CN, forced only at k_CN - these two conjuncts hold for ANY inputs and do not use the "
       "repetition hypothesis); the map from the draw schedule to the dice of Flake.run is a PARAMETER (inputsOf), not modelled"),
    _T("nonvacuous", "every hypothesis set is instantiated: program with a 10 s hold at cnTemp (cnt = 30 = end of the hold, hin, range), a step reaching cnt, a run with a step, a state with a liquid supercooled vial and dice < 1",
       "nonvacuity"),
]
TRUSTED = [
    "Lean 4.33 kernel; axioms per theorem listed under coverage.axioms",
    "theorems are over the reals: IEEE rounding is not modelled (cn_prefix_identical holds for every instance)",
    "hand-written models SnowModel/OpCond.lean (cnt) and SnowModel/Flake.lean (k_CN, step, run) tied to "
    "operatingConditions.py / snowflake.py by this differential check (cnt, k_CN, paired runs on recorded dice)",
    "numpy argmax of a Boolean array (first True, 0 if none) and reversed-view indexing as transcribed",
    "the generator's draws are input of the model (recorded by a proxy installed in the harness process)",
]
ASSUMPTIONS = [
    "well-formed programs: rate > 0, end <= hold temperatures <= start, durations >= 0, t_tot >= 0, dt > 0",
    "the property quantifies over trigger temperatures between end and start; cnTemp above the start temperature makes the "
    "code return the LAST second (theorem cnt_no_sample) - reported in the distribution, not a violation",
    "'within one second per program segment': |cnt - E| < 2*(number of holds at or above cnTemp) + 1, E the continuous end "
    "of the hold / ramp crossing, whenever E lies within t_tot",
    "a trigger temperature within 1e-9 (relative) of a ramp sample is a TIE; hold temperatures are compared exactly",
]
RULE = ("programs from C05's structured and dyadic generators x six kinds of trigger temperature x dt in {0.5,1,2,3,5,7}; "
        "paired real runs (shapes up to 5x5, K_shelf 200-2000, dt 1-10 s, hold at or near cnTemp, <= 1500 steps) with and "
        "without cnTemp; non-trivial = trigger strictly inside the process / the trigger step is reached with a liquid vial")
EXPLANATION = ("Lean theorems over the reals (trigger time, trigger step, prefix identity, forced nucleation exactly at k_CN) "
               "+ differential check of cnt / k_CN / whole paired runs against the real code")
PARALLEL = True


# ---------------------------------------------------------------------------
# stream "cnt"
# ---------------------------------------------------------------------------
def _mk_opcond(case):
    from ethz_snow.operatingConditions import OperatingConditions

    cooling = {"rate": case["rate"], "start": case["start"], "end": case["stop"]}
    holds = case["holds"]
    holding = None if holds is None else [dict(temp=h[0], duration=h[1]) for h in holds]
    return OperatingConditions(t_tot=case["t_tot"], cooling=cooling, holding=holding, cnTemp=_typed_cn(case))


def _typed_cn(case):
    """cnTemp in the Python/numpy type the case asks for; case["cn"] always holds its exact numeric value"""
    v, t = case.get("cn"), case.get("cn_pytype")
    if v is None or not t:
        return v
    if t == "int":
        return int(v)
    if t == "npfloat64":
        return np.float64(v)
    if t == "npfloat32":
        return np.float32(v)  # case["cn"] was generated as float(np.float32(x)): exact
    if t == "array0d":
        return np.array(v)
    return float(v)


# ---------------------------------------------------------------------------
# the trigger step AS THE REAL run() COMPUTES IT: read from the frame of Snowflake.run at its first generator call
# (the run is aborted there).  A missing frame-local is a BROKEN OBSERVATION and is reported, never a pass.
# ---------------------------------------------------------------------------
class _Stop(Exception):
    pass


def _real_kcn(op, dt):
    import contextlib
    import io

    from ethz_snow.snowflake import Snowflake

    got = {}

    class _P:
        def __init__(self, real):
            self.real = real

        def random(self, n=None):
            f = sys._getframe(1)
            while f is not None and f.f_code.co_name != "run":
                f = f.f_back
            if f is not None:
                loc = f.f_locals
                if "k_CN" in loc:
                    got["k_CN"] = int(loc["k_CN"])
                if "N_timeSteps" in loc:
                    got["N"] = int(loc["N_timeSteps"])
            raise _Stop()

        def __getattr__(self, name):
            return getattr(self.real, name)

    orig = np.random.default_rng
    with contextlib.redirect_stdout(io.StringIO()):
        S = Snowflake(k={"int": 0, "ext": 0, "s0": 20}, N_vials=(1, 1, 1), dt=dt, opcond=op)
        np.random.default_rng = lambda *a, **kw: _P(orig(*a, **kw))
        S._rng = _P(S._rng)
        try:
            S.run()
        except _Stop:
            pass
        finally:
            np.random.default_rng = orig
    return got


def _impl_cnt(case):
    try:
        oc = _mk_opcond(case)
    except Exception as e:
        return {"raise": core.exc_class(e), "stage": "init"}
    try:
        cnt = oc.cnt
        T1 = oc.tempProfile(1)
        dt = case["dt"]
        N = int(np.ceil(case["t_tot"] / dt)) + 1
        t = np.arange(N) * dt
        # k_CN and N_timeSteps as the REAL Snowflake.run() computes them (read from its frame)
        got = _real_kcn(oc, dt)
        return {"raise": None, "cnt": (None if (isinstance(cnt, float) and math.isinf(cnt)) else int(cnt)),
                "cnt_is_int": bool(isinstance(cnt, (int, np.integer))), "len1": int(len(T1)),
                "T1": [float(x) for x in T1], "N": got.get("N", N), "N_harness": N, "kCN": got.get("k_CN"),
                "t_last": float(t[-1])}
    except Exception as e:
        return {"raise": core.exc_class(e), "stage": "cnt"}


def _req_prog(case, mode):
    enc = f2b if mode == "float" else f2q
    r = {"num": mode, "t_tot": enc(case["t_tot"]), "start": enc(case["start"]), "stop": enc(case["stop"]),
         "rate": enc(case["rate"]), "isList": True}
    if case["holds"] is not None:
        r["holds"] = [[enc(h[0]), enc(h[1])] for h in case["holds"]]
    return r


def _model_cnt(drv, case):
    out = {"raise": None}
    if case.get("cn") is not None:
        r = dict(_req_prog(case, "float"), op="cnt", cn=f2b(case["cn"]))
        a = drv.call(r)
        if "error" in a:
            raise RuntimeError(a["error"])
        if "raise" in a:
            return {"raise": a["raise"]}
        out["cnt"], out["len1"] = a["cnt"], a["len"]
        if case.get("exact"):
            r = dict(_req_prog(case, "rat"), op="cnt", cn=f2q(case["cn"]))
            b = drv.call(r)
            if "error" in b:
                raise RuntimeError(b["error"])
            out["cnt_rat"], out["len1_rat"] = b["cnt"], b["len"]
    else:
        out["cnt"] = None
    r = dict(_req_prog(case, "float"), op="kCN", dt=f2b(case["dt"]))
    if case.get("cn") is not None:
        r["cn"] = f2b(case["cn"])
    k = drv.call(r)
    if "error" in k:
        raise RuntimeError(k["error"])
    if "raise" in k:
        return {"raise": k["raise"]}
    out["N"], out["kCN"], out["cnt_k"] = k["N"], k["kCN"], k["cnt"]
    return out


def _tie(case, impl):
    cn = case.get("cn")
    if cn is None or not impl.get("T1"):
        return False
    m = min(abs(x - cn) for x in impl["T1"])
    return 0 < m <= 1e-9 * max(1.0, abs(cn))


def _compare_cnt(case, impl, model):
    dis = []
    if impl.get("raise") or model.get("raise"):
        if impl.get("raise") != model.get("raise"):
            dis.append(f"exception: impl {impl.get('raise')} ({impl.get('stage')}) vs model {model.get('raise')}")
        return dis
    pre = "TIE: " if _tie(case, impl) else ""
    if impl["cnt"] != model["cnt"]:
        dis.append(f"{pre}cnt: impl {impl['cnt']} vs model {model['cnt']}")
    if model.get("cnt_k") != model["cnt"]:
        dis.append(f"model ops disagree on cnt: {model.get('cnt_k')} vs {model['cnt']}")
    if case.get("cn") is not None and impl["len1"] != model["len1"]:
        dis.append(f"len(tempProfile(1)): impl {impl['len1']} vs model {model['len1']}")
    if impl["N"] != model["N"]:
        dis.append(f"N_timeSteps: impl {impl['N']} vs model {model['N']}")
    if impl["kCN"] is not None and impl["kCN"] != model["kCN"]:
        dis.append(f"{pre}k_CN: Snowflake.run {impl['kCN']} vs model {model['kCN']}")
    if "cnt_rat" in model:
        if impl["cnt"] != model["cnt_rat"] or impl["len1"] != model["len1_rat"]:
            dis.append(f"exact stream: cnt impl {impl['cnt']} (len {impl['len1']}) vs Rat model {model['cnt_rat']} "
                       f"(len {model['len1_rat']})")
    return dis


def _wf(case):
    if not (case["dt"] > 0 and case["rate"] > 0 and case["t_tot"] >= 0 and case["stop"] <= case["start"]):
        return False
    return all(case["stop"] <= h[0] <= case["start"] and h[1] >= 0 for h in (case["holds"] or []))


def _cont_end(case):
    """(E, nseg, kind): continuous time at which the program leaves cnTemp, the number of program segments passed,
    'hold' | 'ramp' | 'none' (cn at/below the end temperature)"""
    cn = case["cn"]
    holds = sorted(case["holds"] or [], key=lambda h: (h[0], h[1]), reverse=True) + [[case["stop"], math.inf]]
    t, T, npre = 0.0, case["start"], 0
    for th, d in holds:
        if th < cn:
            x = (T - cn) / case["rate"]
            return t + x, 2 * npre + 1, ("hold" if (x == 0 and npre > 0) else "ramp")
        t += (T - th) / case["rate"] + d
        T = th
        npre += 1
    return math.inf, 2 * npre + 1, "none"


def _pred_cnt(case, impl):
    out = []
    if not _wf(case):
        return out
    if case.get("cn") is None:
        return out if impl.get("raise") else _pred_kcn(case, impl)
    site = "OperatingConditions.cnt"
    if impl.get("raise"):
        out.append(Failure(clause="total", key=f"raises|{site}|{impl['raise']}",
                           detail=f"well-formed program raises {impl['raise']} in {impl.get('stage')}"))
        return out
    cn, T1, cnt = case["cn"], impl["T1"], impl["cnt"]
    tie = _tie(case, impl)
    idx = [j for j, x in enumerate(T1) if x >= cn]
    want = max(idx) if idx else len(T1) - 1
    if cnt != want and not tie:
        out.append(Failure(clause="cnt_is_last", key=f"cnt_is_last|{site}|",
                           detail=f"cnt={cnt} but the last second with T >= {cn} is {want}"))
    if idx and case["stop"] <= cn <= case["start"] and not tie:
        # (a ramp that ends one ulp below the hold temperature it runs into is rounding, not a dip: rtol 1e-9)
        if any(T1[j] < cn - 1e-9 * max(1.0, abs(cn)) for j in range(cnt + 1)):
            out.append(Failure(clause="cnt_is_last", key=f"cnt_is_last|{site}|below-before",
                               detail="the shelf is below cnTemp at a second before cnt"))
    if case["stop"] <= cn <= case["start"]:
        E, nseg, kind = _cont_end(case)
        if kind != "none" and E + nseg + 1 < case["t_tot"] and not tie:
            if not abs(cnt - E) < nseg + 1e-6 * max(1.0, E):
                out.append(Failure(clause="cnt_end_of_hold", key=f"cnt_end_of_hold|{site}|{kind}",
                                   detail=f"cnt={cnt} but the program leaves {cn} at t={E} ({kind}; {nseg} program segments)"))
    out += _pred_kcn(case, impl)
    return out


def _pred_kcn(case, impl):
    """the trigger step of the REAL run() (frame-local k_CN) against the property: first step at or after cnt"""
    out = []
    dt, N, k, cnt = case["dt"], impl["N"], impl["kCN"], impl["cnt"]
    if k is None:
        out.append(Failure(clause="kCN_first_step", key="observation|Snowflake.run|k_CN-not-observable",
                           detail="the frame of Snowflake.run() exposes no local `k_CN` at its first generator call: the "
                                  "trigger step of the real run cannot be observed (broken observation, not a pass)"))
        return out
    if N != impl.get("N_harness", N):
        out.append(Failure(clause="kCN_first_step", key="kCN_first_step|Snowflake.run|N_timeSteps",
                           detail=f"N_timeSteps of the run {N} vs ceil(t_tot/dt)+1 = {impl.get('N_harness')}"))
    if cnt is None:
        ok = k >= N  # never reached
    elif any(j * dt >= cnt for j in range(N)):
        ok = k < N and k * dt >= cnt and (k == 0 or (k - 1) * dt < cnt)
    else:
        ok = k >= N
    if not ok:
        out.append(Failure(clause="kCN_first_step", key="kCN_first_step|Snowflake.run|",
                           detail=f"k_CN={k} for cnt={cnt}, dt={dt}, N={N}"))
    return out


# ---------------------------------------------------------------------------
# stream "pair"
# ---------------------------------------------------------------------------
_STASH = {}


def _no_cn(case):
    c = copy.deepcopy(case)
    c["opcond"]["cnTemp"] = None
    return c


def _typed(case):
    """the case with cnTemp in the Python type the case asks for (int 0 / float 0.0 / -0.0 / numpy float64)"""
    t = case.get("cn_type")
    if not t:
        return case
    c = copy.deepcopy(case)
    v = c["opcond"]["cnTemp"]
    c["opcond"]["cnTemp"] = int(v) if t == "int" else np.float64(v) if t == "npfloat" else float(v)
    return c


_REC = {"kcn": [], "forced": [], "nok": 0}
_BaseProxy = fu.Proxy


class _RecProxy(_BaseProxy):
    """flakeutil's recording proxy + what the frame of Snowflake.run() shows at every generator call:
    its local `k_CN`, and whether P of every candidate is exactly 1 (the forced step)."""

    def random(self, n=None):
        f = sys._getframe(1)
        while f is not None and f.f_code.co_name != "run":
            f = f.f_back
        loc = f.f_locals if f is not None else {}
        # flakeutil.Proxy._ctx reads the caller's frame two levels up - which is now THIS frame: hand the locals on
        if "k" in loc:
            k = loc["k"]
        else:
            _REC["nok"] += 1
        if "P" in loc:
            P = loc["P"]
        if "nucleationCandidatesMask" in loc:
            nucleationCandidatesMask = loc["nucleationCandidatesMask"]
        _REC["kcn"].append(int(loc["k_CN"]) if "k_CN" in loc else None)
        if "P" in loc and "nucleationCandidatesMask" in loc and "k" in loc:
            m = np.asarray(loc["nucleationCandidatesMask"], dtype=bool)
            if m.any() and bool(np.all(np.asarray(loc["P"])[m] == 1.0)):
                _REC["forced"].append(int(loc["k"]))
        return _BaseProxy.random(self, n)


def _run_rec(case):
    _REC["kcn"], _REC["forced"], _REC["nok"] = [], [], 0
    orig = fu.Proxy
    fu.Proxy = _RecProxy
    try:
        a = fu.run_real(case)
    finally:
        fu.Proxy = orig
    seen = [x for x in _REC["kcn"] if x is not None]
    a["kCN_real"] = seen[0] if seen and len(seen) == len(_REC["kcn"]) and len(set(seen)) == 1 else None
    a["forced_steps"] = sorted(set(_REC["forced"]))
    a["calls_without_k"] = _REC["nok"]
    return a


def _impl_pair(case):
    try:
        a = _run_rec(_typed(case))
        b = _run_rec(_no_cn(case))
    except Exception as e:
        return {"raise": core.exc_class(e), "stage": "run", "msg": str(e)[:200]}
    t = np.asarray(a["t"])
    cnt = a["cnt"]
    N = a["N"]
    # what the property demands (first step at or after cnt) - the observation is a["kCN_real"]
    a["kCN_want"] = int(np.argmax(t >= cnt)) if (cnt is not None and np.any(t >= cnt)) else N + 1
    a["kCN_obs"] = a["kCN_real"] if a["kCN_real"] is not None else a["kCN_want"]
    return {"raise": None, "cn": a, "no": b}


def _mid(impl, k):
    """temperature of every vial after the sensible (liquid) update of step k, from column k"""
    T = np.asarray(impl["XT"][k], dtype=float)
    Tsh = impl["Tshelf"][k]
    A = impl["A"]
    n = len(T)
    q = np.zeros(n)
    for i in range(n):
        s = 0.0
        for j in impl["nbrs"][i]:
            s += impl["kInt"] * A * (T[j] - T[i])
        s += impl["ext"][i] * impl["kExt"] * A * (Tsh - T[i]) + impl["Hshelf"][i] * (Tsh - T[i])
        q[i] = s
    return T + q / impl["consts"]["hl"] * impl["dt"]


def _pred_pair(case, impl):
    out = []
    if impl.get("raise"):
        out.append(Failure(clause="total", key=f"raises|Snowflake.run|{impl['raise']}",
                           detail=f"valid configuration raises {impl['raise']}: {impl.get('msg')}"))
        return out
    a, b = impl["cn"], impl["no"]
    N, k_cn, dt = a["N"], a["kCN_obs"], a["dt"]
    site = "Snowflake.run"
    # (0) the trigger step is OBSERVED in the real run: frame-local k_CN and the step(s) at which P == 1 for every candidate
    for tag, r in (("with", a), ("without", b)):
        if r["kCN_real"] is None or r["calls_without_k"]:
            out.append(Failure(clause="kCN_first_step", key=f"observation|{site}|frame-locals-missing",
                               detail=f"run {tag} cnTemp: the frame of Snowflake.run() does not expose `k_CN` / `k` at every "
                                      f"generator call ({r['calls_without_k']} calls without k): broken observation, not a pass"))
    if a["kCN_real"] is not None:
        kr, kw = a["kCN_real"], a["kCN_want"]
        if (kr if kr < N else N + 1) != (kw if kw < N else N + 1):
            out.append(Failure(clause="kCN_first_step", key=f"kCN_first_step|{site}|",
                               detail=f"the run uses k_CN={kr} but the first step at or after cnt={a['cnt']} is {kw} (dt={dt}, N={N})"))
        bad = [k for k in a["forced_steps"] if k != kr]
        if bad:
            out.append(Failure(clause="cn_only_then", key=f"cn_only_then|{site}|P-forced-elsewhere",
                               detail=f"every candidate has P == 1 at steps {bad[:5]} although k_CN={kr}"))
    if b["kCN_real"] is not None and b["kCN_real"] < N:
        out.append(Failure(clause="kCN_first_step", key=f"kCN_first_step|{site}|without-cnTemp",
                           detail=f"run without cnTemp has k_CN={b['kCN_real']} < N={N}"))
    if b["forced_steps"]:
        out.append(Failure(clause="cn_only_then", key=f"cn_only_then|{site}|P-forced-without-cnTemp",
                           detail=f"run without cnTemp: P == 1 for every candidate at steps {b['forced_steps'][:5]}"))
    # (1) identical up to the trigger step
    last = min(k_cn, N - 1)
    for k in range(last + 1):
        if a["XT"][k] != b["XT"][k] or a["Xsigma"][k] != b["Xsigma"][k]:
            out.append(Failure(clause="cn_prefix_identical", key=f"cn_prefix_identical|{site}|column",
                               detail=f"column {k} <= k_CN={k_cn} differs between the run with and without cnTemp"))
            break
    ca = [c for c in a["calls"] if c[0] is not None and c[0] < k_cn]
    cb = [c for c in b["calls"] if c[0] is not None and c[0] < k_cn]
    if ca != cb:
        out.append(Failure(clause="cn_prefix_identical", key=f"cn_prefix_identical|{site}|dice",
                           detail=f"the generator calls before step k_CN={k_cn} differ"))
    if k_cn >= N:
        for name in ("tNuc", "TNuc", "tSol"):
            x, y = a[name], b[name]
            if any((math.isnan(p) != math.isnan(q)) or (not math.isnan(p) and p != q) for p, q in zip(x, y)):
                out.append(Failure(clause="cn_only_then", key=f"cn_only_then|{site}|never-triggered",
                                   detail=f"trigger step outside the process but stats {name} differ"))
    # (2) at the trigger step every liquid supercooled vial nucleates; (3) nowhere else without its die
    TeqL = a["consts"]["T_eq_l"]
    calls = {c[0]: c[1] for c in a["calls"] if c[0] is not None}
    have_k = len(calls) == len(a["calls"])
    if not have_k:
        out.append(Failure(clause="cn_only_then", key=f"observation|{site}|step-index-missing",
                           detail="generator calls without an observable step index: 'no vial forced at another step' "
                                  "cannot be evaluated (broken observation, not a pass)"))
    tn = a["tNuc"]
    nuc_step = [None if math.isnan(x) else int(round(x / dt)) - 1 for x in tn]
    steps = sorted(set(s for s in nuc_step if s is not None) | ({k_cn} if k_cn < N else set()))
    for k in steps:
        mid = _mid(a, k)
        sig = a["Xsigma"][k]
        liquid = [s == 0 for s in sig]
        margin = [abs(mid[i] - TeqL) for i in range(len(sig))]
        cand = [liquid[i] and mid[i] < TeqL for i in range(len(sig))]
        if k == k_cn:
            for i in range(len(sig)):
                if margin[i] < 1e-9:
                    continue
                if cand[i] and nuc_step[i] != k:
                    out.append(Failure(clause="cn_all_eligible_fire", key=f"cn_all_eligible_fire|{site}|",
                                       detail=f"vial {i} is liquid and supercooled ({mid[i]:.4f} < {TeqL}) at the trigger "
                                              f"step {k} but t_nucleation={tn[i]}"))
                    break
                if not liquid[i] and nuc_step[i] == k:
                    out.append(Failure(clause="cn_all_eligible_fire", key=f"cn_all_eligible_fire|{site}|already-frozen",
                                       detail=f"vial {i} already contains ice at the trigger step {k} but its t_nucleation "
                                              f"is rewritten to {tn[i]}"))
                    break
                if liquid[i] and not cand[i] and nuc_step[i] == k:
                    out.append(Failure(clause="cn_all_eligible_fire", key=f"cn_all_eligible_fire|{site}|not-supercooled",
                                       detail=f"vial {i} is not supercooled at the trigger step but nucleates"))
                    break
        elif have_k and k in calls:
            dice = iter(calls[k])
            for i in range(len(sig)):
                if not cand[i]:
                    continue
                die = next(dice, None)
                if die is None:
                    break
                if nuc_step[i] == k and margin[i] >= 1e-9:
                    P = a["kb"][i] * a["consts"]["V"] * (TeqL - mid[i]) ** a["consts"]["b"] * dt
                    if not die < P * (1 + 1e-9):
                        out.append(Failure(clause="cn_only_then", key=f"cn_only_then|{site}|forced",
                                           detail=f"vial {i} nucleates at step {k} != k_CN={k_cn} with die {die} >= P {P}"))
                        break
    return out


# ---------------------------------------------------------------------------
# stream "hist": object history - look cnt up (or run), edit the program IN PLACE, look it up (run) again.
# The model is stateless: the trigger time is a function of the CURRENT program only.
# ---------------------------------------------------------------------------
def _apply_edits(op, edits):
    for e in edits:
        what, val = e[0], e[1]
        if what == "hold_duration":
            op.holding[e[2]]["duration"] = val
        elif what == "rate":
            op.cooling["rate"] = val
        elif what == "end":
            op.cooling["end"] = val
        elif what == "cnTemp":
            op.cnTemp = val
        elif what == "t_tot":
            op.t_tot = val
        elif what == "holding_setter":
            op.holding = [dict(temp=h["temp"], duration=val) for h in op.holding]


def _current_program(op):
    return dict(t_tot=float(op.t_tot), start=float(op.cooling["start"]), stop=float(op.cooling["end"]),
                rate=float(op.cooling["rate"]),
                holds=(None if op.holding is None else [[float(h["temp"]), float(h["duration"])] for h in op.holding]),
                cn=(None if op.cnTemp is None else float(op.cnTemp)))


def _impl_hist(case):
    import contextlib
    import io
    import warnings

    from ethz_snow.operatingConditions import OperatingConditions
    from ethz_snow.snowflake import Snowflake

    def fin(x):
        return None if (isinstance(x, float) and math.isinf(x)) else int(x)

    with contextlib.redirect_stdout(io.StringIO()), warnings.catch_warnings():
        warnings.simplefilter("ignore")
        try:
            op = _mk_opcond(case)
            obs = {"raise": None}
            S = None
            if case.get("with_run"):
                S = Snowflake(k=dict(case["k"]), N_vials=tuple(case["shape"]), dt=case["dt"], opcond=op,
                              seed=case["seed"], seed_v=case["seed_v"])
                S.run()
            obs["cnt_before"] = fin(op.cnt)
            _apply_edits(op, case["edits"])
            obs["cnt_after"] = fin(op.cnt)
            cur = _current_program(op)
            obs["program"] = cur
            fresh = OperatingConditions(t_tot=cur["t_tot"], cooling=dict(rate=cur["rate"], start=cur["start"], end=cur["stop"]),
                                        holding=(None if cur["holds"] is None else
                                                 [dict(temp=h[0], duration=h[1]) for h in cur["holds"]]),
                                        cnTemp=cur["cn"])
            obs["cnt_fresh"] = fin(fresh.cnt)
            if S is not None:
                S.run()
                S2 = Snowflake(k=dict(case["k"]), N_vials=tuple(case["shape"]), dt=case["dt"], opcond=fresh,
                               seed=case["seed"], seed_v=case["seed_v"])
                S2.run()
                a = [None if math.isnan(x) else float(x) for x in S.stats["t_nucleation"]]
                b = [None if math.isnan(x) else float(x) for x in S2.stats["t_nucleation"]]
                obs["tnuc_rerun"], obs["tnuc_fresh"] = a, b
            return obs
        except Exception as e:
            return {"raise": core.exc_class(e), "stage": "hist", "msg": str(e)[:200]}


def _model_hist(drv, case, impl):
    if impl.get("raise"):
        return {"raise": impl["raise"]}
    cur = dict(impl["program"], isList=True)
    if cur["cn"] is None:
        return {"raise": None, "cnt": None}
    r = dict(_req_prog(cur, "float"), op="cnt", cn=f2b(cur["cn"]))
    a = drv.call(r)
    if "error" in a:
        raise RuntimeError(a["error"])
    if "raise" in a:
        return {"raise": a["raise"]}
    return {"raise": None, "cnt": a["cnt"]}


def _compare_hist(case, impl, model):
    if impl.get("raise") or model.get("raise"):
        return [] if impl.get("raise") == model.get("raise") else [f"exception: impl {impl.get('raise')} vs model {model.get('raise')}"]
    dis = []
    if impl["cnt_after"] != model["cnt"]:
        dis.append(f"cnt after in-place edits {case['edits']}: object {impl['cnt_after']} vs model of the current program {model['cnt']}")
    return dis


def _pred_hist(case, impl):
    out = []
    if impl.get("raise"):
        # every generated history is a sequence of valid programs: an exception is a failure (decided here; the
        # model side only echoes it)
        out.append(Failure(clause="total", key=f"raises|history|{impl['raise']}",
                           detail=f"valid object history {case['edits']} raises {impl['raise']}: {impl.get('msg')}"))
        return out
    kinds = "+".join(sorted(set(e[0] for e in case["edits"])))
    if impl["cnt_after"] != impl["cnt_fresh"]:
        out.append(Failure(clause="cnt_is_last", key=f"cnt_is_last|OperatingConditions.cnt|stale-after-{kinds}",
                           detail=f"after the in-place edits {case['edits']} the object reports cnt={impl['cnt_after']} but a "
                                  f"fresh OperatingConditions of the same program gives {impl['cnt_fresh']} "
                                  f"(before the edits: {impl['cnt_before']})"))
    if "tnuc_rerun" in impl and impl["tnuc_rerun"] != impl["tnuc_fresh"]:
        out.append(Failure(clause="cn_all_eligible_fire", key=f"cn_all_eligible_fire|Snowflake.run|rerun-after-{kinds}",
                           detail=f"re-running the Snowflake after the in-place edits {case['edits']} gives t_nucleation "
                                  f"{impl['tnuc_rerun'][:4]}… but a fresh object of the same program gives {impl['tnuc_fresh'][:4]}…"))
    return out


def _hist(rng, with_run=False):
    start = rng.choice([20, 5, 0])
    stop = rng.choice([-50, -40, -30])
    rate = rng.choice([0.1, 0.2, 0.5, 1.0])
    temps = rng.sample([-3, -5, -8, -10, -12, -15], rng.choice([1, 1, 2, 3]))
    holds = [[T, rng.choice([30, 60, 120, 300, 900])] for T in temps]
    cn = rng.choice(temps + [rng.choice(temps) - 1.5])
    ramp = (start - stop) / rate + sum(h[1] for h in holds)
    t_tot = ramp + rng.choice([100, 500, 2000])
    edits = []
    for _ in range(rng.choice([1, 1, 2])):
        w = rng.choice(["hold_duration", "hold_duration", "rate", "end", "cnTemp", "t_tot", "holding_setter"])
        if w == "hold_duration":
            edits.append([w, rng.choice([0, 45, 200, 1500]), rng.randrange(len(holds))])
        elif w == "rate":
            edits.append([w, rng.choice([0.05, 0.25, 2.0])])
        elif w == "end":
            edits.append([w, rng.choice([-20, -35, -60])])
        elif w == "cnTemp":
            edits.append([w, rng.choice(temps + [None, -6.5])])
        elif w == "t_tot":
            edits.append([w, max(30.0, t_tot + rng.choice([-200, 300]))])
        else:
            edits.append([w, rng.choice([10, 600])])
    case = dict(kind="hist", t_tot=t_tot, start=start, stop=stop, rate=rate, holds=holds, cn=cn, dt=rng.choice([1, 2, 5]),
                edits=edits, with_run=with_run)
    if with_run:
        K = rng.choice([500, 1000])
        case.update(shape=[2, 2, 1], k={"int": 20, "ext": 20, "s0": K}, dt=rng.choice([2, 5]), seed=rng.randint(0, 10 ** 6),
                    seed_v=rng.randint(0, 10 ** 6))
        case["t_tot"] = min(case["t_tot"], 1200 * case["dt"])
    return case


# ---------------------------------------------------------------------------
# dispatch
# ---------------------------------------------------------------------------
def run_impl(case):
    if case["kind"] == "pair":
        return _impl_pair(case)
    if case["kind"] == "hist":
        return _impl_hist(case)
    return _impl_cnt(case)


def _key(case):
    return id(case)


def run_model(drv, case):
    if case["kind"] == "cnt":
        return _model_cnt(drv, case)
    impl = _STASH.pop(_key(case), None)
    if impl is None:
        impl = run_impl(case)
    if case["kind"] == "hist":
        return _model_hist(drv, case, impl)
    if impl.get("raise"):
        return {"raise": impl["raise"]}
    return {"raise": None, "cn": fu.run_model(drv, case, impl["cn"]),
            "no": fu.run_model(drv, _no_cn(case), impl["no"])}


def compare(case, impl, model):
    if case["kind"] == "hist":
        return _compare_hist(case, impl, model)
    if case["kind"] != "pair":
        return _compare_cnt(case, impl, model)
    if impl.get("raise") or model.get("raise"):
        return [] if impl.get("raise") == model.get("raise") else [f"exception: impl {impl.get('raise')} vs model {model.get('raise')}"]
    dis = [("with cnTemp: " + d if not d.startswith("TIE:") else d) for d in fu.compare_run(case, impl["cn"], model["cn"])]
    dis += [("without cnTemp: " + d if not d.startswith("TIE:") else d)
            for d in fu.compare_run(_no_cn(case), impl["no"], model["no"])]
    N = impl["cn"]["N"]
    ko, km = impl["cn"]["kCN_obs"], model["cn"]["kCN"]
    if (ko if ko < N else N + 1) != (km if km < N else N + 1):
        dis.append(f"k_CN: code {ko} vs model {km}")
    return dis


def predicates(case, impl):
    if case["kind"] in ("pair", "hist"):
        _STASH.clear()
        _STASH[_key(case)] = impl
        return _pred_pair(case, impl) if case["kind"] == "pair" else _pred_hist(case, impl)
    return _pred_cnt(case, impl)


def classify(case, impl):
    tags = [f"kind={case['kind']}"]
    if impl.get("raise"):
        return tags + [f"raise={impl['raise']}"]
    if case["kind"] == "hist":
        tags += ["edit=" + e[0] for e in case["edits"]] + (["with-run"] if case.get("with_run") else [])
        tags.append("cnt-moved" if impl["cnt_before"] != impl["cnt_fresh"] else "cnt-unchanged")
        return tags
    if case["kind"] == "pair":
        a = impl["cn"]
        N, k = a["N"], a["kCN_obs"]
        tags.append("unstable-stream" if case.get("unstable") else "stable-stream")
        if case.get("config"):
            tags.append("kinetics-off(a=400)")
        if case.get("cn_type"):
            tags.append("cnTemp=0 as " + case["cn_type"])
        tags.append("trigger=" + ("never" if k >= N else "last-step" if k == N - 1 else "inside"))
        if k < N:
            sig = a["Xsigma"][k]
            nl = sum(1 for s in sig if s == 0)
            tags.append("liquid-at-trigger=" + ("all" if nl == len(sig) else "none" if nl == 0 else "some"))
            nfire = sum(1 for x in a["tNuc"] if not math.isnan(x) and int(round(x / a["dt"])) - 1 == k)
            tags.append("fired=" + ("all-liquid" if nfire == nl else "none" if nfire == 0 else "some-not-supercooled"))
        return tags
    tags.append(f"cnkind={case.get('cnkind')}")
    if case.get("cn_pytype"):
        tags.append("cnTemp type=" + case["cn_pytype"])
    tags.append(f"holds={len(case['holds'] or [])}")
    if case.get("exact"):
        tags.append("exact")
    if impl["kCN"] == impl["N"] + 1:
        tags.append("kCN=N+1")
    if _tie(case, impl):
        tags.append("tie")
    return tags


def nontrivial(case, impl):
    if impl.get("raise"):
        return False
    if case["kind"] == "hist":
        return impl["cnt_before"] != impl["cnt_fresh"]
    if case["kind"] == "pair":
        a = impl["cn"]
        return a["kCN_obs"] < a["N"] and any(s == 0 for s in a["Xsigma"][a["kCN_obs"]])
    return impl["cnt"] is not None and 0 < impl["cnt"] < impl["len1"] - 1


# ---------------------------------------------------------------------------
# generators
# ---------------------------------------------------------------------------
def _with_cn(rng, prog, exact=False):
    c = dict(prog)
    c.pop("flake", None)
    c["isList"] = True
    if c["holds"] is not None and len(c["holds"]) == 0:
        c["holds"] = None
    start, stop = c["start"], c["stop"]
    holds = c["holds"] or []
    kinds = ["between", "end", "start", "above", "below", "none"] + (["hold"] * 6 if holds else ["between"] * 3)
    kind = rng.choice(kinds)
    if kind == "hold":
        cn = rng.choice(holds)[0]
    elif kind == "between":
        cn = start - (start - stop) * (rng.choice([0.25, 0.5, 0.75, 0.125]) if exact else rng.random())
        if exact:
            cn = float(Fraction(cn).limit_denominator(8))
    elif kind == "end":
        cn = stop
    elif kind == "start":
        cn = start
    elif kind == "above":
        cn = start + rng.choice([0.5, 1, 10])
    elif kind == "below":
        cn = stop - rng.choice([0.5, 1, 10])
    else:
        cn = None
    c["cn"] = cn
    c["cnkind"] = kind
    c["dt"] = rng.choice([0.5, 1, 2, 4] if exact else [0.5, 1, 2, 3, 5, 7])
    c["kind"] = "cnt"
    return c


DECIMALS = [-4.3, -4.4, -5.3, -5.8, -10.1, -42.7, -0.1, -7.7, -12.9, -3.3, -9.6, -20.2, -5.0, -8.0]


def _decimal(rng):
    """hold temperatures with ONE decimal that are not binary fractions, cnTemp EQUAL to one of them, passed as
    Python float / int / numpy float64 / numpy float32 / 0-d array (sweeps built with np.linspace / np.arange)"""
    start, stop = rng.choice([20, 5, 0.5]), rng.choice([-50, -45.5])
    temps = rng.sample(DECIMALS, rng.choice([1, 1, 2, 3]))
    holds = [[T, rng.choice([30, 60, 120, 600, 900])] for T in temps]
    rate = rng.choice([0.1, 0.25, 0.5, 1.0, 0.3])
    cn = rng.choice(temps)
    typ = rng.choice(["float", "npfloat64", "npfloat64", "npfloat32", "array0d"] + (["int"] if float(cn).is_integer() else []))
    if typ == "npfloat32":
        cn = float(np.float32(cn))
    ramp = (start - stop) / rate + sum(h[1] for h in holds)
    t_tot = rng.choice([ramp + 200, ramp * 0.7, ramp + 1000.5])
    return dict(kind="cnt", cnkind="hold-decimal", cn_pytype=typ, t_tot=t_tot, start=start, stop=stop, rate=rate,
                holds=holds, isList=True, cn=cn, dt=rng.choice([0.5, 1, 2, 3, 5, 7]))


def _longprog(rng):
    """a very long programme (t_tot > 1e5 s, storage freezing over days) with hold / ramp durations that are not
    multiples of a few seconds: the trigger time must still be found on the 1 s grid"""
    t_tot = rng.choice([2.4e5, 3.1e5])
    holds = [[0, rng.choice([1805, 1811])], [-5.5, rng.choice([7207, 7213])]]
    return dict(kind="cnt", cnkind="hold-long", t_tot=t_tot, start=20, stop=-40, rate=rng.choice([0.001, 0.0007]),
                holds=holds, isList=True, cn=rng.choice([0, -5.5]), dt=rng.choice([20, 7]))


def _pair(rng, big=False):
    shape = rng.choice([[1, 1, 1], [2, 2, 1], [3, 3, 1], [3, 3, 1], [4, 3, 1], [5, 5, 1]] + ([[7, 7, 1]] if big else []))
    K = rng.choice([200, 500, 1000, 2000])
    k = {"int": rng.choice([0, K / 10, 20]), "ext": rng.choice([0, K / 10, 20]), "s0": K}
    if rng.random() < 0.5:
        k["s_sigma_rel"] = rng.choice([0, 0.1])
    dt = rng.choice([1, 2, 5, 10])
    from props.c12 import stable_dt_limit

    lim = stable_dt_limit(k, shape)
    unstable = False
    if dt > lim:
        if rng.random() < 0.25:
            unstable = True  # small tagged stream outside the stable range of the explicit scheme
        else:
            ok = [d for d in [10, 5, 2, 1, 0.5] if d <= lim]
            dt = ok[0] if ok else 0.5
    rate = rng.choice([0.1, 0.2, 0.5, 1.0])
    start = rng.choice([20, 5, 0])
    stop = rng.choice([-50, -40, -30])
    hold_T = rng.choice([-3, -5, -8, -10, -12, -13, -14, -15])
    hold_d = rng.choice([0, 30, 60, 120, 300, 600, 900, 7.5 * dt])
    holds = [[hold_T, hold_d]]
    if rng.random() < 0.3:
        holds.append([rng.choice([0, -1, -20]), rng.choice([10, 60])])
    holds = [h for h in holds if stop <= h[0] <= start]
    u = rng.random()
    cn = hold_T if u < 0.6 else hold_T - rng.choice([0.5, 2]) if u < 0.8 else rng.choice([stop, start, -0.5, start + 1])
    ramp = (start - stop) / rate + sum(h[1] for h in holds)
    t_trig = (start - cn) / rate + sum(h[1] for h in holds if h[0] >= cn)
    t_tot = rng.choice([ramp + 300 * 1000 / K, t_trig + 20 * dt, t_trig + 200, max(dt, t_trig - 3 * dt), t_trig + dt])
    if rng.random() < 0.15:
        # boundary: the batch STARTS supercooled and cnTemp equals the start temperature (cnt = 0, k_CN = 0),
        # or equals the end temperature (trigger at the end of the process)
        start = rng.choice([-1, -3, -5])
        holds = [h for h in holds if stop <= h[0] < start]
        cn = start if rng.random() < 0.7 else stop
        t_tot = rng.choice([50 * dt, 200 * dt, (start - stop) / rate + 100])
    T0 = None
    cn_type = None
    if rng.random() < 0.12:
        # trigger temperature exactly ZERO (as int 0, 0.0, -0.0, numpy float64) with pre-cooled vials that are
        # still supercooled when the hold at 0 degC ends
        K = rng.choice([100, 200])
        k = {"int": rng.choice([0, 10]), "ext": rng.choice([0, 10]), "s0": K}
        start, stop, rate = 5, -40, rng.choice([0.5, 1.0])
        holds = [[0, rng.choice([30, 60, 120])]]
        cn, cn_type = rng.choice([(0, "int"), (0.0, "float"), (-0.0, "float"), (0.0, "npfloat")])
        T0 = rng.choice([-3, -5, -8])
        dt = rng.choice([1, 2, 5])
        unstable = False
        t_tot = (start - 0) / rate + holds[0][1] + rng.choice([20 * dt, 300])
    t_tot = max(dt, min(t_tot, 1500 * dt))
    extra = {} if T0 is None else {"T0": T0, "cn_type": cn_type}
    if rng.random() < 0.12:
        # kinetics with spontaneous nucleation switched off (kb = 10**-400 == 0.0): only the trigger nucleates
        extra["config"] = {"kinetics": {"a": 400}}
    return dict(extra, kind="pair", unstable=unstable, N_vials=shape, k=k, dt=dt, threshold=0.9, seed=rng.randint(0, 10 ** 6),
                seed_v=rng.randint(0, 10 ** 6), initIce=rng.choice(["indirect", "direct"]),
                opcond=dict(t_tot=t_tot, start=start, stop=stop, rate=rate, holds=holds or None, cnTemp=cn))


def cases(rng, tier):
    n_s, n_e, n_p = (1400, 600, 160) if tier == "quick" else (30000, 10000, 600)
    for _ in range(n_s):
        yield _with_cn(rng, c05._structured(rng, small=True))
    for _ in range(n_e):
        yield _with_cn(rng, c05._exact(rng), exact=True)
    for _ in range(n_p):
        yield _pair(rng, big=(tier != "quick"))
    for _ in range(1 if tier == "quick" else 4):
        yield _longprog(rng)
    for _ in range(300 if tier == "quick" else 6000):
        yield _decimal(rng)
    n_h, n_hr = (150, 16) if tier == "quick" else (3000, 200)
    for _ in range(n_h):
        yield _hist(rng)
    for _ in range(n_hr):
        yield _hist(rng, with_run=True)


def widen(rng, tier):
    for _ in range(2000 if tier == "quick" else 20000):
        yield _with_cn(rng, c05._structured(rng, small=True))
    for _ in range(40 if tier == "quick" else 400):
        yield _pair(rng)


# --- regeneration tie (harness/gentie.py): the formulas of the hand model SnowModel/OpCond.lean (and the time axis of
# Flake.lean) are re-derived from /repo's source on every run and proved equal to the generated text
# (lean/SnowProofs/Props/GenTie/OpCond.lean)
import gentie  # noqa: E402
THEOREMS = THEOREMS + gentie.theorems("OpCond")
extra_lean_targets = list(globals().get("extra_lean_targets", [])) + [gentie.module("OpCond")]
TRUSTED = TRUSTED + ["harness/translate.py formula extraction (single assignments -> Lean definitions; anything outside "
                     "its tiny language is a TranslatorError)"]


def regenerate():
    gentie.regenerate("OpCond")
