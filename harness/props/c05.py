"""C05 Sampled shelf temperature is the programmed cooling protocol."""
from __future__ import annotations

import copy
import math
from fractions import Fraction

import shim  # noqa: F401
import numpy as np

import core
from core import Failure, f2b, b2f, f2q, q2frac, close

ID = "C05"
LEAN_MODULE = "SnowProofs.Props.C05"
THEOREMS = [
    dict(name="Snow.C05.profile_length", clause="one value per step: length = ceil(t_tot/dt)+1", strength="full"),
    dict(name="Snow.C05.profile_head", clause="starts at the start temperature", strength="full"),
    dict(name="Snow.C05.profile_antitone", clause="never rises", strength="full"),
    dict(name="Snow.C05.profile_rate", clause="never falls faster than rate*dt per step", strength="full"),
    dict(name="Snow.C05.profile_bounds", clause="stays between end and start temperature", strength="full"),
    dict(name="Snow.C05.profile_dwell", clause="dwell: after the ramp to a hold the profile has a plateau of c consecutive samples at the hold temperature (as far as the process lasts), with d - dt < c*dt < d + dt", strength="full"),
    dict(name="Snow.C05.holdCount_dwell", clause="the plateau length c = holdCount satisfies d - dt < c*dt < d + dt (helper of profile_dwell)", strength="full"),
    dict(name="Snow.C05.profile_perm", clause="independent of the listed order of holds", strength="full"),
    dict(name="Snow.C05.consumers_in_range", clause="every step index k < ceil(t_tot/dt)+1 (what Snowflake.run indexes; Snowing iterates the array itself) is a valid sample - a corollary of profile_length", strength="full"),
    dict(name="Snow.C05.profile_tracks_program", clause="agrees with the continuous piecewise-linear program to within one step per program segment (every sample equals the program at a time within 2*dt*(#holds+1))", strength="full"),
    dict(name="Snow.C05.segment_slip", clause="each ramp+hold pair shifts the sampling clock by more than -dt and less than 2*dt", strength="full"),
    dict(name="Snow.C05.mkOpCond_wf", clause="the constructor maps every in-range user input to a well-formed program with the same holds", strength="full"),
    dict(name="Snow.C05.profileRaw_short_witness", clause="the unpadded profile (upstream) is one sample short for a ramp shorter than a step", strength="refutation-of-old-code"),
    dict(name="Snow.C05.nonvacuous", clause="hypotheses are satisfiable (concrete program)", strength="nonvacuity"),
]
TRUSTED = [
    "Lean 4.33 kernel; axioms per theorem listed under coverage.axioms",
    "theorems are over the reals: IEEE rounding is not modelled",
    "hand-written model SnowModel/OpCond.lean tied to operatingConditions.py by this differential check",
    "numpy arange/ceil semantics as transcribed in the model (len = ceil(stop/step), value = i*step)",
]
ASSUMPTIONS = [
    "well-formed programs: dt > 0, rate > 0, end <= hold temps <= start, durations >= 0, t_tot >= 0",
    "continuous comparisons use rtol 1e-9; lengths and indices are compared exactly",
]
RULE = ("cooling programs drawn from a structured generator (0-4 holds, durations 0 / <dt / multiples of dt / "
        "arbitrary, ramps shorter than a step, t_tot not a multiple of dt), object histories (sample / edit the program / "
        "run a consumer on the SAME object, then sample: must equal a fresh object with the current program; the model is a "
        "pure function, so this clause rests on the correspondence), an exact dyadic stream compared "
        "against the model instantiated at Rat, a few programs stepped through by the homogeneous Snowing model "
        "(own step 0.1 s, configured solutions with T_eq != 0: the recorded shelf history must be the sampled program), "
        "and a small malformed stream; a case is non-trivial when the "
        "program has at least one ramp sample and is distinct by its JSON form")
EXPLANATION = "Lean theorems over the reals about the profile model + differential check of the model against OperatingConditions.tempProfile"
PARALLEL = True


# ---------------------------------------------------------------------------
def _mk_opcond(case):
    from ethz_snow.operatingConditions import OperatingConditions

    cooling = {"rate": case["rate"], "start": case["start"], "end": case["stop"]}
    holds = case["holds"]
    if holds is None:
        holding = None
    elif case.get("isList", True):
        holding = [dict(temp=h[0], duration=h[1]) for h in holds]
        if case.get("container") == "tuple":  # the documented Iterable-of-dict input type other than list
            holding = tuple(holding)
    else:
        holding = dict(temp=holds[0][0], duration=holds[0][1])
    return OperatingConditions(t_tot=case["t_tot"], cooling=cooling, holding=holding)


_CFG0D = None


def _cfg0d():
    """temp YAML selecting the homogeneous Snowing model (a cheap profile consumer)"""
    global _CFG0D
    if _CFG0D is None:
        import tempfile
        f = tempfile.NamedTemporaryFile("w", suffix=".yaml", delete=False, prefix="snowverif_c05_")
        f.write("snowing_parameters:\n  dimensionality: homogeneous\n  configuration: shelf\n")
        f.close()
        _CFG0D = f.name
    return _CFG0D


def _final_params(case):
    """program parameters after the edits of a history case"""
    c = copy.deepcopy(case)
    for op in case.get("ops", []):
        if op[0] == "set_end":
            c["stop"] = op[1]
        elif op[0] == "set_rate":
            c["rate"] = op[1]
        elif op[0] == "set_ttot":
            c["t_tot"] = op[1]
        elif op[0] == "set_hold_duration" and c["holds"]:
            # holds are addressed in the constructor's order (descending temp, duration)
            hs = sorted(c["holds"], key=lambda h: (h[0], h[1]), reverse=True)
            hs[op[1] % len(hs)][1] = op[2]
            c["holds"] = hs
    c.pop("ops", None)
    return c


def _apply_history(oc, case):
    """sample / edit / consume the SAME object; returns (program snapshots equal?, notes)"""
    notes = []
    flake = None  # one Snowflake object that stays attached to `oc` across the edits
    for op in case["ops"]:
        if op[0] == "reuseFlake":
            try:
                from ethz_snow.snowflake import Snowflake
                if flake is None:
                    flake = Snowflake(k={"int": 0, "ext": 0, "s0": 20}, N_vials=(1, 1, 1), dt=op[1], opcond=oc,
                                      storeStates="all")
                flake.run()
                want = int(np.ceil(oc.t_tot / op[1])) + 1
                if flake.X_T.shape[1] != want:
                    notes.append(f"reuseFlake:columns {flake.X_T.shape[1]} != {want}")
            except Exception as e:
                notes.append("reuseFlake:" + core.exc_class(e))
            continue
        if op[0] == "sample":
            before = copy.deepcopy(oc.holding)
            p = oc.tempProfile(op[1])
            if copy.deepcopy(oc.holding) != before:
                notes.append("holding mutated by tempProfile")
            p += 0.0  # a caller may legitimately work on the returned array …
            p[:] = 12345.0  # … even overwrite it: the next sampling must not see that
        elif op[0] == "set_end":
            oc.cooling["end"] = op[1]
        elif op[0] == "set_rate":
            oc.cooling["rate"] = op[1]
        elif op[0] == "set_ttot":
            oc.t_tot = op[1]
        elif op[0] == "set_hold_duration" and oc.holding:
            # through the property setter (which re-orders the holds), not by mutating a dict
            hs = [dict(h) for h in oc.holding]
            hs[op[1] % len(hs)]["duration"] = op[2]
            # odd index: re-assigned as a tuple listed in reverse order (order/type must not matter)
            oc.holding = tuple(reversed(hs)) if op[1] % 2 else hs
        elif op[0] == "consume0D":
            try:
                from ethz_snow.snowing import Snowing
                Snowing(k={"int": 0, "ext": 0, "s0": 50}, opcond=oc, configPath=_cfg0d()).run()
            except Exception as e:  # too short a program etc.: irrelevant here
                notes.append("consume0D:" + core.exc_class(e))
        elif op[0] == "consumeFlake":
            try:
                from ethz_snow.snowflake import Snowflake
                Snowflake(k={"int": 0, "ext": 0, "s0": 20}, N_vials=(1, 1, 1), dt=op[1], opcond=oc).run()
            except Exception as e:
                notes.append("consumeFlake:" + core.exc_class(e))
    return notes


_CFG0D_TEQ = {}


def _observe_consumer0d(case):
    import tempfile

    import numpy as np

    spec = case["consumer0D"]
    teq = spec["T_eq"]
    if teq not in _CFG0D_TEQ:
        f = tempfile.NamedTemporaryFile("w", suffix=".yaml", delete=False, prefix="snowverif_c05_")
        f.write("snowing_parameters:\n  dimensionality: homogeneous\n  configuration: shelf\n"
                f"solution:\n  T_eq: {teq}\n")
        f.close()
        _CFG0D_TEQ[teq] = f.name
    try:
        from ethz_snow.snowing import Snowing

        oc = _mk_opcond(case)
        S = Snowing(k={"int": 0, "ext": 0, "s0": spec["s0"]}, opcond=oc, configPath=_CFG0D_TEQ[teq])
        S.run()
        sh = np.asarray(S.shelfTemp, dtype=float)
        p = np.asarray(_mk_opcond(case).tempProfile(0.1), dtype=float)
        out = {"raise": None, "len_shelf": int(len(sh)), "len_profile": int(len(p))}
        if len(sh) == len(p):
            d = np.abs(sh - p)
            out["maxdiff"] = float(d.max()) if len(d) else 0.0
            out["argmax"] = int(d.argmax()) if len(d) else 0
        return out
    except Exception as e:
        return {"raise": core.exc_class(e), "msg": str(e)[:200]}


def run_impl(case):
    obs = {"raise": None}
    try:
        oc = _mk_opcond(case)
    except Exception as e:
        return {"raise": core.exc_class(e), "stage": "init"}
    if case.get("ops"):
        # object history: the profile finally sampled must be that of the CURRENT program,
        # whatever was sampled, edited or consumed on the object before
        try:
            obs["history_notes"] = _apply_history(oc, case)
            fin = _final_params(case)
            p = oc.tempProfile(case["dt"])
            obs["profile"] = [float(x) for x in p]
            obs["n"] = int(np.ceil(fin["t_tot"] / case["dt"])) + 1
            obs["profile_fresh"] = [float(x) for x in _mk_opcond(fin).tempProfile(case["dt"])]
        except Exception as e:
            return {"raise": core.exc_class(e), "stage": "history"}
        return obs
    try:
        p = oc.tempProfile(case["dt"])
        obs["profile"] = [float(x) for x in p]
        obs["n"] = int(np.ceil(case["t_tot"] / case["dt"])) + 1
    except Exception as e:
        return {"raise": core.exc_class(e), "stage": "tempProfile"}
    # order independence: same program with the holds listed in reverse order
    if case["holds"] and len(case["holds"]) > 1 and case.get("isList", True):
        c2 = copy.deepcopy(case)
        c2["holds"] = list(reversed(case["holds"]))
        try:
            p2 = _mk_opcond(c2).tempProfile(case["dt"])
            obs["profile_rev"] = [float(x) for x in p2]
        except Exception as e:
            obs["profile_rev"] = {"raise": core.exc_class(e)}
    # a consumer with its own fixed step: the homogeneous Snowing model (dt = 0.1 s), configured solution
    if case.get("consumer0D"):
        obs["consumer0D"] = _observe_consumer0d(case)
    # a consumer: 1x1 Snowflake stepping through the whole profile
    if case.get("flake"):
        try:
            from ethz_snow.snowflake import Snowflake

            S = Snowflake(k={"int": 0, "ext": 0, "s0": 20}, N_vials=(1, 1, 1), dt=case["dt"],
                          opcond=_mk_opcond(case))
            S.run()
            obs["flake"] = "ok"
        except Exception as e:
            obs["flake"] = core.exc_class(e)
    return obs


def _req(case, mode):
    if case.get("ops"):
        case = _final_params(case)
    enc = f2b if mode == "float" else f2q
    r = {
        "op": "tempProfile",
        "num": mode,
        "t_tot": enc(case["t_tot"]),
        "start": enc(case["start"]),
        "stop": enc(case["stop"]),
        "rate": enc(case["rate"]),
        "dt": enc(case["dt"]),
        "isList": bool(case.get("isList", True)),
    }
    if case["holds"] is not None:
        r["holds"] = [[enc(h[0]), enc(h[1])] for h in case["holds"]]
    return r


def run_model(drv, case):
    out = {}
    r = drv.call(_req(case, "float"))
    if "error" in r:
        raise RuntimeError(r["error"])
    if "raise" in r:
        out["raise"] = r["raise"]
    else:
        out["raise"] = None
        out["profile"] = [b2f(b) for b in r["profile"]]
        out["n"] = r["n"]
        out["rawlen"] = r["rawlen"]
    if case.get("exact"):
        r = drv.call(_req(case, "rat"))
        if "error" in r:
            raise RuntimeError(r["error"])
        if "raise" not in r:
            out["profile_rat"] = [q2frac(p) for p in r["profile"]]
    return out


def compare(case, impl, model):
    dis = []
    if impl.get("raise") or model.get("raise"):
        if impl.get("raise") != model.get("raise"):
            dis.append(f"exception: impl {impl.get('raise')} ({impl.get('stage')}) vs model {model.get('raise')}")
        return dis
    a, b = impl["profile"], model["profile"]
    if len(a) != len(b):
        dis.append(f"profile length: impl {len(a)} vs model {len(b)} (n={impl['n']})")
    if impl["n"] != model["n"]:
        dis.append(f"n: impl {impl['n']} vs model {model['n']}")
    for i, (x, y) in enumerate(zip(a, b)):
        if not close(x, y):
            dis.append(f"profile[{i}]: impl {x!r} vs model {y!r}")
            break
    if "profile_rat" in model:
        pr = model["profile_rat"]
        if len(pr) != len(a):
            dis.append(f"exact stream: length impl {len(a)} vs Rat model {len(pr)}")
        for i, (x, y) in enumerate(zip(a, pr)):
            if Fraction(x) != y:
                dis.append(f"exact stream: profile[{i}] impl {x!r} vs Rat model {y}")
                break
    return dis


# ---------------------------------------------------------------------------
# the property itself, evaluated on the implementation's output
# ---------------------------------------------------------------------------
def _wf(case):
    if not (case["dt"] > 0 and case["rate"] > 0 and case["t_tot"] >= 0):
        return False
    if case["stop"] > case["start"]:
        return False
    for h in case["holds"] or []:
        if not (case["stop"] <= h[0] <= case["start"] and h[1] >= 0):
            return False
    return True


def _program(case):
    """continuous piecewise-linear program as a function of time (float)."""
    holds = sorted(case["holds"] or [], key=lambda h: -h[0])
    segs = []  # (t0, t1, T0, T1)
    t = 0.0
    T = case["start"]
    for th, d in holds + [[case["stop"], math.inf]]:
        tr = (T - th) / case["rate"]
        segs.append((t, t + tr, T, th))
        t += tr
        segs.append((t, t + d, th, th))
        t += d
        T = th

    def prog(x):
        for t0, t1, T0, T1 in segs:
            if x <= t1:
                if t1 == t0 or T0 == T1:
                    return T1 if x >= t0 else T0
                return T0 + (T1 - T0) * (x - t0) / (t1 - t0)
        return case["stop"]

    return prog


def predicates(case, impl):
    out = []
    if case.get("ops"):
        if not impl.get("raise"):
            bad = [n for n in impl.get("history_notes", []) if n.startswith("reuseFlake:")]
            if bad and _wf(_final_params(case)):
                out.append(Failure(clause="consumers_in_range", key="consumers_in_range|Snowflake.run|reused-object",
                                   detail="a Snowflake kept attached to the edited program could not step through "
                                          f"the current profile: {bad[:2]}"))
            if impl.get("history_notes") and any(n.startswith("holding mutated") for n in impl["history_notes"]):
                out.append(Failure(clause="profile_is_function_of_program", key="history|tempProfile|mutates-program",
                                   detail="tempProfile() changed the object's holding list"))
            a, b = impl["profile"], impl["profile_fresh"]
            if len(a) != len(b) or any(x != y for x, y in zip(a, b)):
                out.append(Failure(clause="profile_is_function_of_program", key="history|tempProfile|stale-or-aliased",
                                   detail="after sampling/editing/consuming the same object the profile differs from "
                                          "that of a fresh object with the current program "
                                          f"(first difference at {next((i for i,(x,y) in enumerate(zip(a,b)) if x!=y), min(len(a),len(b)))})"))
        case = _final_params(case)
    if not _wf(case):
        return out
    site = "tempProfile"
    if impl.get("raise"):
        out.append(Failure(clause="total", key=f"raises|{site}|{impl['raise']}",
                           detail=f"well-formed program raises {impl['raise']} in {impl.get('stage')}"))
        return out
    p = impl["profile"]
    n = impl["n"]
    dt, rate = case["dt"], case["rate"]
    start, stop = case["start"], case["stop"]
    tol = 1e-9 * max(1.0, abs(start), abs(stop))
    if len(p) != n:
        cls = "short" if len(p) < n else "long"
        out.append(Failure(clause="profile_length", key=f"profile_length|{site}|{cls}",
                           detail=f"len(tempProfile)={len(p)} but ceil(t_tot/dt)+1={n}"))
    c0 = impl.get("consumer0D")
    if c0 is not None:
        if c0.get("raise"):
            out.append(Failure(clause="consumers_in_range", key=f"consumers_in_range|Snowing._run_0D|{c0['raise']}",
                               detail=f"homogeneous Snowing run over this program raises {c0['raise']}: {c0.get('msg')}"))
        elif c0["len_shelf"] != c0["len_profile"]:
            out.append(Failure(clause="consumer_steps_through_profile", key="consumer_profile|Snowing._run_0D|length",
                               detail=f"recorded shelf history has {c0['len_shelf']} entries, tempProfile(0.1) {c0['len_profile']}"))
        elif c0["maxdiff"] > 1e-9:
            out.append(Failure(clause="consumer_steps_through_profile", key="consumer_profile|Snowing._run_0D|values",
                               detail=f"recorded shelf temperature differs from the sampled program by {c0['maxdiff']} K "
                                      f"at step {c0['argmax']} (T_eq = {case['consumer0D']['T_eq']})"))
    if impl.get("flake") not in (None, "ok"):
        out.append(Failure(clause="consumers_in_range", key=f"consumers_in_range|Snowflake.run|{impl['flake']}",
                           detail=f"1x1 Snowflake.run() over this program raises {impl['flake']}"))
    if p:
        if not close(p[0], start):
            out.append(Failure(clause="profile_head", key=f"profile_head|{site}|",
                               detail=f"first sample {p[0]} != start {start}"))
        for i in range(len(p) - 1):
            if p[i + 1] > p[i] + tol:
                out.append(Failure(clause="profile_antitone", key=f"profile_antitone|{site}|",
                                   detail=f"rises at {i}: {p[i]} -> {p[i+1]}"))
                break
        for i in range(len(p) - 1):
            if p[i] - p[i + 1] > rate * dt * (1 + 1e-9) + tol:
                out.append(Failure(clause="profile_rate", key=f"profile_rate|{site}|",
                                   detail=f"falls by {p[i]-p[i+1]} > rate*dt={rate*dt} at {i}"))
                break
        for i, x in enumerate(p):
            if x < stop - tol or x > start + tol:
                out.append(Failure(clause="profile_bounds", key=f"profile_bounds|{site}|",
                                   detail=f"sample {i}={x} outside [{stop},{start}]"))
                break
        # dwell (theorems holdCount_dwell / profile_dwell / segment_slip): consecutive holds at one temperature
        # form one plateau; a plateau of k holds with total duration D shows c_1+..+c_k hold samples with
        # d_i - dt < c_i*dt < d_i + dt, followed by the first sample of the next ramp (also at the hold
        # temperature), plus at most one ramp sample that rounds onto the hold temperature in floating point
        # (L/dt = 180.00000000000003 gives 181 ramp samples).  Samples are antitone, so equal values are
        # contiguous and can be counted by value.  A plateau whose end (with the slip of at most 2*dt per
        # earlier segment) lies inside the sampled horizon must be there in full; a truncated one only obeys
        # the upper bound.  The plateau at the stop temperature merges with the final one and is not counted.
        holds = case["holds"] or []
        hs = sorted(holds, key=lambda h: -h[0])
        groups = []  # [temp, total duration, k, program time at which the plateau starts, segments before]
        tprog, Tprev, nseg = 0.0, start, 0
        for th, d in hs:
            tprog += (Tprev - th) / rate
            nseg += 1
            if groups and groups[-1][0] == th:
                groups[-1][1] += d
                groups[-1][2] += 1
            else:
                groups.append([th, d, 1, tprog, nseg])
            tprog += d
            Tprev = th
        horizon = (len(p) - 1) * dt
        for th, D, k, t0, ns in groups:
            if th == stop:
                continue
            m = sum(1 for x in p if x == th)
            eps = 1e-9 * max(1.0, D, horizon)
            hi = D + (k + 1) * dt + eps
            inside = t0 + D + 2 * dt * (ns + k + 1) + dt <= horizon
            bad = None
            if (m - 1) * dt > hi:
                bad = "too long"
            elif inside and (m == 0 or not (D - k * dt - eps < (m - 1) * dt)):
                bad = "missing" if m == 0 else "too short"
            if bad:
                out.append(Failure(clause="profile_dwell", key=f"profile_dwell|{site}|",
                                   detail=f"plateau {th} of {k} hold(s), total {D}: {m} samples at dt={dt} ({bad})"))
                break
        # tracks the continuous program within one step per program segment
        prog = _program(case)
        S = 2 * len(holds) + 2  # one step per program segment (ramps, holds and the final plateau)
        bound = S * rate * dt * (1 + 1e-9) + tol
        for k, x in enumerate(p):
            if abs(x - prog(k * dt)) > bound:
                out.append(Failure(clause="profile_tracks_program", key=f"profile_tracks_program|{site}|",
                                   detail=f"sample {k}={x} vs program {prog(k*dt)} (bound {bound})"))
                break
    pr = impl.get("profile_rev")
    if pr is not None:
        same = (not isinstance(pr, dict)) and len(pr) == len(p) and all(a == b for a, b in zip(pr, p))
        if not same:
            temps = [h[0] for h in case["holds"]]
            cls = "equal-hold-temps" if len(set(temps)) < len(temps) else "distinct-hold-temps"
            out.append(Failure(clause="profile_perm", key=f"profile_perm|{site}|{cls}",
                               detail="listing the holds in reverse order changes the profile"))
    return out


def classify(case, impl):
    tags = [f"kind={case.get('kind')}", f"holds={len(case['holds'] or [])}"]
    if impl.get("raise"):
        tags.append(f"raise={impl['raise']}")
    else:
        tags.append("len<=10" if len(impl["profile"]) <= 10 else "len<=200" if len(impl["profile"]) <= 200 else "len>200")
        ramp = (case["start"] - case["stop"]) / case["rate"] if case["rate"] else 0
        if ramp < case["dt"]:
            tags.append("ramp<dt")
        if (case["t_tot"] / case["dt"]) % 1 != 0:
            tags.append("t_tot not multiple of dt")
    return tags


def nontrivial(case, impl):
    return not impl.get("raise") and len(impl.get("profile", [])) >= 2


# ---------------------------------------------------------------------------
# generators
# ---------------------------------------------------------------------------
def _structured(rng, small=False):
    dt = rng.choice([0.5, 1, 2, 3, 5, 7, 0.1, 1.3, 2.5, 10, 0.6, 1.2, 0.12, 0.3, 0.7, 0.9, 1.1, 0.35])
    rate = rng.choice([0.5 / 60, 0.1, 0.25, 0.5, 1, 2, 2.5, 1 / 3, 0.7, 0.05])
    start = rng.choice([20, 20.0, 5, 0, -5, 12.5, rng.uniform(-10, 30)])
    span = rng.choice([0, 0.3, 1, 5, 25, 40, rng.uniform(0, 50)])
    if rng.random() < 0.25:
        # ramp shorter than a few steps
        span = rate * dt * rng.choice([0, 0.2, 0.5, 0.999, 1, 1.5, 2.01])
    stop = start - span
    nh = rng.choice([0, 0, 1, 1, 2, 3, 4])
    holds = []
    for _ in range(nh):
        temp = rng.choice([start, stop, start - span / 2, start - span * rng.random(),
                           round(start - span * rng.random())])
        temp = min(max(temp, stop), start)
        if holds and rng.random() < 0.15:
            temp = holds[-1][0]
        dur = rng.choice([0, dt / 2, dt, 3 * dt, 10.5 * dt, dt * rng.uniform(0, 30), 0.999 * dt, 60])
        holds.append([temp, dur])
    ramp = span / rate
    tot_h = sum(h[1] for h in holds)
    t_tot = rng.choice([0, dt / 3, dt, ramp, ramp + tot_h, ramp + tot_h + 7.3 * dt, (ramp + tot_h) * 0.6,
                        dt * rng.randint(1, 60), dt * rng.uniform(0, 80),
                        # "round" totals that are multiples of dt only up to rounding
                        round(dt * rng.randint(1, 120), 6), float(rng.choice([3, 6, 12, 30, 60, 90, 120]))])
    # keep the number of samples moderate
    nmax = 300 if small else 3000
    if t_tot / dt > nmax:
        t_tot = dt * nmax * rng.random()
    if ramp / dt > 3 * nmax:
        rate = span / (dt * nmax)
    case = dict(kind="structured", t_tot=t_tot, start=start, stop=stop, rate=rate,
                holds=(holds if nh else None), isList=True, dt=dt)
    if nh == 1 and rng.random() < 0.5:
        case["isList"] = False
    elif nh and rng.random() < 0.3:
        case["container"] = "tuple"
    if t_tot / dt <= 400:
        case["flake"] = True
    return case


def _exact(rng):
    dt = rng.choice([0.25, 0.5, 1, 2, 4])
    rate = rng.choice([0.125, 0.25, 0.5, 1, 2])
    start = rng.randint(-5, 30) + rng.choice([0, 0.5, 0.25])
    span = rng.choice([0, 0.125, 0.5, 1, 3, 10, 25, 40.5])
    stop = start - span
    nh = rng.choice([0, 1, 2, 3])
    holds = []
    for _ in range(nh):
        temp = start - rng.choice([0, 0.25, 0.5, 1, 2, 0.75]) * span / rng.choice([1, 2, 4])
        temp = min(max(temp, stop), start)
        dur = rng.choice([0, 0.125, 0.5, 1, 2, 3.75, 10, 16.5])
        holds.append([temp, dur])
    t_tot = rng.choice([0, 0.125, 1, 7, 7.5, 33, 64.25, 100, 250.5])
    c = dict(kind="exact", exact=True, t_tot=t_tot, start=start, stop=stop, rate=rate,
             holds=(holds if nh else None), isList=True, dt=dt,
             flake=(t_tot / dt <= 400))
    if nh and rng.random() < 0.3:
        c["container"] = "tuple"
    return c


def _malformed(rng):
    k = rng.choice(["rate0", "rate0hold", "const", "rate0hold_const"])
    start = rng.choice([20, -5, 0.5])
    if k == "rate0":
        return dict(kind="malformed", t_tot=10, start=start, stop=start - 3, rate=0, holds=None, isList=True, dt=1)
    if k == "rate0hold":
        return dict(kind="malformed", t_tot=10, start=start, stop=start - 3, rate=0, holds=[[start - 1, 2]],
                    isList=True, dt=1)
    if k == "const":
        return dict(kind="malformed", t_tot=rng.choice([0, 5, 10.5]), start=start, stop=start, rate=0, holds=None,
                    isList=True, dt=rng.choice([1, 2, 0.5]))
    return dict(kind="malformed", t_tot=10, start=start, stop=start, rate=0, holds=[[start, 2]], isList=True, dt=1)


def _history(rng):
    c = _structured(rng, small=True)
    while c["rate"] == 0 or c["t_tot"] / c["dt"] > 400:
        c = _structured(rng, small=True)
    c["kind"] = "history"
    c.pop("flake", None)
    ops = []
    dt = c["dt"]
    for _ in range(rng.randint(1, 4)):
        k = rng.choice(["sample", "sample", "set_end", "set_rate", "set_ttot", "set_hold_duration",
                        "consumeFlake", "reuseFlake", "reuseFlake",
                        "consume0D" if rng.random() < 0.15 else "sample"])
        if k == "sample":
            ops.append(["sample", rng.choice([dt, dt, 1, 0.1, 2 * dt])])
        elif k == "set_end":
            ops.append(["set_end", c["stop"] - rng.choice([0, 1, 7.5, 20])])
        elif k == "set_rate":
            ops.append(["set_rate", c["rate"] * rng.choice([0.8, 1.25, 0.999, 2])])
        elif k == "set_ttot":
            ops.append(["set_ttot", max(0.0, c["t_tot"] * rng.choice([0.5, 1.0, 1.7]) + rng.choice([0, dt / 3]))])
        elif k == "set_hold_duration":
            if c["holds"] and c.get("isList", True):
                ops.append(["set_hold_duration", rng.randint(0, 3), rng.choice([0, dt / 2, 3 * dt, 17.0])])
        elif k == "consumeFlake":
            ops.append(["consumeFlake", dt])
        elif k == "reuseFlake":
            ops.append(["reuseFlake", dt])
        else:
            ops.append(["consume0D"])
    if not any(o[0] == "sample" for o in ops):
        ops.insert(0, ["sample", dt])
    if any(o[0] == "reuseFlake" for o in ops) and ops[-1][0] != "reuseFlake":
        ops.append(["reuseFlake", dt])
    c["ops"] = ops
    return c


def _history_consumer(rng):
    """a consumer object stays attached while the program gets LONGER: it must step to the new end"""
    c = _structured(rng, small=True)
    while c["rate"] == 0 or not (2 <= c["t_tot"] / c["dt"] <= 150):
        c = _structured(rng, small=True)
    c["kind"] = "history"
    c.pop("flake", None)
    dt = c["dt"]
    grow = ["set_ttot", c["t_tot"] * rng.choice([1.3, 2.0, 3.1]) + rng.choice([0, dt / 3, dt])]
    mid = rng.choice([[grow], [grow, ["set_rate", c["rate"] * 0.5]], [["sample", dt], grow],
                      [grow, ["set_end", c["stop"] - 5]]])
    c["ops"] = [["reuseFlake", dt]] + mid + [["reuseFlake", dt], ["sample", dt]]
    return c


def _consumer0d(rng):
    """a program deep and long enough for the homogeneous Snowing model to complete; the consumer's recorded shelf
    temperature must be the sampled program, also for a configured solution with T_eq != 0"""
    start = rng.choice([20, 10, 4.5])
    stop = rng.choice([-40, -45.5])
    rate = rng.choice([0.5, 0.25])
    nh = rng.choice([0, 1, 2])
    holds = [[rng.choice([0, -5, -10.5, start]), rng.choice([20, 100, 33.3])] for _ in range(nh)]
    ramp = (start - stop) / rate
    t_tot = ramp + sum(h[1] for h in holds) + rng.choice([1500, 2000.05])
    return dict(kind="consumer0D", t_tot=t_tot, start=start, stop=stop, rate=rate,
                holds=(holds if nh else None), isList=True, dt=rng.choice([0.1, 1, 2.5]),
                consumer0D={"T_eq": rng.choice([0, 3.8, -1.5]), "s0": 400})


def cases(rng, tier):
    n_struct, n_exact, n_mal = (1500, 600, 40) if tier == "quick" else (40000, 12000, 400)
    for _ in range(4 if tier == "quick" else 40):
        yield _consumer0d(rng)
    for _ in range(120 if tier == "quick" else 2500):
        yield _history(rng)
    for _ in range(40 if tier == "quick" else 600):
        yield _history_consumer(rng)
    for _ in range(n_struct):
        yield _structured(rng, small=(tier == "quick"))
    for _ in range(n_exact):
        yield _exact(rng)
    for _ in range(n_mal):
        yield _malformed(rng)


def widen(rng, tier):
    n = 3000 if tier == "quick" else 30000
    for _ in range(n):
        c = _structured(rng, small=True)
        yield c


# --- regeneration tie (harness/gentie.py): the formulas of the hand model SnowModel/OpCond.lean (and the time axis of
# Flake.lean) are re-derived from /repo's source on every run and proved equal to the generated text
# (lean/SnowProofs/Props/GenTie/OpCond.lean)
import gentie  # noqa: E402
THEOREMS = THEOREMS + gentie.theorems("OpCond")
extra_lean_targets = list(globals().get("extra_lean_targets", [])) + [gentie.module("OpCond")]
TRUSTED = TRUSTED + ["harness/translate.py formula extraction (single assignments -> Lean definitions; anything outside "
                     "its tiny language is a TranslatorError)"]


def regenerate():
    gentie.regenerate("OpCond")
