"""C07 Spatial fields respect physical bounds and phase equilibrium."""
from __future__ import annotations

import shim  # noqa: F401
import numpy as np

import core
from core import Failure
import snowing2dutil as u

ID = "C07"
LEAN_MODULE = "SnowProofs.Props.C07"
THEOREMS = [
    dict(name="Snow.C07.cfl_from_code", strength="full",
         clause="the code's 2D dt satisfies alpha*dt*(2/dz^2+2/dr^2) <= 1 whenever alpha <= 1.25*alpha_max"),
    dict(name="Snow.C07.cfl_from_code_1D", strength="full", clause="the same for the 1D dt = 0.4 dz^2/alpha_max"),
    dict(name="Snow.C07.bounds0D_cool", strength="full",
         clause="0D cooling step stays between T and T_shelf when dt*A*K <= cp*m"),
    dict(name="Snow.C07.bounds0D_solid", strength="full",
         clause="0D solidification step stays between T and T_shelf (latent term only enlarges the denominator)"),
    dict(name="Snow.C07.maxprinciple1D_cool", strength="full",
         clause="1D cooling stencil with ghost values is a convex combination for 0 <= fo <= 1/2"),
    dict(name="Snow.C07.maxprinciple2D_node", strength="full",
         clause="2D cooling stage: every assignment is a convex combination of the five values it reads (any reader, "
                "also the partially updated array); CFL and r_j >= dr/2"),
    dict(name="Snow.C07.maxprinciple2D_cool", strength="full",
         clause="repaired 2D cooling step keeps every node in the interval of old field, shelf and top ghost values"),
    dict(name="Snow.C07.maxprinciple2D_cool_inplace", strength="partial",
         clause="the in-place (current) 2D cooling step keeps the same interval (bound only; nothing about consistency)"),
    dict(name="Snow.C07.maxprinciple_solid_partial", strength="partial",
         clause="solidification stage, off-axis non-corner node: the assignment is c + theta*sum w_k (x_k - c); bounded "
                "under the sign conditions on the conductivity differences (hypotheses, not implied by the model); "
                "bottom corner, nonlinear capacity and T <= T_eq_l not covered"),
    dict(name="Snow.C07.solid_weights_nonneg", strength="partial",
         clause="sign hypotheses of maxprinciple_solid_partial follow from lambda_w <= k <= lambda_i: axial weights if "
                "lambda_i <= 5 lambda_w, radial weights at r_j >= 2 dr if lambda_i <= 4 lambda_w; at j = 1 they do not "
                "(water/ice ratio 3.76 > 3.1) and stay hypotheses"),
    dict(name="Snow.C07.r_ge_half_dr", strength="full",
         clause="r = linspace(0,R,Nr), dr = R/Nr: r_j >= dr/2 for j >= 1"),
    dict(name="Snow.C07.ice_range", strength="full",
         clause="0 <= w_i < w_water, and ice exactly at nodes colder than T_eq_l"),
    dict(name="Snow.C07.liquidus_relation", strength="full",
         clause="wherever ice is reported, w_i (m_w+m_s) = m_w - m_s (k_f/M_s)/(T_m - T)"),
    dict(name="Snow.C07.no_ice_before_nucleation_2D", strength="full",
         clause="2D: in a completed run every reported ice row with index < iSaveEnd (cooling stage) is identically 0 "
                "(induction over the cooling loop)"),
    dict(name="Snow.C07.no_ice_before_nucleation_1D", strength="full",
         clause="1D: the same for the histories published by run1DOn"),
    dict(name="Snow.C07.no_ice_before_nucleation_0D", strength="full",
         clause="0D: the reported ice fraction is 0 at every index before the nucleation step"),
    dict(name="Snow.C07.bounds0D_run", strength="full",
         clause="0D, whole cooling loop: T_0 and all shelf temperatures applied so far in [lo,hi] => product temperature "
                "in [lo,hi] after every step"),
    dict(name="Snow.C07.bounds0D_run_coldest", strength="full",
         clause="0D, cooling loop, shelf programme not rising and not warmer than T_0: coldest shelf so far <= T <= T_0"),
    dict(name="Snow.C07.maxprinciple1D_cool_run", strength="full",
         clause="1D shelf configuration, whole cooling loop: every node in [lo,hi] after every step (0<=fo<=1/2, Biot<=1)"),
    dict(name="Snow.C07.maxprinciple2D_cool_run", strength="full",
         clause="2D shelf/jacket (no VISF), whole cooling loop, repaired AND in-place update: every node in [lo,hi] after "
                "every step whenever T_0 and the shelf temperatures applied so far are (StabCtx)"),
    dict(name="Snow.C07.coolStep_bdd", strength="full", clause="one 2D cooling step keeps a flat field in [lo,hi] (both updates)"),
    dict(name="Snow.C07.grid1D_fo_le_half", strength="full",
         clause="the Fourier number of the model's 1D grid is 0.4*alpha/alpha_max, in [0,1/2] for alpha <= 1.25 alpha_max"),
    dict(name="Snow.C07.bounds0D_solid_static", strength="full",
         clause="0D solidification step between T and T_shelf under input-only conditions (cp_i<=cp_w, 0<=w<=1-w_s, "
                "0.1*A*K <= c_lo*rho*V)"),
    dict(name="Snow.C07.nucleation_jump_bounds", strength="full",
         clause="nucleation jump: T_nuc < T_after < T_eq_l and 0 < m_i < m_w at supercooled nodes (DerivedOK)"),
    dict(name="Snow.C07.ice_range_nucleation_row", strength="full",
         clause="2D post-nucleation row: 0 <= w_i < w_water, ice iff the node was supercooled, on the liquidus of the new T"),
    dict(name="Snow.C07.solidStep1D_ice", strength="full",
         clause="1D solidification rows: the ice field w_i_k produced by solidStep1D is iceNode1D of the temperature field "
                "of the same step (node by node)"),
    dict(name="Snow.C07.nucleate1D_ice", strength="full",
         clause="1D nucleation row: the ice field of nucleate1D/(m_w+m_s) is iceNode1D of the NEW temperature field "
                "(hypotheses SolOK1, 0 < cp_solution, 0 < mass, 0 < Dh)"),
    dict(name="Snow.C07.iceNode1D_range", strength="full",
         clause="1D node formula: 0 <= w_i < m_w/den, ice iff T < T_eq_l, liquidus relation (SolOK1 = relations of calculateDerived)"),
    dict(name="Snow.C07.maxprinciple2D_cool_rows", strength="full",
         clause="2D shelf/jacket: every row SAVED during the cooling loop lies in [lo,hi] (degC)"),
    dict(name="Snow.C07.maxprinciple2D_published", strength="full",
         clause="2D shelf/jacket, completed run: every REPORTED temperature row with index < iSaveEnd lies in [lo,hi] "
                "containing T_0 and the shelf temperatures up to the nucleation step"),
    dict(name="Snow.C07.maxprinciple2D_published_coldest", strength="full",
         clause="... with a programme that has not risen and starts at T_0: coldest shelf temperature so far <= reported "
                "T <= T_0 (cooling-stage rows)"),
    dict(name="Snow.C07.maxprinciple2D_published_run2D", strength="full",
         clause="2D shelf/jacket run as _run_2D performs it (shelf samples = profile oc dt, product loaded at the "
                "programme's start temperature, well-formed programme C05.WF): all reported cooling-stage temperatures lie "
                "between the shelf temperature of the nucleation step (coldest so far) and the start temperature -- no "
                "hypothesis on the sampled programme (discharged by C05.profile_antitone / profile_bounds)"),
    dict(name="Snow.C07.ice_published_1D", strength="full",
         clause="published histories of run1DOn: the post-nucleation row and every solidification row carry, node by "
                "node, the liquidus ice iceNode1D of their own reported temperature (so iceNode1D_range gives range, "
                "ice iff T < T_eq_l and the liquidus relation for every published value); hypotheses SolOK1, 0 < cp, "
                "0 < mass, 0 < Dh"),
    dict(name="Snow.C07.solidStep1D_rows", strength="full",
         clause="every row saved by a 1D solidification step satisfies that relation (invariant of the loop)"),
    dict(name="Snow.C07.maxprinciple1D_cool_run_coldest", strength="full",
         clause="1D shelf, loop states: coldest shelf so far <= every node <= T_0"),
    dict(name="Snow.C07.maxprinciple1D_cool_rows", strength="full",
         clause="1D shelf: every row SAVED during the cooling loop lies in [lo,hi] (degC)"),
    dict(name="Snow.C07.maxprinciple1D_published", strength="full",
         clause="1D shelf, published histories: every REPORTED temperature row with index < iSaveEnd lies in [lo,hi] "
                "containing T_0 and the shelf temperatures up to the nucleation step"),
    dict(name="Snow.DefaultLink.gen_default_constants", strength="witness",
         clause="the GENERATED calculateDerived evaluated exactly (over Q) on the GENERATED default YAML tree returns "
                "these constants"),
    dict(name="Snow.DefaultLink.qDef_eq_generated", strength="witness",
         clause="every constant of the default SnowIn read by a hypothesis equals calculateDerived(defaultConfig)[k] "
                "(stated against the generated values; Kshelf = 50 is the default argument of Snowing, not a constant)"),
    dict(name="Snow.DefaultLink.qDef_is_generated_default", strength="witness",
         clause="the default SnowIn of the non-vacuity witnesses equals (field by field, as reals) those constants"),
    dict(name="Snow.DefaultLink.pDef_is_generated_default", strength="witness",
         clause="the 2D default Par equals them too (configuration set to jacket with the YAML's jacket block)"),
    dict(name="Snow.C07.solid_hyps_pDef", strength="witness",
         clause="hypotheses of solid_weights_nonneg on the default configuration: lambda_i <= 4 lambda_w and r_2 >= 2 dr "
                "on the code's radial grid (sign hypotheses of maxprinciple_solid_partial at nodes j >= 2)"),
    dict(name="Snow.C07.hyps_qDef", strength="witness",
         clause="hden/hnum/htheta of bounds0D_run, hv/hfo/hbi of maxprinciple1D_cool_run, SolOK1 and the nucleation "
                "hypotheses hold for the default SnowIn and its 30-point grid"),
    dict(name="Snow.C07.ice_range_0D", strength="conditional on T < T_eq_l (state condition, evaluated on runs)",
         clause="0D ice formula is the liquidus expression and lies in (0, w_water) below T_eq_l"),
    dict(name="Snow.C07.solOK_of_derived", strength="full",
         clause="the hypothesis SolOK of ice_range/liquidus_relation follows from the derived-constant relations DerivedOK"),
    dict(name="Snow.C07.derivedOK_pDef", strength="witness", clause="DerivedOK holds for the default configuration"),
    dict(name="Snow.C07.stabCtx_pDef", strength="witness", clause="StabCtx holds for the default configuration, any flags"),
    dict(name="monitored:bounds_after_nucleation", strength="monitored",
         clause="T <= max(T_0, T_eq_l) and (shelf/jacket) T >= coldest shelf so far during the SOLIDIFICATION stage, and "
                "for VISF cooling rows: no theorem, evaluated on every reported node and time"),
    dict(name="monitored:finite", strength="monitored", clause="every reported value is finite"),
    dict(name="Snow.C07.nonvacuous", strength="nonvacuity", clause="the stability hypotheses hold for a concrete grid"),
]
TRUSTED = [
    "Lean 4.33 kernel; axioms per theorem listed under coverage.axioms",
    "theorems are over the reals: IEEE rounding is not modelled",
    "hand-written model SnowModel/Snowing2D.lean tied to Snowing._run_2D by the differential check (whole recorded "
    "fields, rtol 1e-9); 0D/1D models SnowModel/Snowing0D.lean, Snowing1D.lean tied by C08/C11/C13",
]
ASSUMPTIONS = [
    "DerivedOK (named hypothesis of the ice / nucleation theorems): mass_solute = mass*w_s, mass_water = mass*(1-w_s), "
    "depression = k_f/M_s * w_s/(1-w_s), 0 < w_s < 1 -- the relations constants.calculateDerived establishes (C19 "
    "derived_*); instantiated on the default configuration (derivedOK_pDef)",
    "run-level theorems take 'T_0 and every shelf temperature applied so far lie in [lo,hi]' as hypothesis; for a "
    "programme that does not rise and starts at T_0 (C05 profile_antitone, profile_head) this is [coldest shelf so far, T_0]",
    "stability range (Stab / StabCtx): CFL number <= 1 (implied by the code's dt), Biot numbers K_shelf*dz/k <= 1 and "
    "K_wall*s/k <= 1, r_j >= dr/2.  The shelf programme is NOT part of Stab: the run-level theorems take the interval "
    "[lo,hi] of T_0 and the shelf temperatures applied so far as hypothesis (the *_coldest corollaries assume a "
    "programme that has not risen and is not warmer than T_0; the harness predicate gates on Stab's Biot part only)",
    "satisfiability of 'the run completed' (S2D.run = ok, run1DOn publishes histories) is not witnessed in Lean; it rests on "
    "the differential runs of this check, as for C08/C11/C13",
    "maximum principle of the SOLIDIFICATION stage (variable conductivity, apparent heat capacity) is not proved: "
    "the bounds after nucleation, in particular T <= max(T_0, T_eq_l), are evaluated on real runs only",
    "the lower bound is not claimed for VISF (the property excludes it)",
]
RULE = ("object histories (run, slower ramp, run again on the same object) and shelf/jacket programs that are still "
        "running during the default vacuum window of the YAML (0.75-0.85 h), plus the runs of C02 (2D shelf / VISF / jacket, 1D shelf / VISF; vials off the default aspect ratio); every bound "
        "is evaluated on every reported node and time; a case counts as non-trivial when the run completes; cases "
        "outside the Biot part of Stab are evaluated but only counted")
EXPLANATION = ("Lean theorems over the reals (convexity of every cooling-stage assignment, 0D steps, liquidus "
               "algebra) + differential check of the 2D model + bounds evaluated on real recorded fields")
PARALLEL = True
LEVEL_TEXT = ("PARTIAL proof. Lean 4 theorems (exact reals). RUN LEVEL, cooling stage (induction over the loops): 0D, 1D "
              "shelf, 2D shelf/jacket (repaired and in-place update) -- every node stays in the interval spanned by T_0 and "
              "the shelf temperatures applied so far, hence between the coldest shelf so far and T_0 for a non-rising "
              "programme -- stated on loop states (0D) and on the REPORTED cooling-stage rows of a completed run (1D, 2D; for 2D "
              "also without programme hypotheses, through C05's profile theorems) -- "
              "(hypotheses: CFL from the code's dt, Biot numbers <= 1, named structure StabCtx); every "
              "cooling-stage row of a completed 0D/1D/2D run reports zero ice. NUCLEATION: T_nuc < T_after < T_eq_l, "
              "0 < m_i < m_w. ICE: 0 <= w_i < w_water, ice iff T < T_eq_l, liquidus relation, for the 2D, 1D (stated on the "
              "PUBLISHED nucleation and solidification rows of run1DOn) and "
              "nucleation-row formulas (0D conditional on T < T_eq_l) under the named derived-constant relations "
              "DerivedOK. PER ASSIGNMENT ONLY: solidification stage (convex form under sign conditions that the "
              "water/ice pair violates at j = 1). NOT proved, evaluated on every reported node and time: all bounds after "
              "nucleation, VISF cooling rows, finiteness.")

# --- regeneration tie (harness/gentie.py): the formulas of the hand model SnowModel/Snowing2D.lean are re-derived
# from /repo's source on every run and proved equal to the generated text (lean/SnowProofs/Props/GenTie/)
import gentie  # noqa: E402
THEOREMS = THEOREMS + gentie.theorems("2D")
extra_lean_targets = list(globals().get("extra_lean_targets", [])) + [gentie.module("2D")]
TRUSTED = TRUSTED + ["harness/translate.py formula extraction (single assignments of the run loop -> Lean definitions; "
                     "anything outside its tiny language is a TranslatorError)"]


def regenerate():
    gentie.regenerate("2D")

LEVEL_TEXT_OLD = ("PARTIAL proof. Lean 4 theorems (exact reals): the code's dt implies the CFL inequality; 0D steps (both stages) "
              "stay between T and T_shelf; every cooling-stage assignment of the 1D and of the 2D scheme is a convex "
              "combination of the values it reads (2D: for any reader, so also for the aliased in-place array; r_j >= "
              "dr/2 proved for the code's grid), hence the cooling-stage maximum principle for the repaired and for the "
              "in-place step; 0 <= w_i < w_water, ice iff T < T_eq_l, liquidus relation, no ice before nucleation. NOT "
              "proved: the maximum principle of the solidification stage (variable conductivity, apparent heat capacity) "
              "-- all bounds are additionally evaluated on every reported node and time of real runs inside the "
              "stability range.")



def cases(rng, tier):
    for c in u.standard_cases(tier, core.env_seed()):
        yield c
    # shelf / jacket programs still running (surface warmer than -20 C) during the DEFAULT vacuum window
    # 0.75-0.85 h of the YAML: nothing but the shelf (and jacket) may cool the product
    # (1D runs are cheap whatever the step count; the bounds do not need every step recorded)
    yield u._base("shelf", 0.015, 0.015, 400, 3300, dim="spatial_1D", start=20, stop=-16, rate=0.5)
    if tier != "quick":
        yield u._base("jacket", 0.015, 0.03, 400, 3300, start=20, stop=-16, rate=0.5)
        yield u._base("shelf", 0.02, 0.02, 300, 3400, dim="spatial_1D", start=10, stop=-25, rate=0.2)
    # cooling start exactly at T_eq in a tall vial: nodes that never moved sit exactly at T_m, the mask-multiplied
    # terms of the code give inf*0 = NaN there and the run ends in "Solidification is not completed"; the model
    # mirrors the multiplication (same exception class expected; nothing is reported, so no clause is evaluated)
    yield dict(u._base("shelf", 0.05, 0.1, 400, 5500, start=0.0, stop=-60, rate=0.5), expect_raise="ValueError")
    # homogeneous (0D) model: bounds, ice clauses, no ice before the reported nucleation time
    yield u._base("shelf", 0.01, 0.01, 200, 1500, dim="homogeneous", start=20, stop=-50, rate=0.5)
    yield u._base("shelf", 0.02, 0.02, 400, 2500, dim="homogeneous", start=5, stop=-40, rate=0.2, holds=[[-5, 60]])
    # 0D controlled nucleation with a thermal lag (rate * rho*cp*H/K ~ 16 K) far larger than the targeted supercooling
    yield u._base("shelf", 0.01, 0.01, 50, 6500, dim="homogeneous", start=20, stop=-50, rate=0.02, cn=-5.0)
    yield u._base("shelf", 0.02, 0.02, 100, 9000, dim="homogeneous", start=10, stop=-45, rate=0.02, cn=-3.0,
                  solution={"solid_fraction": 0.1})
    if tier != "quick":
        yield u._base("shelf", 0.01, 0.01, 50, 6000, dim="homogeneous", start=20, stop=-50, rate=0.05,
                      solution={"T_eq": -1.0})
        yield u._base("shelf", 0.01, 0.01, 50, 12000, dim="homogeneous", start=20, stop=-50, rate=0.00833, cn=-5.0)
    # object histories: run, then `S.opcond` replaced / edited, run again -- bounds against the CURRENT programme
    b1 = u._base("shelf", 0.01, 0.04, 1000, 200, dim="spatial_1D")
    b2 = u._base("shelf", 0.01, 0.04, 1000, 200)
    yield dict(b1, kind="history", programs=[dict(rate=0.5, t_tot=300)])                 # nucleates later
    yield dict(b2, kind="history", programs=[dict(rate=0.5, t_tot=300)])
    yield dict(b1, kind="history", programs=[dict(start=2, rate=1, t_tot=200)])           # lower start temperature
    yield dict(b2, kind="history", programs=[dict(start=1, rate=0.7, t_tot=250, holds=[[-10, 5]])])
    if tier != "quick":
        yield dict(u._base("VISF", 0.01, 0.04, 1000, 200, dim="spatial_1D"), kind="history",
                   programs=[dict(rate=0.5, t_tot=300), dict(start=3, rate=0.7, t_tot=260)])
        yield dict(u._base("jacket", 0.015, 0.03, 1000, 350), kind="history",
                   programs=[dict(start=0.5, stop=-70, t_tot=400)])


def _own(case):
    return {k: v for k, v in case.items() if k not in ("expect_raise",)}


def run_impl(case):
    if case.get("kind") != "history" and case.get("expect_raise"):
        return u.observe(_own(case))
    if case.get("kind") == "history":
        base = {k: v for k, v in case.items() if k not in ("kind", "programs", "_corpus")}
        res, last = u.run_history(base, case["programs"])
        if res["raise"]:
            return {"raise": res["raise"], "stage": res.get("stage")}
        n = len(res["time"])
        has = np.nonzero(res["ice"].reshape(n, -1).max(axis=1) > 0)[0]
        # the nucleation row of THIS run: the reported time equals t_nuc (stats, minutes)
        inuc = u.nuc_row(dict(res, stats=[None, None, None, None, float(res["S"]._stats["t_nuc"])]))
        return {"raise": None, "n": n, "bounds": u._bounds_summary(last, res, min(inuc, n)), "history": True,
                "first_ice_row": int(has[0]) if len(has) else None, "inuc": inuc, "last": last}
    return u.observe(case)


def run_model(drv, case):
    if case.get("kind") == "history" or case["dim"] != "spatial_2D":
        return {"skip": True}
    return u.run_model(drv, _own(case))


def compare(case, impl, model):
    if model.get("skip"):
        return []
    return u.compare_runs(impl, model)


def in_stab(case):
    """Biot part of Stab for the cooling stage (the CFL part is implied by the code's dt)"""
    k0 = 0.05 * 0.126 + 0.95 * 0.598
    sol = case.get("solution") or {}
    if sol:
        sf = sol.get("solid_fraction", 0.05)
        k0 = sf * sol.get("lambda_s", 0.126) + (1 - sf) * 0.598
    if case["dim"] == "homogeneous":
        # 0D: dt*A*K <= cp*m, i.e. 0.1*K <= cp*rho*height
        return bool(0.1 * case["K_shelf"] <= 4000.0 * 1000.0 * case["height"])
    dz = case["height"] / 30
    ok = case["K_shelf"] * dz / k0 <= 1
    if case["config"] == "jacket" and case["dim"] == "spatial_2D":
        j = case.get("jacket") or dict(air_gap=1e-3, lambda_air=0.025)
        Kw = 1 / (1 / case["K_shelf"] + j["air_gap"] / j["lambda_air"])
        s = (case["diameter"] / 2) / 15
        ok = ok and Kw * s / k0 <= 1
    return bool(ok)


def _site(case):
    return {"spatial_2D": "_run_2D", "spatial_1D": "_run_1D", "homogeneous": "_run_0D"}[case["dim"]]


def predicates(case, impl):
    out = []
    if impl.get("raise"):
        # expected raises are decided by a rule on the CASE, never by echoing the implementation: the only one in
        # this stream is the start == T_eq tall-vial case (nodes exactly at T_m -> inf*0 = NaN -> "Solidification is
        # not completed"; the 2D model, which mirrors the multiplied masks, must raise the same class -> compare)
        if case.get("expect_raise") and impl["raise"] == case["expect_raise"]:
            return out
        site = _site(impl.get("last") or case) + ("@history" if case.get("kind") == "history" else "")
        return [Failure(clause="total", key=f"raises|{site}|{impl['raise']}",
                        detail=f"the run raises {impl['raise']} ({impl.get('stage')}) on a process that is long enough "
                               f"to nucleate and solidify")]
    if not impl.get("bounds"):
        return [Failure(clause="observation", key=f"observation_broken|{_site(case)}|no-bounds",
                        detail="the run returned but no bounds could be evaluated")]
    if impl.get("history"):
        case = impl["last"]
    site = _site(case)
    cfg = case["config"]
    if impl["bounds"].get("finite") is False:
        # not a question of the stability range: whatever is reported must be finite
        nf = impl.get("nonfinite") or {}
        return [Failure(clause="finite", key=f"finite|{site}|{cfg}",
                        detail=f"{nf.get('count')} reported temperatures / ice fractions are not finite (first reported "
                               f"row {nf.get('first_row')})")]
    b = impl["bounds"]
    tol = 1e-9 * 300

    def fail(clause, detail):
        out.append(Failure(clause=clause, key=f"{clause}|{site}|{cfg}", detail=detail))

    # clauses that need no stability hypothesis
    if not b["finite"]:
        fail("finite", "a reported temperature or ice fraction is not finite")
    if b["ice_min"] < -1e-12:
        fail("ice_range", f"negative ice mass fraction {b['ice_min']:.3e}")
    if b["ice_max_excess"] > 1e-12:
        fail("ice_range", f"ice mass fraction exceeds the water mass fraction by {b['ice_max_excess']:.3e}")
    if b["ice_before_nuc"] > 0:
        fail("no_ice_before_nucleation", f"ice fraction {b['ice_before_nuc']:.3e} reported in a row before the reported "
                                         f"nucleation time")
    if b["ice_at_warm_nodes"] > 0:
        fail("ice_iff_supercooled", f"{b['ice_at_warm_nodes']} reported nodes warmer than T_eq_l carry ice")
    if b["liquidus_residual"] > 1e-9:
        fail("liquidus_relation", f"ice fraction and temperature off the liquidus by {b['liquidus_residual']:.3e}")
    # the maximum-principle bounds are claimed inside the stability range only (Biot numbers <= 1)
    if in_stab(case):
        if b["upper_excess"] > tol:
            fail("upper_bound", f"reported temperature exceeds max(T_0, T_eq_l) by {b['upper_excess']:.3e} K at row "
                                f"{b['upper_row']}")
        if cfg != "VISF" and b["lower_deficit"] > tol:
            fail("lower_bound", f"reported temperature is {b['lower_deficit']:.3e} K below the coldest shelf temperature "
                                f"applied so far at row {b['lower_row']}")
    return out


def classify(case, impl):
    if case.get("expect_raise"):
        return ["start==T_eq", "raise=" + str(impl.get("raise"))]
    if case.get("kind") == "history":
        return ["kind=history", f"dim={case['dim']}"] + (["raise=" + impl["raise"]] if impl.get("raise") else [])
    tags = [f"dim={case['dim']}", f"config={case['config']}", "in-Stab" if in_stab(case) else "outside-Stab(Biot)"]
    if case["dim"] == "homogeneous":
        return tags + (["raise=" + impl["raise"]] if impl.get("raise") else [])
    if impl.get("raise"):
        tags.append("raise=" + impl["raise"])
    return tags


def nontrivial(case, impl):
    return not impl.get("raise")
