"""C16 Vial position groups partition the batch and mean the same everywhere."""
from __future__ import annotations

import itertools
import json

import shim  # noqa: F401
import numpy as np

import core
from core import Failure
from props.c09 import (config_for, coords, geom, max_nbr, other_arr, redeclared_layers, HarnessError, build_pattern,
                       stored_mask, check_arr)

ID = "C16"
LEAN_MODULE = "SnowProofs.Props.C16"
THEOREMS = [
    dict(name="Snow.C16.ext_range", clause="exposure values that occur: square 0..2 (flat) / 0..3 (pallet), hexagonal 0..4 / 0..5", strength="full"),
    dict(name="Snow.C16.groups_partition", clause="every vial is in exactly one of corner / edge / side (pallet, square only) / core", strength="full"),
    dict(name="Snow.C16.side_is_edge", clause="'side' is a synonym of 'edge' on a flat shelf and in hexagonal packing; 'center' of 'core'", strength="full"),
    dict(name="Snow.C16.all_is_union", clause="'all' selects every vial and is the union of the classes", strength="full"),
    dict(name="Snow.C16.class_is_exposure_level", clause="a class contains exactly the vials with the corresponding number of exposed faces", strength="full"),
    dict(name="Snow.C16.union_of_groups", clause="a list of group names selects the union of the named classes", strength="full"),
    dict(name="Snow.C16.labels_agree", clause="the table label is the name of a class that contains the vial, and the vial is in the class named g iff g and the label are the same class up to the synonyms (its first conjunct, statistics label = trajectory label, is between two statement lists that are identical after fix F7; see labels_closed_form)", strength="full"),
    dict(name="Snow.C16.labels_closed_form", clause="both label computations of to_frame (two separately transcribed lists of df.loc assignments applied in order) equal the first-match closed form for EVERY exposure value (the hexagonal 'side' assignment never fires) and hence each other", strength="full"),
    dict(name="Snow.C16.fall_filter_agrees", clause="Snowfall's group filter (rows whose vial index is in the getVialGroup mask) keeps exactly the rows whose table label is one of the requested classes up to the synonyms, for all shapes with n_x, n_y >= 2", strength="full"),
    dict(name="Snow.C16.store_group_agrees", clause="a storeStates group request records exactly getVialGroup(group)", strength="full"),
    dict(name="Snow.C16.store_thinning_in_group", clause="uniform thinning of a group request records only vials of the named group (content); the random half restates numpy's choice contract (choice taken from the group) — by construction, the fact about the code rests on the recorded choices of the correspondence check", strength="full"),
    dict(name="Snow.C16.trajLabel_upstream_counterexample", clause="before fix F7 the trajectory table labels a flat-shelf core vial 'side'", strength="refutation-of-old-code"),
    dict(name="Snow.C16.fallFilter_upstream_counterexample", clause="before fix K5 Snowfall's filter 'side' is empty on a 3x3x1 shelf while getVialGroup('side') is the edge set", strength="refutation-of-old-code"),
    dict(name="Snow.C16.nonvacuous", clause="hypotheses are satisfiable; all four classes are inhabited in a 3x3x3 pallet", strength="nonvacuity"),
]
TRUSTED = [
    "Lean 4.33 kernel; axioms per theorem listed under coverage.axioms",
    "hand-written model SnowModel/Groups.lean (on top of Topology.lean) tied to getVialGroup / to_frame / Snowfall "
    "filter / storeStates by a comparison that is exhaustive over the stated box of shapes",
    "pandas DataFrame.loc assignment, melt and isin as observed through the produced tables",
]
ASSUMPTIONS = [
    "the property's side condition 'at least two vials along each populated direction' is read as n_x >= 2 and "
    "n_y >= 2 (n_z = 1 or n_z >= 2); the model/implementation comparison is run for every shape, the property "
    "clauses only under the side condition",
    "Snowfall filter queries are the bare string for one name and a list for several names",
]
RULE = ("EXHAUSTIVE over shapes: every shape n_x, n_y <= 7, n_z <= 4 (quick) / <= 12, <= 5 (thorough), both "
        "arrangements, x five code paths (getVialGroup for every single name, EVERY subset of the six names with two or "
        "more elements in rotated order, lists with duplicates and an unknown name; the same three- and four-name "
        "combinations as storeStates lists, through Snowflake.nucleationTimes(group=...) and through the Snowfall filters; statistics "
        "table and trajectory table of a short real run; Snowfall accessors with group=...; storeStates group "
        "requests, plain and thinned with uniform / random inside every group, with the trajectory-table labels of the "
        "recorded subset; index-list requests in non-ascending order with the data of each trajectory row identified "
        "against the same-seed full recording; every group name queried twice, the first result overwritten in between, "
        "on objects built with 'all', with index lists and with thinning requests; and an object history that "
        "re-points configPath to the other arrangement (same shape) after queries and tables, and one that re-declares "
        "N_vials across the shelf <-> pallet boundary, each compared with the model and the oracle of the final "
        "configuration; the group column of Snowfall.to_frame against classes and filters); non-trivial when n_x, n_y >= 2; distinct by the JSON form of the case (corpus cases repeat box shapes)")
EXPLANATION = ("Lean theorems for all shapes with n_x, n_y >= 2 about the group model + exhaustive comparison of the "
               "five code paths with the model over a box of shapes")
PARALLEL = True

NAMES = ["corner", "edge", "core", "side", "all", "center"]
QUERIES = [[n] for n in NAMES] + [["corner", "edge"], ["edge", "core"], ["side", "core", "corner"],
                                  ["corner", "all"], ["all", "foo"], ["foo"], ["corner", "foo"], ["Corner"], []]


def _combos():
    """every subset of the six names with two or more elements, listed in a rotated order (so that no position is
    special), plus lists with duplicates"""
    out = []
    for r in range(2, len(NAMES) + 1):
        for k, c in enumerate(itertools.combinations(NAMES, r)):
            c = list(c)
            rot = k % r
            out.append(c[rot:] + c[:rot])
    out += [["corner", "edge", "corner"], ["core", "core"], ["side", "edge", "side", "corner", "edge"],
            ["core", "edge", "corner"], ["edge", "core", "corner", "center"]]
    return out


COMBOS = _combos()
QUERIES = QUERIES + [c for c in COMBOS if c not in QUERIES]
# combinations asked through the other code paths (Snowflake statistics accessor, Snowfall filters, storeStates lists)
PATH_COMBOS = [["corner", "edge", "core"], ["core", "edge", "corner"], ["corner", "edge", "core", "side"],
               ["side", "core", "corner", "edge"], ["edge", "edge", "corner"], ["center", "core", "side"],
               ["corner", "edge", "core", "center"], ["edge", "side"]]
# recording requests that thin a group: the recorded vials must stay inside the named group
THIN = [f"uniform.{g}.2" for g in ("corner", "edge", "core", "side", "center")] + \
       [f"{g}_uniform_3" for g in ("edge", "core")] + \
       [f"{g}_random_1" for g in ("corner", "edge", "core", "side")] + ["edge_random_2", "all_uniform_3"]
THIN_LABELLED = ("uniform.corner.2", "uniform.edge.2", "uniform.core.2", "uniform.side.2", "edge_uniform_3",
                 "corner_random_1", "edge_random_2")
THIN_QUERIED = ("uniform.edge.2", "corner_random_1", "all_uniform_3")
FALL_QUERIES = [[n] for n in NAMES] + [["corner", "edge"], ["side", "core"], ["corner", "all"]] + PATH_COMBOS


def _lab(v):
    if isinstance(v, str):
        return v
    v = float(v)
    return int(v) if v == int(v) else v


def _opcond():
    from ethz_snow.operatingConditions import OperatingConditions

    return OperatingConditions(t_tot=20, cooling={"rate": 0.5, "start": 20, "end": -50})


def _q(q):
    return json.dumps(q)


def _requery(S):
    """every group name queried, the returned array overwritten, and queried again:
    {name: [first mask, mask after the caller mutated the first result]}"""
    out = {}
    for g in NAMES:
        try:
            first = S.getVialGroup(g)
            keep = [int(i) for i in np.where(first)[0]]
            try:
                first[:] = ~first
            except HarnessError:
                raise
            except Exception:
                pass
            out[g] = [keep, [int(i) for i in np.where(S.getVialGroup(g))[0]]]
        except HarnessError:
            raise
        except Exception as e:
            out[g] = {"raise": core.exc_class(e)}
    return out


def int_subsets(N):
    """recorded index lists in non-ascending order, mixing position classes"""
    a = [N - 1, 0, N // 2, 1, (2 * N) // 3]
    seen, sel = set(), []
    for v in a:
        if 0 <= v < N and v not in seen:
            seen.add(v)
            sel.append(v)
    out = [sel]
    rev = list(range(min(N, 7) - 1, -1, -1))
    if rev != sel:
        out.append(rev)
    return out


def run_impl(case):
    from ethz_snow.snowflake import Snowflake
    from ethz_snow.snowfall import Snowfall

    arr, nx, ny, nz = case["arr"], case["nx"], case["ny"], case["nz"]
    N = nx * ny * nz
    kw = dict(k={"int": 20, "ext": 20, "s0": 20}, N_vials=(nx, ny, nz), opcond=_opcond(), dt=10,
              configPath=config_for(arr))
    obs = {"raise": None}
    try:
        S = Snowflake(storeStates="all", **kw)
        check_arr(S, arr)
        # exposure through the public accessor: H_ext = VIAL_EXT * k_ext * A
        obs["ext"] = [_lab(round(float(h) / (20 * float(S.const["A"])), 9)) for h in np.asarray(S.H_ext).ravel()]
    except HarnessError:
        raise
    except Exception as e:
        return {"raise": core.exc_class(e), "stage": "init"}
    # 1. group queries
    masks = {}
    for q in QUERIES:
        try:
            arg = q[0] if len(q) == 1 else q
            m = S.getVialGroup(arg)
            masks[_q(q)] = [int(i) for i in np.where(m)[0]]
        except HarnessError:
            raise
        except Exception as e:
            masks[_q(q)] = {"raise": core.exc_class(e)}
    obs["masks"] = masks
    obs["requery"] = _requery(S)
    # 2. tables of a short real run
    try:
        S.run()
        stats_df, traj_df = S.to_frame(n_timeSteps=2)
        d = stats_df[stats_df.variable == "t_nucleation"].sort_values("vial")
        obs["statsLabels"] = [_lab(v) for v in d["group"].tolist()]
        obs["statsVials"] = [int(v) for v in d["vial"].tolist()]
        t0 = traj_df["Time"].min()
        d = traj_df[(traj_df.state == "temperature") & (traj_df.Time == t0)].sort_values("vial")
        obs["trajLabels"] = [_lab(v) for v in d["group"].tolist()]
        obs["trajVials"] = [int(v) for v in d["vial"].tolist()]
        d2 = traj_df[(traj_df.state == "sigma") & (traj_df.Time == t0)].sort_values("vial")
        obs["trajLabelsSigma"] = [_lab(v) for v in d2["group"].tolist()]
        # recorded index lists in the user's (unsorted) order: rows of the trajectory table in table order,
        # each with its label and with the vial of the same-seed 'all' run whose data it holds
        XT = np.array(S.X_T)
        subs = []
        for sel in int_subsets(N):
            rec = {"sel": sel}
            try:
                S4 = Snowflake(storeStates=list(sel), **kw)
                S4.run()
                _, tdf = S4.to_frame()
                d = tdf[tdf.state == "temperature"]
                rows = d.pivot_table(index=["vial", "group"], columns="Time", values="value", sort=False)
                rec["vials"] = [int(v) for v, _ in rows.index]
                rec["labels"] = [_lab(g) for _, g in rows.index]
                rec["data_ok"] = [bool(int(v) < N and np.array_equal(np.asarray(r), XT[int(v), :]))
                                  for (v, _), r in zip(rows.index, rows.to_numpy())]
                rec["mask"] = [int(i) for i in np.where(stored_mask(S4))[0]]
                if sel is int_subsets(N)[0] or len(subs) == 0:
                    rec["requery"] = _requery(S4)
            except HarnessError:
                raise
            except Exception as e:
                rec["raise"] = core.exc_class(e)
            subs.append(rec)
        obs["subsets"] = subs
    except HarnessError:
        raise
    except Exception as e:
        obs["tables"] = {"raise": core.exc_class(e)}
    # 3. Snowfall filters. To see WHICH rows an accessor returns, every repetition's nucleation times are made to
    #    carry the vial index: the public Snowflake.run is wrapped for the duration of Snowfall.run so that the run
    #    itself produces the tagged statistics (whether the table is built lazily or at the end of run() is the
    #    code's business); the accessors are then compared with what the run produced (SF.stats)
    fall = {}
    try:
        SF = Snowfall(Nrep=2, pool_size=1, **kw)
        real_run = Snowflake.run

        def tagged_run(self):
            real_run(self)
            self.stats["t_nucleation"] = 1000.0 * self.seed + np.arange(self.N_vials_total, dtype=float)

        Snowflake.run = tagged_run
        try:
            SF.run(how="sequential")
        finally:
            Snowflake.run = real_run
        produced = np.asarray(SF.stats[1]["t_nucleation"], dtype=float)
        if not np.array_equal(produced, 1000.0 + np.arange(N)):
            raise HarnessError("Snowfall.run(how='sequential') did not run the wrapped Snowflake.run for seed 1")
        for q in FALL_QUERIES:
            try:
                arg = q[0] if len(q) == 1 else q
                v = SF.nucleationTimes(group=arg, seed=1)
                fall[_q(q)] = sorted(int(x - 1000) for x in v)
            except HarnessError:
                raise
            except Exception as e:
                fall[_q(q)] = {"raise": core.exc_class(e)}
        labs = SF.to_frame()
        d = labs[(labs.variable == "t_nucleation") & (labs.seed == 1)].sort_values("vial")
        obs["fallLabels"] = [_lab(v) for v in d["group"].tolist()]
    except HarnessError:
        raise
    except Exception as e:
        fall = {"raise": core.exc_class(e)}
    obs["fall"] = fall
    # 4. storeStates group requests
    store = {}
    for g in NAMES:
        try:
            S2 = Snowflake(storeStates=g, **kw)
            store[g] = [int(i) for i in np.where(stored_mask(S2))[0]]
        except HarnessError:
            raise
        except Exception as e:
            store[g] = {"raise": core.exc_class(e)}
    obs["store"] = store
    # 4b. the same combinations as a storeStates list and through the Snowflake statistics accessor (which reads
    #     the public `stats` attribute at call time: nucleation times set to the vial index show the selected vials)
    storel, statq = {}, {}
    for q in PATH_COMBOS:
        try:
            S2 = Snowflake(storeStates=list(q), **kw)
            storel[_q(q)] = [int(i) for i in np.where(stored_mask(S2))[0]]
        except HarnessError:
            raise
        except Exception as e:
            storel[_q(q)] = {"raise": core.exc_class(e)}
    obs["storeLists"] = storel
    try:
        S8 = Snowflake(storeStates=None, **kw)
        S8.run()
        S8.stats["t_nucleation"] = np.arange(N, dtype=float)
        for q in PATH_COMBOS + [[n] for n in NAMES]:
            try:
                statq[_q(q)] = sorted(int(v) for v in S8.nucleationTimes(group=(q[0] if len(q) == 1 else list(q))))
            except HarnessError:
                raise
            except Exception as e:
                statq[_q(q)] = {"raise": core.exc_class(e)}
    except HarnessError:
        raise
    except Exception as e:
        statq = {"raise": core.exc_class(e)}
    obs["statQueries"] = statq
    # 5. thinning inside a group (uniform / random); the trajectory table of a short run must carry the group's label
    from props.c18 import _recording

    thin = {}
    for sp in THIN:
        log = []
        try:
            with _recording(log):
                S3 = Snowflake(storeStates=sp, **kw)
            rec = {"mask": [int(i) for i in np.where(stored_mask(S3))[0]], "choices": [c["out"] for c in log]}
            if sp in THIN_QUERIED:
                # the object built WITH a thinning request must answer group queries like any other
                rec["requery"] = _requery(S3)
                S3.run()
                sdf, _ = S3.to_frame(n_timeSteps=2)
                dd = sdf[sdf.variable == "t_nucleation"].sort_values("vial")
                rec["statsLabels"] = [_lab(v) for v in dd["group"].tolist()]
            if rec["mask"] and sp in THIN_LABELLED:
                S3.run()
                _, tdf = S3.to_frame(n_timeSteps=2)
                t0 = tdf["Time"].min()
                d = tdf[(tdf.state == "temperature") & (tdf.Time == t0)].sort_values("vial")
                rec["labels"] = [_lab(v) for v in d["group"].tolist()]
                rec["vials"] = [int(v) for v in d["vial"].tolist()]
            thin[sp] = rec
        except HarnessError:
            raise
        except Exception as e:
            thin[sp] = {"raise": core.exc_class(e), "choices": [c["out"] for c in log]}
    obs["thin"] = thin
    # 6. object history: every name queried and the tables made under the case's arrangement, then configPath
    #    re-pointed to the OTHER arrangement (same shape) and everything asked again
    oth = other_arr(arr)
    sw = {"arr": oth}
    try:
        S6 = Snowflake(storeStates="all", **kw)
        _requery(S6)
        S6.run()
        S6.to_frame(n_timeSteps=2)
        S6.configPath = config_for(oth)
        check_arr(S6, oth)
        _, E6 = build_pattern(S6)
        sw["ext"] = [_lab(e) for e in np.asarray(E6).ravel()]
        sw["requery"] = _requery(S6)
        sw["masks"] = {}
        for q in QUERIES[6:9]:
            sw["masks"][_q(q)] = [int(i) for i in np.where(S6.getVialGroup(q))[0]]
        S6.run()
        sdf, tdf = S6.to_frame(n_timeSteps=2)
        d = sdf[sdf.variable == "t_nucleation"].sort_values("vial")
        sw["statsLabels"] = [_lab(v) for v in d["group"].tolist()]
        t0 = tdf["Time"].min()
        d = tdf[(tdf.state == "temperature") & (tdf.Time == t0)].sort_values("vial")
        sw["trajLabels"] = [_lab(v) for v in d["group"].tolist()]
    except HarnessError:
        raise
    except Exception as e:
        sw["raise"] = core.exc_class(e)
    obs["switched"] = sw
    # 7. object history across the shelf <-> pallet boundary: built and queried for the case's shape, then N_vials
    #    re-declared to (n_x, n_y, n_z') with n_z 1 -> 2|3 or n_z > 1 -> 1; exposure, every group query and the
    #    statistics-table labels must be those of the final shape
    new, _ = redeclared_layers(case)
    ly = {"shape": list(new)}
    try:
        S7 = Snowflake(storeStates=None, **kw)
        _requery(S7)
        S7.H_ext
        S7.N_vials = new
        _, E7 = build_pattern(S7)
        ly["ext"] = [_lab(e) for e in np.asarray(E7).ravel()]
        ly["hext_ok"] = bool(np.array_equal(np.asarray(S7.H_ext).ravel(),
                                            np.asarray(E7).ravel() * S7.k["ext"] * S7.const["A"]))
        ly["requery"] = _requery(S7)
        S7.run()
        sdf, _ = S7.to_frame(n_timeSteps=2)
        d = sdf[sdf.variable == "t_nucleation"].sort_values("vial")
        ly["statsLabels"] = [_lab(v) for v in d["group"].tolist()]
    except HarnessError:
        raise
    except Exception as e:
        ly["raise"] = core.exc_class(e)
    obs["layers"] = ly
    return obs


def run_model(drv, case, impl):
    sh = {"arr": case["arr"], "nx": case["nx"], "ny": case["ny"], "nz": case["nz"]}
    r = drv.call(dict(op="groups", queries=QUERIES, **sh))
    if "error" in r:
        raise RuntimeError(r["error"])
    out = {"raise": None, "ext": r["ext"], "statsLabels": r["statsLabels"], "trajLabels": r["trajLabels"],
           "masks": {_q(q): m for q, m in zip(QUERIES, r["masks"])}}
    r2 = drv.call(dict(op="groups", queries=FALL_QUERIES, **sh))
    if "error" in r2:
        raise RuntimeError(r2["error"])
    out["fall"] = {_q(q): m for q, m in zip(FALL_QUERIES, r2["fall"])}
    store = {}
    for g in NAMES:
        r3 = drv.call(dict(op="store", kind="str", str=g, **sh))
        if "error" in r3:
            raise RuntimeError(r3["error"])
        store[g] = {"raise": r3["raise"]} if "raise" in r3 else r3["mask"]
    out["store"] = store
    storel = {}
    for q in PATH_COMBOS:
        r3 = drv.call(dict(op="store", kind="strs", strs=q, **sh))
        if "error" in r3:
            raise RuntimeError(r3["error"])
        storel[_q(q)] = {"raise": r3["raise"]} if "raise" in r3 else r3["mask"]
    out["storeLists"] = storel
    thin = {}
    for sp in THIN:
        ch = (impl.get("thin") or {}).get(sp, {}).get("choices", [])
        r4 = drv.call(dict(op="store", kind="str", str=sp, choices=ch, **sh))
        if "error" in r4:
            raise RuntimeError(r4["error"])
        thin[sp] = {"raise": r4["raise"]} if "raise" in r4 else {"mask": r4["mask"]}
    out["thin"] = thin
    sh2 = dict(sh, arr=other_arr(case["arr"]))
    r5 = drv.call(dict(op="groups", queries=QUERIES, **sh2))
    if "error" in r5:
        raise RuntimeError(r5["error"])
    out["switched"] = {"ext": r5["ext"], "statsLabels": r5["statsLabels"], "trajLabels": r5["trajLabels"],
                       "masks": {_q(q): m for q, m in zip(QUERIES, r5["masks"])}}
    new, _ = redeclared_layers(case)
    r6 = drv.call(dict(op="groups", queries=QUERIES, arr=case["arr"], nx=new[0], ny=new[1], nz=new[2]))
    if "error" in r6:
        raise RuntimeError(r6["error"])
    out["layers"] = {"ext": r6["ext"], "statsLabels": r6["statsLabels"],
                     "masks": {_q(q): m for q, m in zip(QUERIES, r6["masks"])}}
    return out


def compare(case, impl, model):
    dis = []
    if impl.get("raise"):
        dis.append(f"implementation raises {impl['raise']} at {impl.get('stage')}; the model has no exception here")
        return dis
    if impl["ext"] != model["ext"]:
        dis.append("VIAL_EXT differs (see C09)")
    for q, m in model["masks"].items():
        if impl["masks"].get(q) != m:
            dis.append(f"getVialGroup({q}): impl {impl['masks'].get(q)} vs model {m}")
    if "tables" in impl:
        dis.append(f"to_frame raises {impl['tables']['raise']}")
    else:
        N = len(model["ext"])
        if impl["statsVials"] != list(range(N)) or impl["trajVials"] != list(range(N)):
            dis.append("vial column of the tables is not 0..N-1")
        if impl["statsLabels"] != model["statsLabels"]:
            k = next(i for i, (a, b) in enumerate(zip(impl["statsLabels"], model["statsLabels"])) if a != b)
            dis.append(f"statistics-table label of vial {k}: impl {impl['statsLabels'][k]!r} vs model {model['statsLabels'][k]!r}")
        for name in ("trajLabels", "trajLabelsSigma"):
            if impl[name] != model["trajLabels"]:
                k = next(i for i, (a, b) in enumerate(zip(impl[name], model["trajLabels"])) if a != b)
                dis.append(f"trajectory-table label ({name}) of vial {k}: impl {impl[name][k]!r} vs model {model['trajLabels'][k]!r}")
    if isinstance(impl["fall"], dict) and "raise" in impl["fall"]:
        dis.append(f"Snowfall run/to_frame raises {impl['fall']['raise']}")
    else:
        for q, m in model["fall"].items():
            if impl["fall"].get(q) != m:
                dis.append(f"Snowfall.nucleationTimes(group={q}): impl rows {impl['fall'].get(q)} vs model {m}")
        if impl.get("fallLabels") != model["statsLabels"]:
            dis.append("group column of Snowfall.to_frame differs from the model's statistics label")
    for g, m in model["store"].items():
        if impl["store"].get(g) != m:
            dis.append(f"storeStates={g!r}: impl {impl['store'].get(g)} vs model {m}")
    for q, m in model["storeLists"].items():
        if impl.get("storeLists", {}).get(q) != m:
            dis.append(f"storeStates={q}: impl {impl.get('storeLists', {}).get(q)} vs model {m}")
    sq = impl.get("statQueries", {})
    if "raise" in sq:
        dis.append(f"Snowflake.run / nucleationTimes raises {sq['raise']}")
    else:
        for q, got in sq.items():
            if got != model["masks"].get(q, model["fall"].get(q)):
                dis.append(f"Snowflake.nucleationTimes(group={q}): impl vials {got} vs model "
                           f"{model['masks'].get(q, model['fall'].get(q))}")
    single = {g: model["masks"][_q([g])] for g in NAMES}

    def requery_dis(tag, rq):
        for g in NAMES:
            if rq.get(g) != [single[g], single[g]]:
                dis.append(f"{tag}: getVialGroup({g!r}) twice (result overwritten in between): impl {rq.get(g)} "
                           f"vs model {single[g]} both times")
                return

    if "requery" in impl:
        requery_dis("storeStates='all' object", impl["requery"])
    for rec in impl.get("subsets", []):
        if "raise" in rec:
            dis.append(f"storeStates={rec['sel']}: run/to_frame raises {rec['raise']}")
            continue
        want_v = sorted(rec["sel"])
        if rec["mask"] != want_v or rec["vials"] != want_v:
            dis.append(f"storeStates={rec['sel']}: trajectory-table vial column {rec['vials']} (mask {rec['mask']}) "
                       f"vs model {want_v}")
        elif rec["labels"] != [model["trajLabels"][v] for v in want_v]:
            dis.append(f"storeStates={rec['sel']}: trajectory-table labels {rec['labels']} vs model "
                       f"{[model['trajLabels'][v] for v in want_v]}")
        if "requery" in rec:
            requery_dis(f"storeStates={rec['sel']} object", rec["requery"])
    sw, msw = impl.get("switched"), model.get("switched")
    if sw is not None and msw is not None:
        tag = f"object re-pointed to the {sw['arr']} arrangement after queries and tables"
        if "raise" in sw:
            dis.append(f"{tag}: raises {sw['raise']}")
        else:
            if sw["ext"] != msw["ext"]:
                dis.append(f"{tag}: VIAL_EXT is not that of the final arrangement")
            for g in NAMES:
                mg = msw["masks"][_q([g])]
                if sw["requery"].get(g) != [mg, mg]:
                    dis.append(f"{tag}: getVialGroup({g!r}) twice: impl {sw['requery'].get(g)} vs model {mg}")
                    break
            for q, m in sw["masks"].items():
                if m != msw["masks"][q]:
                    dis.append(f"{tag}: getVialGroup({q}): impl {m} vs model {msw['masks'][q]}")
            if sw["statsLabels"] != msw["statsLabels"] or sw["trajLabels"] != msw["trajLabels"]:
                dis.append(f"{tag}: table labels are not those of the final arrangement")
    ly, mly = impl.get("layers"), model.get("layers")
    if ly is not None and mly is not None:
        tag = f"object re-declared to N_vials = {tuple(ly['shape'])} after queries"
        if "raise" in ly:
            dis.append(f"{tag}: raises {ly['raise']}")
        else:
            if ly["ext"] != mly["ext"] or not ly["hext_ok"]:
                dis.append(f"{tag}: VIAL_EXT / H_ext are not those of the final shape")
            for g in NAMES:
                mg = mly["masks"][_q([g])]
                if ly["requery"].get(g) != [mg, mg]:
                    dis.append(f"{tag}: getVialGroup({g!r}) twice: impl {ly['requery'].get(g)} vs model {mg}")
                    break
            if ly["statsLabels"] != mly["statsLabels"]:
                dis.append(f"{tag}: statistics-table labels are not those of the final shape")
    for sp, m in model["thin"].items():
        a = impl["thin"].get(sp, {})
        if a.get("raise") != m.get("raise") or a.get("mask") != m.get("mask"):
            dis.append(f"storeStates={sp!r}: impl {a.get('raise') or a.get('mask')} vs model {m.get('raise') or m.get('mask')}")
        if "requery" in a:
            requery_dis(f"storeStates={sp!r} object", a["requery"])
            if a.get("statsLabels") != model["statsLabels"]:
                dis.append(f"storeStates={sp!r} object: statistics-table labels differ from the model")
    return dis


# ---------------------------------------------------------------------------
# the property itself, evaluated on the implementation's output
# ---------------------------------------------------------------------------
import functools


@functools.lru_cache(maxsize=None)
def expo_oracle(arr, nx, ny, nz):
    """exposed faces of every vial from the geometric neighbour relation (all pairs), cached per configuration"""
    N = nx * ny * nz
    co = [coords(i, nx, ny) for i in range(N)]
    mx = max_nbr(arr, nz)
    return tuple(mx - sum(1 for j in range(N) if j != i and geom(arr, co[i], co[j])) for i in range(N))


def oracle_class(arr, nz, e):
    """class from the number of exposed faces (independent of the code)"""
    flat = nz == 1
    if arr == "square":
        table = {2: "corner", 1: "edge", 0: "core"} if flat else {3: "corner", 2: "edge", 1: "side", 0: "core"}
        return table.get(e)
    top = 4 if flat else 5
    if e == top:
        return "corner"
    if e == 0:
        return "core"
    return "edge" if 0 < e < top else None


def canon(arr, nz, g):
    if g == "center":
        return "core"
    if g == "side" and (arr != "square" or nz == 1):
        return "edge"
    return g


def shape_class(case):
    return "%s,%s" % (case["arr"], "flat" if case["nz"] == 1 else "pallet")


def predicates(case, impl):
    out = []
    arr, nx, ny, nz = case["arr"], case["nx"], case["ny"], case["nz"]
    if nx < 2 or ny < 2:
        return out
    sc = shape_class(case)
    where = f"{arr} {nx}x{ny}x{nz}"
    if impl.get("raise"):
        out.append(Failure(clause="total", key=f"raises|{impl.get('stage')}|{sc}|{impl['raise']}",
                           detail=f"{where}: raises {impl['raise']}"))
        return out
    N = nx * ny * nz
    co = [coords(i, nx, ny) for i in range(N)]
    expo = list(expo_oracle(arr, nx, ny, nz))
    cls = [oracle_class(arr, nz, e) for e in expo]
    if any(c is None for c in cls):
        i = cls.index(None)
        out.append(Failure(clause="ext_range", key=f"ext_range|oracle|{sc}",
                           detail=f"{where}: vial {i} has {expo[i]} exposed faces, outside the classes"))
        return out
    want = {g: [i for i in range(N) if cls[i] == canon(arr, nz, g)] for g in ("corner", "edge", "side", "core", "center")}
    want["all"] = list(range(N))

    def m(q):
        return impl["masks"].get(_q(q))

    # partition + class = exposure level set
    for g in NAMES:
        got = m([g])
        if got != want[g]:
            out.append(Failure(clause="class_is_exposure_level", key=f"class_is_exposure_level|getVialGroup|{g},{sc}",
                               detail=f"{where}: getVialGroup({g!r}) = {got}, vials with that exposure: {want[g]}"))
    classes = ["corner", "edge", "core"] + (["side"] if arr == "square" and nz > 1 else [])
    cnt = [0] * N
    for g in classes:
        for i in (m([g]) if isinstance(m([g]), list) else []):
            cnt[i] += 1
    if any(c != 1 for c in cnt):
        i = next(i for i, c in enumerate(cnt) if c != 1)
        out.append(Failure(clause="groups_partition", key=f"groups_partition|getVialGroup|{sc}",
                           detail=f"{where}: vial {i} is in {cnt[i]} classes"))
    for q in QUERIES:
        if all(g in NAMES for g in q) and q:
            u = sorted(set(i for g in q for i in want[g]))
            if m(q) != u:
                out.append(Failure(clause="union_of_groups", key=f"union_of_groups|getVialGroup|{sc}",
                                   detail=f"{where}: getVialGroup({q}) = {m(q)} ({len(m(q)) if isinstance(m(q), list) else '-'} "
                                          f"vials), union of the classes: {u} ({len(u)} vials)"))
                break
    for site, table in (("storeStates-list", impl.get("storeLists", {})), ("Snowflake.nucleationTimes", impl.get("statQueries", {}))):
        if "raise" in table:
            out.append(Failure(clause="union_of_groups", key=f"union_of_groups|{site}|raises {table['raise']},{sc}",
                               detail=f"{where}: {site} raises {table['raise']}"))
            continue
        for qs, got in table.items():
            q = json.loads(qs)
            u = sorted(set(i for g in q for i in want[g]))
            if got != u:
                out.append(Failure(clause="union_of_groups", key=f"union_of_groups|{site}|{sc}",
                                   detail=f"{where}: {site} with {q} gives vials {got}; the union of the classes, each vial "
                                          f"once, is {u}"))
                break
    # labels
    if "tables" in impl:
        out.append(Failure(clause="labels_agree", key=f"labels_agree|to_frame|raises {impl['tables']['raise']}",
                           detail=f"{where}: to_frame raises {impl['tables']['raise']}"))
    else:
        for tab, site in (("statsLabels", "to_frame.stats"), ("trajLabels", "to_frame.traj"),
                          ("trajLabelsSigma", "to_frame.traj")):
            labs = impl[tab]
            for i in range(N):
                lab = labs[i] if i < len(labs) else None
                if not isinstance(lab, str) or canon(arr, nz, lab) != cls[i]:
                    out.append(Failure(clause="labels_agree", key=f"labels_agree|{site}|{cls[i]},{sc}",
                                       detail=f"{where}: vial {i}{co[i]} ({expo[i]} exposed faces, class {cls[i]}) is "
                                              f"labelled {lab!r} in {tab}"))
                    break
    # Snowfall filters
    fall = impl["fall"]
    if isinstance(fall, dict) and "raise" in fall:
        out.append(Failure(clause="fall_filter_agrees", key=f"fall_filter_agrees|Snowfall|raises {fall['raise']}",
                           detail=f"{where}: Snowfall run/to_frame raises {fall['raise']}"))
    else:
        for q in FALL_QUERIES:
            u = sorted(set(i for g in q for i in want[g]))
            got = fall.get(_q(q))
            if got != u:
                out.append(Failure(clause="fall_filter_agrees",
                                   key=f"fall_filter_agrees|Snowfall._returnStats|{'+'.join(q)},{sc}",
                                   detail=f"{where}: Snowfall.nucleationTimes(group={q if len(q) > 1 else q[0]!r}) keeps "
                                          f"vials {got}, getVialGroup gives {u}"))
    for g in NAMES:
        if impl["store"].get(g) != want[g]:
            out.append(Failure(clause="store_group_agrees", key=f"store_group_agrees|storeStates|{g},{sc}",
                               detail=f"{where}: storeStates={g!r} records {impl['store'].get(g)}, class is {want[g]}"))
    # the same classes on every object and on every call: objects built with 'all', with index lists and with
    # thinning requests; each name asked twice with the first result overwritten by the caller in between
    objs = [("storeStates='all'", impl.get("requery"), None)]
    objs += [(f"storeStates={r['sel']}", r.get("requery"), None) for r in impl.get("subsets", [])]
    objs += [(f"storeStates={sp!r}", r.get("requery"), r.get("statsLabels")) for sp, r in impl.get("thin", {}).items()]
    for tag, rq, labs in objs:
        if rq is None:
            continue
        for g in NAMES:
            if rq.get(g) != [want[g], want[g]]:
                cl = "first-call" if not isinstance(rq.get(g), list) or rq[g][0] != want[g] else "repeated-call"
                out.append(Failure(clause="groups_same_on_every_object",
                                   key=f"groups_same_on_every_object|getVialGroup|{cl},{sc}",
                                   detail=f"{where}, object with {tag}: getVialGroup({g!r}) = {rq.get(g)} (first call, call "
                                          f"after the first result was overwritten); the class is {want[g]}"))
                break
        if labs is not None and [canon(arr, nz, l) if isinstance(l, str) else l for l in labs] != cls:
            out.append(Failure(clause="labels_agree", key=f"labels_agree|to_frame.stats|thinned-object,{sc}",
                               detail=f"{where}, object with {tag}: statistics-table labels {labs}"))
    # object history with an arrangement switch: classes, queries and labels of the FINAL configuration
    sw = impl.get("switched")
    if sw is not None:
        oth = sw["arr"]
        tag = f"{where} object re-pointed to the {oth} arrangement (configPath) after queries and tables"
        if "raise" in sw:
            out.append(Failure(clause="groups_same_on_every_object", key=f"groups_same_on_every_object|configPath|raises {sw['raise']}",
                               detail=f"{tag}: raises {sw['raise']}"))
        else:
            expo2 = list(expo_oracle(oth, nx, ny, nz))
            cls2 = [oracle_class(oth, nz, e) for e in expo2]
            if all(c is not None for c in cls2):
                want2 = {g: [i for i in range(N) if cls2[i] == canon(oth, nz, g)] for g in ("corner", "edge", "side", "core", "center")}
                want2["all"] = list(range(N))
                sc2 = "%s,%s" % (oth, "flat" if nz == 1 else "pallet")
                for g in NAMES:
                    if sw["requery"].get(g) != [want2[g], want2[g]]:
                        out.append(Failure(clause="groups_same_on_every_object",
                                           key=f"groups_same_on_every_object|configPath|switched,{sc2}",
                                           detail=f"{tag}: getVialGroup({g!r}) = {sw['requery'].get(g)}; the class in the "
                                                  f"{oth} arrangement is {want2[g]}"))
                        break
                for tab in ("statsLabels", "trajLabels"):
                    labs = sw[tab]
                    if [canon(oth, nz, l) if isinstance(l, str) else l for l in labs] != cls2:
                        out.append(Failure(clause="labels_agree", key=f"labels_agree|configPath|switched,{tab},{sc2}",
                                           detail=f"{tag}: {tab} = {labs}; classes {cls2}"))
    # object history across the shelf <-> pallet boundary: exposure, classes and labels of the FINAL shape
    ly = impl.get("layers")
    if ly is not None:
        nx2, ny2, nz2 = ly["shape"]
        N2 = nx2 * ny2 * nz2
        tag = f"{where} object re-declared to N_vials = ({nx2}, {ny2}, {nz2}) after queries"
        sc2 = "%s,%s->%s" % (arr, "flat" if nz == 1 else "pallet", "flat" if nz2 == 1 else "pallet")
        if "raise" in ly:
            out.append(Failure(clause="groups_same_on_every_object", key=f"groups_same_on_every_object|N_vials|raises {ly['raise']},{sc2}",
                               detail=f"{tag}: raises {ly['raise']}"))
        else:
            co2 = [coords(i, nx2, ny2) for i in range(N2)]
            expo2 = list(expo_oracle(arr, nx2, ny2, nz2))
            cls2 = [oracle_class(arr, nz2, e) for e in expo2]
            if ly["ext"] != expo2 or not ly["hext_ok"]:
                k0 = next((i for i, (a, b) in enumerate(zip(ly["ext"], expo2)) if a != b), 0)
                out.append(Failure(clause="class_is_exposure_level", key=f"class_is_exposure_level|N_vials|re-declared,{sc2}",
                                   detail=f"{tag}: VIAL_EXT[{k0}] = {ly['ext'][k0] if k0 < len(ly['ext']) else None}, the vial "
                                          f"has {expo2[k0]} exposed faces; H_ext consistent with VIAL_EXT: {ly['hext_ok']}"))
            if all(c is not None for c in cls2):
                want2 = {g: [i for i in range(N2) if cls2[i] == canon(arr, nz2, g)] for g in ("corner", "edge", "side", "core", "center")}
                want2["all"] = list(range(N2))
                for g in NAMES:
                    if ly["requery"].get(g) != [want2[g], want2[g]]:
                        out.append(Failure(clause="groups_same_on_every_object",
                                           key=f"groups_same_on_every_object|N_vials|re-declared,{sc2}",
                                           detail=f"{tag}: getVialGroup({g!r}) = {ly['requery'].get(g)}; the class is {want2[g]}"))
                        break
                labs = ly["statsLabels"]
                if [canon(arr, nz2, l) if isinstance(l, str) else l for l in labs] != cls2:
                    out.append(Failure(clause="labels_agree", key=f"labels_agree|N_vials|re-declared,{sc2}",
                                       detail=f"{tag}: statistics-table labels {labs}; classes {cls2}"))
    # the group column of Snowfall's table: the same classes as getVialGroup and the filters
    fl = impl.get("fallLabels")
    if fl is not None and [canon(arr, nz, l) if isinstance(l, str) else l for l in fl] != cls:
        i = next((i for i, l in enumerate(fl) if i >= N or not isinstance(l, str) or canon(arr, nz, l) != cls[i]), 0)
        got = {g: (impl["fall"].get(_q([g])) if isinstance(impl["fall"], dict) else None) for g in ("corner", "edge", "core")}
        out.append(Failure(clause="labels_agree", key=f"labels_agree|Snowfall.to_frame|{cls[i] if i < N else None},{sc}",
                           detail=f"{where}: Snowfall.to_frame() labels vial {i}{co[i] if i < N else ''} {fl[i] if i < len(fl) else None!r} "
                                  f"(rows labelled corner: {[j for j, l in enumerate(fl) if l == 'corner']}), its class is "
                                  f"{cls[i] if i < N else None}; the filters keep {got}, getVialGroup('corner') = {want['corner']}"))
    # recorded index lists in the user's order: the label of a trajectory row is the class of the vial whose
    # data the row holds (data identified against the same-seed run that records every vial)
    for r in impl.get("subsets", []):
        if "raise" in r:
            out.append(Failure(clause="labels_agree", key=f"labels_agree|to_frame.traj|int-subset raises {r['raise']}",
                               detail=f"{where}: storeStates={r['sel']}: {r['raise']}"))
            continue
        bad = [i for i, (v, l, ok) in enumerate(zip(r["vials"], r["labels"], r["data_ok"]))
               if not ok or not isinstance(l, str) or v >= N or canon(arr, nz, l) != cls[v]]
        if bad or sorted(r["vials"]) != sorted(r["sel"]):
            i = bad[0] if bad else 0
            out.append(Failure(clause="labels_agree", key=f"labels_agree|to_frame.traj|int-subset,{sc}",
                               detail=f"{where}: storeStates={r['sel']}: trajectory-table row {i} says vial {r['vials'][i]} "
                                      f"labelled {r['labels'][i]!r}; holds that vial's data: {r['data_ok'][i]}; class of "
                                      f"that vial: {cls[r['vials'][i]] if r['vials'][i] < N else None}"))
    # thinning inside a group: recorded vials belong to the named group and are labelled as that group
    for sp, rec in impl.get("thin", {}).items():
        g = next(n for n in ("corner", "edge", "core", "side", "center", "all") if n in sp)
        mode = "random" if "random" in sp else "uniform"
        if "raise" in rec:
            if want[g] and not (mode == "random" and int(sp.rsplit("_", 1)[1]) > len(want[g])):
                out.append(Failure(clause="store_thinning_in_group", key=f"store_thinning_in_group|storeStates|raises,{mode},{sc}",
                                   detail=f"{where}: storeStates={sp!r} raises {rec['raise']} although the group is {want[g]}"))
            continue
        if not set(rec["mask"]) <= set(want[g]) or (want[g] and not rec["mask"]):
            out.append(Failure(clause="store_thinning_in_group", key=f"store_thinning_in_group|storeStates|{mode},{sc}",
                               detail=f"{where}: storeStates={sp!r} records {rec['mask']}, the group {g!r} is {want[g]}"))
        elif rec["mask"] and g != "all" and "labels" in rec:
            labs = rec.get("labels", [])
            if rec.get("vials") != rec["mask"] + [] or any(
                    (not isinstance(l, str)) or canon(arr, nz, l) != canon(arr, nz, g) for l in labs):
                out.append(Failure(clause="store_thinning_in_group", key=f"store_thinning_in_group|to_frame.traj|{mode},{sc}",
                                   detail=f"{where}: storeStates={sp!r} records {rec['mask']}; trajectory table has vials "
                                          f"{rec.get('vials')} labelled {labs}"))
    return out


def classify(case, impl):
    tags = [f"arr={case['arr']}", "flat" if case["nz"] == 1 else "pallet",
            "side-condition" if case["nx"] >= 2 and case["ny"] >= 2 else "degenerate (nx or ny = 1)"]
    if impl.get("raise"):
        tags.append(f"raise={impl['raise']}")
    return tags


def nontrivial(case, impl):
    return not impl.get("raise") and case["nx"] >= 2 and case["ny"] >= 2


def box(tier):
    return (7, 7, 4) if tier == "quick" else (12, 12, 5)


def exhaustive(tier):
    mx, my, mz = box(tier)
    return (f"all {2 * mx * my * mz} (arrangement, shape) pairs with 1 <= n_x <= {mx}, 1 <= n_y <= {my}, "
            f"1 <= n_z <= {mz}; the theorems cover all shapes, the tie of the model to the code is run on this box")


def cases(rng, tier):
    mx, my, mz = box(tier)
    for arr in ("square", "hexagonal"):
        for nz, ny, nx in itertools.product(range(1, mz + 1), range(1, my + 1), range(1, mx + 1)):
            yield dict(kind="box", arr=arr, nx=nx, ny=ny, nz=nz)


def widen(rng, tier):
    for arr in ("square", "hexagonal"):
        for nx, ny, nz in [(13, 2, 1), (2, 13, 2), (9, 9, 6), (3, 3, 1), (3, 3, 3)]:
            yield dict(kind="widen", arr=arr, nx=nx, ny=ny, nz=nz)
