"""C19 Configuration layering and derived constants are exact.

Translator-tied: `regenerate()` rewrites lean/SnowModel/Gen/Derived.lean from the CURRENT
constants.py; the theorems of SnowProofs/Props/C19.lean are rebuilt against it.  The
differential check loads random partial YAML files through the REAL `calculateDerived(path)`
and compares every returned constant, the reported unknown-key set, the merged
configuration and the exception class with the model (hand-written `Config.lean` for
`_loadConfig`, generated `Gen.calculateDerived`) run at Float in the driver.
"""
from __future__ import annotations

import ast
import contextlib
import copy
import io
import itertools
import os
import re
import tempfile

import shim  # noqa: F401
import yaml

import core
import translate
from core import Failure, f2b, b2f, close

ID = "C19"
TITLE = "Configuration layering and derived constants are exact"
LEAN_MODULE = "SnowProofs.Props.C19"
TECHNIQUE = ("Lean 4 proof over a model GENERATED from the source by harness/translate.py "
             "(+ differential check)")
THEOREMS = [
    dict(name="Snow.C19.update_lookup", clause="a custom file overrides exactly the entries it names, every other entry keeps its default (u inside the default key tree)", strength="full"),
    dict(name="Snow.C19.update_idempotent", clause="applying the same custom file twice changes nothing", strength="full"),
    dict(name="Snow.C19.reported_spec", clause="the reported set is keys(custom) minus keys(default), key names at any depth", strength="full"),
    dict(name="Snow.C19.unknown_keys_inert", clause="unknown keys at any depth change no derived constant and no exception (hypothesis hK: every path calculateDerived reads uses key names of the default file - proved for the shipped default in default_read_paths_known)", strength="full"),
    dict(name="Snow.C19.layering_exact", clause="layering with unknown keys present (edge case 'valid key in the wrong place' as a hypothesis)", strength="full"),
    dict(name="Snow.C19.partial_file_loads", clause="a partial file (inside the default key tree once unknown names are removed) never makes _loadConfig raise", strength="full"),
    dict(name="Snow.C19.unknown_keys_inert_file", clause="whole load: file and file without its unknown keys give the same constants or the same exception", strength="full"),
    dict(name="Snow.C19.derived_congr", clause="the constants depend on the configuration only through the generated read paths", strength="full"),
    dict(name="Snow.C19.derived_V", clause="volume = area x height", strength="full"),
    dict(name="Snow.C19.derived_A", clause="area = length x width", strength="full"),
    dict(name="Snow.C19.derived_mass", clause="mass = density x volume", strength="full"),
    dict(name="Snow.C19.derived_mass_split", clause="solute plus water mass = mass", strength="full"),
    dict(name="Snow.C19.derived_mass_solute", clause="mass_solute = mass x w_s", strength="full"),
    dict(name="Snow.C19.derived_mass_water", clause="mass_water = mass x (1 - w_s)", strength="full"),
    dict(name="Snow.C19.derived_T_eq_l", clause="T_eq_l = T_eq - k_f/M_s * w_s/(1-w_s)", strength="full"),
    dict(name="Snow.C19.derived_depression", clause="depression = k_f/M_s * w_s/(1-w_s)", strength="full"),
    dict(name="Snow.C19.derived_T_eq_l'", clause="T_eq_l = T_eq - depression", strength="full"),
    dict(name="Snow.C19.derived_cp_solution", clause="cp_solution = w_s cp_s + (1-w_s) cp_w", strength="full"),
    dict(name="Snow.C19.derived_hl", clause="hl = mass x cp_solution", strength="full"),
    dict(name="Snow.C19.derived_alpha", clause="alpha = -mass Dh (1-w_s)", strength="full"),
    dict(name="Snow.C19.derived_beta_solution", clause="beta_solution = depression x mass x cp_solution", strength="full"),
    dict(name="Snow.C19.derived_beta_hl", clause="beta_solution = (T_eq - T_eq_l) x hl", strength="full"),
    dict(name="Snow.C19.derived_lambda_solution", clause="lambda_solution = w_s lambda_s + (1-w_s) lambda_w", strength="full"),
    dict(name="Snow.C19.derived_denominators", clause="constants are returned only when M_s != 0 and w_s != 1", strength="full"),
    dict(name="Snow.C19.derived_copied", clause="directly copied numbers equal the configured ones", strength="full"),
    dict(name="Snow.C19.derived_strings", clause="enumeration strings are passed through", strength="full"),
    dict(name="Snow.C19.derived_visf", clause="VISF parameters present exactly for configuration VISF, equal to the configured ones", strength="full"),
    dict(name="Snow.C19.derived_spatial", clause="conductivities present exactly in the spatial models", strength="full"),
    dict(name="Snow.C19.enumeration_table", clause="well-typed configuration: raises iff outside the explicit decision table, and then NotImplementedError", strength="full"),
    dict(name="Snow.C19.supported_of_ok", clause="constants are never returned outside the decision table (no typing hypothesis)", strength="full"),
    dict(name="Snow.C19.no_late_rejection", clause="never later, as far as modelled: Snowing.run's if/elif dispatch on const[dimensionality] takes a branch on every successful load; the later uses of vial_arrangement (Snowflake topology: C09) and of configuration inside the Snowing loops are NOT part of this theorem", strength="partial"),
    dict(name="Snow.C19.dispatch_total", clause="the dispatch is total on the decision table", strength="full"),
    dict(name="Snow.C19.derived_present", clause="the thirty always-returned constants are present in the returned dict (num/str are totalised to 0/'' only for absent keys)", strength="full"),
    dict(name="Snow.C19.unknown_keys_inert_default", clause="RUN LEVEL, generated default tree + generated calculateDerived + _loadConfig, hK discharged; remaining hypotheses: WF(file) = distinct keys in every mapping, and Sub(prune(known names, file), default) = once the unknown names are removed no valid key is nested in a wrong place (under them the load itself never raises - partial_file_loads - so 'same exception' concerns exceptions of calculateDerived only; a clashing file (TypeError of the load) is outside the theorem): a custom file and the same file without its unknown key names give the same constants or the same exception", strength="full"),
    dict(name="Snow.C19.layering_exact_default", clause="RUN LEVEL, generated default (same two hypotheses WF and Sub(prune …)): calculateDerived(path) = generated calculateDerived on a tree in which EVERY scalar entry of the default is the file's entry if the file (unknown names removed) names it and the default's entry otherwise", strength="full"),
    dict(name="Snow.C19.default_instance_unknown_key", clause="non-vacuity of the two run-level theorems: the concrete file {solution: {cp_s: 1300, bogus: 1}, extra: {x: y}} over the GENERATED default satisfies WF and Sub(prune …); its load equals the load of {solution: {cp_s: 1300}}", strength="nonvacuity"),
    dict(name="Snow.C19.default_read_paths_known", clause="hK holds for the shipped default file (GENERATED tree Gen.defaultCfg): calculateDerived reads only paths made of default key names", strength="full"),
    dict(name="Snow.C19.default_welltyped", clause="the shipped default configuration is well-typed", strength="witness"),
    dict(name="Snow.C19.default_ok", clause="inhabitation: calculateDerived returns constants for the shipped default configuration (hypothesis of all derived_*, supported_of_ok, no_late_rejection)", strength="witness"),
    dict(name="Snow.C19.default_visf_homogeneous_rejected", clause="inhabitation of the rejecting side: default numbers with VISF + homogeneous are well-typed and raise NotImplementedError", strength="witness"),
    dict(name="Snow.C19.nonvacuous", clause="hypotheses are satisfiable (concrete default/custom pair)", strength="nonvacuity"),
]
TRUSTED = [
    "Lean 4.33 kernel; axioms per theorem listed under coverage.axioms",
    "theorems are over the reals: IEEE rounding is not modelled",
    "the translator harness/translate.py (Python ast -> Lean; tiny accepted language, everything else is a TranslatorError)",
    "yaml.load and Python float(str): the model receives the number float() returns as a bit pattern",
    "hand-written model SnowModel/Config.lean of _loadConfig/_getAllKeys/_nestedDictUpdate, tied by this differential check",
]
ASSUMPTIONS = [
    "hK (unknown_keys_inert, unknown_keys_inert_file): the paths read by the generated calculateDerived consist of key "
    "names of the default file; proved in Lean for the shipped default file (default_read_paths_known, on the tree "
    "GENERATED from snowConfig_default.yaml on every run) and re-checked by the harness case 'meta'",
    "no_late_rejection models Snowing.run's dispatch on dimensionality only; uses of arrangement/configuration/shape "
    "further downstream are covered by other properties' models (C09 topology, Snowing loops), not here",
    "custom files are YAML mappings with string keys and scalar / mapping values (lists, dates, non-string keys are outside the generator)",
    "well-formed trees: keys of one mapping are distinct (always true for a loaded Python dict)",
    "update_lookup / layering_exact: the custom file (after removing unknown names) lies inside the default key tree; "
    "the code's documented edge case 'valid key nested in the wrong place' is a hypothesis, it is exercised by the "
    "differential check (stream 'misplaced') but not claimed",
    "continuous outputs compared with rtol 1e-9; key sets, strings, reported sets, exception classes exactly",
]
RULE = ("random partial YAML files: random sub-trees of the default tree, numbers spelled as int / float / exponent "
        "string (2500.9e3, 1e-3), unknown keys at depths 1-4, every enumeration value including unsupported ones, a "
        "malformed stream (scalar over mapping, mapping over scalar, null, non-numeric text, zero divisors, empty file) "
        "and a 'misplaced valid key' stream; a case is non-trivial when the custom file changes or adds at least one entry")
EXPLANATION = ("Lean theorems about the generated calculateDerived and the hand model of _loadConfig + differential check "
               "against constants.calculateDerived(path) on temporary YAML files; clauses are also evaluated directly "
               "on the implementation's output (predicates)")
PARALLEL = True
LEVEL_TEXT = (
    "Lean 4 theorems (exact real arithmetic) about a Lean definition GENERATED from constants.calculateDerived by "
    "harness/translate.py on every run, and about a hand-written model of _loadConfig/_getAllKeys/_nestedDictUpdate "
    "(any leaf type). The generated text is rebuilt and every theorem re-checked on every run (a changed formula makes "
    "the corresponding theorem fail to build); the hand model is tied to /repo by a differential check on random "
    "partial YAML files loaded through the real calculateDerived(path). Proved in full, for all configurations: a "
    "custom file overrides exactly the entries it names; applying it twice changes nothing; the reported set is "
    "keys(custom) minus keys(default); unknown keys at any depth change neither a constant nor the exception, and a "
    "partial file never makes the load raise - both also stated at run level for the GENERATED default tree composed "
    "with the generated calculateDerived and the load (unknown_keys_inert_default, layering_exact_default; the "
    "hypothesis hK on the read paths is discharged there by default_read_paths_known; what remains is: distinct keys "
    "in every mapping of the file, and - unknown names removed - no valid key nested in a wrong place, under which "
    "the load itself never raises; a concrete file with an unknown key over the generated default is exhibited, "
    "default_instance_unknown_key); nineteen defining relations of the derived constants (V, A, mass, "
    "mass_solute, mass_water, T_eq_l, depression, cp_solution, hl, alpha, beta_solution, lambda_solution, copied "
    "values, presence of the VISF / spatial entries); for well-typed configurations an exception is raised iff the "
    "enumerations are outside the explicit decision table, and then NotImplementedError. Partial: 'never later' is "
    "proved only for Snowing.run's dispatch on dimensionality (later uses of arrangement/configuration are other "
    "properties' models). Hypotheses, not claims: hK - the paths calculateDerived reads use key names of the default "
    "file (proved for the shipped default, default_read_paths_known); distinct keys per mapping; the edge case 'valid key "
    "nested in the wrong place' (documented in the code) is excluded by hypothesis in layering_exact / "
    "partial_file_loads.")


def regenerate():
    translate.regenerate_derived()
    translate.regenerate_default_cfg()


# ---------------------------------------------------------------------------
# trees
# ---------------------------------------------------------------------------
class Unsupported(Exception):
    pass


def to_tree(o):
    """parsed YAML -> wire tree of the model (numbers as the double float() returns)"""
    if isinstance(o, dict):
        out = []
        for k, v in o.items():
            if not isinstance(k, str):
                raise Unsupported(f"non-string key {k!r}")
            out.append([k, to_tree(v)])
        return {"d": out}
    if o is None:
        return {"z": 0}
    if isinstance(o, (bool, int, float)):
        try:
            return {"n": f2b(float(o))}
        except OverflowError:
            raise Unsupported("int too large for float")
    if isinstance(o, str):
        try:
            return {"n": f2b(float(o)), "s": o}
        except ValueError:
            return {"s": o}
    raise Unsupported(f"value of type {type(o).__name__}")


def canon_tree(t):
    """order-insensitive canonical form"""
    if "d" in t:
        return {"d": sorted([[k, canon_tree(v)] for k, v in t["d"]], key=lambda e: e[0])}
    return t


_default_cache = {}


def default_obj():
    p = core.REPO / "src" / "ethz_snow" / "config" / "snowConfig_default.yaml"
    key = str(p)
    if key not in _default_cache:
        with open(p) as f:
            _default_cache[key] = yaml.load(f, Loader=yaml.FullLoader)
    return copy.deepcopy(_default_cache[key])


def all_keys(o):
    """independent re-statement of the reported set's ingredients"""
    s = set()
    if isinstance(o, dict):
        for k, v in o.items():
            s.add(k)
            s |= all_keys(v)
    return s


def prune(o, known):
    if isinstance(o, dict):
        return {k: prune(v, known) for k, v in o.items() if k in known}
    return o


def inside(u, d):
    """u lies inside the key tree of d (mappings over mappings, scalars over scalars)"""
    if isinstance(u, dict) != isinstance(d, dict):
        return False
    if not isinstance(u, dict):
        return True
    return all(k in d and inside(v, d[k]) for k, v in u.items())


def leaf_paths(o, pre=()):
    if isinstance(o, dict):
        for k, v in o.items():
            yield from leaf_paths(v, pre + (k,))
    else:
        yield pre, o


def get_path(o, p):
    for k in p:
        if not isinstance(o, dict) or k not in o:
            return None, False
        o = o[k]
    return o, True


def _cls(e):
    return core.exc_class(e)


def _norm_cls(c):
    if c is None:
        return None
    known = ("NotImplementedError", "ValueError", "TypeError", "IndexError", "KeyError", "AssertionError",
             "ZeroDivisionError", "UnboundLocalError")
    return c if c in known or c.startswith("Other:") else "Other:" + c


def supported(conf, arr, dim, shape):
    """the decision table, written independently of the code"""
    if conf not in ("shelf", "VISF", "jacket"):
        return False
    if arr not in ("square", "hexagonal"):
        return False
    if dim not in ("homogeneous", "spatial_1D", "spatial_2D"):
        return False
    if not (isinstance(shape, str) and shape[:3] == "cub"):
        return False
    if conf == "VISF" and dim == "homogeneous":
        return False
    if conf == "jacket" and dim != "spatial_2D":
        return False
    return True


# ---------------------------------------------------------------------------
# implementation
# ---------------------------------------------------------------------------
def _load_custom(case):
    if case.get("yaml") is None:
        return None, False
    return yaml.load(io.StringIO(case["yaml"]), Loader=yaml.FullLoader), True


def _call(path):
    """calculateDerived(path) with everything it says captured (stdout, stderr, `warnings`)"""
    import warnings as _w
    from ethz_snow import constants

    buf, ebuf = io.StringIO(), io.StringIO()
    out = {}
    with _w.catch_warnings(record=True) as caught:
        _w.simplefilter("always")
        try:
            with contextlib.redirect_stdout(buf), contextlib.redirect_stderr(ebuf):
                const = constants.calculateDerived(path)
            out["raise"] = None
            out["const"] = [[k, (v if isinstance(v, str) else float(v))] for k, v in const.items()]
        except Exception as e:
            out["raise"] = _cls(e)
    out["said"] = buf.getvalue() + "\n" + ebuf.getvalue() + "\n" + "\n".join(str(w.message) for w in caught)
    return out


def _named(text, keys):
    """which of `keys` are named in what the code said (whole words; the wording is not prescribed)"""
    return sorted(k for k in keys if re.search(r"(?<![A-Za-z0-9_])" + re.escape(k) + r"(?![A-Za-z0-9_])", text))


def run_impl(case):
    from ethz_snow import constants

    if case["kind"] == "meta":
        d = default_obj()
        try:
            paths = translate.Derived(translate.source("constants.py"), "constants.py")
            paths.run()
            tr = paths.tr
            rp = tr.num_paths + tr.str_paths + tr.raw_paths
        except Exception:  # reported by regenerate() as a broken tie
            rp = []
        return {"raise": None, "read_paths": rp, "default_keys": sorted(all_keys(d))}
    path = None
    tmp = None
    if case.get("yaml") is not None:
        tmp = tempfile.NamedTemporaryFile("w", suffix=".yaml", delete=False)
        tmp.write(case["yaml"])
        tmp.close()
        path = tmp.name
    try:
        obs = _call(path)
        try:
            with contextlib.redirect_stdout(io.StringIO()):
                merged = constants._loadConfig(path)
            obs["merged"] = canon_tree(to_tree(merged))
            obs["merged_obj"] = merged
        except Unsupported as e:
            obs["merged"] = {"unsupported": str(e)}
        except Exception as e:
            obs["merged_raise"] = _cls(e)
        # unknown keys are inert: the same file without the unknown names
        custom, has = _load_custom(case)
        unknown = sorted(all_keys(custom) - all_keys(default_obj())) if has and isinstance(custom, dict) else []
        # "reported" = the unknown keys that are NAMED in what the code printed / warned (wording not prescribed)
        obs["reported"] = _named(obs.pop("said", ""), unknown)
        if has and isinstance(custom, dict):
            known = all_keys(default_obj())
            pr = prune(custom, known)
            if pr != custom:
                t2 = tempfile.NamedTemporaryFile("w", suffix=".yaml", delete=False)
                yaml.safe_dump(pr, t2)
                t2.close()
                try:
                    o2 = _call(t2.name)
                finally:
                    os.unlink(t2.name)
                obs["pruned"] = {"raise": o2["raise"], "const": o2.get("const")}
        # never later: which private run function Snowing.run calls
        if case.get("dispatch") and obs["raise"] is None:
            obs["dispatch"] = _dispatch(path)
        return obs
    finally:
        if tmp is not None:
            os.unlink(tmp.name)


def _dispatch(path):
    from ethz_snow.snowing import Snowing

    called = []
    saved = {}
    for i, nm in enumerate(("_run_0D", "_run_1D", "_run_2D")):
        saved[nm] = getattr(Snowing, nm)
        setattr(Snowing, nm, (lambda i: (lambda self, seed=0: called.append(i)))(i))
    try:
        try:
            with contextlib.redirect_stdout(io.StringIO()):
                S = Snowing(configPath=path)
        except Exception as e:
            return {"construct_raise": _cls(e)}
        try:
            S.run()
        except Exception as e:
            return {"run_raise": _cls(e), "called": called}
        return {"called": called}
    finally:
        for nm, f in saved.items():
            setattr(Snowing, nm, f)


# ---------------------------------------------------------------------------
# model
# ---------------------------------------------------------------------------
def run_model(drv, case):
    if case["kind"] == "meta":
        return {"raise": None}
    custom, has = _load_custom(case)
    req = {"op": "calculateDerived", "default": to_tree(default_obj())}
    if has:
        req["custom"] = to_tree(custom) if custom is not None else {"z": 0}
    r = drv.call(req)
    if "error" in r:
        raise RuntimeError(r["error"])
    out = {"reported": sorted(r.get("reported", []))}
    if "raise" in r:
        out["raise"] = _norm_cls(r["raise"])
        out["stage"] = r.get("stage")
    else:
        out["raise"] = None
        out["const"] = [[k, (v["s"] if "n" not in v else b2f(v["n"]))] for k, v in r["const"]]
        out["dispatch"] = r.get("dispatch")
    if "merged" in r:
        out["merged"] = canon_tree(r["merged"])
    return out


def compare(case, impl, model):
    dis = []
    if case["kind"] == "meta":
        return dis
    if (impl.get("raise") is None) != (model.get("raise") is None):
        dis.append(f"rejected/accepted: impl {impl.get('raise')} vs model {model.get('raise')} ({model.get('stage')})")
        return dis
    if impl.get("raise") != model.get("raise") and case.get("welltyped"):
        # for files of the right kinds the class is part of the computation (NotImplementedError of an unsupported
        # enumeration, ZeroDivisionError of a zero divisor); for malformed files (mapping where a scalar belongs,
        # null, text for a number) WHICH built-in exception Python happens to raise is not prescribed
        dis.append(f"exception: impl {impl.get('raise')} vs model {model.get('raise')} ({model.get('stage')})")
        return dis
    if sorted(impl.get("reported", [])) != model.get("reported"):
        # the WARNING is printed before the update, so it is comparable also when a later step raises
        dis.append(f"reported keys: impl {impl.get('reported')} vs model {model.get('reported')}")
    if "merged" in impl and "merged" in model and "unsupported" not in impl["merged"]:
        if impl["merged"] != model["merged"]:
            dis.append("merged configuration differs: " + _first_tree_diff(impl["merged"], model["merged"]))
    if impl.get("raise") is None:
        a = dict((k, v) for k, v in impl["const"])
        b = dict((k, v) for k, v in model["const"])
        if set(a) != set(b):
            dis.append(f"constant names: only impl {sorted(set(a) - set(b))}, only model {sorted(set(b) - set(a))}")
        for k in a:
            if k not in b:
                continue
            if isinstance(a[k], str) or isinstance(b[k], str):
                if a[k] != b[k]:
                    dis.append(f"const[{k}]: impl {a[k]!r} vs model {b[k]!r}")
            elif not (rel_close(a[k], b[k]) or (a[k] != a[k] and b[k] != b[k])):
                # same operation order on both sides: relative 1e-12 (NaN only against NaN)
                dis.append(f"const[{k}]: impl {a[k]!r} vs model {b[k]!r}")
        d = impl.get("dispatch")
        if d is not None and "called" in d:
            want = [] if model.get("dispatch") is None else [model["dispatch"]]
            if d["called"] != want:
                dis.append(f"Snowing.run dispatch: impl calls {d['called']} vs model {want}")
    return dis


def _first_tree_diff(a, b, pre=""):
    if ("d" in a) != ("d" in b):
        return f"{pre}: mapping vs scalar"
    if "d" not in a:
        return f"{pre}: {a} vs {b}" if a != b else ""
    da, db = dict(a["d"]), dict(b["d"])
    for k in sorted(set(da) | set(db)):
        if k not in da or k not in db:
            return f"{pre}/{k}: only in {'impl' if k in da else 'model'}"
        r = _first_tree_diff(da[k], db[k], pre + "/" + k)
        if r:
            return r
    return ""


# ---------------------------------------------------------------------------
# the property itself, on the implementation's output
# ---------------------------------------------------------------------------
REL = [
    ("V=A*height", lambda c: (c["V"], c["A"] * c["height"])),
    ("mass=rho*V", lambda c: (c["mass"], c["rho_l"] * c["V"])),
    ("mass_solute+mass_water=mass", lambda c: (c["mass_solute"] + c["mass_water"], c["mass"])),
    ("T_eq_l", lambda c: (c["T_eq_l"], c["T_eq"] - c["k_f"] / c["M_s"] * c["solid_fraction"] / (1 - c["solid_fraction"]))),
    ("hl", lambda c: (c["hl"], c["mass"] * c["cp_solution"])),
    ("cp_solution", lambda c: (c["cp_solution"], c["solid_fraction"] * c["cp_s"] + (1 - c["solid_fraction"]) * c["cp_w"])),
    ("alpha", lambda c: (c["alpha"], -c["mass"] * c["Dh"] * (1 - c["solid_fraction"]))),
    ("beta_solution", lambda c: (c["beta_solution"], c["depression"] * c["mass"] * c["cp_solution"])),
    ("depression", lambda c: (c["depression"], c["T_eq"] - c["T_eq_l"])),
    ("lambda_solution", lambda c: (c["lambda_solution"], c["solid_fraction"] * c["lambda_s"] + (1 - c["solid_fraction"]) * c["lambda_w"])
     if "lambda_solution" in c else (0.0, 0.0)),
]


# constants that are copies of configuration entries (name -> path)
COPIED = {
    "T_eq": ("solution", "T_eq"), "a": ("kinetics", "a"), "b": ("kinetics", "b"), "c": ("kinetics", "c"),
    "rho_l": ("solution", "rho_l"), "height": ("vial", "geometry", "height"),
    "diameter": ("vial", "geometry", "diameter"), "cp_s": ("solution", "cp_s"),
    "solid_fraction": ("solution", "solid_fraction"), "cp_w": ("water", "cp_w"), "cp_i": ("water", "cp_i"),
    "Dh": ("water", "Dh"), "k_f": ("solution", "k_f"), "M_s": ("solution", "M_s"),
    "sigma_B": ("general", "sigma_B"), "k_B": ("general", "k_B"),
    "p_vac": ("VISF", "p_vac"), "kappa": ("VISF", "kappa"), "Dh_evaporation": ("VISF", "Dh_evaporation"),
    "m_water": ("VISF", "m_water"), "t_vac_start": ("VISF", "t_vac_start"),
    "t_vac_duration": ("VISF", "t_vac_duration"), "air_gap": ("jacket", "air_gap"),
    "lambda_air": ("jacket", "lambda_air"), "lambda_s": ("solution", "lambda_s"),
    "lambda_w": ("water", "lambda_w"), "lambda_i": ("water", "lambda_i"),
}


RTOL_C19 = 1e-12


def rel_close(a, b, rtol=RTOL_C19):
    """purely RELATIVE comparison (the derived constants span 1e-26 .. 1e6): equal, or within rtol of the larger
    magnitude; NaN is never close to anything, an infinity only to the same infinity"""
    import math
    a, b = float(a), float(b)
    if a == b:
        return True
    if math.isnan(a) or math.isnan(b) or math.isinf(a) or math.isinf(b):
        return False
    return abs(a - b) <= rtol * max(abs(a), abs(b))


def _close_rel(a, b, scale):
    return rel_close(a, b)


def predicates(case, impl):
    out = []
    site = "calculateDerived"
    if case["kind"] == "meta":
        ks = set(impl["default_keys"])
        for p in impl["read_paths"]:
            for k in p:
                if k not in ks:
                    out.append(Failure(clause="read_paths_known", key=f"read_paths_known|{site}|",
                                       detail=f"calculateDerived reads {p} but {k!r} is not a key of the default file"))
        return out
    custom, has = _load_custom(case)
    d = default_obj()
    known = all_keys(d)
    # reported set = keys(u) \ keys(d)
    if has and isinstance(custom, dict):
        want = sorted(all_keys(custom) - known)
        if want != sorted(impl.get("reported", [])):
            out.append(Failure(clause="unknown_keys_reported", key=f"unknown_keys_reported|_loadConfig|",
                               detail=f"reported {impl.get('reported')} but keys(custom)-keys(default) = {want}"))
    # unknown keys have no effect (quantifier: partial files = inside the default key tree once the
    # unknown names are removed; a mapping where the default has a scalar is a malformed file)
    if "pruned" in impl and isinstance(custom, dict) and inside(prune(custom, known), d):
        p = impl["pruned"]
        same = p["raise"] == impl.get("raise") and (p.get("const") == impl.get("const"))
        if not same:
            out.append(Failure(clause="unknown_keys_inert", key=f"unknown_keys_inert|{site}|",
                               detail="removing the unknown keys from the custom file changes the result"))
    # layering: overrides exactly the named entries (custom minus unknown names inside the default tree)
    if has and isinstance(custom, dict) and "merged_obj" in impl and inside(prune(custom, known), d):
        m = impl["merged_obj"]
        pc = prune(custom, known)
        for p, dv in leaf_paths(d):
            cv, defined = get_path(pc, p)
            want = cv if defined and not isinstance(cv, dict) else dv
            got, ok = get_path(m, p)
            if not ok or type(got) is not type(want) or got != want:
                out.append(Failure(clause="overrides_exact", key=f"overrides_exact|_loadConfig|",
                                   detail=f"entry {'/'.join(p)}: merged {got!r}, expected {want!r}"))
                break
    elif not has and "merged_obj" in impl and impl["merged_obj"] != d:
        out.append(Failure(clause="overrides_exact", key=f"overrides_exact|_loadConfig|nofile",
                           detail="without a custom file the configuration is not the default"))
    # defining relations
    if impl.get("raise") is None:
        c = {k: v for k, v in impl["const"]}
        scale = 0.0
        for name, f in REL:
            try:
                a, b = f(c)
            except KeyError as e:
                out.append(Failure(clause="derived_relations", key=f"derived_relations|{site}|missing",
                                   detail=f"{name}: constant {e} missing"))
                continue
            if not _close_rel(a, b, scale):
                out.append(Failure(clause="derived_relations", key=f"derived_relations|{site}|{name}",
                                   detail=f"{name}: {a!r} vs {b!r}"))
    # copied constants are the configured entries (the custom value where the file names it, zero included)
    if impl.get("raise") is None and "merged_obj" in impl:
        c = {k: v for k, v in impl["const"]}
        for name, path in COPIED.items():
            if name not in c:
                continue
            v, ok = get_path(impl["merged_obj"], path)
            try:
                want = float(v)
            except (TypeError, ValueError):
                continue
            if ok and not (c[name] == want or (c[name] != c[name] and want != want)):
                cls = "zero" if want == 0 else "value"
                out.append(Failure(clause="copied_exact", key=f"copied_exact|{site}|{name}|{cls}",
                                   detail=f"const[{name}] = {c[name]!r} but the configuration says {'/'.join(path)} = {v!r}"))
    # enumeration table: rejected at load exactly outside the table
    if case.get("welltyped") and "merged_obj" in impl:
        m = impl["merged_obj"]
        try:
            e = (m["snowing_parameters"]["configuration"], m["snowfall_parameters"]["vial_arrangement"],
                 m["snowing_parameters"]["dimensionality"], m["vial"]["geometry"]["shape"])
        except Exception:
            e = None
        if e is not None and all(isinstance(x, str) for x in e):
            sup = supported(*e)
            if sup and impl.get("raise") is not None:
                out.append(Failure(clause="enumeration_table", key=f"enumeration_table|{site}|rejects-supported",
                                   detail=f"{e} is supported but raises {impl['raise']}"))
            if not sup and impl.get("raise") != "NotImplementedError":
                out.append(Failure(clause="enumeration_table", key=f"enumeration_table|{site}|accepts-unsupported",
                                   detail=f"{e} is not supported but outcome is {impl.get('raise')}"))
            dsp = impl.get("dispatch")
            if sup and dsp is not None:
                want = {"homogeneous": [0], "spatial_1D": [1], "spatial_2D": [2]}[e[2]]
                if dsp.get("called") != want:
                    out.append(Failure(clause="no_late_rejection", key=f"no_late_rejection|Snowing.run|",
                                       detail=f"{e}: Snowing construction/run dispatch gave {dsp}"))
    return out


def classify(case, impl):
    tags = [f"kind={case['kind']}"]
    tags.append("raise=" + str(impl.get("raise")))
    if impl.get("reported"):
        tags.append("unknown-keys-reported")
    if "pruned" in impl:
        tags.append("pruned-rerun")
    if case.get("spell"):
        for s in sorted(set(case["spell"])):
            tags.append("spelling=" + s)
    if case.get("depths"):
        for dd in sorted(set(case["depths"])):
            tags.append(f"unknown-key-depth={dd}")
    if impl.get("dispatch") is not None:
        tags.append("dispatch-checked")
    return tags


def nontrivial(case, impl):
    return case["kind"] != "meta" and case.get("yaml") not in (None, "") and case.get("n_entries", 1) > 0


# ---------------------------------------------------------------------------
# generators
# ---------------------------------------------------------------------------
def emit(entries, ind=0):
    lines = []
    for k, v in entries:
        if isinstance(v, list):
            if not v:
                lines.append(" " * ind + f"{k}: {{}}")
            else:
                lines.append(" " * ind + f"{k}:")
                lines += emit(v, ind + 2)
        else:
            lines.append(" " * ind + f"{k}: {v}")
    return lines


def spell(rng, v, tags):
    """a number as YAML text: int / float / exponent forms (some parse as str in PyYAML)"""
    forms = []
    if float(v) == int(v) and abs(v) < 1e15:
        forms.append(("int", str(int(v))))
    forms.append(("float", repr(float(v))))
    m, e = f"{float(v):.6e}".split("e")
    m = m.rstrip("0").rstrip(".") if "." in m else m
    e = int(e)
    forms.append(("exp-signed", f"{m if '.' in m else m + '.0'}e{e:+03d}"))       # YAML float
    forms.append(("exp-unsigned", f"{m if '.' in m else m + '.0'}e{e}" if e >= 0 else f"{m}e{e}"))  # str or float
    forms.append(("exp-nodot", f"{m.replace('.', '')}e{e - (len(m.split('.')[1]) if '.' in m else 0)}"))  # str
    if abs(v) >= 1000:
        forms.append(("exp-e3", f"{float(v) / 1000!r}e3"))  # like 2500.9e3 -> str
    name, text = rng.choice(forms)
    tags.append(name)
    return text


# every enumeration: the valid words, arbitrary words, and NEAR MISSES of the valid words (valid word + suffix,
# proper prefix of a valid word, other capitalisation) - none of the near misses is a supported value
ENUM_PATHS = {
    ("snowing_parameters", "configuration"): ["shelf", "VISF", "jacket", "foo", "Shelf", "visf",
                                              "shelf_ramped", "VISF2", "jacketed", "shel", "VIS", "jack", "SHELF", "Jacket"],
    ("snowfall_parameters", "vial_arrangement"): ["square", "hexagonal", "hex", "Square",
                                                  "squared", "hexagonal_dense", "squar", "hexa", "HEXAGONAL"],
    ("snowing_parameters", "dimensionality"): ["homogeneous", "spatial_1D", "spatial_2D", "spatial_3D", "0D",
                                               "spatial_1D_fine", "homogeneous_lumped", "spatial_2D ", "spatial_",
                                               "homogen", "Spatial_1D", "spatial_1d", "HOMOGENEOUS"],
    ("vial", "geometry", "shape"): ["cube", "cubic", "cub", "cuboid", "cylinder", "Cube", "cu", "cyl", "CUBE", " cube"],
}
SUPPORTED_COMBOS = [(c, a, dm, s) for c in ("shelf", "VISF", "jacket") for a in ("square", "hexagonal")
                    for dm in ("homogeneous", "spatial_1D", "spatial_2D") for s in ("cube", "cubic", "cub")
                    if supported(c, a, dm, s)]


def _new_number(rng, path, dv):
    dv = float(dv)
    if path[-1] == "solid_fraction":
        return rng.choice([0.05, 0.1, 0.2, 0.5, round(rng.uniform(0.01, 0.8), 3)])
    if path[-1] == "T_eq":
        return rng.choice([0, -1, 0.5, 1])
    if dv == 0:
        return rng.choice([0, 1, 2.5])
    if rng.random() < 0.08 and path[-1] != "M_s":
        return 0
    f = rng.choice([0.5, 1, 2, 3, 10, rng.uniform(0.3, 3)])
    v = dv * f
    if rng.random() < 0.5:
        v = float(f"{v:.4g}")
    return v


def _subtree(rng, d, path, enums, tags, p_leaf):
    out = []
    for k, v in d.items():
        p = path + (k,)
        if isinstance(v, dict):
            if rng.random() < 0.55:
                sub = _subtree(rng, v, p, enums, tags, p_leaf)
                if sub or rng.random() < 0.15:
                    out.append((k, sub))
        elif p in ENUM_PATHS:
            if p in enums:
                out.append((k, enums[p]))
        elif rng.random() < p_leaf:
            out.append((k, spell(rng, _new_number(rng, p, v), tags)))
    return out


def _ensure(entries, path, value):
    """set entries[path] = value (creating mappings)"""
    k = path[0]
    for i, (kk, vv) in enumerate(entries):
        if kk == k:
            if len(path) == 1:
                entries[i] = (k, value)
            else:
                if not isinstance(vv, list):
                    vv = []
                    entries[i] = (k, vv)
                _ensure(vv, path[1:], value)
            return
    if len(path) == 1:
        entries.append((k, value))
    else:
        sub = []
        entries.append((k, sub))
        _ensure(sub, path[1:], value)


UNKNOWN_NAMES = ["bogus", "kb", "T_init", "radius", "lambda", "cpw", "height_mm", "p_vacuum", "note", "Kappa"]


def _add_unknown(rng, entries, depths):
    n = rng.choice([1, 1, 2, 3])
    for _ in range(n):
        name = rng.choice(UNKNOWN_NAMES) + rng.choice(["", "", "_x", "2"])
        val = rng.choice(["1", "2.5", "abc", "1e-3", "~", "true"])
        where = rng.choice([1, 2, 3, 4, "map"])
        if where == 1:
            entries.append((name, val)); depths.append(1)
        elif where == 2:
            sec = rng.choice(["water", "solution", "VISF", "jacket", "kinetics", "general", "vial"])
            _ensure(entries, (sec, name), val); depths.append(2)
        elif where == 3:
            _ensure(entries, ("vial", "geometry", name), val); depths.append(3)
        elif where == 4:
            _ensure(entries, ("vial", "geometry", name + "_map", "inner"), val); depths += [3, 4]
        else:
            _ensure(entries, (name + "_section", rng.choice(UNKNOWN_NAMES)), val); depths += [1, 2]


def _structured(rng):
    d = default_obj()
    tags, depths = [], []
    enums = {}
    if rng.random() < 0.8:
        combo = rng.choice(SUPPORTED_COMBOS)
    else:
        combo = tuple(rng.choice(ENUM_PATHS[p]) for p in ENUM_PATHS)
    for p, val in zip(ENUM_PATHS, combo):
        if rng.random() < 0.6:
            enums[p] = val
    entries = _subtree(rng, d, (), enums, tags, rng.choice([0.2, 0.5, 0.9]))
    # make enumerations explicit where a section was dropped
    for p, val in enums.items():
        if rng.random() < 0.7:
            _ensure(entries, p, val)
    if rng.random() < 0.55:
        _add_unknown(rng, entries, depths)
    text = "\n".join(emit(entries)) + "\n" if entries else "{}\n"
    return dict(kind="structured", yaml=text, spell=tags, depths=depths, welltyped=True, n_entries=len(entries),
                dispatch=(rng.random() < 0.15))


def _enum_case(combo, rng):
    entries = []
    for p, val in zip(ENUM_PATHS, combo):
        _ensure(entries, p, val)
    tags = []
    if rng.random() < 0.5:
        _ensure(entries, ("solution", "solid_fraction"), spell(rng, 0.1, tags))
    return dict(kind="enumeration", yaml="\n".join(emit(entries)) + "\n", welltyped=True, spell=tags, n_entries=4,
                dispatch=True)


MALFORMED = [
    ("empty-file", ""),
    ("scalar-document", "5\n"),
    ("empty-mapping", "{}\n"),
    ("scalar-over-mapping", "vial: 3\n"),
    ("scalar-over-mapping-str", "vial:\n  geometry: big\n"),
    ("mapping-over-scalar", "solution:\n  T_eq:\n    value: 3\n"),
    ("empty-mapping-over-scalar", "solution:\n  T_eq: {}\n"),
    ("nested-mapping-over-scalar", "solution:\n  T_eq:\n    a:\n      b: 1\n"),          # AttributeError: float.get
    ("mixed-mapping-over-scalar", "solution:\n  T_eq:\n    x: 1\n    a:\n      b: 1\n"),   # TypeError first
    ("nested-mapping-over-text", "vial:\n  geometry:\n    shape:\n      a:\n        b: 1\n"),
    ("nested-mapping-over-scalar-late", "water:\n  cp_w: 1\nsolution:\n  T_eq:\n    a: {}\n"),
    ("null-number", "water:\n  cp_w: ~\n"),
    ("null-enum", "snowing_parameters:\n  configuration: ~\n"),
    ("null-shape", "vial:\n  geometry:\n    shape: ~\n"),
    ("number-as-shape", "vial:\n  geometry:\n    shape: 5\n"),
    ("numeric-text-as-shape", "vial:\n  geometry:\n    shape: 1e-3\n"),
    ("number-as-enum", "snowing_parameters:\n  dimensionality: 1\n"),
    ("text-as-number", "water:\n  cp_w: heavy\n"),
    ("text-as-number-late", "snowing_parameters:\n  configuration: foo\nwater:\n  cp_w: heavy\n"),
    ("text-in-visf-unused", "VISF:\n  p_vac: low\n"),
    ("text-in-visf-used", "snowing_parameters:\n  configuration: VISF\nVISF:\n  p_vac: low\n"),
    ("zero-M_s", "solution:\n  M_s: 0\n"),
    ("one-solid-fraction", "solution:\n  solid_fraction: 1\n"),
    ("one-solid-fraction-text", "solution:\n  solid_fraction: 1e0\n"),
    ("bool-number", "water:\n  cp_w: true\n"),
    ("inf-number", "water:\n  cp_w: .inf\n"),
    ("section-null", "water: ~\n"),
    ("empty-section", "water: {}\njacket: {}\n"),
    ("quoted-number", "water:\n  cp_w: '4000'\n"),
]
MISPLACED = [
    ("valid-leaf-wrong-section", "water:\n  T_eq: 5\n"),
    ("valid-leaf-top-level", "T_eq: 5\ncp_w: 1\n"),
    ("valid-section-nested", "solution:\n  water:\n    cp_w: 1\n"),
    ("valid-section-name-as-leaf", "solution:\n  geometry: 4\n"),
    ("valid-leaf-as-section", "kinetics:\n  a:\n    b: 2\n"),
]


def _zero_cases(rng):
    """every numeric entry with a non-zero default, overridden by a spelled zero, in the configuration that reads it"""
    d = default_obj()
    for path, dv in leaf_paths(d):
        if path in ENUM_PATHS or isinstance(dv, str) or float(dv) == 0:
            continue
        combo = ("jacket", "square", "spatial_2D", "cube") if path[0] == "jacket" else ("VISF", "hexagonal", "spatial_1D", "cube")
        entries = []
        for p, val in zip(ENUM_PATHS, combo):
            _ensure(entries, p, val)
        zero = rng.choice(["0", "0.0", "0e0", "0.0e+00", "-0.0", "00"])
        _ensure(entries, path, zero)
        yield dict(kind="zero", yaml="\n".join(emit(entries)) + "\n", welltyped=(path[-1] != "M_s"), n_entries=5,
                   spell=["zero:" + zero])


def cases(rng, tier):
    n_struct, n_enum = (260, 110) if tier == "quick" else (4500, 2500)
    yield dict(kind="meta", yaml=None)
    yield dict(kind="nofile", yaml=None, welltyped=True, dispatch=True)
    for _ in range(n_struct):
        yield _structured(rng)
    combos = list(itertools.product(*[ENUM_PATHS[p] for p in ENUM_PATHS]))
    if n_enum is not None:
        # every value of every enumeration at least once, then random combinations
        picked = []
        for i, p in enumerate(ENUM_PATHS):
            for val in ENUM_PATHS[p]:
                base = list(rng.choice(SUPPORTED_COMBOS))
                base[i] = val
                picked.append(tuple(base))
        picked += [rng.choice(combos) for _ in range(n_enum - len(picked))]
        combos = picked
    for c in combos:
        yield _enum_case(c, rng)
    yield from _zero_cases(rng)
    for name, text in MALFORMED:
        yield dict(kind="malformed:" + name, yaml=text, n_entries=1)
    for name, text in MISPLACED:
        yield dict(kind="misplaced:" + name, yaml=text, n_entries=1)


def widen(rng, tier):
    for _ in range(600 if tier == "quick" else 6000):
        yield _structured(rng)
