"""C11 Spatial controlled nucleation waits until the product reaches cnTemp."""
from __future__ import annotations

import snowingutil as su  # imports shim first
import numpy as np

import core
from core import Failure, close

ID = "C11"
LEAN_MODULE = "SnowProofs.Props.C11"
THEOREMS = [
    dict(name="Snow.C11.cn_trigger_first_0D", clause="0D: cooling ends at the first step with T <= cnTemp, not before", strength="full"),
    dict(name="Snow.C11.cn_trigger_first_1D", clause="1D (repaired test T_k.min() <= cn): cooling ends at the first step whose coldest point is <= cnTemp", strength="full"),
    dict(name="Snow.C11.cn_Tnuc_close_0D", clause="0D: cn - (cooling of step i) < T_nuc <= cn", strength="full"),
    dict(name="Snow.C11.coolStencil_ge", clause="discrete minimum principle of the 1D cooling stencil for 0 <= Fo <= 1/2", strength="full"),
    dict(name="Snow.C11.cn_Tnuc_close_1D", clause="1D (repaired test): cn - stepDrop < T_nuc_min <= cn under 0 <= Fo <= 1/2", strength="full"),
    dict(name="Snow.C11.cn_old_fires_at_step_zero", clause="the test of the unrepaired code (T_k.any() <= cn+273.15) ends the cooling stage at step 0 for every input", strength="refutation-of-old-code"),
    dict(name="Snow.C11.cn_old_counterexample", clause="concrete witness: product and shelf at 20 C, cnTemp -8 C: nucleation at step 0 with T_nuc_min = 20 C", strength="refutation-of-old-code"),
    dict(name="Snow.C11.cn_new_waits", clause="the repaired model does not fire at step 0 while the product is warmer than cnTemp", strength="full"),
    dict(name="Snow.C11.nonvacuous", clause="hypotheses are satisfiable (trigger below the initial temperature, reached by the run)", strength="nonvacuity"),
    dict(name="Snow.C11.cn_trigger_first_2D", clause="2D: cooling ends at the first step whose coldest point is <= cnTemp, not before", strength="full"),
    dict(name="Snow.C11.coolStep2D_min_ge", clause="2D: one repaired cooling step without evaporation keeps the coldest point >= min(old coldest point, shelf) (C07 maximum principle)", strength="full"),
    dict(name="Snow.C11.cn_Tnuc_close_2D", clause="2D (repaired, shelf/jacket, C07 stability hypotheses): cnTemp >= T_nuc_min >= min(coldest point before the step, shelf temperature of the step) - a maximum-principle bound that does NOT scale with dt, i.e. weaker than 'within one step's cooling' (that clause is only evaluated on real 2D runs)", strength="partial"),
    dict(name="Snow.C11.fo_grid1D", clause="1D: with the code's dt = 0.4 dz^2/alpha_max the cooling-stage Fourier number is 0.4 alpha/alpha_max", strength="full"),
    dict(name="Snow.C11.fo_bounds_grid1D", clause="1D: 0 <= Fo <= 1/2 whenever 0 <= alpha <= 1.25 alpha_max (discharges the CFL hypothesis from the constants)", strength="full"),
    dict(name="Snow.C11.cn_Tnuc_close_1D_code", clause="1D: cn - stepDrop < T_nuc_min <= cn with the CFL hypothesis discharged", strength="full"),
    dict(name="Snow.C11.coolStep2D_min_ge_general", clause="2D, every configuration: one repaired cooling step keeps the coldest point >= min(old coldest point, shelf temperature, coldest top ghost value T_top + q_e dz/k_eff)", strength="full"),
    dict(name="Snow.C11.cn_Tnuc_close_2D_general", clause="2D, every configuration incl. VISF (repaired sweep, C07 stability hypotheses): cnTemp >= T_nuc_min >= min(coldest point before the step, shelf temperature of the step, coldest top ghost value with the evaporative flux q_e explicit) - like cn_Tnuc_close_2D a maximum-principle bound whose shelf term does not scale with dt", strength="partial"),
]
TRUSTED = [
    "Lean 4.33 kernel; axioms per theorem listed under coverage.axioms",
    "theorems are over the reals: IEEE rounding is not modelled",
    "hand-written models SnowModel/Snowing0D.lean, Snowing1D.lean tied to snowing.py by this differential check; "
    "the 1D model's controlled-nucleation test is the REPAIRED one (cnTest); cnTestOld mirrors the pre-fix code",
    "2D model SnowModel/Snowing2D.lean (work package G; its test is the repaired T_k.min() <= cnTemp + 273.15); tied here by real 2D runs",
]
ASSUMPTIONS = [
    "satisfiability of the hypothesis 'the run completed' (1D: (run1D p).exc = none; 2D: S2D.run ... = .ok r) is NOT witnessed in Lean (the models need exp/pow/sqrt, there is no computable real instance and no Transc instance of Rat); it rests on the differential runs of this check, in which the compiled model and the real code both complete on the same inputs. The 0D non-vacuity theorems are concrete completed runs over the reals.",
    "trigger temperature below the initial temperature; 1D bound under the CFL hypothesis 0 <= Fo <= 1/2",
    "every step recorded (<= 10 000 steps); continuous comparisons rtol 1e-9; step indices exactly",
]
RULE = ("boundary inputs in every dimensionality (cnTemp = 0 and 0.0; solution.T_eq = 3.8 and -2.0; VISF with the "
        "vacuum applied from 0.002 h so that the evaporating top is the coldest point at the trigger) plus 0D, 1D "
        "(shelf, VISF) programs from a calibrated table (<= 10 000 steps) with cnTemp in {-3,-5,-8,-12,0,0.0} C below the "
        "start temperature, optional hold; long processes (> 10 000 steps, save stride 2-5) whose trigger step is not a "
        "multiple of the stride, each paired with the same programme at <= 10 000 steps; VISF with cnTemp below the "
        "programme's end temperature (cnTemp read back from the object); cnTemp edited in place on one object; "
        "non-trivial = run completed")
EXPLANATION = ("Lean theorems about the controlled-nucleation branch of the cooling loop + differential check against "
               "Snowing.run(); the trigger condition re-evaluated on the real recorded fields")
PARALLEL = True
LEVEL_TEXT = ("Lean 4 theorems about executable models of _run_0D and _run_1D (exact real arithmetic), tied to /repo by a differential check. Proved in full: 0D and 1D (repaired test T_k.min() <= cnTemp + 273.15): controlled nucleation is triggered at the first step at which the product / its coldest point has reached cnTemp and not before; the reported nucleation temperature lies within one step's cooling below cnTemp (0D: exact step formula; 1D: discrete minimum principle under 0 <= Fo <= 1/2, bound = the ghost-point increments). Refuted for the unrepaired code: the test T_k.any() <= cnTemp + 273.15 is true for every field and every cnTemp >= -272.15, so nucleation fires at step 0 (general theorem + concrete witness); replayed on the real code (F4, fixes/F4.diff). 2D (SnowModel/Snowing2D.lean): trigger at the first step whose coldest point reaches cnTemp; T_nuc_min between min(previous coldest point, shelf temperature) and cnTemp for the shelf and jacket configurations under the stability hypotheses of C07 - PARTIAL: this maximum-principle bound does not scale with dt, the dt-dependent 'one step's cooling' bound is proved for 0D and 1D only (1D with the CFL hypothesis discharged from the code's dt). the bound is proved for EVERY 2D configuration including VISF (cn_Tnuc_close_2D_general: the evaporative flux q_e enters through the top ghost value T_top + q_e dz/k_eff); real 2D runs, VISF included, are compared with the model and evaluated by the predicates.")


def run_impl(case):
    obs = su.run_real_cached(case)
    if case.get("pair_t_tot") is not None and not obs.get("raise"):
        # the SAME programme with a shorter final hold (<= 10 000 steps: every step recorded)
        short = {k: v for k, v in case.items() if k != "pair_t_tot"}
        short["t_tot"] = case["pair_t_tot"]
        obs["pair"] = su.run_real_cached(short)
    return obs


def _run_model_one(drv, case):
    if case["dim"] == "2D":
        m = su.model_2d(drv, case, su.programs(case)[0], 0.5)
        m["is2D"] = True
        return m
    mi = su.model_init(case)
    if mi is not None:
        return mi
    rec = su.record_inputs(case)
    if rec.get("raise"):
        # the rule says this case constructs; the model cannot echo the implementation
        return {"raise": None, "stage": "init", "no_constants": rec["raise"]}
    prog = su.programs(case)[0]
    out = {}
    for tag, old in (("new", False), ("old", True)):
        fr = prog["Frand"] if prog.get("Frand") is not None else su.recorded_frand(0)
        r = drv.call(su.model_request(case, rec, prog=prog, Frand=fr, old=old, row_stride=10 ** 9))
        out[tag] = su.decode_model(r)
        if case["dim"] == "0D":
            out["old"] = out["new"]
            break
    return out


def _dt(case, const):
    return 0.1 if case["dim"] == "0D" else su.dt_1d(const) if case["dim"] == "1D" else su.dt_2d(const)


def _cmp_one(case, impl, m):
    dis = []
    run = impl["runs"][0]
    if (run["raise"] or None) != (m["raise"] or None):
        return [f"exception: impl {run['raise']} vs model {m['raise']} ({m.get('stage')})"]
    if run["raise"]:
        return dis
    res = run["snap"]["results"]
    dt = _dt(case, impl["const"])
    i_impl = int(round(res["t_nuc"] * 60 / dt))
    if i_impl != m["NtCoolEnd"]:
        dis.append(f"trigger step: impl {i_impl} vs model {m['NtCoolEnd']}")
    for k, v in m["stats"].items():
        if k in ("t_sol", "t_fr"):
            continue
        if not close(res[k], v):
            dis.append(f"{k}: impl {res[k]!r} vs model {v!r}")
    return dis


def _compare_one(case, impl, model):
    if model is None:
        return []
    if impl.get("raise") or model.get("stage") == "init":
        return [] if (impl.get("raise") or None) == (model.get("raise") or None) else \
            [f"init exception: impl {impl.get('raise')} vs rule {model.get('raise')}"]
    if model.get("is2D"):
        return su.compare_2d(case, impl["runs"][0], model, arrays=False)
    d_new = _cmp_one(case, impl, model["new"])
    if not d_new:
        return []
    d_old = _cmp_one(case, impl, model["old"])
    if not d_old:
        return ["implementation behaves as the UNREPAIRED test `T_k.any() <= cnTemp + 273.15` (cnTestOld, defect F4): "
                + "; ".join(d_new[:3])]
    return d_new


# ---------------------------------------------------------------------------
def _min_by_step(case, impl, run):
    res = run["snap"]["results"]
    dt = _dt(case, impl["const"])
    i_end = int(round(res["t_nuc"] * 60 / dt))
    temp = run["snap"]["temp"]
    if case["dim"] == "0D":
        T = np.array([t for t in temp[:i_end]] + [res["T_nuc"]])
        return T, i_end
    a = np.array(temp[: i_end + 1])
    return a.reshape(a.shape[0], -1).min(axis=1), i_end


def _predicates_pair(case, impl, out):
    """the trigger step must not depend on the process length (the total time only prolongs the final hold)"""
    pair = impl.get("pair")
    run = impl["runs"][0]
    if not pair or pair.get("raise") or run.get("raise") or pair["runs"][0].get("raise"):
        return
    site = f"_run_{case['dim']}"
    a, b = run["snap"]["results"], pair["runs"][0]["snap"]["results"]
    key = "T_nuc" if case["dim"] == "0D" else "T_nuc_min"
    if not (close(a["t_nuc"], b["t_nuc"]) and close(a[key], b[key])):
        out.append(Failure(clause="cn_trigger_first", key=f"cn_trigger_first|{site}|depends-on-process-length",
                           detail=f"t_tot = {case['t_tot']} s (save stride > 1): t_nuc {a['t_nuc'] * 60} s, {key} {a[key]}; "
                                  f"same programme with t_tot = {case['pair_t_tot']} s (every step recorded): t_nuc "
                                  f"{b['t_nuc'] * 60} s, {key} {b[key]} - the first step at which the coldest point is <= "
                                  f"cnTemp = {case['cnTemp']} does not depend on the final hold"))


def _predicates_one(case, impl):
    out = []
    if impl.get("raise") or not impl.get("runs"):
        return out
    run = impl["runs"][0]
    rb = run.get("cnTemp_readback", "absent")
    if rb != "absent" and case.get("cnTemp") is not None and not (isinstance(rb, float) and rb == float(case["cnTemp"])):
        out.append(Failure(clause="cn_trigger_first", key=f"cnTemp_readback|_run_{case['dim']}|",
                           detail=f"requested cnTemp = {case['cnTemp']} C but S.opcond.cnTemp reads back {rb}"))
    after = run.get("cnTemp_after", "absent")
    if after != "absent" and not (after == (None if case.get("cnTemp") is None else float(case["cnTemp"]))):
        out.append(Failure(clause="cn_trigger_first", key=f"opcond_mutated|_run_{case['dim']}|",
                           detail=f"cnTemp was {case.get('cnTemp')} before run() and reads {after} afterwards: the run "
                                  f"changed the user's operating conditions"))
    _predicates_pair(case, impl, out)
    cn = case.get("cnTemp")
    if run.get("raise") or cn is None:
        return out
    dim = case["dim"]
    site = f"_run_{dim}"
    res = run["snap"]["results"]
    dt = _dt(case, impl["const"])
    tnuc = res["T_nuc"] if dim == "0D" else res["T_nuc_min"]
    tol = 1e-9 * max(1.0, abs(cn))
    if su.n_steps(case["t_tot"], dt) > 10000 and dim != "0D":
        if tnuc > cn + tol:
            out.append(Failure(clause="cn_Tnuc_close", key=f"cn_Tnuc_close|{site}|above-cnTemp",
                               detail=f"T_nuc_min {tnuc} C > cnTemp {cn} C"))
        return out
    minT, i_end = _min_by_step(case, impl, run)
    if len(minT) != i_end + 1:
        out.append(Failure(clause="cn_trigger_first", key=f"cooling_rows_missing|{site}|",
                           detail=f"t_nuc = {res['t_nuc']} min is step {i_end} but only {len(minT)} cooling rows were "
                                  f"recorded (every step should be): the trigger clauses cannot be evaluated"))
        return out
    if minT[i_end] > cn + tol:
        out.append(Failure(clause="cn_trigger_first", key=f"cn_trigger_first|{site}|fires-before-reaching-cnTemp",
                           detail=f"controlled nucleation at step {i_end} (t_nuc = {res['t_nuc']} min) although the "
                                  f"coldest point is at {minT[i_end]} C > cnTemp = {cn} C"))
    early = [j for j in range(i_end) if minT[j] <= cn - tol]
    if early:
        out.append(Failure(clause="cn_trigger_first", key=f"cn_trigger_first|{site}|fires-late",
                           detail=f"coldest point reached cnTemp {cn} at step {early[0]} ({minT[early[0]]} C) but "
                                  f"nucleation was triggered at step {i_end}"))
    prev = np.concatenate(([case["start"]], minT[:-1]))
    maxdrop = float(np.max(prev - minT)) if len(minT) else 0.0
    if not (tnuc <= cn + tol and tnuc > cn - maxdrop - tol):
        out.append(Failure(clause="cn_Tnuc_close", key=f"cn_Tnuc_close|{site}|",
                           detail=f"reported nucleation temperature {tnuc} C is not within one step's cooling "
                                  f"({maxdrop} K) below cnTemp = {cn} C"))
    if dim == "0D":
        # the 0D history does not contain the temperature of the trigger step itself (it is `T_nuc`): re-derive it
        # from the last recorded temperature by the lumped step T + dt A K (T_shelf - T)/(cp m), with the programmed
        # shelf temperature of that step
        c = impl["const"]
        prof = su.programmed_profile(su.programs(case)[0] if len(su.programs(case)) == 1 else
                                     {k: case[k] for k in ("t_tot", "start", "stop", "rate", "holds", "cnTemp")}, dt)
        prev = (case["start"] if i_end == 0 else run["snap"]["temp"][i_end - 1]) + 273.15
        if i_end < len(prof):
            exp = prev + dt * (c["A"] * case["k_s0"] * (prof[i_end] + 273.15 - prev)) / (c["cp_solution"] * c["mass"]) - 273.15
            if not close(tnuc, exp, rtol=1e-9):
                out.append(Failure(clause="cn_Tnuc_close", key=f"Tnuc_is_field_min|{site}|",
                                   detail=f"reported T_nuc {tnuc} but one cooling step from the last recorded temperature "
                                          f"{prev - 273.15} gives {exp}"))
    elif not close(tnuc, float(minT[i_end]), rtol=1e-9):
        out.append(Failure(clause="cn_Tnuc_close", key=f"Tnuc_is_field_min|{site}|",
                           detail=f"reported {tnuc} vs coldest point of the recorded field {minT[i_end]}"))
    return out


# --- object histories: `S.opcond.cnTemp = T` edited IN PLACE between runs; every run is checked against the
# --- cnTemp in force at that run (as the run of a fresh object with that programme)
def _views(case, impl):
    if impl.get("raise") or not impl.get("runs"):
        return [(case, impl)]
    out = []
    for k, run in enumerate(impl["runs"]):
        ck = su.case_of_run(case, k) if len(impl["runs"]) > 1 else case
        ik = dict(impl, runs=[run])
        if run.get("const") is not None:
            ik["const"], ik["visf"] = run["const"], run.get("visf")
        out.append((ck, ik))
    return out


def run_model(drv, case):
    n = len(su.programs(case))
    if n == 1:
        return _run_model_one(drv, case)
    return {"history": [_run_model_one(drv, su.case_of_run(case, k)) for k in range(n)]}


def compare(case, impl, model):
    if model is None or "history" not in model:
        return _compare_one(case, impl, model)
    if impl.get("raise"):
        return _compare_one(case, impl, model["history"][0])
    dis = []
    for k, ((ck, ik), mk) in enumerate(zip(_views(case, impl), model["history"])):
        if "snap" not in ik["runs"][0]:
            continue
        dis += [f"run {k} of the object history (cnTemp in force: {ck.get('cnTemp')}): {d}"
                for d in _compare_one(ck, ik, mk)]
    return dis


def predicates(case, impl):
    out = su.init_failures(case, impl, Failure)
    for k, (ck, ik) in enumerate(_views(case, impl)):
        if ik.get("runs") and "snap" not in ik["runs"][0]:
            continue
        if ck.get("cnTemp") is None and k > 0:
            # cnTemp switched OFF in place: the run must be a stochastic one (first crossing of the hazard, C08)
            import props.c08 as c08

            fs = c08._predicates_one(ck, ik)
        else:
            fs = _predicates_one(ck, ik)
        if k > 0:
            for f in fs:
                f["key"] += "|cnTemp-edited-in-place"
                f["detail"] = f"run {k} after `S.opcond.cnTemp = {ck.get('cnTemp')}` (edited in place): " + f["detail"]
        out += fs
    return out


def classify(case, impl):
    tags = [f"dim={case['dim']}", f"config={case.get('config', 'shelf')}", f"cn={case.get('cnTemp')}"]
    if impl.get("raise"):
        tags.append("init-raise")
    elif impl["runs"][0].get("raise"):
        tags.append("raise=" + impl["runs"][0]["raise"])
    else:
        tags.append("completed")
    return tags


def nontrivial(case, impl):
    return not impl.get("raise") and bool(impl.get("runs")) and not impl["runs"][0].get("raise")


# ---------------------------------------------------------------------------
CNS = [-3.0, -5.0, -8.0, -12.0, 0, 0.0]


def case_0d(rng):
    return su.with_yaml(_case_0d(rng), su.solution_yaml(rng))


def _case_0d(rng):
    rate = rng.choice([0.05, 0.1, 0.25])
    holds = None
    if rng.random() < 0.3:
        holds = [[rng.choice([0, -5]), rng.choice([60, 300])]]
    return dict(dim="0D", config="shelf", k_s0=rng.choice([30, 50, 100, 200]),
                t_tot=rng.choice([3000, 4000]) + (holds[0][1] if holds else 0),
                start=rng.choice([20, 5, 12.5, rng.uniform(0, 25)]), stop=-50, rate=rate, holds=holds,
                cnTemp=rng.choice(CNS), Frand=None)


def case_1d(rng, config="shelf"):
    return su.with_yaml(_case_1d(rng, config), su.solution_yaml(rng))


def _case_1d(rng, config="shelf"):
    h, k, rate, steps = rng.choice(su.CAL_1D)
    dt = su.dt_1d_default(h)
    holds = None
    extra = 0
    if rng.random() < 0.3:
        dur = rng.choice([20, 60]) * dt
        holds = [[rng.choice([0, -5]), dur]]
        extra = int(dur / dt)
    n = min(steps + extra + 300, 9900)
    c = dict(dim="1D", config=config, height=h, k_s0=k, t_tot=n * dt, start=rng.choice([20, 10, rng.uniform(5, 25)]),
             stop=-50, rate=rate, holds=holds, cnTemp=rng.choice(CNS), Frand=None)
    if config == "VISF":
        c["yaml"] = {"VISF": {"t_vac_start": 0.05 * n * dt / 3600, "t_vac_duration": 0.05, "p_vac": 100}}
    return c


def case_2d(rng):
    h = 0.05
    dt = su.dt_2d_default(h, h)
    return dict(dim="2D", config="shelf", height=h, diameter=h, k_s0=2000, t_tot=9500 * dt, start=20, stop=-50,
                rate=0.5, holds=None, cnTemp=rng.choice(CNS), Frand=None)


def _p1d(h, k, rate, steps, **kw):
    dt = su.dt_1d_default(h)
    c = dict(dim="1D", config="shelf", height=h, k_s0=k, t_tot=steps * dt, start=20, stop=-50, rate=rate, holds=None,
             cnTemp=-5.0, Frand=None)
    c.update(kw)
    return c


def _visf_early(steps_dt):
    """vacuum from t = 0.002 h on: the evaporating top surface is the coldest point when cnTemp is reached"""
    return {"VISF": {"t_vac_start": 0.002, "t_vac_duration": 0.05, "p_vac": 100}}


def special_cases(tier):
    """boundary inputs of the trigger: cnTemp = 0 / 0.0 (falsy), T_eq != 0 (threshold is cnTemp + 273.15, not
    cnTemp + T_m), VISF with an early vacuum window (coldest point at the top, not at the shelf) - in every
    dimensionality"""
    p0 = dict(dim="0D", config="shelf", k_s0=100, t_tot=3000, start=20, stop=-50, rate=0.1, holds=None, Frand=None)
    out = [dict(p0, cnTemp=0), dict(p0, cnTemp=0.0, start=12.5, k_s0=50)]
    for teq in (3.8, -2.0):
        out.append(dict(p0, cnTemp=-5.0, yaml={"solution": {"T_eq": teq}}))
        out.append(_p1d(0.03, 2000, 0.5, 5600, cnTemp=-5.0, yaml={"solution": {"T_eq": teq}}))
    out.append(_p1d(0.03, 400, 0.5, 6800, cnTemp=0))
    out.append(_p1d(0.05, 2000, 0.5, 5000, cnTemp=0.0))
    out.append(_p1d(0.03, 400, 0.5, 6800, cnTemp=-5.0, config="VISF", yaml=_visf_early(0)))
    out.append(_p1d(0.05, 400, 0.05, 7000, cnTemp=-8.0, config="VISF", yaml=_visf_early(0)))
    h = 0.05
    dt2 = su.dt_2d_default(h, h)
    p2 = dict(dim="2D", height=h, diameter=h, k_s0=2000, t_tot=9500 * dt2, start=20, stop=-50, rate=0.5, holds=None,
              Frand=None)
    out.append(dict(p2, config="shelf", cnTemp=-5.0, yaml={"solution": {"T_eq": 3.8}}))
    out.append(dict(p2, config="VISF", cnTemp=0.0, yaml=_visf_early(0)))
    jc = su.jacket_case()
    out.append(dict(jc, cnTemp=-5.0, Frand=None, kind="2D-jacket-cn"))
    if tier != "quick":
        out.append(dict(p2, config="shelf", cnTemp=0, yaml={"solution": {"T_eq": -2.0}}))
        out.append(dict(p2, config="VISF", cnTemp=-8.0, yaml=_visf_early(0)))
    return out


def cases_edit_in_place():
    """ONE Snowing object, `S.opcond.cnTemp` edited in place between runs: value -> value, None -> value,
    value -> None (0D), and value -> value in 1D"""
    p0 = dict(dim="0D", config="shelf", k_s0=100, t_tot=3000, start=20, stop=-50, rate=0.1, holds=None, Frand=0.5)

    def nxt(cn):
        return dict(t_tot=3000, start=20, stop=-50, rate=0.1, holds=None, cnTemp=cn, Frand=0.5, edit="cnTemp-in-place")

    a = dict(p0, cnTemp=-3.0, kind="edit-in-place", runs=[nxt(-8.0), nxt(None), nxt(-2.0)])
    b = dict(p0, cnTemp=None, kind="edit-in-place", runs=[nxt(-2.0), nxt(-12.0)])
    h = 0.05
    dt = su.dt_1d_default(h)
    p1 = dict(dim="1D", config="shelf", height=h, k_s0=2000, t_tot=5000 * dt, start=20, stop=-50, rate=0.5, holds=None,
              Frand=0.5)
    c = dict(p1, cnTemp=-3.0, kind="edit-in-place",
             runs=[dict(t_tot=5000 * dt, start=20, stop=-50, rate=0.5, holds=None, cnTemp=-8.0, Frand=0.5,
                        edit="cnTemp-in-place")])
    return [a, b, c]


def cases_long_process(tier):
    """controlled nucleation in processes with more than 10 000 steps (save stride 2 - 5); cnTemp is chosen - by
    means of the model - so that the first step with coldest point <= cnTemp is NOT a multiple of the stride; each
    is paired with the same programme at <= 10 000 steps (the trigger must not depend on the final hold)"""
    h, k, rate = 0.03, 400, 0.5
    dt = su.dt_1d_default(h)
    specs = [(12000, 2), (24000, 3)] if tier == "quick" else [(12000, 2), (24000, 3), (40000, 5), (33000, 4)]
    try:
        drv = core.Driver()
        base = dict(dim="1D", config="shelf", height=h, k_s0=k, start=20, stop=-40, rate=rate, holds=None, Frand=None)
        rec = su.record_inputs(dict(base, t_tot=8000 * dt, cnTemp=-3.2))
        steps = {}
        for cn in (-3.2, -4.1, -5.3, -6.2, -7.4, -2.6, -8.1):
            m = su.decode_model(drv.call(su.model_request(dict(base, t_tot=8000 * dt, cnTemp=cn), rec, Frand=0.5,
                                                          old=False, row_stride=10 ** 9)))
            if not m["raise"]:
                steps[cn] = m["NtCoolEnd"]
        drv.close()
        for n, stride in specs:
            cn = next((c for c, st in steps.items() if st % stride != 0), None)
            if cn is None:
                continue
            yield dict(base, t_tot=n * dt, cnTemp=cn, pair_t_tot=8000 * dt, kind=f"long-process:stride={stride}")
    except Exception:
        return


def cases_cn_below_end():
    """VISF: evaporation makes the product colder than the shelf, so a trigger temperature BELOW the programme's end
    temperature is a legitimate request (1D, 1.5 cm, 10 Pa from 6 to 12 min, shelf ends at -25 C, cnTemp -30 C)"""
    return [dict(dim="1D", config="VISF", height=0.015, diameter=0.015, k_s0=400, t_tot=1500, start=20, stop=-25.0,
                 rate=0.5, holds=None, cnTemp=-30.0, Frand=None, kind="cnTemp-below-end",
                 yaml={"VISF": {"t_vac_start": 0.1, "t_vac_duration": 0.1, "p_vac": 10}})]


def cases_hold_below_cn():
    """a HOLD whose temperature lies below cnTemp: the lagging product crosses cnTemp while the shelf is on the
    hold - the trigger must fire then, not at the end of the hold"""
    a = dict(dim="0D", config="shelf", k_s0=50, t_tot=7200 + 2500, start=20, stop=-50, rate=0.1, holds=[[-10.0, 7200]],
             cnTemp=-8.0, Frand=None, kind="hold-below-cnTemp")
    h = 0.05
    dt = su.dt_1d_default(h)
    b = dict(dim="1D", config="shelf", height=h, k_s0=2000, t_tot=(4700 + 1200) * dt + 1200, start=20, stop=-50, rate=0.5,
             holds=[[-10.0, 1200]], cnTemp=-8.0, Frand=None, kind="hold-below-cnTemp")
    c = dict(a, holds=[[-6.0, 3600]], cnTemp=-5.0, t_tot=3600 + 2500, yaml={"solution": {"T_eq": 3.82}})
    return [a, b, c]


def cases_array_cntemp():
    """cnTemp given as a numpy array (0-d, or a 1-element row of a table) and a SECOND solver call on the same
    OperatingConditions object (re-run; sequential repetitions): every call must see the requested value, and the
    operating conditions must be unchanged by a run"""
    p0 = dict(dim="0D", config="shelf", k_s0=100, t_tot=3000, start=20, stop=-50, rate=0.1, holds=None, Frand=None)
    again = dict(t_tot=3000, start=20, stop=-50, rate=0.1, holds=None, Frand=None, edit="rerun-same-opcond")
    out = []
    for kind in ("np0d", "np1"):
        out.append(dict(p0, cnTemp=-8.0, cn_kind=kind, kind=f"array-cnTemp:{kind}:rerun",
                        runs=[dict(again, cnTemp=-8.0, cn_kind=kind)]))
    out.append(dict(p0, cnTemp=-5.0, cn_kind="np1", Nrep=2, how="sequential", kind="array-cnTemp:np1:Nrep=2"))
    h = 0.05
    dt = su.dt_1d_default(h)
    p1 = dict(dim="1D", config="shelf", height=h, k_s0=2000, t_tot=5000 * dt, start=20, stop=-50, rate=0.5, holds=None,
              Frand=None)
    out.append(dict(p1, cnTemp=-8.0, cn_kind="np0d", kind="array-cnTemp:np0d:rerun",
                    runs=[dict(t_tot=5000 * dt, start=20, stop=-50, rate=0.5, holds=None, Frand=None, cnTemp=-8.0,
                               cn_kind="np0d", edit="rerun-same-opcond")]))
    return out


def cases(rng, tier):
    for c in cases_hold_below_cn() + cases_array_cntemp():
        yield c
    for c in cases_long_process(tier):
        yield c
    for c in cases_cn_below_end():
        yield c
    for c in cases_edit_in_place():
        yield c
    n0, n1, nv, n2 = (20, 8, 2, 0) if tier == "quick" else (300, 100, 16, 8)
    for c in special_cases(tier):
        yield c
    for _ in range(n1):
        yield case_1d(rng)
    for _ in range(nv):
        yield case_1d(rng, "VISF")
    for _ in range(n2):
        yield case_2d(rng)
    for _ in range(n0):
        yield case_0d(rng)


def widen(rng, tier):
    for _ in range(16):
        yield case_1d(rng)
    for _ in range(4):
        yield case_2d(rng)
