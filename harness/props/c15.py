"""C15 The model hierarchy is consistent across its shared limits."""
from __future__ import annotations

import math
import os
import tempfile

import shim  # noqa: F401
import numpy as np

import core
from core import Failure
import snowing2dutil as u

ID = "C15"
LEAN_MODULE = "SnowProofs.Props.C15"
THEOREMS = [
    dict(name="Snow.C15.radial_uniform_preserved", strength="full",
         clause="repaired 2D cooling step, no jacket: a radially uniform field stays radially uniform and every "
                "column is the 1D step (same dt, dz, ghost values)"),
    dict(name="Snow.C15.radial_uniform_ctx", strength="full", clause="the same for an arbitrary model context"),
    dict(name="Snow.Stencil1D.coolStencil_eq_col1D", strength="full",
         clause="the column update used in radial_uniform_preserved is the executable 1D stencil Snow.coolStencil"),
    dict(name="Snow.C15.radial_uniform_inplace_counterexample", strength="refutation-of-old-code",
         clause="current (aliased, in-place) update: one step from a uniform field gives 8 next to 7.2 (3x3 grid, exact)"),
    dict(name="Snow.C15.radial_uniform_repaired_witness", strength="full",
         clause="the same step with the repaired update: 8, 8, 8"),
    dict(name="Snow.C15.qEvap_uniform", strength="full",
         clause="hypothesis hq of radial_uniform_preserved discharged: on a radially uniform field the evaporative flux "
                "is the same in every column"),
    dict(name="Snow.C15.radial_uniform_cooling_loop", strength="full",
         clause="repaired update, shelf or VISF: the field is radially uniform after EVERY step of the cooling loop"),
    dict(name="Snow.C15.evap2D_eq_evap1D", strength="full",
         clause="repaired F11: cooling-stage evaporative flux of a 2D column = the 1D model's flux at that top temperature"),
    dict(name="Snow.C15.mean1D_obeys_0D", strength="full",
         clause="the mean of the 1D column evolves by the 0D formula driven by the bottom node (cooling stage)"),
    dict(name="Snow.C15.mean1D_obeys_0D_field", strength="full",
         clause="the same for the model's step coolField1D (q_shelf = K_shelf*(T_sh-T[0]), q_e = qEvap)"),
    dict(name="Snow.C15.flake1_eq_0D_cooling", strength="full",
         clause="isolated 1x1x1 Snowflake liquid step = Snowing-0D cooling step up to the C/K shift"),
    dict(name="Snow.C15.nuc0D_eq_direct", strength="full",
         clause="0D nucleation state = Snowflake's direct formulation (same quadratic, same branch)"),
    dict(name="Snow.C15.solid_rhs_equiv", strength="full",
         clause="on the liquidus the 0D dT/dt equals dT/dsigma times Snowflake's dsigma/dt (same ODE)"),
    dict(name="monitored:radial_uniform_after_nucleation", strength="monitored",
         clause="the 2D field stays radially uniform through nucleation and solidification (no theorem; radial spread "
                "evaluated at every reported time)"),
    dict(name="monitored:column_eq_1D_over_run", strength="monitored",
         clause="2D columns = 1D model of equal cross-section over a whole run (different dt): paired runs"),
    dict(name="monitored:same_cooling_curve_and_state", strength="monitored",
         clause="Snowflake 1x1x1 and Snowing-0D: same cooling curve, nucleation state and solidification curve over a "
                "run (the theorems are one-step / algebraic): paired runs, also with T_eq != 0"),
    dict(name="monitored:tsol_agree", strength="monitored", clause="solidification times agree to O(dt)"),
    dict(name="monitored:thin_limit", strength="monitored",
         clause="1D approaches 0D as the vial becomes thermally thin: |T[0]-mean| <= Bi*|T_sh-mean| and cooling curve"),
    dict(name="Snow.C15.yDef_is_generated_default", strength="witness",
         clause="Snowflake's derived default constants equal those of the GENERATED calculateDerived on the GENERATED "
                "default YAML tree (exact over Q)"),
    dict(name="Snow.C15.nuc0D_eq_direct_hyps", strength="witness",
         clause="the constant relations assumed by nuc0D_eq_direct hold between Flake.deriveConsts(default) and the default SnowIn"),
    dict(name="Snow.C15.nonvacuous", strength="nonvacuity", clause="hypotheses satisfiable on concrete cases"),
]
TRUSTED = [
    "Lean 4.33 kernel; axioms per theorem listed under coverage.axioms",
    "theorems are over the reals: IEEE rounding is not modelled (the two witnesses are exact over Rat, decide +kernel)",
    "hand-written models SnowModel/Snowing2D.lean (tied to _run_2D by this check: whole recorded fields, rtol 1e-9), "
    "Snowing0D/1D.lean (tied by C08/C11/C13), Flake.lean (tied by C01/C03)",
]
ASSUMPTIONS = [
    "satisfiability of 'the run completed' (1D/2D) is not witnessed in Lean; it rests on the differential runs, as for "
    "C08/C11/C13",
    "thin-vial limit |T[0]-mean| <= C*Bi and O(dt) agreement of solidification times are NOT theorems: they are "
    "evaluated on paired real runs (monitored clauses thin_limit, tsol_agree)",
    "2D vs 1D agreement of whole trajectories (different dt) is evaluated on paired runs with a 0.25 K tolerance in the "
    "cooling stage and, after nucleation, 2 K up to a time shift of 2 % of the time since nucleation (the two time "
    "lines legitimately differ by 1-2 %); the exact statement is the one-step theorem",
]
RULE = ("paired real runs: 2D shelf/VISF vs 1D of equal cross-section (radial spread at every reported time, column "
        "gap, evaporative flux actually applied vs the liquid law), Snowflake 1x1x1 (direct, controlled nucleation at "
        "the end of a hold) vs Snowing-0D with cnTemp at the same instant, 1D vs 0D for decreasing heights; a case is "
        "non-trivial when all its runs complete")
EXPLANATION = ("Lean theorems for the algebraic identities between the models + differential check of the 2D model + "
               "paired real runs for the limits")
PARALLEL = True

# --- regeneration tie (harness/gentie.py): the formulas of the hand model SnowModel/Snowing2D.lean are re-derived
# from /repo's source on every run and proved equal to the generated text (lean/SnowProofs/Props/GenTie/)
import gentie  # noqa: E402
THEOREMS = THEOREMS + gentie.theorems("2D")
extra_lean_targets = list(globals().get("extra_lean_targets", [])) + [gentie.module("2D")]
TRUSTED = TRUSTED + ["harness/translate.py formula extraction (single assignments of the run loop -> Lean definitions; "
                     "anything outside its tiny language is a TranslatorError)"]


def regenerate():
    gentie.regenerate("2D")

LEVEL_TEXT = ("Proof for the algebraic identities, evaluation for the limits. Lean 4 theorems (exact reals): the repaired 2D "
              "cooling step without jacket keeps a radially uniform field uniform and each column is the 1D step, and by induction "
              "the field is radially uniform after every step of the cooling loop (top-flux hypothesis discharged); exact "
              "Rat counter-example for the aliased in-place update of the code before F10; cooling-stage evaporative "
              "flux 2D = 1D after F11; mean of the 1D column obeys the 0D formula; isolated Snowflake liquid step = 0D "
              "cooling step; 0D nucleation state = Snowflake direct formulation; same solidification ODE. NOT theorems "
              "(evaluated on paired real runs, reported in the evidence): thin-vial limit |T[0]-mean| <= Bi*|T_sh-mean|, "
              "O(dt) agreement of solidification times, 2D-vs-1D agreement of whole trajectories.")


def _strip(case):
    return {k: v for k, v in case.items() if k not in ("kind", "_corpus")}


# ---------------------------------------------------------------------------
def _flake_pair(case, k=None, op=None):
    """Snowflake 1x1x1 (direct formulation, controlled nucleation at the end of the hold, spontaneous
    nucleation switched off by a tiny kb) and Snowing-0D with cnTemp = the Snowflake nucleation temperature"""
    import yaml
    from ethz_snow.snowflake import Snowflake
    from ethz_snow.operatingConditions import OperatingConditions

    K = case["K_shelf"]
    shared_op = op is not None
    if op is None:
        op = OperatingConditions(t_tot=case["t_tot"], cooling={"rate": case["rate"], "start": case["start"],
                                                               "end": case["stop"]},
                                 holding=[dict(temp=case["hold"][0], duration=case["hold"][1])],
                                 cnTemp=case["hold"][0])
    else:
        # ONE OperatingConditions object shared by every model object of the history, edited IN PLACE
        op.t_tot = case["t_tot"]
        op.cooling["rate"], op.cooling["start"], op.cooling["end"] = case["rate"], case["start"], case["stop"]
        op.holding = [dict(temp=case["hold"][0], duration=case["hold"][1])]
        op.cnTemp = case["hold"][0]
    fd, path = tempfile.mkstemp(suffix=".yaml", prefix="flake_")
    try:
        with os.fdopen(fd, "w") as f:
            y = {"kinetics": {"a": 80.0}}
            if case.get("solution"):
                y["solution"] = {k: float(v) for k, v in case["solution"].items()}
            yaml.safe_dump(y, f)
        if k is None:
            kd = case.get("kdict")
            if kd == "required":      # only the required keys: the optional ones take their documented meaning
                kf = {"int": 0, "ext": 0, "s0": K}
            elif kd == "reordered":   # optional / extra keys, any order
                kf = {"s_sigma_rel": 0, "note": "sweep", "s0": K, "ext": 0, "int": 0}
            else:
                kf = {"int": 0, "ext": 0, "s0": K, "s_sigma_rel": 0}
        else:
            k["s0"] = K          # parameter sweep on ONE dict shared by all objects
            kf = k
        S = Snowflake(k=kf, N_vials=(1, 1, 1), storeStates="all",
                      dt=0.1, seed=1, opcond=op, configPath=path, initIce="direct")
    finally:
        os.unlink(path)
    S.run()
    X, st = S._X, S.stats
    tn = float(st["t_nucleation"][0])
    if math.isnan(tn):
        return {"raise": "NoNucleation", "site": "Snowflake.run",
                "stage": "controlled nucleation at the end of the hold did not nucleate the vial"}
    kn = int(round(tn / 0.1))  # column kn holds the state right after the nucleation jump
    Tn = float(st["T_nucleation"][0])
    c0 = dict(dim="homogeneous", config="shelf", height=0.01, diameter=0.01, K_shelf=K, start=case["start"],
              stop=case["stop"], rate=case["rate"], holds=[list(case["hold"])], t_tot=case["t_tot"],
              cn=Tn + 1e-9, seed=0, kinetics={"a": 80.0})
    if case.get("solution"):
        c0["solution"] = dict(case["solution"])
    if shared_op:
        op.cnTemp = Tn + 1e-9      # the 0D model nucleates when the product reaches cnTemp
    r = u.run_real_full(c0, k=k, opcond=(op if shared_op else None))
    if r["raise"]:
        return {"raise": r["raise"], "site": "Snowing._run_0D", "stage": r.get("stage")}
    T0, w0 = r["temp"], r["ice"]
    n0 = int(round(r["stats"][1] * 60 / 0.1))
    ws = r["const"]["solid_fraction"]
    m = min(kn - 1, n0)
    return {"raise": None,
            "cool_gap": float(np.max(np.abs(X[0, 1:m + 1] - T0[0:m]))),
            "steps_cooling": m,
            "step_flake": kn - 1, "step_0D": n0,
            "Tnuc_flake": Tn, "Tnuc_0D": float(r["stats"][0]),
            # one step after the jump (the first state the 0D model reports)
            "T_after_flake": float(X[0, kn + 1]), "T_after_0D": float(T0[n0]),
            "sigma_after_flake": float(X[1, kn + 1]), "sigma_after_0D": float(w0[n0] / (1 - ws)),
            "sigma_jump_flake": float(X[1, kn]),
            # frozen fraction half-way through solidification (column k+1 of Snowflake <-> entry k of 0D)
            "sigma_mid_flake": float(X[1, min(kn + 1 + int(0.5 * r["stats"][2] * 600), X.shape[1] - 1)]),
            "sigma_mid_0D": float(w0[min(n0 + int(0.5 * r["stats"][2] * 600), len(w0) - 1)] / (1 - ws)),
            "tsol_flake": float(st["t_solidification"][0]), "tsol_0D": float(r["stats"][2] * 60)}


def _thin(case):
    """1D vs 0D for one height"""
    H = case["height"]
    base = dict(config="shelf", height=H, diameter=0.01, K_shelf=case["K_shelf"], start=5, stop=-80,
                rate=case["rate"], holds=None, t_tot=case["t_tot"], cn=None, seed=0)
    r1 = u.run_real_full(dict(base, dim="spatial_1D"))
    r0 = u.run_real_full(dict(base, dim="homogeneous"))
    if r1["raise"] or r0["raise"]:
        return {"raise": r1["raise"] or r0["raise"]}
    T = r1["temp"]
    has = np.nonzero(r1["ice"].max(axis=1) > 0)[0]
    inuc = int(has[0]) if len(has) else len(T)
    Tc = T[:inuc]
    gap = np.abs(Tc[:, 0] - Tc.mean(axis=1))
    drive = np.abs(r1["shelf"][:inuc] - Tc.mean(axis=1))
    k0 = 0.05 * 0.126 + 0.95 * 0.598
    Bi = case["K_shelf"] * H / k0
    k = int(np.argmax(gap - Bi * drive))
    # cooling curve: height-averaged 1D temperature at its reported times vs the 0D curve at the same times
    t1 = r1["time"][:inuc] * 3600
    t0 = r0["time"] * 3600
    has0 = np.nonzero(r0["ice"] > 0)[0]
    n0 = int(has0[0]) if len(has0) else len(t0)
    m = t1 <= t0[max(n0 - 1, 0)]
    T0i = np.interp(t1[m], t0[:n0], r0["temp"][:n0])
    cdev = np.abs(Tc.mean(axis=1)[m] - T0i) - Bi * np.maximum(drive[m], np.abs(r1["shelf"][:inuc][m] - T0i))
    kc = int(np.argmax(cdev)) if m.any() else 0
    return {"raise": None, "Bi": Bi, "curve_excess": float(cdev[kc]) if m.any() else 0.0,
            "curve_dev": float(np.max(np.abs(Tc.mean(axis=1)[m] - T0i))) if m.any() else 0.0,
            "curve_t": float(t1[m][kc]) if m.any() else 0.0, "rows_1D": int(len(T)), "gap_max": float(gap.max()), "worst_excess": float((gap - Bi * drive)[k]),
            "Tnuc_mean_1D": float(r1["stats"][2]), "Tnuc_0D": float(r0["stats"][0]),
            "tnuc_1D": float(r1["stats"][4]), "tnuc_0D": float(r0["stats"][1])}


def run_impl(case):
    kind = case.get("kind")
    if kind == "radial2D":
        return u.observe(_strip(case))
    if kind == "pair2D1D":
        c2 = _strip(case)
        c1 = dict(c2, dim="spatial_1D")
        c1["length"] = c1["width"] = float(math.sqrt(math.pi) * c2["diameter"] / 2)
        o2 = u.observe(c2)
        if o2.get("raise"):
            return {"raise": o2.get("raise")}
        # the 1D sibling at full time resolution (the top node moves by K/s when the vacuum starts)
        r1 = u.run_real_full(c1)
        if r1.get("raise"):
            return {"raise": r1.get("raise")}
        t2 = np.asarray(o2["time"])[o2["rows"]] * 3600
        t1 = r1["time"] * 3600
        T2 = np.asarray(o2["temp"]).reshape(len(o2["rows"]), 30, 15)
        T1 = r1["temp"]
        has = np.nonzero(r1["ice"].max(axis=1) > 0)[0]
        inuc1 = int(has[0]) if len(has) else len(t1)
        tend = min(t2[o2["rows"].index(o2["iSaveEnd"])], t1[min(inuc1, len(t1) - 1)]) - 1e-9
        gaps = []
        for a, tt in enumerate(t2):
            if tt >= tend or o2["rows"][a] >= o2["iSaveEnd"]:
                continue
            b = int(np.searchsorted(t1[:inuc1], tt))
            if b == 0 or b >= inuc1:
                continue
            lam = (tt - t1[b - 1]) / (t1[b] - t1[b - 1])
            col1 = (1 - lam) * T1[b - 1] + lam * T1[b]
            gaps.append(float(np.max(np.abs(T2[a] - col1[:, None]))))
        # after nucleation (both models frozen in part): rows later than both nucleation times + 5 s
        tn2 = t2[o2["rows"].index(o2["iSaveEnd"])]
        tn1 = t1[min(inuc1, len(t1) - 1)]
        late = []

        def col1_at(tq):
            b = int(np.searchsorted(t1[inuc1 + 1:], tq)) + inuc1 + 1
            if b <= inuc1 + 1 or b >= len(t1):
                return None
            lam = (tq - t1[b - 1]) / (t1[b] - t1[b - 1]) if t1[b] > t1[b - 1] else 0.0
            return (1 - lam) * T1[b - 1] + lam * T1[b]

        # The two models run with different time steps and different quadratures of the nucleation
        # hazard, so their timelines after nucleation legitimately differ by 1-2 % (t_sol agrees to
        # ~1.5 %); when the freezing front reaches the top the temperature changes by K/s.  The gap
        # is therefore taken up to a time shift of at most 2 % of the time elapsed since nucleation.
        for a, tt in enumerate(t2):
            if o2["rows"][a] <= o2["iSaveEnd"] or tt < max(tn1, tn2) + 5.0:
                continue
            best = None
            for sh in np.linspace(-0.02, 0.02, 9):
                c1 = col1_at(tt + sh * (tt - max(tn1, tn2)))
                if c1 is None:
                    continue
                g = float(np.max(np.abs(T2[a] - c1[:, None])))
                best = g if best is None else min(best, g)
            if best is not None:
                late.append((best, float(tt)))
        gl = max(late) if late else (0.0, 0.0)
        return {"raise": None, "gap_cooling": max(gaps) if gaps else 0.0, "n_compared": len(gaps),
                "gap_late": gl[0], "gap_late_t": gl[1], "n_late": len(late),
                "stats2D": o2["stats"], "stats1D": [float(x) for x in r1["stats"]], "radial": o2["radial"],
                "dt2D": o2["dt"]}
    if kind == "flake0D":
        try:
            return _flake_pair(case)
        except Exception as e:  # an exception of the real code (Snowflake construction / run)
            return {"raise": core.exc_class(e), "site": "Snowflake", "stage": repr(e)[:200]}
    if kind == "flake0D_sharedop":
        from ethz_snow.operatingConditions import OperatingConditions
        first = case["programs"][0]
        op = OperatingConditions(t_tot=first["t_tot"], cooling={"rate": first["rate"], "start": first["start"],
                                                                "end": first["stop"]},
                                 holding=[dict(temp=first["hold"][0], duration=first["hold"][1])],
                                 cnTemp=first["hold"][0])
        items = []
        try:
            for prog in case["programs"]:
                it = _flake_pair(dict(prog, K_shelf=case["K_shelf"]), op=op)
                it["K_shelf"] = case["K_shelf"]
                items.append(it)
        except Exception as e:
            return {"raise": core.exc_class(e), "site": "Snowflake", "stage": repr(e)[:200]}
        bad = [it for it in items if it.get("raise")]
        return {"raise": bad[0]["raise"] if bad else None, "site": bad[0].get("site") if bad else None,
                "items": items}
    if kind == "flake0D_starts":
        # several pairs in ONE process with different start temperatures, `initialStates` left at its default
        items = []
        try:
            for st in case["starts"]:
                it = _flake_pair(dict(case, start=st))
                it["K_shelf"] = case["K_shelf"]
                it["start"] = st
                items.append(it)
        except Exception as e:
            return {"raise": core.exc_class(e), "site": "Snowflake", "stage": repr(e)[:200]}
        bad = [it for it in items if it.get("raise")]
        return {"raise": bad[0]["raise"] if bad else None, "site": bad[0].get("site") if bad else None,
                "items": items}
    if kind == "flake0D_sweep":
        # one heat-transfer dict for the whole sweep: Snowflake and Snowing built from it alternately
        k = {"int": 0, "ext": 0, "s0": case["K_list"][0], "s_sigma_rel": 0}
        items = []
        try:
            for K in case["K_list"]:
                it = _flake_pair(dict(case, K_shelf=K), k=k)
                it["K_shelf"] = K
                items.append(it)
        except Exception as e:
            return {"raise": core.exc_class(e), "site": "Snowflake", "stage": repr(e)[:200]}
        bad = [it for it in items if it.get("raise")]
        return {"raise": bad[0]["raise"] if bad else None, "site": bad[0].get("site") if bad else None,
                "items": items}
    if kind == "thin":
        return _thin(case)
    if kind == "plan":
        from scipy.integrate import simpson
        return {"raise": None, "value": float(simpson(np.asarray(case["y"], float), x=np.asarray(case["x"], float)))}
    raise ValueError("unknown kind %r" % (kind,))


def run_model(drv, case):
    if case.get("kind") == "radial2D":
        return u.run_model(drv, _strip(case))
    if case.get("kind") == "plan":
        rf = drv.call({"op": "simpsonPlan", "y": [core.f2b(v) for v in case["y"]], "x": [core.f2b(v) for v in case["x"]]})
        rq = drv.call({"op": "simpsonPlan", "num": "rat", "y": [core.f2q(v) for v in case["y"]],
                       "x": [core.f2q(v) for v in case["x"]]})
        for r in (rf, rq):
            if "error" in r:
                raise RuntimeError(r["error"])
        return {"plan": core.b2f(rf["plan"]), "ref": core.b2f(rf["ref"]), "bits_equal": rf["plan"] == rf["ref"],
                "rat_equal": rq["plan"] == rq["ref"]}
    return {"skip": True}


def compare(case, impl, model):
    if model.get("skip"):
        return []
    if case.get("kind") == "plan":
        dis = []
        if not model["rat_equal"]:
            dis.append("Simpson plan differs from SnowModel/Simpson.lean over Rat")
        if not model["bits_equal"]:
            dis.append(f"Simpson plan differs bitwise from simpson: {model['plan']!r} vs {model['ref']!r}")
        if not core.close(model["ref"], impl["value"], 1e-12 * max(1, sum(abs(v) for v in case["y"]))
                          / max(1e-300, abs(impl["value"]), 1)):
            if not core.close(model["ref"], impl["value"]):
                dis.append(f"simpson: scipy {impl['value']!r} vs model {model['ref']!r}")
        return dis
    return u.compare_runs(impl, model)


def _flake_preds(impl, tag=""):
    out = []
    tol = 1e-9 * 300
    if impl["cool_gap"] > tol:
        out.append(Failure(clause="flake1_eq_0D_cooling", key="flake1_eq_0D_cooling|run|" + tag,
                           detail=f"cooling curves differ by {impl['cool_gap']:.3e} K"))
    if impl["step_flake"] != impl["step_0D"] or abs(impl["Tnuc_flake"] - impl["Tnuc_0D"]) > tol:
        out.append(Failure(clause="same_nucleation_instant", key="same_nucleation_instant|run|" + tag,
                           detail=f"nucleation step {impl['step_flake']} vs {impl['step_0D']}, "
                                  f"T_nuc {impl['Tnuc_flake']} vs {impl['Tnuc_0D']}"))
    elif (abs(impl["T_after_flake"] - impl["T_after_0D"]) > 1e-5
          or abs(impl["sigma_after_flake"] - impl["sigma_after_0D"]) > 1e-5):
        out.append(Failure(clause="nuc0D_eq_direct", key="nuc0D_eq_direct|run|" + tag,
                           detail=f"state one step after nucleation: T {impl['T_after_flake']} vs "
                                  f"{impl['T_after_0D']}, sigma {impl['sigma_after_flake']} vs {impl['sigma_after_0D']}"))
    if abs(impl["sigma_mid_flake"] - impl["sigma_mid_0D"]) > 5e-3:
        out.append(Failure(clause="solid_curve_agree", key="solid_curve_agree|run|" + tag,
                           detail=f"frozen fraction half-way through solidification: Snowflake "
                                  f"{impl['sigma_mid_flake']:.5f} vs 0D {impl['sigma_mid_0D']:.5f}"))
    if abs(impl["tsol_flake"] - impl["tsol_0D"]) > max(1.0, 0.01 * impl["tsol_0D"]):
        out.append(Failure(clause="tsol_agree", key="tsol_agree|run|" + tag,
                           detail=f"solidification time {impl['tsol_flake']} s vs {impl['tsol_0D']} s"))
    return out


def predicates(case, impl):
    out = []
    kind = case.get("kind")
    if impl.get("raise"):
        # every case of this check is built to complete: a raise of the real code is a failure
        site = impl.get("site") or {"radial2D": "_run_2D", "pair2D1D": "_run_2D/_run_1D", "thin": "_run_1D/_run_0D"}.get(kind, str(kind))
        return [Failure(clause="total", key=f"raises|{site}|{impl['raise']}",
                        detail=f"{kind}: the real code raises {impl['raise']} ({impl.get('stage')}) on a case built to complete")]
    if kind == "radial2D":
        r = impl.get("radial")
        if r and case["config"] != "jacket" and r["max"] > 1e-9:
            out.append(Failure(
                clause="radial_uniform_preserved", key=f"radial_uniform_preserved|_run_2D|{case['config']}",
                detail=(f"no radial heat flux, radially uniform initial field, but the reported field has a radial "
                        f"spread of {r['spread_at_first']:.3e} K at reported row {r['first_row_with_spread']} (first "
                        f"step with a shelf flux), {r['max_cooling']:.3e} K before nucleation, {r['max']:.3e} K "
                        f"overall (row {r['row']})")))
        tf = impl.get("topflux")
        if tf and tf.get("n") and tf["score"] > 1.0 and case["config"] == "VISF":
            out.append(Failure(
                clause="evap2D_eq_evap1D", key=f"evap2D_eq_evap1D|_run_2D|{tf['stage']}",
                detail=(f"{tf['stage']} stage, reported row {tf['row']}, top temperature {tf['T_top']:.3f} K: the evaporative "
                        f"heat flux applied by the 2D model (inferred from consecutive fields) is {tf['q_applied']:.6g} "
                        f"W/m2, the boundary condition of the 1D model gives {tf['q_expected']:.6g} W/m2 "
                        f"(liquid law {tf.get('q_liquid')}, ice law {tf.get('q_ice')})")))
    elif kind == "pair2D1D":
        if not impl.get("n_compared") or not impl.get("n_late"):
            out.append(Failure(clause="observation", key=f"observation_broken|pair2D1D|{case['config']}",
                               detail=f"no rows could be compared between the 2D and the 1D run "
                                      f"(cooling {impl.get('n_compared')}, after nucleation {impl.get('n_late')})"))
        if impl["gap_cooling"] > 0.25:
            out.append(Failure(clause="column_eq_1D", key=f"column_eq_1D|_run_2D|{case['config']}",
                               detail=f"2D columns differ from the 1D model of equal cross-section by "
                                      f"{impl['gap_cooling']:.3f} K in the cooling stage"))
        if impl.get("gap_late", 0.0) > 2.0:
            out.append(Failure(clause="column_eq_1D_late", key=f"column_eq_1D_late|_run_2D|{case['config']}",
                               detail=f"after nucleation the 2D columns differ from the 1D model of equal cross-section "
                                      f"by {impl['gap_late']:.2f} K (reported time {impl['gap_late_t']:.1f} s)"))
        st2, st1 = impl["stats2D"], impl["stats1D"]
        if abs(st2[5] - st1[5]) > 0.05 * abs(st1[5]) + 0.02:
            out.append(Failure(clause="tsol_2D_eq_1D", key=f"tsol_2D_eq_1D|_run_2D|{case['config']}",
                               detail=f"solidification time 2D {st2[5]:.3f} min vs 1D {st1[5]:.3f} min"))
    elif kind == "flake0D":
        out += _flake_preds(impl)
    elif kind == "flake0D_sweep":
        for n, it in enumerate(impl["items"]):
            out += _flake_preds(it, f"shared-k#{n}")
    elif kind == "flake0D_starts":
        for n, it in enumerate(impl["items"]):
            out += _flake_preds(it, f"start#{n}")
    elif kind == "flake0D_sharedop":
        for n, it in enumerate(impl["items"]):
            out += _flake_preds(it, f"shared-opcond#{n}")
    elif kind == "thin":
        if impl["curve_excess"] > 0.05:
            out.append(Failure(clause="thin_limit_curve", key="thin_limit_curve|_run_1D|",
                               detail=f"cooling curve (reported time vs height-averaged temperature) of the 1D model is "
                                      f"{impl['curve_dev']:.2f} K off the homogeneous model, more than Bi*|T_shelf-T| "
                                      f"(Bi = {impl['Bi']:.3g}) allows, near t = {impl['curve_t']:.1f} s"))
        if impl["worst_excess"] > 1e-9:
            out.append(Failure(clause="thin_limit", key="thin_limit|_run_1D|",
                               detail=f"|T[0]-mean| exceeds Bi*|T_shelf-mean| by {impl['worst_excess']:.3e} K "
                                      f"(Bi = {impl['Bi']:.3g})"))
    return out


def classify(case, impl):
    tags = [f"kind={case.get('kind')}"]
    if case.get("kind") in ("radial2D", "pair2D1D"):
        tags.append(f"config={case['config']}")
    if impl.get("raise"):
        tags.append("raise=" + str(impl["raise"]))
    if case.get("kind") == "thin" and not impl.get("raise"):
        tags.append(f"thin: H={case['height']} Bi={impl['Bi']:.3g} gap={impl['gap_max']:.3g}K curve={impl['curve_dev']:.3g}K "
                    f"Tnuc1D-0D={impl['Tnuc_mean_1D'] - impl['Tnuc_0D']:.3g}K")
    if case.get("kind") == "pair2D1D" and not impl.get("raise"):
        tags.append(f"pair: gap={impl['gap_cooling']:.3g}K late={impl.get('gap_late', 0):.3g}K "
                    f"tsol {impl['stats2D'][5]:.3f}/{impl['stats1D'][5]:.3f}")
    if case.get("kind") in ("flake0D_sweep", "flake0D_sharedop", "flake0D_starts") and not impl.get("raise"):
        tags.append("sweep: " + " ".join(f"K={it['K_shelf']}:tsol {it['tsol_flake']:.1f}/{it['tsol_0D']:.1f}" for it in impl["items"]))
    if case.get("kind") == "flake0D" and not impl.get("raise"):
        tags.append(f"flake: tsol {impl['tsol_flake']:.1f}/{impl['tsol_0D']:.1f}s")
    return tags


def nontrivial(case, impl):
    # the `plan` cases tie an optimisation of the MODEL to SnowModel/Simpson.lean and SciPy; they are not inputs of /repo
    return case.get("kind") != "plan" and not impl.get("raise")


def cases(rng, tier):
    std = u.standard_cases(tier, core.env_seed())
    twod = [c for c in std if c["dim"] == "spatial_2D" and c["config"] != "jacket"]
    for c in twod:
        yield dict(c, kind="radial2D")
    # pairs: the 2D cases whose 1D sibling is in the standard set (shares the cached runs)
    pairs = [c for c in twod if c["height"] == 0.01 and c["diameter"] == 0.04 and c["K_shelf"] == 1000]
    if tier != "quick":
        pairs += [c for c in twod if c["height"] == 0.02 and c["diameter"] == 0.06]
    # vacuum kept on while the surface vapour pressure falls below the chamber pressure (negative flux)
    cond = u._base("VISF", 0.01, 0.04, 1000, 200, visf=dict(t_vac_start=60 / 3600, t_vac_duration=1.0, p_vac=200))
    yield dict(cond, kind="radial2D")
    pairs.append(cond)
    for c in pairs:
        yield dict(c, kind="pair2D1D")
    flakes = [dict(kind="flake0D", K_shelf=200, start=20, stop=-50, rate=0.05, hold=[-8.0, 1200], t_tot=4000),
              # all solution constants: a solvent whose melting point is not 0 C
              dict(kind="flake0D", K_shelf=200, start=20, stop=-50, rate=0.05, hold=[-9.0, 1200], t_tot=4000,
                   solution={"T_eq": rng.choice([-1.5, 0.8, -0.7])})]
    if tier != "quick":
        flakes += [dict(kind="flake0D", K_shelf=100, start=10, stop=-45, rate=0.05, hold=[-6.0, 2000], t_tot=6000),
                   dict(kind="flake0D", K_shelf=400, start=20, stop=-50, rate=0.1, hold=[-10.0, 600], t_tot=3000)]
    flakes += [dict(flakes[0], kdict="required"), dict(flakes[0], kdict="reordered", K_shelf=300)]
    for c in flakes:
        yield c
    P1 = dict(start=20, stop=-50, rate=0.05, hold=[-8.0, 1200], t_tot=4000)
    yield dict(kind="flake0D_sharedop", K_shelf=200,
               programs=[P1, dict(P1, hold=[-6.0, 1500], rate=0.1)] + ([] if tier == "quick" else [dict(P1, start=10, t_tot=3600)]))
    yield dict(kind="flake0D_starts", K_shelf=200, starts=[12, 20, 5], stop=-50, rate=0.05, hold=[-8.0, 1200], t_tot=4000)
    yield dict(kind="flake0D_sweep", K_list=[200, 400] if tier == "quick" else [200, 400, 100], start=20, stop=-50,
               rate=0.05, hold=[-8.0, 1200], t_tot=4000)
    thin = [dict(kind="thin", height=0.01, K_shelf=20, rate=0.5, t_tot=3500),
            dict(kind="thin", height=0.005, K_shelf=20, rate=0.5, t_tot=1800)]
    if tier != "quick":
        thin += [dict(kind="thin", height=0.003, K_shelf=20, rate=0.5, t_tot=1200),
                 dict(kind="thin", height=0.002, K_shelf=20, rate=0.5, t_tot=900),
                 dict(kind="thin", height=0.001, K_shelf=20, rate=0.5, t_tot=500)]
    for c in thin:
        yield c
    # the pre-computed Simpson coefficients of the 2D model against SnowModel/Simpson.lean and SciPy
    for _ in range(40 if tier == "quick" else 400):
        n = rng.choice([2, 3, 4, 5, 6, 7, 15, 30, rng.randint(2, 33)])
        if rng.random() < 0.6:
            stop = rng.choice([0.005, 0.02, 1.0, 0.0375])
            x = list(np.linspace(0, stop, n))
        else:
            x = sorted(rng.sample([k / 64 for k in range(0, 257)], n))
        y = [rng.choice([0.0, 1.0, rng.uniform(-3, 3), rng.randint(-8, 8) / 8]) for _ in range(n)]
        yield dict(kind="plan", x=[float(v) for v in x], y=y)
