"""C06 Shelf-scale trajectories stay thermodynamically admissible."""
from __future__ import annotations

import json
import math

import shim  # noqa: F401
import numpy as np

import core
import flakeutil as fu
from core import Failure
from props import c01

ID = "C06"
TITLE = "Shelf-scale trajectories stay thermodynamically admissible"
LEAN_MODULE = "SnowProofs.Props.C06"
THEOREMS = [
    dict(name="Snow.C06.liquid_convex", clause="liquid step is a convex combination of the vial, its neighbours, the "
         "surroundings and the shelf (inside the stable range)", strength="full"),
    dict(name="Snow.C06.jump_on_curve", clause="after nucleation 0 < sigma < 1, on the curve, below T_eq_l, not below "
         "T_nuc (both formulations; hypothesis: supercooling <= gamma = (1-w_s)·lambda/c_p, part of Stable)",
         strength="full"),
    dict(name="Snow.C06.solid_step_inv", clause="solidifying step keeps 0 < sigma < 1, the curve, and the lower bound "
         "— CONDITIONAL on the side condition q·dt <= sigma·m·lambda(1-w_s) for a warmed vial",
         strength="conditional-on-monitored-side-condition"),
    dict(name="Snow.C06.vial_inv", clause="one vial, one step: admissibility and bounds preserved — CONDITIONAL on the "
         "side condition for that vial", strength="conditional-on-monitored-side-condition"),
    dict(name="Snow.C06.step_inv", clause="one step of the batch: all vials admissible, no vial colder than the shelf "
         "temperature just applied nor warmer than hi — CONDITIONAL on SideCond for the state",
         strength="conditional-on-monitored-side-condition"),
    dict(name="Snow.C06.run_admissible_partial", clause="admissibility of every vial in every recorded column of a run — "
         "ASSUMING at every step the side condition q·dt <= sigma·m·lambda(1-w_s) for warmed ice-containing vials "
         "(monitored here)", strength="partial"),
    dict(name="Snow.C06.run_bounds_partial", clause="the clauses of C06 literally, for every recorded column: sigma in "
         "[0,1); ice => on the curve and T < T_eq_l; T <= hi >= max(T_k_0, T_sh(0), T_eq_l); T >= the COLDEST shelf "
         "temperature applied so far (= T_shelf[j-1], the program never rises, C05) — same side condition",
         strength="partial"),
    dict(name="Snow.C06.run_bounds_gen", clause="general form: the C06 clauses for the columns j <= J when the side "
         "condition holds for the source states of the steps before column J, where it may be DERIVED from that state's "
         "invariant; every run theorem below is an instance", strength="conditional-on-monitored-side-condition"),
    dict(name="Snow.C06.run_admissible_until_first_nucleation", clause="UNCONDITIONAL (no side condition) up to and "
         "including the first column that contains ice: the range, curve, upper- and lower-bound clauses for the columns "
         "j <= J when the columns before J are ice-free ('ice iff recorded nucleation' is ice_iff_recorded, not part of "
         "this conclusion)", strength="full"),
    dict(name="Snow.C06.run_bounds_uncoupled", clause="UNCONDITIONAL for the whole run when the vials are thermally "
         "uncoupled (k_int·A = 0): no vial is ever warmed", strength="full"),
    dict(name="Snow.C06.run_bounds_below_liquidus", clause="UNCONDITIONAL for the whole run of a process that starts at "
         "or below the liquidus (T_k_0 <= T_eq_l, shelf start <= T_eq_l) under the static inequality "
         "dt·Hsum_i·(T_m − T_end) <= m·lambda(1−w_s)", strength="full"),
    dict(name="Snow.C06.run_bounds_contacts_partial", clause="whole run, any start temperature, under the static "
         "inequality StaticSide: it suffices that no WARMED ice-containing vial has a contact (neighbour, shelf) above "
         "T_eq_l (ContactsBelow) — the only way the side condition can fail; this is what remains monitored",
         strength="partial"),
    dict(name="Snow.C06.side_of_contacts_below_liquidus", clause="a vial with 0 < sigma < 1 sitting on the curve (T_i = "
         "curve(sigma) >= lo) whose neighbours and shelf are all within [lo, T_eq_l] satisfies the side condition under "
         "dt·Hsum·(T_m − lo) <= m·lambda(1−w_s) (inside Stable)", strength="full"),
    dict(name="Snow.C06.allLiquid_monotone", clause="all-liquid phase: with uniform T_k_0 >= shelf start, non-rising shelf "
         "and Stable, in every step whose source column and all earlier columns are ice-free the net heat flow of EVERY "
         "vial is <= 0 and no liquid vial warms (monotone linear step, induction)", strength="full"),
    dict(name="Snow.C06.liqUpd_mono", clause="the liquid update is monotone in the temperature vector and the shelf "
         "temperature inside the stable range (entrywise non-negative update matrix)", strength="full"),
    dict(name="Snow.C06.ice_iff_after_nucleation", clause="per step: recorded statistics kept by ice-containing vials, "
         "set exactly when a liquid vial nucleates", strength="full"),
    dict(name="Snow.C06.ice_iff_recorded", clause="run level: in column j a vial contains ice iff the nucleation time in "
         "the final statistics exists and is <= t[j] — hypothesis: admissibility of all columns (TrajAdm)",
         strength="conditional-on-admissibility-of-all-columns"),
    dict(name="Snow.C06.run_ice_iff_recorded", clause="the same under the hypotheses of run_admissible_partial (inherits "
         "its side condition)", strength="partial"),
    dict(name="Snow.C06.trajAdm_uncoupled", clause="NOTHING monitored: the whole-trajectory invariant TrajAdm (every vial of "
         "every stored column is liquid without a record, or has 0 < sigma < 1 on the curve with a recorded nucleation) for "
         "thermally uncoupled vials (k_int·A = 0), any start temperature in the stability range", strength="full"),
    dict(name="Snow.C06.trajAdm_below_liquidus", clause="NOTHING monitored: TrajAdm for a process that starts at or below the "
         "liquidus under Stable (hi = T_eq_l) and the static inequality StaticSide", strength="full"),
    dict(name="Snow.C06.ice_iff_recorded_uncoupled", clause="NOTHING monitored, uncoupled vials: in column j a vial contains "
         "ice iff the nucleation time in the final statistics exists and is <= t[j]", strength="full"),
    dict(name="Snow.C06.ice_iff_recorded_below_liquidus", clause="NOTHING monitored, process starting at or below the "
         "liquidus: in column j a vial contains ice iff the nucleation time in the final statistics exists and is <= t[j]",
         strength="full"),
    dict(name="Snow.C06.shelf_coeff_nonneg", clause="the shelf coefficients handed to the step (clamped draws) are "
         ">= 0 for every draw of the normals, GIVEN s0 >= 0 (premise of convexity)", strength="full"),
    dict(name="Snow.C06.ext_nonneg_shape", clause="for every declared shape and both arrangements every vial has a "
         "non-negative number of external faces (non-negative coupling to the surroundings)", strength="full"),
    dict(name="Snow.C06.side_condition_needed", clause="the side condition is not derivable from Stable: a concrete "
         "configuration inside Stable (two-vial batch), a vial on the curve with sigma = 1e-6 and an admissible heat "
         "flow q = 0.1 W for which the side condition fails and solidSigma gives sigma' < 0", strength="boundary-witness"),
    dict(name="Snow.C06.sideCond_witness", clause="a non-trivial state satisfying the side condition (half-frozen vial "
         "warmed by a liquid neighbour and the shelf)", strength="nonvacuity"),
    dict(name="Snow.C06.ex_stable", clause="the stable range is inhabited by a batch with real neighbours (two vials in "
         "contact, default solution, K=20, dt=2, shelf in [-50, 20])", strength="nonvacuity"),
    dict(name="Snow.C06.nonvacuous", clause="ALL hypotheses of run_admissible_partial / run_bounds_partial hold together "
         "for a concrete input (C05.WF program with a hold, Stable, start <= T_k_0 <= hi, SideCond along the run's "
         "trajectory — t_tot = 0, initial column only)", strength="nonvacuity"),
    dict(name="Snow.C06.nonvacuous_run", clause="the run theorems applied to a concrete 4-column run WITH ice (one vial, "
         "controlled nucleation at step 0, sigma = 1/2, 19/32, 8933/13600): C05.WF, Stable, SideCond at every step and "
         "TrajAdm hold; run_admissible_partial, run_bounds_partial and ice_iff_recorded are each applied to a column "
         "containing ice", strength="nonvacuity"),
    dict(name="Snow.C06.x_staticSide", clause="StaticSide is inhabited (the run with ice xInp satisfies it)",
         strength="nonvacuity"),
    dict(name="Snow.C06.nonvacuous_coupled_step", clause="the MONITORED regime at step level: a coupled two-vial batch inside "
         "Stable (start above the liquidus) and StaticSide, an admissible state in which an ice-containing vial IS warmed "
         "by its neighbour (q = 3/32 > 0), ContactsBelow holds, hence SideCond, and step_inv applies (the state is "
         "constructed, not reached from a uniform start: no run-level witness of a warmed ice vial — the shortest found "
         "needs 9 steps of exploding rationals)", strength="nonvacuity"),
    dict(name="monitored:finite", clause="all reported values are finite (vacuous over the reals; checked on the floats "
         "of every real run)", strength="monitored"),
    dict(name="monitored:side_condition", clause="AFTER the first column with ice, for thermally coupled vials of a process "
         "starting above the liquidus: the side condition q·dt <= sigma·m·lambda(1−w_s) for warmed ice-containing vials "
         "(counted on every real (vial, step)); under StaticSide it can only fail at a warmed ice vial with a contact "
         "above T_eq_l (ContactsBelow, also counted)", strength="monitored"),
]
TRUSTED = [
    "Lean 4.33 kernel; axioms per theorem listed under coverage.axioms",
    "theorems are over the reals: IEEE rounding is not modelled ('all values finite' is monitored only)",
    "hand-written model SnowModel/Flake.lean tied to Snowflake.run by the differential check (same runs as C01)",
    "the stability predicate is evaluated here on the floats by the same inequalities as Snow.C06.Stable",
]
ASSUMPTIONS = [
    "stable range = Snow.C06.Stable: conductances >= 0; 2·dt·Hsum_i <= m·cp_min; (dt·Hsum_i·(hi-lo))^2 <= "
    "m^2·cp_min·D·lambda(1-w_s); T_eq_l - lo <= gamma; T_k_0 >= shelf start; lo = end temperature of the program, "
    "hi = max(T_k_0, start, T_eq_l); well-formed non-increasing program",
    "what is still MONITORED (not proved): only the side condition for steps AFTER the first column with ice, for "
    "thermally coupled vials, in processes that start above the liquidus; proved unconditional: everything up to and "
    "including the first column with ice, uncoupled vials, processes starting at or below the liquidus (StaticSide); "
    "under StaticSide the side condition is implied by 'no warmed ice vial has a contact above T_eq_l'. The monitor "
    "counts side-condition failures, warmed ice vials with a contact above T_eq_l and StaticSide on every real run; "
    "every bound is checked independently of them",
    "bounds are evaluated with an absolute slack of 1e-9 K / 1e-12 in sigma for rounding",
]
RULE = ("C01's real runs, re-drawn so that most lie inside the stable range (some just outside, reported separately); "
        "on every recorded (vial, step): 0 <= sigma < 1, ice iff at/after the recorded nucleation, on the curve and "
        "<= T_eq_l when ice is present, T <= max(T0, T_sh(0), T_eq_l), T >= coldest shelf temperature so far, "
        "finiteness, and the side condition; plus full model/implementation comparison")
EXPLANATION = ("Lean theorems over the reals: run invariant unconditional up to and including the first column with ice, for "
               "uncoupled vials and for processes starting at or below the liquidus; afterwards conditional on the monitored "
               "side condition (under StaticSide: on 'no warmed ice vial has a contact above T_eq_l') + monitors of every "
               "bound, of the side condition and of its sufficient condition on real trajectories")
PARALLEL = True

_STASH = {}
_TOTALS = {"runs_inside": 0, "runs_outside": 0, "vial_steps_checked": 0, "ice_vial_steps": 0,
           "warmed_ice_vial_steps": 0, "side_condition_violations": 0, "bound_violations_outside_stable": 0,
           "warmed_ice_with_contact_above_T_eq_l": 0, "runs_with_StaticSide": 0}


def _key(case):
    return json.dumps(case, sort_keys=True, default=str)


def run_impl(case):
    try:
        obs = fu.run_real(case)
    except fu.ObservationError:
        raise          # the harness cannot observe the object: infrastructure error, not a verdict
    except Exception as e:
        return {"raise": core.exc_class(e), "msg": str(e)[:200]}
    obs["monitor"] = monitor(case, obs)
    return obs


def run_model(drv, case, impl=None):
    if impl is None:
        impl = _STASH.get(_key(case))
    if impl is None:
        impl = run_impl(case)
    if impl.get("raise"):
        return {"raise": impl["raise"], "skipped": True}
    return fu.run_model(drv, case, impl)


def compare(case, impl, model):
    if impl.get("raise"):
        return []
    return fu.compare_run(case, impl, model)


# ---------------------------------------------------------------------------
def stable(case, impl, ph):
    """Snow.C06.Stable evaluated on the floats; returns (bool, dict of margins)"""
    n, dt = impl["n"], impl["dt"]
    A = ph["A"]
    oc = case["opcond"]
    T0 = impl["T0"]
    lo = oc["stop"]
    hi = max(T0, oc["start"], ph["T_eq_l"])
    cp1 = ph["w_s"] * ph["cp_s"] + (1 - ph["w_s"]) * ph["cp_i"]
    cmin = min(ph["cp_l"], cp1)
    L = ph["lam"] * (1 - ph["w_s"])
    gamma = (1 - ph["w_s"]) * ph["lam"] / ph["cp_l"]
    ksh = fu.spec_kshelf(case, impl)   # configured coefficients (clamped at 0), not what the run used
    # declared geometry, not the matrices of the real object
    arr = impl["arr_arg"]
    geo = c01.square_nbrs(case["N_vials"]) if arr == "square" else c01.hex_nbrs(case["N_vials"])
    maxint = (4 if arr == "square" else 6) + (2 if case["N_vials"][2] > 1 else 0)
    gext = [maxint - len(r) for r in geo]
    Hs = np.array([len(geo[i]) * impl["kInt"] * A + gext[i] * impl["kExt"] * A + ksh[i] * A for i in range(n)])
    coeff = (impl["kInt"] * A >= 0 and all(e * impl["kExt"] * A >= 0 for e in gext)
             and bool(np.all(ksh * A >= 0)))
    cfl = float(np.max(2 * dt * Hs) / (ph["m"] * cmin))
    xc = float(np.max((dt * Hs * (hi - lo)) ** 2) / (ph["m"] ** 2 * cmin * ph["D"] * L))
    rng_ = (ph["T_eq_l"] - lo) / gamma
    holds = oc.get("holds") or []
    wf = (dt > 0 and oc["rate"] > 0 and oc["t_tot"] >= 0 and oc["stop"] <= oc["start"]
          and all(oc["stop"] <= h[0] <= oc["start"] and h[1] >= 0 for h in holds))
    valid = (0 < ph["w_s"] < 1 and min(ph["cp_s"], ph["cp_w"], ph["cp_i"], ph["lam"], ph["k_f"], ph["M_s"],
                                        ph["rho"], ph["V"]) > 0)
    ok = bool(coeff and wf and valid and cfl <= 1 and xc <= 1 and rng_ <= 1 and T0 >= oc["start"])
    return ok, {"cfl": cfl, "xcond": xc, "range": rng_, "T0>=start": bool(T0 >= oc["start"]), "hi": hi, "lo": lo}


def monitor(case, impl):
    """all bounds of C06 and the side condition on every recorded (vial, step)"""
    ph = fu.physical(case.get("config"))
    ok, marg = stable(case, impl, ph)
    n, N, dt = impl["n"], impl["N"], impl["dt"]
    XT = np.asarray(impl["XT"])
    Xs = np.asarray(impl["Xsigma"])
    Tsh = np.asarray(impl["Tshelf"])
    tn = np.asarray(impl["tNuc"])
    t = np.asarray(impl["t"])
    sub = impl.get("stored_idx")
    if sub is not None:
        tn = tn[sub]        # row r of X is vial sorted(store)[r]
    viol = []

    def v(clause, k, i, detail):
        if len(viol) < 20:
            viol.append([clause, int(k), int(i), detail])

    eps = 1e-9
    fin = np.isfinite(XT) & np.isfinite(Xs)
    if not fin.all():
        k, i = np.argwhere(~fin)[0]
        v("finite", k, i, f"T={XT[k, i]!r} sigma={Xs[k, i]!r}")
    for name in ("tNuc", "TNuc", "tSol"):
        a = np.asarray(impl[name])
        if np.any(np.isinf(a)):
            v("finite", -1, int(np.where(np.isinf(a))[0][0]), f"{name} infinite")
    # nan is the "not yet" marker of the statistics only: a nucleated vial has a finite T_nucleation
    tN, TN, tS = (np.asarray(impl[x]) for x in ("tNuc", "TNuc", "tSol"))
    incons = np.isnan(tN) != np.isnan(TN)
    if incons.any():
        i0 = int(np.where(incons)[0][0])
        v("finite", -1, i0, f"t_nucleation={tN[i0]!r} but T_nucleation={TN[i0]!r}")
    if (np.isnan(tN) & ~np.isnan(tS)).any():
        i0 = int(np.where(np.isnan(tN) & ~np.isnan(tS))[0][0])
        v("finite", -1, i0, f"t_solidification={tS[i0]!r} without a nucleation time")
    for name in ("Hshelf", "Hext", "Tshelf", "t"):
        if not np.all(np.isfinite(np.asarray(impl[name], dtype=float))):
            v("finite", -1, -1, f"{name} contains nan/inf")
    Hsh = np.asarray(impl["Hshelf"])
    if (Hsh < 0).any():
        i = int(np.where(Hsh < 0)[0][0])
        v("coefficients_nonneg", -1, i, f"shelf heat-transfer coefficient used by the run is {Hsh[i]!r} < 0")
    Hex = np.asarray(impl["Hext"])
    if (Hex < 0).any():
        i = int(np.where(Hex < 0)[0][0])
        v("coefficients_nonneg", -1, i, f"external heat-transfer coefficient used by the run is {Hex[i]!r} < 0")
    bad = ~((Xs >= 0) & (Xs < 1))
    if bad.any():
        k, i = np.argwhere(bad)[0]
        v("sigma_range", k, i, f"sigma={Xs[k, i]!r}")
    ice = Xs != 0
    # ice exactly from the recorded nucleation onwards
    should = (~np.isnan(tn))[None, :] & (t[:, None] >= tn[None, :] - 1e-9 * np.maximum(1, np.abs(tn[None, :])))
    should = np.where(np.isnan(tn)[None, :], False, should)
    if (ice != should).any():
        k, i = np.argwhere(ice != should)[0]
        v("ice_iff_after_nucleation", k, i, f"sigma={Xs[k, i]!r}, t={t[k]!r}, t_nucleation={tn[i]!r}")
    # on the curve, at or below T_eq_l
    with np.errstate(all="ignore"):
        curve = ph["T_m"] - ph["D"] / (1 - Xs)
    offc = ice & ~(np.abs(XT - curve) <= 1e-9 * np.maximum(1, np.abs(curve)))
    if offc.any():
        k, i = np.argwhere(offc)[0]
        v("on_curve", k, i, f"T={XT[k, i]!r} vs curve {curve[k, i]!r}")
    above = ice & (XT > ph["T_eq_l"] + eps)
    if above.any():
        k, i = np.argwhere(above)[0]
        v("ice_below_T_eq_l", k, i, f"T={XT[k, i]!r} > T_eq_l={ph['T_eq_l']!r}")
    hi = max(impl["T0"], Tsh[0], ph["T_eq_l"])
    if (XT > hi + eps).any():
        k, i = np.argwhere(XT > hi + eps)[0]
        v("upper_bound", k, i, f"T={XT[k, i]!r} > max(T0, T_sh(0), T_eq_l)={hi!r}")
    # coldest shelf temperature applied so far: column k has seen T_sh[0..k-1] (column 0: T_sh[0])
    cold = np.minimum.accumulate(Tsh)
    lowb = np.concatenate([[Tsh[0]], cold[:-1]])
    if (XT < lowb[:, None] - eps).any():
        k, i = np.argwhere(XT < lowb[:, None] - eps)[0]
        v("lower_bound", k, i, f"T={XT[k, i]!r} < coldest shelf temperature so far {lowb[k]!r}")
    if sub is not None:
        return {"stable": ok, "margins": marg, "violations": viol, "vial_steps": int(N * len(sub)),
                "ice": int(ice.sum()), "warmed_ice": 0, "side_bad": 0, "side_first": None,
                "contacts_above": 0, "static_side": True}
    # side condition of run_admissible_partial
    W = np.zeros((n, n))
    for i, r in enumerate(impl["nbrs"]):
        for j in r:
            W[i, j] += 1
    deg = W.sum(axis=1)
    A = ph["A"]
    q = (impl["kInt"] * A * (XT @ W.T - XT * deg)
         + np.asarray(impl["ext"]) * impl["kExt"] * A * (Tsh[:, None] - XT)
         + fu.spec_kshelf(case, impl) * A * (Tsh[:, None] - XT))
    warmed = ice & (q > 0)
    side_bad = warmed & ~(q * dt <= Xs * ph["m"] * ph["lam"] * (1 - ph["w_s"]))
    # ContactsBelow: a warmed ice vial with a contact (neighbour / shelf) above T_eq_l
    contacts_above = 0
    for k, i in np.argwhere(warmed)[:5000]:
        nb = impl["nbrs"][i]
        if Tsh[k] > ph["T_eq_l"] or (nb and max(XT[k, j] for j in nb) > ph["T_eq_l"]):
            contacts_above += 1
    Hs_geo = deg * impl["kInt"] * A + np.asarray(impl["ext"]) * impl["kExt"] * A + fu.spec_kshelf(case, impl) * A
    static_side = bool(np.all(dt * Hs_geo * (ph["T_m"] - case["opcond"]["stop"])
                              <= ph["m"] * ph["lam"] * (1 - ph["w_s"])))
    return {"stable": ok, "margins": marg, "violations": viol,
            "vial_steps": int(N * n), "ice": int(ice.sum()), "warmed_ice": int(warmed.sum()),
            "side_bad": int(side_bad.sum()), "contacts_above": int(contacts_above), "static_side": static_side,
            "side_first": ([int(x) for x in np.argwhere(side_bad)[0]] if side_bad.any() else None)}


def predicates(case, impl):
    _STASH.clear()
    _STASH[_key(case)] = impl
    out = []
    if impl.get("raise"):
        out.append(Failure(clause="total", key=f"total|Snowflake.run|{impl['raise']}",
                           detail=f"valid configuration raises {impl['raise']}: {impl.get('msg')}"))
        return out
    for clause, detail in fu.stateless_failures(case, impl):
        out.append(Failure(clause=clause, key=f"{clause}|Snowflake.__init__|", detail=detail))
    mon = impl["monitor"]
    if not mon["stable"]:
        return out  # outside the stated operating range: nothing is claimed
    nz = case["N_vials"][2]
    for clause, k, i, detail in mon["violations"][:3]:
        cls = f"{'pallet' if nz > 1 else 'shelf'},{case.get('initIce', 'indirect').lower()}"
        out.append(Failure(clause=clause, key=f"{clause}|Snowflake.run|{cls}",
                           detail=f"vial {i} column {k}: {detail} (stability margins {mon['margins']})"))
    return out


def classify(case, impl):
    _STASH.clear()
    _STASH[_key(case)] = impl
    tags = [f"kind={case.get('kind')}", "pallet" if case["N_vials"][2] > 1 else "shelf",
            f"initIce={case.get('initIce', 'indirect').lower()}"]
    if case["k"].get("s_sigma_rel", 0) >= 0.5:
        tags.append("s_sigma_rel>=0.5")
    if impl.get("raise"):
        return tags + [f"raise={impl['raise']}"]
    mon = impl["monitor"]
    tags.append("inside stable range" if mon["stable"] else "outside stable range")
    if not mon["stable"]:
        m = mon["margins"]
        why = [k for k in ("cfl", "xcond", "range") if m[k] > 1] + ([] if m["T0>=start"] else ["T0<start"])
        tags.append("outside because " + ("+".join(why) or "coefficients/program/parameters not admissible"))
        _TOTALS["runs_outside"] += 1
        _TOTALS["bound_violations_outside_stable"] += len(mon["violations"])
    else:
        _TOTALS["runs_inside"] += 1
        _TOTALS["vial_steps_checked"] += mon["vial_steps"]
        _TOTALS["ice_vial_steps"] += mon["ice"]
        _TOTALS["warmed_ice_vial_steps"] += mon["warmed_ice"]
        _TOTALS["side_condition_violations"] += mon["side_bad"]
        _TOTALS["warmed_ice_with_contact_above_T_eq_l"] += mon.get("contacts_above", 0)
        _TOTALS["runs_with_StaticSide"] += int(bool(mon.get("static_side")))
        if mon["side_bad"]:
            tags.append("side condition violated somewhere")
    tags.append("some ice" if mon["ice"] else "no ice")
    global EXPLANATION
    EXPLANATION = EXPLANATION.split(" || ")[0] + " || monitor totals of this run: " + json.dumps(_TOTALS)
    return tags


def nontrivial(case, impl):
    return (not impl.get("raise")) and impl["monitor"]["stable"] and impl["monitor"]["ice"] > 0


# ---------------------------------------------------------------------------
def _pre_stable(case):
    """upper estimate of the stability numbers before the run (shelf variability up to 4 sigma)"""
    ph = fu.physical(case.get("config"))
    nx, ny, nz = case["N_vials"]
    arr = (case.get("config") or {}).get("snowfall_parameters", {}).get("vial_arrangement", "square")
    maxint = (4 if arr == "square" else 6) + (2 if nz > 1 else 0)
    k = case["k"]
    ks = 0 if nz > 1 else k["s0"] * (1 + 4 * k.get("s_sigma_rel", 0))
    H = (maxint * max(k["int"], k["ext"]) + ks) * ph["A"]
    cp1 = ph["w_s"] * ph["cp_s"] + (1 - ph["w_s"]) * ph["cp_i"]
    cmin = min(ph["cp_l"], cp1)
    L = ph["lam"] * (1 - ph["w_s"])
    oc = case["opcond"]
    T0 = case["T0"] if case.get("T0") is not None else oc["start"]
    hi = max(T0, oc["start"], ph["T_eq_l"])
    cfl = 2 * case["dt"] * H / (ph["m"] * cmin)
    xc = case["dt"] * H * (hi - oc["stop"]) / (ph["m"] * math.sqrt(cmin * ph["D"] * L))
    return max(cfl, xc)


def _case(rng, tier):
    c = c01._structured(rng, tier)
    c["kind"] = "stable"
    oc = c["opcond"]
    if c.get("T0") is not None and c["T0"] < oc["start"]:
        c["T0"] = oc["start"] + rng.choice([0, 2.5, 10])
    r = rng.random()
    if r < 0.85:
        target = rng.uniform(0.3, 0.98)
    else:
        c["kind"] = "near/outside"
        target = rng.uniform(1.02, 1.6)
    s = _pre_stable(c)
    nsteps = max(50, int(round(oc["t_tot"] / c["dt"])))
    if s > target or c["kind"] == "near/outside":
        c["dt"] = c["dt"] * target / s
        oc["t_tot"] = c["dt"] * min(nsteps, 1500 if tier == "quick" else 3000)
    return c


def cases(rng, tier):
    for j in range(4 if tier == "quick" else 40):   # controlled nucleation after spontaneous nucleation
        c = c01._late_cn(rng, tier)
        if j == 0:
            c["seed_v"] = 0
        yield c
    for j in range(4 if tier == "quick" else 40):   # configured (incl. very dilute) solutions, frozen completely
        c = c01._dilute(rng, tier, j if j < 4 else None)
        while _pre_stable(c) > 0.98:
            c["dt"] = c["dt"] / 2
        yield c
    yield c01._long_hold(rng, tier)                  # long hold after complete solidification, then a ramp
    for _ in range(3 if tier == "quick" else 30):   # nucleation in the final step of the run
        yield c01._last_step(rng, tier)
    for _ in range(4 if tier == "quick" else 40):   # recorded subsets given as unsorted int lists
        yield c01._subset(rng, tier)
    n, nh, nt = (42, 8, 6) if tier == "quick" else (1300, 120, 50)
    for _ in range(n):
        yield _case(rng, tier)
    for j in range(nh):   # object histories (second run of a re-configured object)
        yield c01._history(rng, tier, force="rate_fine" if j < 3 else "shape" if j < 5 else None,
                           how=("mutate" if j % 2 == 0 else "assign") if j < 3 else None)
    for _ in range(nt):   # nucleation at a tiny supercooling
        yield c01._tiny(rng, tier)


def widen(rng, tier):
    for _ in range(64 if tier == "quick" else 500):
        yield _case(rng, tier)
